(* C16 - The output is a well-formed, self-consistent PDF under every option: property theorems only.
   Model: coq/model/C16Stream.v (weasyprint/pdf/stream.py as a state machine over API calls, tied to the source by the
   direct-call and recorded-trace correspondences of harness/p_c16.py) and coq/model/C16Res.v (resource
   dictionaries of all the streams of a document and the key-preserving part of _use_references). *)
From Coq Require Import ZArith List Bool.
Require Import WV.model.C16Stream WV.model.C16Res WV.model.C16Closure.
Require Import WV.proofs.C16_balance WV.proofs.C16_skip WV.proofs.C16_names WV.proofs.C16_res WV.proofs.C16_closure WV.proofs.C16_rollback.
Import ListNotations.
Open Scope Z_scope.

(* Every well-bracketed sequence of calls (nested `with stacked`, paired begin_text/end_text and
   begin/end_marked_content) on a fresh Stream runs without raising and leaves a token list that is properly
   nested over q/Q, BT/ET and BMC|BDC/EMC, hence Dyck in each of them with all prefix depths >= 0, and the ctm
   stack is back to one entry; the two peephole rules (empty `q Q` dropped, `ET BT` merged) are part of `run`. *)
Theorem C16_balanced_calls_give_balanced_tokens (mark : bool) (d : egsd) (ops : list op) :
  wb ops = true ->
  exists s', run ops (fresh mark d) = Some s' /\
    nested (rev (toks s')) = true /\ dyck_q (rev (toks s')) = true /\ dyck_text (rev (toks s')) = true /\
    dyck_mc (rev (toks s')) = true /\ length (ctms s') = 1%nat.
Proof. exact (balanced_calls_give_balanced_tokens mark d ops). Qed.
Print Assumptions C16_balanced_calls_give_balanced_tokens.

(* ... and at every intermediate point: no call raises (the assert in pop_state included), the ctm stack has one
   entry per open q plus one, the tokens emitted so far never close more than was opened *)
Theorem C16_ctm_stack_never_empty (mark : bool) (d : egsd) (ops ops1 ops2 : list op) :
  wb ops = true -> ops = ops1 ++ ops2 ->
  exists s1 b, run ops1 (fresh mark d) = Some s1 /\ wscan [] ops1 = Some b /\
    length (ctms s1) = S (countb Bq b) /\ tscan [] (rev (toks s1)) = Some (vis mark b).
Proof. exact (ctm_stack_never_empty mark d ops ops1 ops2). Qed.
Print Assumptions C16_ctm_stack_never_empty.

(* Skipping is sound: for ALL well-bracketed call sequences in which the text matrix is set before anything is
   shown in a text object, a reference interpreter of the graphics state renders the emitted tokens exactly as it
   renders the un-optimised sequence (every set_color/set_alpha/set_font_size emits, every push/pop emits q/Q, every
   begin/end_text emits BT/ET): same observations (operator, fill and stroke colour, alpha constants, font, CTM, text
   matrix) at every painting operator, same final state and saved states; so every skipped operator was redundant. *)
Theorem C16_skip_is_sound (mark : bool) (d : egsd) (ops : list op) (s' : st) :
  wb ops = true -> tm_disciplined false ops = true ->
  run ops (fresh mark d) = Some s' ->
  let X := interp (rev (toks s')) in
  let Y := interp (rev (ntoks (nrun ops (nfresh mark d)))) in
  i_err X = false /\ i_err Y = false /\ i_obs X = i_obs Y /\ i_g X = i_g Y /\ i_stack X = i_stack Y /\
  i_text X = false /\ i_text Y = false.
Proof. exact (skip_is_sound mark d ops s'). Qed.
Print Assumptions C16_skip_is_sound.

(* ExtGState names, for ALL call sequences without rollback (well bracketed or not): each `/name gs` in the stream
   is a key of the stream's resource dictionary, bound to what was stored when it was emitted (s{len(dict)} is always
   fresh, nothing is re-bound).  With failed drawings: C16_gs_names_defined_with_failed_drawings below. *)
Theorem C16_gs_names_defined (mark : bool) (d : egsd) (ops : list op) (s' : st) :
  forallb no_rb ops = true -> egs_wf d = true -> run ops (fresh mark d) = Some s' ->
  forall k v, In (Tgs k v) (toks s') -> lookup k (egs s') = Some v.
Proof. exact (gs_names_defined mark d ops s'). Qed.
Print Assumptions C16_gs_names_defined.

Theorem C16_gs_names_stable (mark : bool) (d : egsd) (ops1 ops2 : list op) (s1 s2 : st) (k : key) (v : gsval) :
  forallb no_rb ops1 = true -> forallb no_rb ops2 = true -> egs_wf d = true -> run ops1 (fresh mark d) = Some s1 -> run ops2 s1 = Some s2 ->
  lookup k (egs s1) = Some v -> lookup k (egs s2) = Some v.
Proof. exact (gs_names_stable mark d ops1 ops2 s1 s2 k v). Qed.
Print Assumptions C16_gs_names_stable.

(* Resource naming over all the streams of a document (set_alpha / set_state / set_alpha_state / add_group /
   add_pattern / add_shading / add_image / clone on any stream, names used on the stream that defined them): every
   name emitted into a stream (gs, Do, sh, scn) is a key of the resource dictionary of that stream ... *)
Theorem C16_every_named_resource_defined (d : doc) (calls : list call) (d' : doc) :
  doc_wf d = true -> scoped d calls = true -> rrun calls d = Some d' ->
  forall sid n, In n (emitted d' sid) -> defined d' sid n = true.
Proof. exact (every_named_resource_defined d calls d'). Qed.
Print Assumptions C16_every_named_resource_defined.

(* ... and still is after _use_references, which finds every image name in the `images` table (no KeyError),
   replaces the values by references and leaves the keys alone *)
Theorem C16_use_references_keeps_names (d : doc) (calls : list call) (d' : doc) :
  doc_wf d = true -> scoped d calls = true -> rrun calls d = Some d' ->
  exists fin, finalise d' = Some fin /\
    (forall sid, emitted fin sid = emitted d' sid) /\
    (forall sid n, In n (emitted d' sid) -> defined fin sid n = true).
Proof. exact (use_references_keeps_names d calls d'). Qed.
Print Assumptions C16_use_references_keeps_names.

(* Resource closure over the whole document, fonts included: a serializer that registers each local resource in the
   dictionary of the stream that uses it, registers fonts document-wide (Stream.add_font) and gives every resource
   dictionary the complete /Font dictionary (build_fonts_dictionary) produces closed content streams, for ALL
   sequences of uses.  `closed` is the predicate evaluated by closure_judge on the parsed real PDFs. *)
Theorem C16_registered_resources_give_closure (ops : list sop) :
  closed (sfinalise (srun ops sdoc0)) = true.
Proof. exact (registered_resources_give_closure ops). Qed.
Print Assumptions C16_registered_resources_give_closure.

(* ... and the /Font dictionary has to keep every font a stream selects: leaving one out breaks closure *)
Theorem C16_dropped_font_breaks_closure (keep : Z -> bool) (d : sdoc) (n : node) (h : Z) :
  In n (s_nodes d) -> In (FONT, h) (n_uses n) -> ~ In (FONT, h) (n_defs n) -> keep h = false ->
  closed (finalise_fonts keep d) = false.
Proof. exact (dropped_font_breaks_closure keep d n h). Qed.
Print Assumptions C16_dropped_font_breaks_closure.

(* Stream.checkpoint / Stream.rollback (fix of finding F66).  A drawing that starts with push_state and is interrupted
   anywhere before (or at) the matching pop_state, at a point of a well-bracketed sequence outside text objects, is
   erased exactly by rollback(checkpoint): the items, the ctm stack and the ExtGState dictionary are what they were at
   the checkpoint, every cache and _old_font are forgotten (only len(marked) is not restored). *)
Theorem C16_failed_drawing_is_erased (b : list bk) (s : st) (body : list op) :
  BInv b s -> in_text b = false -> scope_ok body = true -> egs_wf (egs s) = true ->
  exists s2, run body s = Some s2 /\
    (let '(t, c, g) := cp_of s in m_rollback t c g s2) = rolled s (nmark s2).
Proof. intros H T S W. exact (failed_drawing_is_erased b s body H T S (proj1 (egs_wf_WF (egs s)) W)). Qed.
Print Assumptions C16_failed_drawing_is_erased.

(* Programs = well-bracketed calls interleaved with any number of failed drawings (SVGImage.draw): same guarantees as
   C16_balanced_calls_give_balanced_tokens ... *)
Theorem C16_balanced_with_failed_drawings (mark : bool) (d : egsd) (p : list seg) :
  egs_wf d = true -> wbp p = true ->
  exists s', run_prog p (fresh mark d) = Some s' /\
    nested (rev (toks s')) = true /\ dyck_q (rev (toks s')) = true /\ dyck_text (rev (toks s')) = true /\
    dyck_mc (rev (toks s')) = true /\ length (ctms s') = 1%nat.
Proof. exact (balanced_with_failed_drawings mark d p). Qed.
Print Assumptions C16_balanced_with_failed_drawings.

(* ... as C16_skip_is_sound: what is emitted renders like the un-optimised sequence of the calls that are kept: the
   failed drawings leave no trace in the rendering *)
Theorem C16_skip_is_sound_with_failed_drawings (mark : bool) (d : egsd) (p : list seg) (s' : st) :
  egs_wf d = true -> wbp p = true -> tm_disciplined false (kept p) = true ->
  run_prog p (fresh mark d) = Some s' ->
  let X := interp (rev (toks s')) in
  let Y := interp (rev (ntoks (nrun (kept p) (nfresh mark d)))) in
  i_err X = false /\ i_err Y = false /\ i_obs X = i_obs Y /\ i_g X = i_g Y /\ i_stack X = i_stack Y /\
  i_text X = false /\ i_text Y = false.
Proof. exact (skip_is_sound_with_failed_drawings mark d p s'). Qed.
Print Assumptions C16_skip_is_sound_with_failed_drawings.

(* ... and as C16_gs_names_defined *)
Theorem C16_gs_names_defined_with_failed_drawings (mark : bool) (d : egsd) (p : list seg) (s' : st) :
  egs_wf d = true -> wbp p = true -> run_prog p (fresh mark d) = Some s' ->
  forall k v, In (Tgs k v) (toks s') -> lookup k (egs s') = Some v.
Proof. exact (gs_names_defined_with_failed_drawings mark d p s'). Qed.
Print Assumptions C16_gs_names_defined_with_failed_drawings.

(* ------------------------------------------------------------------------------------------------ source *)
(* The methods of weasyprint/pdf/stream.py as regenerated from the source on every run (gen/GenStream.v) and run by
   the interpreter base/Py.v on the object encoding of model/C16Py.v (`super().m()` = the pydyf emitters, oracle
   pydyf_call; `self.ctm` = the regenerated getter).  Stated with qualified names: proofs/C16_gen_stream.v. *)
Require WV.base.Py WV.model.C16Py WV.proofs.C16_gen_stream.

(* push_state / pop_state / begin_text / end_text / set_font_size / end_marked_content / transform, executed from their
   regenerated bodies on the encoding of ANY model state, return the encoding of the model's successor state, and raise
   exactly when the model has none (IndexError: empty ctm stack; AssertionError: pop_state would empty it).  In
   transform, Matrix(a, b, c, d, e, f) @ self.ctm runs the regenerated constructor and __matmul__ of
   weasyprint/matrix.py (gen/GenMatrix.v) and the product is stored into the last entry of the ctm stack *)
Theorem C16_source_methods_compute_model (tagf : WV.base.Py.val -> String.string) (mk : list WV.base.Py.val)
    (others : list (String.string * WV.base.Py.val)) (o : op) (s : st) :
  WV.proofs.C16_gen_stream.tied o = true ->
  WV.proofs.C16_gen_stream.src_call tagf o (WV.model.C16Py.enc mk others s) =
  match mstep o s with
  | Some s' => inl (WV.model.C16Py.enc mk others s', WV.base.Py.VNone)
  | None => inr (WV.proofs.C16_gen_stream.err_of o s)
  end.
Proof. exact (WV.proofs.C16_gen_stream.gen_tied_step tagf mk others o s). Qed.
Print Assumptions C16_source_methods_compute_model.

(* begin_marked_content(box, mcid, tag) from its regenerated body, for every box whose element_tag is a str and every
   tag (a str or None), on the encoding of any state whose nmark is the length of self.marked: never raises, the
   object after the call is the encoding of m_begin_mc (nothing when _mark is off; /tag BMC; or /tag <</MCID n>> BDC
   with n = len(self.marked)), the pair (tag, box) is appended to self.marked exactly when an MCID was given out, and
   nmark is again the length of self.marked *)
Theorem C16_source_begin_marked_content_computes_model (tagf : WV.base.Py.val -> String.string)
    (mk : list WV.base.Py.val) (others : list (String.string * WV.base.Py.val))
    (x : WV.proofs.C16_gen_stream.mc_args) (mcid : bool) (s : st) :
  WV.model.C16Py.marked_ok mk s ->
  WV.proofs.C16_gen_stream.src_begin_mc tagf x mcid (WV.model.C16Py.enc mk others s) =
    inl (WV.model.C16Py.enc (WV.proofs.C16_gen_stream.mc_marked tagf x mcid s mk) others (m_begin_mc mcid s),
         WV.base.Py.VNone) /\
  WV.model.C16Py.marked_ok (WV.proofs.C16_gen_stream.mc_marked tagf x mcid s mk) (m_begin_mc mcid s).
Proof. exact (WV.proofs.C16_gen_stream.gen_begin_mc tagf mk others x mcid s). Qed.
Print Assumptions C16_source_begin_marked_content_computes_model.

(* sequences: these eight methods run from their regenerated bodies (a call carries the box / tag arguments that
   begin_marked_content reads), every other call by any function on objects that agrees with the model (impl_ok); the
   run follows the model's run, call by call, errors included *)
Theorem C16_source_run_follows_model (tagf : WV.base.Py.val -> String.string)
    (others : list (String.string * WV.base.Py.val)) (impl : op -> WV.base.Py.val -> option WV.base.Py.val)
    (cs : list WV.proofs.C16_gen_stream.call) (mk : list WV.base.Py.val) (s : st) :
  WV.proofs.C16_gen_stream.impl_ok others impl -> WV.model.C16Py.marked_ok mk s ->
  match run (map fst cs) s with
  | Some s' => exists mk', WV.proofs.C16_gen_stream.grun tagf impl cs (WV.model.C16Py.enc mk others s) =
                           Some (WV.model.C16Py.enc mk' others s') /\ WV.model.C16Py.marked_ok mk' s'
  | None => WV.proofs.C16_gen_stream.grun tagf impl cs (WV.model.C16Py.enc mk others s) = None
  end.
Proof. intros H. exact (WV.proofs.C16_gen_stream.grun_model tagf others impl H cs mk s). Qed.
Print Assumptions C16_source_run_follows_model.

(* C16_balanced_calls_give_balanced_tokens about the regenerated methods: every well-bracketed sequence of calls on a
   fresh Stream object runs without raising and leaves in self.stream (= map etok (rev (toks s'))) a token list that
   is properly nested over q/Q, BT/ET, BMC|BDC/EMC; the ctm stack is back to one entry.  All the bracket operators
   (q Q BT ET BMC BDC EMC) and cm are now emitted by regenerated bodies *)
Theorem C16_source_balanced_calls_give_balanced_tokens (tagf : WV.base.Py.val -> String.string)
    (others : list (String.string * WV.base.Py.val)) (impl : op -> WV.base.Py.val -> option WV.base.Py.val)
    (mark : bool) (d : egsd) (cs : list WV.proofs.C16_gen_stream.call) :
  WV.proofs.C16_gen_stream.impl_ok others impl -> wb (map fst cs) = true ->
  exists s' mk', WV.proofs.C16_gen_stream.grun tagf impl cs (WV.model.C16Py.enc [] others (fresh mark d)) =
                 Some (WV.model.C16Py.enc mk' others s') /\
    nested (rev (toks s')) = true /\ dyck_q (rev (toks s')) = true /\ dyck_text (rev (toks s')) = true /\
    dyck_mc (rev (toks s')) = true /\ length (ctms s') = 1%nat.
Proof. intros H. exact (WV.proofs.C16_gen_stream.source_balanced tagf others impl H mark d cs). Qed.
Print Assumptions C16_source_balanced_calls_give_balanced_tokens.

(* Stream.set_color_special (def set_color_special(self, name, stroke=False, *operands)) from its regenerated body, the
   vararg being the last parameter (the tuple of the extra arguments); pydyf's set_color_special through super() is
   the oracle special_spec (one item appended).  Stated with qualified names: proofs/C16_gen_special.v.
   For every object, every name (None, '' or a non-empty str), both sides and every tuple of operands: the cached
   colour of the side whose colour the pattern replaces is dropped exactly when the name is true, one item is
   appended, nothing else changes, nothing is raised *)
Require WV.proofs.C16_gen_special.
Theorem C16_source_set_color_special (tagf : WV.base.Py.val -> String.string) (pid : String.string -> Z)
    (mk : list WV.base.Py.val) (others : list (String.string * WV.base.Py.val))
    (ca cas cf ofo res mark : WV.base.Py.val) (st ct : list WV.base.Py.val) (cc ccs name : WV.base.Py.val)
    (stroke : bool) (operands : list WV.base.Py.val) :
  WV.proofs.C16_gen_special.name_ok name = true ->
  WV.proofs.C16_gen_stream.meth_out (WV.proofs.C16_gen_special.SO3 tagf pid) WV.gen.GenStream.stream_set_color_special_body
    (WV.proofs.C16_gen_special.special_args (WV.model.C16Py.obj st ct cc ccs ca cas cf ofo res mk mark others) name stroke operands) =
  inl (WV.model.C16Py.obj
         (WV.proofs.C16_gen_stream.snoc st (WV.proofs.C16_gen_special.special_item pid name (WV.base.Py.VBool stroke) operands)) ct
         (if WV.proofs.C16_gen_special.truthy name && negb stroke then WV.base.Py.VNone else cc)
         (if WV.proofs.C16_gen_special.truthy name && stroke then WV.base.Py.VNone else ccs)
         ca cas cf ofo res mk mark others, WV.base.Py.VNone).
Proof. exact (WV.proofs.C16_gen_special.set_color_special_raw tagf pid mk others ca cas cf ofo res mark st ct cc ccs name stroke operands). Qed.
Print Assumptions C16_source_set_color_special.

(* set_color_space('Pattern', stroke) (pydyf, inherited unchanged) then the regenerated set_color_special(name, stroke)
   on the encoding of ANY model state is the model step PatternColor: the tokens Tcs, Tpat, the cached colour of that
   side dropped (finding F12) *)
Theorem C16_source_pattern_color_computes_model (tagf : WV.base.Py.val -> String.string) (pid : String.string -> Z)
    (mk : list WV.base.Py.val) (others : list (String.string * WV.base.Py.val)) (name : String.string) (stroke : bool)
    (s : st) : name <> String.EmptyString ->
  WV.proofs.C16_gen_special.src_pattern tagf pid name stroke (WV.model.C16Py.enc mk others s) =
  inl (WV.model.C16Py.enc mk others (m_pattern_color stroke (pid name) s), WV.base.Py.VNone).
Proof. exact (WV.proofs.C16_gen_special.gen_pattern_color tagf pid mk others name stroke s). Qed.
Print Assumptions C16_source_pattern_color_computes_model.

(* C16_source_run_follows_model with PatternColor run from the source as well: [impl] is asked only about the
   operations that are neither tied, nor BeginMC, nor PatternColor (impl_ok_rest) *)
Theorem C16_source_run_follows_model_pattern (tagf : WV.base.Py.val -> String.string) (pid : String.string -> Z)
    (pname : Z -> String.string) (others : list (String.string * WV.base.Py.val))
    (impl : op -> WV.base.Py.val -> option WV.base.Py.val)
    (cs : list WV.proofs.C16_gen_stream.call) (mk : list WV.base.Py.val) (s : st) :
  (forall p, pid (pname p) = p) -> (forall p, pname p <> String.EmptyString) ->
  WV.proofs.C16_gen_special.impl_ok_rest others impl -> WV.model.C16Py.marked_ok mk s ->
  match run (map fst cs) s with
  | Some s' => exists mk', WV.proofs.C16_gen_stream.grun tagf (WV.proofs.C16_gen_special.impl_special tagf pid pname impl) cs
                             (WV.model.C16Py.enc mk others s) = Some (WV.model.C16Py.enc mk' others s') /\
                           WV.model.C16Py.marked_ok mk' s'
  | None => WV.proofs.C16_gen_stream.grun tagf (WV.proofs.C16_gen_special.impl_special tagf pid pname impl) cs
              (WV.model.C16Py.enc mk others s) = None
  end.
Proof. intros H1 H2 H. exact (WV.proofs.C16_gen_special.grun_special_model tagf pid pname H1 H2 others impl cs mk s H). Qed.
Print Assumptions C16_source_run_follows_model_pattern.
