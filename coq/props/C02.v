(* C02 - Rendering is total: the totality / fuel-sufficiency / no-exception theorems of the modelled kernels,
   collected.  Each theorem is stated and proved in the property file of its kernel; it is restated here by its
   type (printed by [Check] in the build log) so that C02 fails as soon as one of them stops holding. *)
From Coq Require Import ZArith QArith List String.
Require Import WV.base.Py WV.gen.GenBlock WV.proofs.PyTac.
Require WV.props.C01 WV.props.C03 WV.props.C04 WV.props.C05 WV.props.C10 WV.props.C11 WV.props.C12 WV.props.C13
        WV.props.C14 WV.props.C16 WV.props.C18 WV.props.C06 WV.props.C07 WV.props.C08 WV.props.C15.

Ltac restate t := let T := type of t in exact T.

(* translated kernels: the runs end in the observer, never in the error continuation [fun _ => False] *)
Check C05.C05_width_equation_ltr_rtl.
Theorem C02_block_level_width_total : ltac:(restate C05.C05_width_equation_ltr_rtl).
Proof. exact C05.C05_width_equation_ltr_rtl. Qed.
Print Assumptions C02_block_level_width_total.
Check C05.C05_collapse_margin_spec.
Theorem C02_collapse_margin_total : ltac:(restate C05.C05_collapse_margin_spec).
Proof. exact C05.C05_collapse_margin_spec. Qed.
Print Assumptions C02_collapse_margin_total.
Check C04.C04_break_fold_of_source.
Theorem C02_break_fold_total : ltac:(restate C04.C04_break_fold_of_source).
Proof. exact C04.C04_break_fold_of_source. Qed.
Print Assumptions C02_break_fold_total.

(* the page loop yields every word for any fuel: no content is silently dropped when fuel runs out *)
Check C01.C01_pages_conserve.
Theorem C02_page_loop_accounts_for_everything : ltac:(restate C01.C01_pages_conserve).
Proof. exact C01.C01_pages_conserve. Qed.
Print Assumptions C02_page_loop_accounts_for_everything.
Check C03.C03_blank_only_when_required.
Theorem C02_no_two_blank_pages : ltac:(restate C03.C03_blank_only_when_required).
Proof. exact C03.C03_blank_only_when_required. Qed.
Print Assumptions C02_no_two_blank_pages.

(* hand-modelled kernels *)
Check C10.C10_distribute_never_raises.
Theorem C02_distribute_never_raises : ltac:(restate C10.C10_distribute_never_raises).
Proof. exact C10.C10_distribute_never_raises. Qed.
Print Assumptions C02_distribute_never_raises.
Check C10.C10_fixed_never_raises.
Theorem C02_fixed_table_never_raises : ltac:(restate C10.C10_fixed_never_raises).
Proof. exact C10.C10_fixed_never_raises. Qed.
Print Assumptions C02_fixed_table_never_raises.
Check C10.C10_auto_never_raises.
Theorem C02_auto_table_never_raises : ltac:(restate C10.C10_auto_never_raises).
Proof. exact C10.C10_auto_never_raises. Qed.
Print Assumptions C02_auto_table_never_raises.
Check C11.C11_avoid_collisions_terminates.
Theorem C02_avoid_collisions_terminates : ltac:(restate C11.C11_avoid_collisions_terminates).
Proof. exact C11.C11_avoid_collisions_terminates. Qed.
Print Assumptions C02_avoid_collisions_terminates.
Check C12.C12_flex_resolve_fuel.
Theorem C02_flex_resolve_terminates : ltac:(restate C12.C12_flex_resolve_fuel).
Proof. exact C12.C12_flex_resolve_fuel. Qed.
Print Assumptions C02_flex_resolve_terminates.
Check C12.C12_grid_place_fuel.
Theorem C02_grid_place_terminates : ltac:(restate C12.C12_grid_place_fuel).
Proof. exact C12.C12_grid_place_fuel. Qed.
Print Assumptions C02_grid_place_terminates.
Check C12.C12_tracks_fuel.
Theorem C02_grid_tracks_terminate : ltac:(restate C12.C12_tracks_fuel).
Proof. exact C12.C12_tracks_fuel. Qed.
Print Assumptions C02_grid_tracks_terminate.
Check C13.C13_bg_layout_total.
Theorem C02_background_layer_total : ltac:(restate C13.C13_bg_layout_total).
Proof. exact C13.C13_bg_layout_total. Qed.
Print Assumptions C02_background_layer_total.
Check C13.C13_minmax_table_10_4_total.
Theorem C02_replaced_minmax_total : ltac:(restate C13.C13_minmax_table_10_4_total).
Proof. exact C13.C13_minmax_table_10_4_total. Qed.
Print Assumptions C02_replaced_minmax_total.
Check C14.C14_no_division_by_zero.
Theorem C02_margin_boxes_no_division_by_zero : ltac:(restate C14.C14_no_division_by_zero).
Proof. exact C14.C14_no_division_by_zero. Qed.
Print Assumptions C02_margin_boxes_no_division_by_zero.
Check C16.C16_ctm_stack_never_empty.
Theorem C02_stream_pop_total : ltac:(restate C16.C16_ctm_stack_never_empty).
Proof. exact C16.C16_ctm_stack_never_empty. Qed.
Print Assumptions C02_stream_pop_total.
Check C18.C18_bookmark_tree_total.
Theorem C02_bookmark_tree_total : ltac:(restate C18.C18_bookmark_tree_total).
Proof. exact C18.C18_bookmark_tree_total. Qed.
Print Assumptions C02_bookmark_tree_total.

(* kernels added later: counter styles, var() resolution, table slot loop and table fix-ups, the cascade's
   precedence function and the replaced / absolute sizing functions regenerated from the source *)
Check C15.C15_render_total.
Theorem C02_counter_render_total : ltac:(restate C15.C15_render_total).
Proof. exact C15.C15_render_total. Qed.
Print Assumptions C02_counter_render_total.
Check C15.C15_render_fuel_sufficient.
Theorem C02_counter_render_fuel_sufficient : ltac:(restate C15.C15_render_fuel_sufficient).
Proof. exact C15.C15_render_fuel_sufficient. Qed.
Print Assumptions C02_counter_render_fuel_sufficient.
Check C07.C07_var_fuel_sufficient.
Theorem C02_var_resolution_fuel_sufficient : ltac:(restate C07.C07_var_fuel_sufficient).
Proof. exact C07.C07_var_fuel_sufficient. Qed.
Print Assumptions C02_var_resolution_fuel_sufficient.
Check C08.C08_table_slots_total.
Theorem C02_table_slot_loop_terminates : ltac:(restate C08.C08_table_slots_total).
Proof. exact C08.C08_table_slots_total. Qed.
Print Assumptions C02_table_slot_loop_terminates.
Check C08.C08_table_structure.
Theorem C02_anonymous_table_boxes_terminates : ltac:(restate C08.C08_table_structure).
Proof. exact C08.C08_table_structure. Qed.
Print Assumptions C02_anonymous_table_boxes_terminates.
Check C06.C06_source_declaration_precedence_origin.
Theorem C02_declaration_precedence_never_asserts : ltac:(restate C06.C06_source_declaration_precedence_origin).
Proof. exact C06.C06_source_declaration_precedence_origin. Qed.
Print Assumptions C02_declaration_precedence_never_asserts.
Check C11.C11_source_absolute_width.
Theorem C02_absolute_width_total : ltac:(restate C11.C11_source_absolute_width).
Proof. exact C11.C11_source_absolute_width. Qed.
Print Assumptions C02_absolute_width_total.
Check C11.C11_source_absolute_height.
Theorem C02_absolute_height_total : ltac:(restate C11.C11_source_absolute_height).
Proof. exact C11.C11_source_absolute_height. Qed.
Print Assumptions C02_absolute_height_total.

(* the page loop never emits an unbounded number of pages for finite content: it finishes (PDone) within
   page_bound root = 2 * (boxes + lines) pages, whatever the page height; the root is never aborted *)
Check C03.C03_pagination_terminates.
Theorem C02_pagination_bounded_pages : ltac:(restate C03.C03_pagination_terminates).
Proof. exact C03.C03_pagination_terminates. Qed.
Print Assumptions C02_pagination_bounded_pages.
Check C03.C03_page_makes_progress.
Theorem C02_page_layout_never_aborts_on_empty_page : ltac:(restate C03.C03_page_makes_progress).
Proof. exact C03.C03_page_makes_progress. Qed.
Print Assumptions C02_page_layout_never_aborts_on_empty_page.
Check C03.C03_never_stuck.
Theorem C02_page_loop_never_stuck : ltac:(restate C03.C03_never_stuck).
Proof. exact C03.C03_never_stuck. Qed.
Print Assumptions C02_page_loop_never_stuck.

(* the `while True:` loop of avoid_collisions regenerated from float.py: with loop fuel above the number of placed
   floats the run ends normally (by `break`), never by "FuelExhausted" nor by an exception *)
Check C11.C11_source_avoid_loop_terminates.
Theorem C02_float_collision_loop_of_source_terminates : ltac:(restate C11.C11_source_avoid_loop_terminates).
Proof. exact C11.C11_source_avoid_loop_terminates. Qed.
Print Assumptions C02_float_collision_loop_of_source_terminates.
