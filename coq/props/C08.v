(* C08 - Box generation: right boxes, anonymous fix-ups, text preserved: property theorems only
   (models: model/C08*.v, proofs: proofs/C08_*.v). *)
From Coq Require Import ZArith List Bool Ascii.
Require Import WV.model.C08Whitespace WV.model.C08Table WV.model.C08Display WV.model.C08Tree WV.model.C08Fixups.
Require Import WV.proofs.C08_whitespace WV.proofs.C08_table WV.proofs.C08_display WV.proofs.C08_fixups.
Import ListNotations.

(* ---- 1. white space: build.process_whitespace, all strings, all six white-space values ----
   pw_text w f s = (text, returned flag, leading_collapsible_space set) for one TextBox given the incoming flag f;
   pw_kids f kids = the loop over the children of a box (in normal flow or not: the loop does not look). *)

(* the result is what CSS Text 3 4.1.1 prescribes for the value: normal/nowrap: words joined by single spaces, one
   space kept at either end, the leading one dropped after a collapsible space; pre-line: line feeds kept, no space or
   tab next to them or doubled, everything else in order; pre, pre-wrap, break-spaces: only CRLF/CR -> LF *)
Theorem C08_ws_css_text_3 (w : wsv) (f : bool) (s : list ascii) :
  spec_text w f s (fst (fst (pw_text w f s))) = true.
Proof. exact (pw_text_spec w f s). Qed.
Print Assumptions C08_ws_css_text_3.

(* element_to_box runs process_whitespace once per ancestor: running it again changes nothing ... *)
Theorem C08_ws_idempotent (f : bool) (kids : list node) :
  pw_kids f (fst (pw_kids f kids)) = pw_kids f kids.
Proof. exact (ws_idempotent f kids). Qed.
Print Assumptions C08_ws_idempotent.

(* ... and the pass of an ancestor (flag f) absorbs the element's own first pass (flag unset) *)
Theorem C08_ws_repass_absorbed (f : bool) (kids : list node) :
  pw_kids f (fst (pw_kids false kids)) = pw_kids f kids.
Proof. exact (ws_repass_absorbed f kids). Qed.
Print Assumptions C08_ws_repass_absorbed.

(* in any box -- in normal flow, floated or absolutely positioned -- whose text all collapses and whose inline boxes
   are in flow: over the whole inline formatting context (flats: the characters in order, None for an atomic box) no
   collapsible space follows another one, nor the incoming one; and no tab survives *)
Theorem C08_ws_no_double_space_when_collapsing (f : bool) (kids : list node) :
  all_texts sp_collapse kids = true -> inl_flows kids = true ->
  no_double f (flats (fst (pw_kids f kids))) = true /\
  Forall (fun o => match o with Some c => is_ts c = true -> c = SP | None => True end) (flats (fst (pw_kids f kids))).
Proof. exact (ws_no_double_space_when_collapsing f kids). Qed.
Print Assumptions C08_ws_no_double_space_when_collapsing.

(* the witness that refuted it before the repair of F151 (the children of a float): "a " + <b>" b"</b> is "a b" *)
Theorem C08_ws_out_of_flow_container_collapses :
  flats (fst (pw_kids false [T WNormal false (codes [97; 32]); I true false [T WNormal false (codes [32; 98])]])) =
  map Some (codes [97; 32; 98]).
Proof. exact ws_former_refutation_witness. Qed.
Print Assumptions C08_ws_out_of_flow_container_collapses.

(* every character other than space, tab, LF, CR is kept, in order, in every box, whatever the values and flags *)
Theorem C08_ws_preserves_non_space_chars_in_order (f : bool) (kids : list node) :
  nw (flats (fst (pw_kids f kids))) = nw (flats kids).
Proof. exact (ws_preserves_non_space_chars_in_order f kids). Qed.
Print Assumptions C08_ws_preserves_non_space_chars_in_order.

(* pre / pre-wrap / break-spaces: the text is kept up to the normalisation of line ends, which only touches CR *)
Theorem C08_ws_pre_is_identity_modulo_newline_normalisation (w : wsv) (f : bool) (s : list ascii) :
  sp_collapse w = false -> s <> [] ->
  pw_text w f s = (norm_lf false s, false, false) /\
  noCR (norm_lf false s) /\ nonwhite (norm_lf false s) = nonwhite s /\ (noCR s -> norm_lf false s = s).
Proof. exact (ws_pre_is_identity w f s). Qed.
Print Assumptions C08_ws_pre_is_identity_modulo_newline_normalisation.

(* text-transform (ASCII): uppercase / lowercase / capitalize change nothing but the case of letters *)
Theorem C08_text_transform_case_only (t : ttv) (s : list ascii) :
  t <> TFullWidth ->
  map low (tt_text t s) = map low s /\ length (tt_text t s) = length s /\ tt_text t (tt_text t s) = tt_text t s.
Proof. exact (tt_case_only t s). Qed.
Print Assumptions C08_text_transform_case_only.

(* ---- 2. table slots: the grid loop of build.wrap_table, one row group (do_group gw rows = cells out, grid width)
   a cell comes in as (colspan, rowspan) and goes out as (grid_x, colspan, rowspan) ---- *)
Theorem C08_table_slots_total (gw : Z) (rows : list (list cellin)) :
  Forall (Forall (fun i : cellin => 1 <= fst i /\ 0 <= snd i)%Z) rows -> exists outs w, do_group gw rows = Some (outs, w).
Proof. exact (group_total gw rows). Qed.
Print Assumptions C08_table_slots_total.

(* each cell starts on the first slot, at or after the end of the previous cell of its row, that no cell of an
   earlier row of the group owns *)
Theorem C08_cell_starts_on_free_slot gw rows outs w :
  do_group gw rows = Some (outs, w) ->
  forall y k c, cell_at outs y k = Some c -> is_first_free (from_above outs y) (prev_end outs y k) (gx c).
Proof. exact (cell_starts_on_free_slot gw rows outs w). Qed.
Print Assumptions C08_cell_starts_on_free_slot.

(* colspan is kept; rowspan is clipped to the rows left in the group (spans_ok), so no cell leaves its group *)
Theorem C08_rowspan_clipped_to_group gw rows outs w :
  do_group gw rows = Some (outs, w) ->
  spans_ok rows outs /\
  forall y k c, cell_at outs y k = Some c -> (1 <= rs c /\ Z.of_nat y + rs c <= Z.of_nat (length rows))%Z.
Proof. exact (rowspan_clipped_to_group gw rows outs w). Qed.
Print Assumptions C08_rowspan_clipped_to_group.

Theorem C08_rowspan0_to_group_end gw rows outs w :
  do_group gw rows = Some (outs, w) ->
  forall y row orow, nth_error rows y = Some row -> nth_error outs y = Some orow ->
  Forall2 (fun (i : cellin) (o : cellout) =>
             cs o = fst i /\
             (snd i = 0 -> rs o = Z.of_nat (length rows) - Z.of_nat y) /\
             (1 <= snd i -> rs o = Z.min (snd i) (Z.of_nat (length rows) - Z.of_nat y)))%Z row orow.
Proof. exact (rowspan0_to_group_end gw rows outs w). Qed.
Print Assumptions C08_rowspan0_to_group_end.

(* the grid width handed to collapse_table_borders covers the columns and every cell of every group *)
Theorem C08_grid_width_covers_all gw groups outs w :
  do_table gw groups = Some (outs, w) ->
  (gw <= w)%Z /\ Forall (fun g => forall y k c, cell_at g y k = Some c -> (gx c + cs c <= w)%Z) outs.
Proof. exact (grid_width_covers_all gw groups outs w). Qed.
Print Assumptions C08_grid_width_covers_all.

(* no two cells own a common slot, provided no cell reaches with its columns a slot still owned from above *)
Theorem C08_cells_do_not_overlap_partial gw rows outs w :
  do_group gw rows = Some (outs, w) -> clear_below outs -> no_overlap outs.
Proof. exact (cells_do_not_overlap_partial gw rows outs w). Qed.
Print Assumptions C08_cells_do_not_overlap_partial.

(* without the side condition: [[1x1, 1x2]; [2x1]]  [listed finding colspan-overlaps-rowspan-slot] *)
Theorem C08_cells_do_not_overlap_refuted :
  exists gw rows outs w, do_group gw rows = Some (outs, w) /\ ~ no_overlap outs.
Proof. exact cells_do_not_overlap_refuted. Qed.
Print Assumptions C08_cells_do_not_overlap_refuted.

(* ---- 3. anonymous boxes ---- *)
(* wrap_improper: the children that pass stay, each maximal run of the others becomes one wrapper, nothing else *)
Theorem C08_wrap_improper_partition (A : Type) (test : A -> bool) (l : list A) :
  unruns (wrap_runs test [] l) = l /\ Forall (run_ok test) (wrap_runs test [] l) /\ no_adjacent_runs (wrap_runs test [] l).
Proof. exact (wrap_improper_partition test l). Qed.
Print Assumptions C08_wrap_improper_partition.

(* inline_in_block never hits its assertion and leaves every block container with only block-level (or out-of-flow)
   children or exactly one line box, every line box with only inline-level (or out-of-flow) children *)
Theorem C08_iib_block_container_invariant (b : box) :
  input_ok b = true -> exists b', iib b = Some b' /\ iib_ok (erase b') = true.
Proof. exact (iib_block_container_invariant b). Qed.
Print Assumptions C08_iib_block_container_invariant.

(* ... and its children are the rendering (line box, or anonymous block > line box per run) of runs whose flattening
   is the list of the processed children, minus only text boxes that are empty or a lone collapsible space *)
Theorem C08_iib_flatten k a l children :
  block_container k = true -> first_loop l = Some children -> l <> [] ->
  forallb (fun c => negb (is_k KLine (bk c))) children = true ->
  iib (B k a l) = Some (B k a (render_runs a (iib_runs [] children))) /\
  filter (fun c => negb (droppable c)) (unruns (iib_runs [] children)) = filter (fun c => negb (droppable c)) children.
Proof. exact (iib_flatten k a l children). Qed.
Print Assumptions C08_iib_flatten.

(* anonymous_table_boxes (CSS 2.1 17.2.1): the fuel is enough, and in the result every table sits in a wrapper with
   its captions, holds only row groups, these only rows, these only cells, and no row group / row / cell / caption is
   anywhere else (clause_table = the table clause of spec_wf_tree, the predicate the monitor judges real trees with) *)
Theorem C08_table_structure (n : nat) (b : box) :
  atb_input_ok b = true -> (free_standing (bk b) || is_table (bk b)) = true ->
  exists r, atb (5 + n) b = Some r /\ all_nodes clause_table KOther false (erase r) = true.
Proof.
  intros H1 H2. destruct (atb (5 + n) b) as [r|] eqn:E.
  - exists r. split; [reflexivity|exact (table_structure (5 + n) b r H1 H2 E)].
  - exfalso. exact (atb_total n b H1 E).
Qed.
Print Assumptions C08_table_structure.

(* block_in_inline (_inner_block_in_inline driven by its skip stack) on one line box: the loop ends, and the pieces of
   inline content and the blocks it alternates are, concatenated, the original inline content in order (line_content:
   the boxes of the line, inline boxes being transparent); inner = block_in_inline on the boxes that are not inline *)
Theorem C08_block_in_inline_pieces (inner : box -> box) (line : box) :
  (forall c, bk (inner c) = bk c /\ ident (ba (inner c)) = ident (ba c)) ->
  exists ps, bii_line inner (S (length (line_content line))) line [] = Some ps /\ flat_pieces ps = line_content line.
Proof. intros H. exact (block_in_inline_pieces inner H line). Qed.
Print Assumptions C08_block_in_inline_pieces.

(* ---- 4. display / float / position -> computed display -> box class ---- *)
(* computed_values.display is the table of CSS 2.1 9.7 (with the later display values, CSS Display 3 2.7) for every
   value the validator produces (list-item only with flow / flow-root) *)
Theorem C08_css21_9_7_table (p : posv) (f : floatv) (root : bool) (v : disp) :
  valid_disp v = true -> display p f root v = css_display p f root v.
Proof. exact (css21_9_7_table p f root v). Qed.
Print Assumptions C08_css21_9_7_table.

(* a floated / absolutely positioned / root inline-flex, inline-grid, inline-table box keeps its inner display type and
   gets the flex / grid / table box class; inline-block becomes a plain block (repaired defect F153) *)
Theorem C08_blockified_keeps_inner (p : posv) (f : floatv) (root : bool) (i : inner) :
  blockifies p f root = true ->
  box_class (display p f root (DPair OInline i false)) = box_class (DPair OBlock (match i with FlowRoot => Flow | _ => i end) false).
Proof. exact (blockified_keeps_inner p f root i). Qed.
Print Assumptions C08_blockified_keeps_inner.

(* a float, an absolutely positioned box and the root box are block-level *)
Theorem C08_blockified_is_block_level p f root v c :
  blockifies p f root = true -> box_class (display p f root v) = Some c -> C08Display.block_level c = true.
Proof. exact (blockified_is_block_level p f root v c). Qed.
Print Assumptions C08_blockified_is_block_level.

(* ---- 5. source: the computers of display / float / break-before / break-after (weasyprint/css/computed_values.py)
   and the table BOX_TYPE_FROM_DISPLAY (formatting_structure/build.py) REGENERATED from the source on every run
   (gen/GenComputed.v, gen/GenBuild.v; interpreter base/Py.v) compute exactly the models used in section 4.
   PyLink.call_body ops (parameters, body) arguments = the value the function returns (VErr m: it raises m);
   G.bops = exact rationals + the builtins G.builtin (str.startswith, x[0] on a str or a tuple; len is a primitive of
   base/Py.v); G.style_val rn p f root ms ma = a style object whose specified position is p (running(rn) for
   PRunning), specified float f, is_root_element root, with any other members ms, ma; G.disp_val v = the tuple of
   keywords of v as the validator writes it, G.float_val f the keyword of f. ---- *)
From Coq Require Import String.
Require WV.base.Py WV.base.PyLink WV.gen.GenComputed WV.gen.GenBuild WV.proofs.C08_gen_display.
Module G := WV.proofs.C08_gen_display.

(* the regenerated computer of display is the model, for every display value, float, position and root flag *)
Theorem C08_source_display (rn : string) (p : posv) (f : floatv) (root : bool) (v : disp)
        (ms ma : list (string * Py.val)) (name : Py.val) :
  PyLink.call_body G.bops (GenComputed.display_args, GenComputed.display_body)
    [G.style_val rn p f root ms ma; name; G.disp_val v] = G.disp_val (display p f root v).
Proof. exact (G.gen_display_value rn p f root v ms ma name). Qed.
Print Assumptions C08_source_display.

(* hence: what the source computes is the table of CSS 2.1 9.7 (CSS Display 3 2.7) for every value of the validator *)
Theorem C08_source_display_css21_9_7 (rn : string) (p : posv) (f : floatv) (root : bool) (v : disp)
        (ms ma : list (string * Py.val)) (name : Py.val) :
  valid_disp v = true ->
  PyLink.call_body G.bops (GenComputed.display_args, GenComputed.display_body)
    [G.style_val rn p f root ms ma; name; G.disp_val v] = G.disp_val (css_display p f root v).
Proof. exact (G.gen_display_css21_9_7 rn p f root v ms ma name). Qed.
Print Assumptions C08_source_display_css21_9_7.

(* on an element that is in flow and not the root the source returns ANY value unchanged *)
Theorem C08_source_display_in_flow_identity (rn : string) (p : posv) (f : floatv) (root : bool) (value : Py.val)
        (ms ma : list (string * Py.val)) (name : Py.val) :
  blockifies p f root = false ->
  PyLink.call_body G.bops (GenComputed.display_args, GenComputed.display_body)
    [G.style_val rn p f root ms ma; name; value] = value.
Proof. exact (G.gen_display_in_flow_identity rn p f root value ms ma name). Qed.
Print Assumptions C08_source_display_in_flow_identity.

(* the encoding loses nothing: equal tuples of keywords are equal display values *)
Theorem C08_source_disp_val_injective (a b : disp) : G.disp_val a = G.disp_val b -> a = b.
Proof. exact (G.disp_val_inj a b). Qed.
Print Assumptions C08_source_disp_val_injective.

(* the regenerated computer of float is the model (CSS 2.1 9.7 step 2): position absolute / fixed / running() -> none *)
Theorem C08_source_compute_float (rn : string) (p : posv) (f : floatv) (root : bool)
        (ms ma : list (string * Py.val)) (name : Py.val) :
  PyLink.call_body G.bops (GenComputed.compute_float_args, GenComputed.compute_float_body)
    [G.style_val rn p f root ms ma; name; G.float_val f] = G.float_val (compute_float p f).
Proof. exact (G.gen_compute_float_value rn p f root ms ma name). Qed.
Print Assumptions C08_source_compute_float.

(* BOX_TYPE_FROM_DISPLAY[display[:2]] as regenerated is the model's box class (display: none has no entry), and the
   table has no other row *)
Theorem C08_source_box_type (v : disp) :
  G.table_get (G.first_two (G.disp_val v)) GenBuild.box_type_from_display = option_map G.class_name (box_class v).
Proof. exact (G.gen_box_type v). Qed.
Print Assumptions C08_source_box_type.

Theorem C08_source_box_type_rows :
  Forall (fun row => exists v c, fst row = G.first_two (G.disp_val v) /\ box_class v = Some c /\ snd row = G.class_name c)
         GenBuild.box_type_from_display.
Proof. exact G.gen_box_type_rows. Qed.
Print Assumptions C08_source_box_type_rows.

(* the clause 'elements generate the boxes their computed display, float and position prescribe', on the regenerated
   text end to end: the class looked up for the value the source computes is the class of the CSS 2.1 9.7 computed
   display ... *)
Theorem C08_source_box_of_element (rn : string) (p : posv) (f : floatv) (root : bool) (v : disp)
        (ms ma : list (string * Py.val)) (name : Py.val) :
  valid_disp v = true ->
  G.table_get (G.first_two (PyLink.call_body G.bops (GenComputed.display_args, GenComputed.display_body)
                              [G.style_val rn p f root ms ma; name; G.disp_val v])) GenBuild.box_type_from_display
  = option_map G.class_name (box_class (css_display p f root v)).
Proof. exact (G.gen_box_of_element rn p f root v ms ma name). Qed.
Print Assumptions C08_source_box_of_element.

(* ... and a float, an absolutely positioned element and the root element generate a block-level box, whatever their
   specified display other than none (table-caption included) *)
Theorem C08_source_out_of_flow_box_is_block_level (rn : string) (p : posv) (f : floatv) (root : bool) (v : disp)
        (ms ma : list (string * Py.val)) (name : Py.val) :
  blockifies p f root = true -> v <> DNone ->
  exists c, G.table_get (G.first_two (PyLink.call_body G.bops (GenComputed.display_args, GenComputed.display_body)
                                        [G.style_val rn p f root ms ma; name; G.disp_val v]))
                        GenBuild.box_type_from_display = Some (G.class_name c) /\ C08Display.block_level c = true.
Proof. exact (G.gen_out_of_flow_box_is_block_level rn p f root v ms ma name). Qed.
Print Assumptions C08_source_out_of_flow_box_is_block_level.

(* break-before / break-after: for every value at all 'always' computes to 'page' and anything else to itself; the
   eleven keywords of the validator compute to the ten that layout/block.py folds (C04) *)
Theorem C08_source_break_before_after (style name value : Py.val) :
  PyLink.call_body G.bops (GenComputed.break_before_after_args, GenComputed.break_before_after_body) [style; name; value] =
  match value with Py.VStr s => if String.eqb s "always"%string then Py.VStr "page"%string else value | _ => value end.
Proof. exact (G.gen_break_before_after style name value). Qed.
Print Assumptions C08_source_break_before_after.

Theorem C08_source_break_computed_keywords (style name : Py.val) :
  Forall (fun s => exists s', PyLink.call_body G.bops (GenComputed.break_before_after_args, GenComputed.break_before_after_body)
                                [style; name; Py.VStr s] = Py.VStr s' /\ In s' G.layout_break_keywords /\
                              (s <> "always"%string -> s' = s) /\ (s = "always"%string -> s' = "page"%string))
         G.break_keywords.
Proof. exact (G.gen_break_computed_keywords style name). Qed.
Print Assumptions C08_source_break_computed_keywords.
