(* C10 - Tables: grid geometry, width distribution, collapsed borders: property theorems only.
   Models: model/C10Distribute.v (distribute_excess_width), model/C10Layout.v (fixed_table_layout,
   auto_table_layout), model/C10Grid.v (column positions / cell extents of table_layout), model/C10Borders.v
   (collapse_table_borders); tied to /repo by the correspondence streams of harness/p_c10.py. *)
From Coq Require Import QArith Qminmax List Bool Sorting.Sorted.
Require Import WV.model.C10Distribute WV.model.C10Layout WV.model.C10Grid WV.model.C10Borders WV.model.C10Preferred.
Require Import WV.proofs.C10_distribute WV.proofs.C10_fixed WV.proofs.C10_auto WV.proofs.C10_grid WV.proofs.C10_borders WV.proofs.C10_preferred.
Import ListNotations.
Open Scope Q_scope.

(* ------------------------------------------------------------------ distribute_excess_width, all inputs *)
(* column_slice = slice(a, b) ; the function never raises (no division by zero in any group) *)
Theorem C10_distribute_never_raises (a b : nat) (e : Q) (cols : list col) :
  exists ws, dist_slice a b e cols = Some ws.
Proof. exact (dist_slice_never_raises a b e cols). Qed.
Print Assumptions C10_distribute_never_raises.

(* whenever the slice contains a column (one of the six groups is then taken) the widths increase by exactly
   the excess *)
Theorem C10_excess_is_distributed (a b : nat) (e : Q) (cols : list col) (ws : list Q) :
  in_slice a b cols <> [] -> dist_slice a b e cols = Some ws -> qsum ws == qsum (map c_w cols) + e.
Proof. exact (dist_slice_excess_is_distributed a b e cols ws). Qed.
Print Assumptions C10_excess_is_distributed.

(* ... and only an empty slice distributes nothing: the excess is then dropped and every width is unchanged *)
Theorem C10_empty_slice_drops_excess (a b : nat) (e : Q) (cols : list col) :
  in_slice a b cols = [] -> dist_slice a b e cols = Some (map c_w cols).
Proof. exact (dist_slice_empty_drops_excess a b e cols). Qed.
Print Assumptions C10_empty_slice_drops_excess.

Theorem C10_slice_nonempty_iff (a b : nat) (cols : list col) :
  (a < b)%nat -> (a < length cols)%nat -> in_slice a b cols <> [].
Proof. exact (in_slice_nonempty a b cols). Qed.
Print Assumptions C10_slice_nonempty_iff.

Theorem C10_widths_never_decrease (a b : nat) (e : Q) (cols : list col) (ws : list Q) :
  0 <= e -> dist_slice a b e cols = Some ws -> Forall2 (fun c w => c_w c <= w) cols ws.
Proof. exact (dist_slice_widths_never_decrease a b e cols ws). Qed.
Print Assumptions C10_widths_never_decrease.

(* css-tables-3 rules 1-2: constrained columns and percentage columns are untouched when a non-constrained
   column without percentage can grow *)
Theorem C10_constrained_columns_untouched_when_others_can_grow (e : Q) (cols : list col) (ws : list Q) :
  existsb g2 cols = true -> dist e cols = Some ws ->
  Forall2 (fun c w => g2 c = false -> w == c_w c) cols ws.
Proof. exact (dist_constrained_untouched_when_others_can_grow e cols ws). Qed.
Print Assumptions C10_constrained_columns_untouched_when_others_can_grow.

(* rule 1: growth in proportion to the max-content widths *)
Theorem C10_auto_columns_grow_in_proportion (e : Q) (cols : list col) (ws : list Q) :
  existsb g1 cols = true -> dist e cols = Some ws ->
  exists r, r * qsum (map c_max (filter g1 cols)) == e /\
            Forall2 (fun c w => w == if g1 c then c_w c + c_max c * r else c_w c) cols ws.
Proof. exact (dist_auto_columns_grow_in_proportion e cols ws). Qed.
Print Assumptions C10_auto_columns_grow_in_proportion.

(* rule 3: with no auto column, constrained columns with content grow (in proportion), percentage columns stay *)
Theorem C10_constrained_grow_before_percentages (e : Q) (cols : list col) (ws : list Q) :
  existsb g2 cols = false -> existsb g3 cols = true -> dist e cols = Some ws ->
  exists r, r * qsum (map c_max (filter g3 cols)) == e /\
            Forall2 (fun c w => w == if g3 c then c_w c + c_max c * r else c_w c) cols ws.
Proof. exact (dist_constrained_grow_before_percentages e cols ws). Qed.
Print Assumptions C10_constrained_grow_before_percentages.

(* rule 4: only percentage columns left: in proportion to the percentages *)
Theorem C10_percentage_columns_grow_in_proportion (e : Q) (cols : list col) (ws : list Q) :
  existsb g2 cols = false -> existsb g3 cols = false -> existsb g4 cols = true -> dist e cols = Some ws ->
  exists r, r * qsum (map c_pct (filter g4 cols)) == e /\
            Forall2 (fun c w => w == if g4 c then c_w c + c_pct c * r else c_w c) cols ws.
Proof. exact (dist_percentage_columns_grow_in_proportion e cols ws). Qed.
Print Assumptions C10_percentage_columns_grow_in_proportion.

(* ------------------------------------------------------------------ fixed_table_layout, all inputs *)
Theorem C10_fixed_never_raises (W s : Q) (cols : list decl) (cells : list fcell) :
  exists out, fixed_layout W s cols cells = Some out.
Proof. exact (fixed_never_raises W s cols cells). Qed.
Print Assumptions C10_fixed_never_raises.

(* table.width = sum(column widths) + (n+1) spacing after the call (the table is widened when needed);
   the only exception is a table with no column at all that is wider than one spacing *)
Theorem C10_fixed_sum (W s : Q) (cols : list decl) (cells : list fcell) (W' : Q) (ws : list Q) :
  fixed_layout W s cols cells = Some (W', ws) ->
  length ws = Nat.max (length cols) (spans cells) /\
  ((0 < length ws)%nat \/ W <= s -> W' == qsum ws + s * (qnat (length ws) + 1)) /\
  W <= W'.
Proof. exact (fixed_sum W s cols cells W' ws). Qed.
Print Assumptions C10_fixed_sum.

Theorem C10_fixed_sum_zero_columns (W s W' : Q) (ws : list Q) :
  fixed_layout W s [] [] = Some (W', ws) -> ws = [] /\ (s < W -> W' = W) /\ (W <= s -> W' == s).
Proof. exact (fixed_sum_zero_columns W s W' ws). Qed.
Print Assumptions C10_fixed_sum_zero_columns.

(* CSS 2.1 17.5.2.1: declared column widths, then first-row cell widths; [bonus] is the equal share of extra
   width every column receives when the table is wider than its columns (then the table keeps its width).
   A first-row cell narrower than the declared widths of the columns it spans cannot be honoured: its columns then
   take exactly what is declared (the Qmax) *)
Theorem C10_fixed_declared_and_first_row_widths_honoured
        (W s : Q) (cols : list decl) (cells : list fcell) (W' : Q) (ws : list Q) :
  fixed_layout W s cols cells = Some (W', ws) ->
  exists bonus,
    0 <= bonus /\ (~ bonus == 0 -> W' = W) /\
    (forall i d v, nth_error cols i = Some d -> resolve d W = Some v ->
       exists w, nth_error ws i = Some w /\ w == v + bonus) /\
    (forall pre c post w, cells = pre ++ c :: post -> resolve (fc_width c) W = Some w ->
       (exists j, (spans pre <= j < spans pre + fc_span c)%nat /\
                  nth j (map (fun d => resolve d W) cols) None = None) ->
       qsum (firstn (fc_span c) (skipn (spans pre) ws)) + s * (qnat (fc_span c) - 1)
       == Qmax (w + fc_bp c)
               (osum (firstn (fc_span c) (skipn (spans pre) (fixed_init W cols cells))) + s * (qnat (fc_span c) - 1))
          + qnat (fc_span c) * bonus).
Proof. exact (fixed_widths_honoured W s cols cells W' ws). Qed.
Print Assumptions C10_fixed_declared_and_first_row_widths_honoured.

(* no column gets a negative width when no declared width is negative: the remainder a first-row colspan cell
   leaves to its columns without width is floored at 0 (the table is widened instead) *)
Theorem C10_fixed_columns_non_negative (W s : Q) (cols : list decl) (cells : list fcell) (W' : Q) (ws : list Q) :
  0 <= s -> Forall (fun d => match resolve d W with Some v => 0 <= v | None => True end) cols ->
  fixed_layout W s cols cells = Some (W', ws) -> Forall (fun w => 0 <= w) ws.
Proof. exact (fixed_columns_non_negative W s cols cells W' ws). Qed.
Print Assumptions C10_fixed_columns_non_negative.

(* ------------------------------------------------------------------ auto_table_layout *)
(* the used width of the table: at least min-content; an auto width never exceeds the available width when the
   content allows; a specified width is only enlarged *)
Theorem C10_auto_table_width (tw : option Q) (avail tmin tmax : Q) :
  tmin <= tmax ->
  let W := used_table_width tw avail tmin tmax in
  tmin <= W /\
  match tw with
  | None => (tmin <= avail -> W <= avail) /\ W <= tmax
  | Some w => w <= W /\ (tmin <= w -> W = w)
  end.
Proof. exact (auto_table_width tw avail tmin tmax). Qed.
Print Assumptions C10_auto_table_width.

(* eps is the 1e-9 tolerance of the source.  oracle_ok: 0 <= min_i <= max_i, spacing + sum(min) <= table min <= table max *)
Theorem C10_auto_never_raises (eps : Q) (tw : option Q) (avail tmin tmax ths : Q) (cols : list acol) :
  oracle_ok tmin tmax ths cols -> 0 <= eps -> exists out, auto_layout eps tw avail tmin tmax ths cols = Some out.
Proof. exact (auto_never_raises eps tw avail tmin tmax ths cols). Qed.
Print Assumptions C10_auto_never_raises.

(* the column widths sum to the assignable width (interpolation between two guesses, or max-content guess plus
   distributed excess); when the code returns a guess unchanged its sum is within the tolerance *)
Theorem C10_auto_sum (eps : Q) (tw : option Q) (avail tmin tmax ths : Q) (cols : list acol) (W : Q) (ws : list Q) :
  oracle_ok tmin tmax ths cols -> 0 <= eps -> cols <> [] ->
  auto_layout eps tw avail tmin tmax ths cols = Some (W, ws) ->
  let A := W - ths in
  qsum ws == A \/ ((exists g, is_guess A g /\ ws = map g cols) /\ A * (1 - eps) <= qsum ws <= A * (1 + eps)).
Proof. exact (auto_sum eps tw avail tmin tmax ths cols W ws). Qed.
Print Assumptions C10_auto_sum.

Theorem C10_auto_at_least_min_content
        (eps : Q) (tw : option Q) (avail tmin tmax ths : Q) (cols : list acol) (W : Q) (ws : list Q) :
  oracle_ok tmin tmax ths cols -> 0 <= eps -> cols <> [] ->
  auto_layout eps tw avail tmin tmax ths cols = Some (W, ws) ->
  Forall2 (fun c w => a_min c - eps * (W - ths) <= w) cols ws.
Proof. exact (auto_at_least_min_content eps tw avail tmin tmax ths cols W ws). Qed.
Print Assumptions C10_auto_at_least_min_content.

(* the hypothesis min_i <= max_i of the auto layout theorems is needed: without it (statements about the model with
   an arbitrary oracle) a column can end below its min-content width and the code can divide by zero.  The source
   now guarantees the hypothesis: C10_colspan_cells_fit_their_columns, clause min <= max *)
Theorem C10_auto_min_content_refuted_without_oracle_hypothesis :
  exists ws, auto_layout 0 None 185 180 190 0 [mkacol true false 0 100 48; mkacol true false 0 90 132] = Some (185, ws)
             /\ nth 1 ws 0 < 132.
Proof. exact auto_min_content_needs_oracle_hypothesis. Qed.
Print Assumptions C10_auto_min_content_refuted_without_oracle_hypothesis.

Theorem C10_auto_zero_division_without_oracle_hypothesis :
  auto_layout 0 None 15 15 25 0 [mkacol true true 0 5 10; mkacol true true 0 10 5; mkacol true false 0 10 0] = None.
Proof. exact auto_zero_division_needs_oracle_hypothesis. Qed.
Print Assumptions C10_auto_zero_division_without_oracle_hypothesis.

(* ------------------------------------------------------------------ preferred widths of the columns (preferred.py) *)
(* h = horizontal border spacing (0 when borders collapse); columns = what column groups, columns and cells of
   span 1 contribute to each column; cells = the cells with colspan > 1 in the order the source visits them.
   The computation never raises, at the end every column has min-content <= max-content (the hypothesis of the
   auto layout theorems: guaranteed by the source since its last step max = max(max, min)), and every colspan cell
   lying inside the grid fits in the columns it spans plus the h spacings between them, for min- and max-content:
     s_min c <= sum(min-content widths of its columns) + (colspan - 1) * h   (same for max) *)
Theorem C10_colspan_cells_fit_their_columns (h : Q) (columns : list (list contrib)) (cells : list scell) :
  exists st, preferred_columns h columns cells = Some st /\
    length st = length columns /\
    Forall (fun p => p_min p <= p_max p) st /\
    forall c, In c cells -> inside c (length columns) -> fits_min h st c /\ fits_max h st c.
Proof. exact (preferred_columns_correct h columns cells). Qed.
Print Assumptions C10_colspan_cells_fit_their_columns.

(* the loop over colspan cells never shrinks a column, from any state *)
Theorem C10_colspan_loop_only_grows (h : Q) (cells : list scell) (st st' : list pcol) :
  colspan_loop h cells st = Some st' ->
  grows st st' /\ forall c, In c cells -> inside c (length st) -> fits_min h st' c /\ fits_max h st' c.
Proof. exact (colspan_cells_fit h cells st st'). Qed.
Print Assumptions C10_colspan_loop_only_grows.

(* the spacing must be the horizontal one: computing with the vertical spacing (30) of `border-spacing: 2px 30px`
   leaves the colspan cell wider than its columns plus the horizontal spacing (2) *)
Theorem C10_vertical_spacing_refuted :
  exists st, (preferred_columns 30 [[mkcontrib 10 10 0 false]; [mkcontrib 10 10 0 false]] [mkscell 0 2 100 100] = Some st)
             /\ ~ fits_min 2 st (mkscell 0 2 100 100).
Proof. exact vertical_spacing_would_not_fit. Qed.
Print Assumptions C10_vertical_spacing_refuted.

(* ------------------------------------------------------------------ column positions and cell extents *)
Theorem C10_columns_fill_table (rtl : bool) (cbx W s : Q) (ws : list Q) :
  let n := length ws in
  (0 < n)%nat -> W == qsum ws + s * (qnat n + 1) ->
  let pos := column_positions rtl cbx W s ws in
  let leftmost := if rtl then Nat.pred n else O in
  let rightmost := if rtl then O else Nat.pred n in
  nth leftmost pos 0 == cbx + s /\
  nth rightmost pos 0 + nth rightmost ws 0 + s == cbx + W /\
  rows_width rtl cbx W s ws == W - s - s.
Proof. exact (columns_fill_table rtl cbx W s ws). Qed.
Print Assumptions C10_columns_fill_table.

Theorem C10_columns_are_adjacent (rtl : bool) (cbx W s : Q) (ws : list Q) (i : nat) :
  (S i < length ws)%nat ->
  let pos := column_positions rtl cbx W s ws in
  if rtl then nth i pos 0 == nth (S i) pos 0 + nth (S i) ws 0 + s
  else nth (S i) pos 0 == nth i pos 0 + nth i ws 0 + s.
Proof. exact (columns_are_adjacent rtl cbx W s ws i). Qed.
Print Assumptions C10_columns_are_adjacent.

(* k = colspan after truncation to the grid, cx = position_x, cw = content width, bp = paddings + borders *)
Theorem C10_cell_spans_its_columns
        (rtl : bool) (cbx W s : Q) (ws : list Q) (gx span : nat) (bp : Q) (k : nat) (cx cw : Q) :
  let pos := column_positions rtl cbx W s ws in
  cell_extent rtl pos ws s gx span bp = Some (k, cx, cw) ->
  k = Nat.min span (length ws - gx) /\ (1 <= k)%nat /\ (gx + k <= length ws)%nat /\
  cw + bp == qsum (spanned ws gx span) + s * (qnat k - 1) /\
  let first := if rtl then (gx + k - 1)%nat else gx in
  let last := if rtl then gx else (gx + k - 1)%nat in
  cx == nth first pos 0 /\ cx + (cw + bp) == nth last pos 0 + nth last ws 0.
Proof. exact (cell_spans_its_columns rtl cbx W s ws gx span bp k cx cw). Qed.
Print Assumptions C10_cell_spans_its_columns.

(* ------------------------------------------------------------------ collapsed borders *)
(* for any list of contributors offered to one edge (in the order of the calls) *)
Theorem C10_border_conflict_winner (cs : list border) :
  Forall wf cs ->
  let r := snd (resolve_edge (map ESet cs)) in
  (Forall (fun c => b_style c = Snone) cs /\ r = null_border) \/
  exists pre c post, cs = pre ++ c :: post /\ r = map_border c /\
    (forall x, In x cs -> css_ge_b c x = true) /\
    (forall p, In p pre -> css_ge_b p c = false).
Proof. exact (border_conflict_winner cs). Qed.
Print Assumptions C10_border_conflict_winner.

(* on every edge of the model's grid that is not inside a spanning cell *)
Theorem C10_border_conflict_winner_on_grid (vertical rtl : bool) (gw : nat) (boxes : list tbox) (X Y : nat) :
  let evs := flat_map ((if vertical then vevents else hevents) rtl gw X Y) (call_order boxes) in
  let edge := (if vertical then vertical_edge else horizontal_edge) rtl gw boxes X Y in
  has_reset evs = false -> Forall wf (contributors evs) ->
  let cs := contributors evs in
  (Forall (fun c => b_style c = Snone) cs /\ snd edge = null_border) \/
  exists pre c post, cs = pre ++ c :: post /\ snd edge = map_border c /\
    (forall x, In x cs -> css_ge_b c x = true) /\ (forall p, In p pre -> css_ge_b p c = false).
Proof. exact (border_conflict_winner_on_grid vertical rtl gw boxes X Y). Qed.
Print Assumptions C10_border_conflict_winner_on_grid.

(* contributors are offered by origin: cell, row, row group, column, column group, table *)
Theorem C10_contributors_ordered_by_origin (boxes : list tbox) :
  StronglySorted (fun a b => (kind_rank (tb_kind a) <= kind_rank (tb_kind b))%nat) (call_order boxes).
Proof. exact (call_order_by_origin boxes). Qed.
Print Assumptions C10_contributors_ordered_by_origin.

Theorem C10_inside_spanning_cell_no_border (pre post : list event) :
  Forall wf (contributors post) -> resolve_edge (pre ++ EReset :: post) = strong_null.
Proof. exact (inside_spanning_cell_no_border pre post). Qed.
Print Assumptions C10_inside_spanning_cell_no_border.

(* ------------------------------------------------------------------------------------------------ source *)
(* fixed_table_layout of weasyprint/layout/table.py, REGENERATED from the source on every run (gen/GenTable.v:
   the statements from the choice of border_spacing_x to the end of the function - the pass over the first-row
   cells, the equal shares, the distribution of the extra width).  For every table width, border spacing, <col>
   widths, list of first-row cells (any colspan, width 'auto' or a number) the regenerated statements, started from
   the list of column widths the statements before them build (fixed_init), never raise and leave in table.width /
   table.column_widths the value of fixed_layout (the model of the C10_fixed_* theorems above), the numbers up to ==
   (the source subtracts the known widths one by one and sums from the left); the other attributes of the table
   are untouched.  resolve_percentages is an oracle that answers the cell with its used width; cell.border_width()
   is answered by ocall.  A declared width of 0 is a known width (`column_widths[j] is None`). *)
From Coq Require Import String.
Require WV.base.Py WV.gen.GenTable WV.proofs.C10_gen_fixed_model WV.proofs.C10_gen_fixed_run WV.proofs.C10_gen_fixed.
Module GF := WV.proofs.C10_gen_fixed.
Module GR := WV.proofs.C10_gen_fixed_run.
Module GM := WV.proofs.C10_gen_fixed_model.

Theorem C10_source_fixed_cells_and_finish
  (T : Type) (cin : T -> list (string * Py.val)) (rc : T -> GM.rcell) (cextra : T -> list (string * Py.val))
  (tf sf : list (string * Py.val)) (bc : string) (sx W : Q) (sy : Py.val) (O : Py.qops) (HO : Py.ops_ok O)
  (Hstyle : Py.lookup "style"%string tf = Py.VObj sf) (Hbc : Py.lookup "border_collapse"%string sf = Py.VStr bc)
  (Hbs : Py.lookup "border_spacing"%string sf = Py.VList [Py.VNum sx; sy]) (Hw : Py.lookup "width"%string tf = Py.VNum W)
  (HR : forall t, Py.ocall O "resolve_percentages"%string [Py.VObj (cin t); Py.VObj tf]
                  = Py.VList [Py.VNone; GR.rcellv T rc cextra t])
  (HB : forall t v, GM.r_w (rc t) = Some v ->
                    Py.ocall O ".border_width"%string [GR.rcellv T rc cextra t] = Py.VNum (GM.r_bw (rc t)))
  (cols : list decl) (cells : list T) :
  Py.run O GenTable.fixed_cells_finish_body (GF.env0 T cin tf cells (fixed_init W cols (GF.fcells T rc cells)))
      (fun rho r => r = None /\
         exists Wm wsm, fixed_layout W (GR.spacing bc sx) cols (GF.fcells T rc cells) = Some (Wm, wsm) /\
           exists tf' W' ws, Py.lookup "table"%string rho = Py.VObj tf' /\
             Py.lookup "width"%string tf' = Py.VNum W' /\ Py.lookup "column_widths"%string tf' = Py.VList (map Py.VNum ws) /\
             W' == Wm /\ Forall2 Qeq ws wsm /\
             forall x, String.eqb x "width" = false -> String.eqb x "column_widths" = false ->
                       Py.lookup x tf' = Py.lookup x tf)
      (fun _ => False).
Proof. exact (GF.gen_fixed_layout T cin rc cextra tf sf bc sx W sy O HO Hstyle Hbc Hbs Hw HR HB cols cells). Qed.
Print Assumptions C10_source_fixed_cells_and_finish.

(* the property text about the run of the source: table.width = sum(column widths) + (n + 1) spacings *)
Theorem C10_source_fixed_sum
  (T : Type) (cin : T -> list (string * Py.val)) (rc : T -> GM.rcell) (cextra : T -> list (string * Py.val))
  (tf sf : list (string * Py.val)) (bc : string) (sx W : Q) (sy : Py.val) (O : Py.qops) (HO : Py.ops_ok O)
  (Hstyle : Py.lookup "style"%string tf = Py.VObj sf) (Hbc : Py.lookup "border_collapse"%string sf = Py.VStr bc)
  (Hbs : Py.lookup "border_spacing"%string sf = Py.VList [Py.VNum sx; sy]) (Hw : Py.lookup "width"%string tf = Py.VNum W)
  (HR : forall t, Py.ocall O "resolve_percentages"%string [Py.VObj (cin t); Py.VObj tf]
                  = Py.VList [Py.VNone; GR.rcellv T rc cextra t])
  (HB : forall t v, GM.r_w (rc t) = Some v ->
                    Py.ocall O ".border_width"%string [GR.rcellv T rc cextra t] = Py.VNum (GM.r_bw (rc t)))
  (cols : list decl) (cells : list T) :
  Py.run O GenTable.fixed_cells_finish_body (GF.env0 T cin tf cells (fixed_init W cols (GF.fcells T rc cells)))
      (fun rho r => exists tf' W' ws,
         Py.lookup "table"%string rho = Py.VObj tf' /\ Py.lookup "width"%string tf' = Py.VNum W' /\
         Py.lookup "column_widths"%string tf' = Py.VList (map Py.VNum ws) /\
         List.length ws = Nat.max (List.length cols) (spans (GF.fcells T rc cells)) /\
         ((0 < List.length ws)%nat \/ W <= GR.spacing bc sx -> W' == qsum ws + GR.spacing bc sx * (qnat (List.length ws) + 1)) /\
         W <= W')
      (fun _ => False).
Proof. exact (GF.gen_fixed_sum T cin rc cextra tf sf bc sx W sy O HO Hstyle Hbc Hbs Hw HR HB cols cells). Qed.
Print Assumptions C10_source_fixed_sum.

(* any list of column widths known so far (not only the one built from the <col> elements), any cells that fit *)
Theorem C10_source_fixed_cells_and_finish_any_columns
  (T : Type) (cin : T -> list (string * Py.val)) (rc : T -> GM.rcell) (cextra : T -> list (string * Py.val))
  (tf sf : list (string * Py.val)) (bc : string) (sx W : Q) (sy : Py.val) (O : Py.qops) (HO : Py.ops_ok O)
  (Hstyle : Py.lookup "style"%string tf = Py.VObj sf) (Hbc : Py.lookup "border_collapse"%string sf = Py.VStr bc)
  (Hbs : Py.lookup "border_spacing"%string sf = Py.VList [Py.VNum sx; sy]) (Hw : Py.lookup "width"%string tf = Py.VNum W)
  (HR : forall t, Py.ocall O "resolve_percentages"%string [Py.VObj (cin t); Py.VObj tf]
                  = Py.VList [Py.VNone; GR.rcellv T rc cextra t])
  (HB : forall t v, GM.r_w (rc t) = Some v ->
                    Py.ocall O ".border_width"%string [GR.rcellv T rc cextra t] = Py.VNum (GM.r_bw (rc t)))
  (cells : list T) (cw : list (option Q)) :
  (GR.spansT T rc cells <= List.length cw)%nat ->
  Py.run O GenTable.fixed_cells_finish_body (GF.env0 T cin tf cells cw)
      (fun rho r => r = None /\
         exists cw1, cells_loop W (GR.spacing bc sx) (GF.fcells T rc cells) cw = Some cw1 /\
                     GF.model_result tf (Py.lookup "table"%string rho) (fst (fixed_finish W (GR.spacing bc sx) cw1))
                                     (snd (fixed_finish W (GR.spacing bc sx) cw1)))
      (fun _ => False).
Proof. exact (GF.gen_fixed_model T cin rc cextra tf sf bc sx W sy O HO Hstyle Hbc Hbs Hw HR HB cells cw). Qed.
Print Assumptions C10_source_fixed_cells_and_finish_any_columns.

(* the head of fixed_table_layout, REGENERATED from the source on every run (gen/GenTable.v, fixed_head_sizes: the
   statements  num_columns = max(len(all_columns), sum(cell.colspan for cell in first_row_cells))  and
   column_widths = [None] * num_columns).  For every list of <col> elements and every list of first-row cells (objects
   whose colspan is a natural number) the two statements never raise; num_columns is the larger of the number of
   <col> elements and of the sum of the colspans, column_widths the fresh list of that many None. *)
Require WV.proofs.C10_gen_head.
Module GH := WV.proofs.C10_gen_head.

Theorem C10_source_fixed_head_sizes
  (T : Type) (cin : T -> list (string * Py.val)) (rc : T -> GM.rcell)
  (Hcs : forall t, Py.lookup "colspan"%string (cin t) = Py.VNum (qnat (GM.r_span (rc t))))
  (O : Py.qops) (HO : Py.ops_ok O) (cols : list Py.val) (cells : list T) :
  Py.run O GenTable.fixed_head_sizes_body
      [("all_columns"%string, Py.VList cols); ("first_row_cells"%string, Py.VList (map (fun t => Py.VObj (cin t)) cells))]
      (fun rho r => r = None /\
         Py.lookup "num_columns"%string rho = Py.VNum (qnat (Nat.max (List.length cols) (GR.spansT T rc cells))) /\
         Py.lookup "column_widths"%string rho = Py.VList (repeat Py.VNone (Nat.max (List.length cols) (GR.spansT T rc cells))) /\
         Py.lookup "all_columns"%string rho = Py.VList cols /\
         Py.lookup "first_row_cells"%string rho = Py.VList (map (fun t => Py.VObj (cin t)) cells))
      (fun _ => False).
Proof. exact (GH.gen_head_sizes T cin rc Hcs O HO cols cells). Qed.
Print Assumptions C10_source_fixed_head_sizes.

(* ... and these are the values of the hand model and of the free variables of the tied slice above: num_columns is
   the length of fixed_init (whatever widths the <col> elements declare), first_row_cells is untouched - both as in the
   environment GF.env0 from which C10_source_fixed_cells_and_finish runs the rest of the function - and column_widths
   is fixed_init before any <col> width is known (same length); the <col> loop between the two (not translated)
   stores the used width of each <col> element that has one *)
Theorem C10_source_fixed_head_feeds_slice
  (T : Type) (cin : T -> list (string * Py.val)) (rc : T -> GM.rcell) (tf : list (string * Py.val))
  (O : Py.qops) (HO : Py.ops_ok O)
  (Hcs : forall t, Py.lookup "colspan"%string (cin t) = Py.VNum (qnat (GM.r_span (rc t))))
  (W : Q) (decls : list decl) (cols : list Py.val) (cells : list T) :
  List.length decls = List.length cols ->
  Py.run O GenTable.fixed_head_sizes_body
      [("all_columns"%string, Py.VList cols); ("first_row_cells"%string, Py.VList (map (fun t => Py.VObj (cin t)) cells))]
      (fun rho r => r = None /\
         let e0 := GF.env0 T cin tf cells (fixed_init W decls (GF.fcells T rc cells)) in
         Py.lookup "num_columns"%string rho = Py.lookup "num_columns"%string e0 /\
         Py.lookup "first_row_cells"%string rho = Py.lookup "first_row_cells"%string e0 /\
         List.length (fixed_init W decls (GF.fcells T rc cells))
           = List.length (fixed_init W (repeat DAuto (List.length decls)) (GF.fcells T rc cells)) /\
         Py.lookup "column_widths"%string rho
           = Py.VList (map GM.voq (fixed_init W (repeat DAuto (List.length decls)) (GF.fcells T rc cells))))
      (fun _ => False).
Proof. exact (GH.gen_head_feeds_slice T cin rc tf O HO Hcs W decls cols cells). Qed.
Print Assumptions C10_source_fixed_head_feeds_slice.
