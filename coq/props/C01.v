(* C01 - Pagination conserves content: property theorems only.
   Model: coq/model/Frag2.v (block_container_layout, _linebox_layout, _break_line, _in_flow_layout,
   find_earlier_page_break, the page loop), tied to /repo by the correspondence stream frag2-render. *)
From Coq Require Import ZArith List Bool.
Require Import WV.model.Frag2 WV.proofs.C01_defs WV.proofs.C01_lines WV.proofs.C01_blocks WV.proofs.C01_main
        WV.proofs.C01_thm.
Import ListNotations.

(* One layout call: whatever the geometry (page height, margins, borders, break values, orphans/widows, the
   overflow decisions) and wherever the layout resumes, the words of the fragment followed by the words that
   remain after the returned resume point are exactly the words that remained before; the returned resume
   point is a valid position in the tree. *)
Theorem C01_layout_conserves : forall b c, wf_box b = true ->
  forall p m bs sk pie a r A B C, wf_skip b sk -> bcl c b p m bs sk pie a = (Some r, A, B, C) ->
    fwords (b_frag r) ++ words_res b (b_resume r) = words_from b sk /\
    wf_res b (b_resume r) /\
    (b_resume r = None -> cinv b sk (b_frag r)).
Proof. exact bcl_conserves. Qed.
Print Assumptions C01_layout_conserves.

(* find_earlier_page_break gives back to the next page exactly what it removes from this one *)
Theorem C01_find_earlier_conserves : forall b sk f kept res,
  wf_box b = true -> wf_skip b sk -> cinv b sk f -> find_earlier_f f = Some (kept, res) ->
  fwords_l kept ++ words_from b (Some res) = fwords f /\ wf_skip b (Some res).
Proof. exact find_earlier_conserves. Qed.
Print Assumptions C01_find_earlier_conserves.

(* The page loop, any amount of fuel: the words of the pages produced so far plus what remains = everything. *)
Theorem C01_pages_conserve : forall fuel root H lh ltr i resume np right,
  wf_box root = true -> wf_skip root resume ->
  match paginate_loop fuel root H lh ltr i resume np right with
  | PDone pages => pages_words pages = words_from root resume
  | PFuel pages lft => pages_words pages ++ words_from root lft = words_from root resume /\ wf_skip root lft
  | PStuck _ => True
  end.
Proof. exact pages_conserve. Qed.
Print Assumptions C01_pages_conserve.

(* Whole document: every word exactly once, in source order; no word twice. *)
Theorem C01_document_conserved : forall fuel root H lh pages,
  wf_box root = true -> paginate_loop fuel root H lh true 0 None None true = PDone pages ->
  pages_words pages = bwords root.
Proof. exact paginate_loop_conserves. Qed.
Print Assumptions C01_document_conserved.

Theorem C01_no_duplicates : forall fuel root H lh pages,
  wf_box root = true -> NoDup (bwords root) ->
  paginate_loop fuel root H lh true 0 None None true = PDone pages -> NoDup (pages_words pages).
Proof. exact paginate_no_duplicates. Qed.
Print Assumptions C01_no_duplicates.

(* non-vacuity: a concrete document that is split over several pages *)
Definition ex_style (o w : nat) : style := mkStyle 0 0 0 0 0 0 BAuto BAuto BAuto o w false.
Definition ex_doc : box :=
  Blk (ex_style 1 1) [Blk (ex_style 1 1) [Blk (ex_style 2 2) [Lines [1; 2; 3; 4; 5; 6; 7]%Z] false;
                                          Blk (ex_style 1 1) [Lines [8; 9]%Z] false] false] true.
Example C01_example_pages :
  wf_box ex_doc = true /\
  exists pages, paginate_res ex_doc 30 10 = PDone pages /\ length pages = 4%nat /\
                pages_words pages = [1; 2; 3; 4; 5; 6; 7; 8; 9]%Z.
Proof. split; [reflexivity|]. eexists. split; [vm_compute; reflexivity|]. split; reflexivity. Qed.
