(* C06 - The cascade, inheritance and computed values select the right value: property theorems only.
   Models: model/C06Cascade.v (declaration_precedence, the application loops of StyleFor.__init__ and
   add_page_declarations), model/C06Inherit.v (ComputedStyle.__missing__ / AnonymousStyle), model/C06Values.v
   (length, font_size, font_weight, line_height, evaluate_media_query).  Proofs: proofs/C06_*.v. *)
From Coq Require Import ZArith QArith List Bool String.
Require Import WV.model.C06Cascade WV.model.C06Inherit WV.model.C06Values WV.model.C06Imports.
Require Import WV.proofs.C06_cascade WV.proofs.C06_order WV.proofs.C06_inherit WV.proofs.C06_values WV.proofs.C06_imports.
Require WV.base.Py WV.gen.GenCss WV.proofs.C06_gen_precedence WV.gen.GenMedia WV.proofs.C06_gen_media.
Require WV.base.PyLink WV.gen.GenComputed WV.proofs.C06_gen_length WV.proofs.C06_gen_font_size WV.proofs.C06_gen_tuples.
Require WV.gen.GenComputedGap WV.proofs.C06_gen_gap WV.proofs.C06_gen_border_width.
Require WV.proofs.C06_gen_tab_size.
Import ListNotations.

(* ================================================================ 1. the cascade *)
Open Scope Z_scope.

(* For EVERY sequence of declarations applied by the loop, and every property name: the cascaded style holds the
   last declaration of maximal weight, weight = (declaration_precedence origin importance, specificity) compared
   as Python tuples.   wle d w : weight d <= weight w;  wlt d w : weight d < weight w. *)
Theorem C06_fold_picks_max (V : Type) (ds : list (decl V)) (n : Z) :
  match get (cascade ds) n with
  | None => forall d, In d ds -> d_name d <> n
  | Some w => exists l1 l2, ds = l1 ++ w :: l2 /\ d_name w = n /\
                (forall d, In d l1 -> d_name d = n -> wle d w) /\
                (forall d, In d l2 -> d_name d = n -> wlt d w)
  end.
Proof. exact (fold_picks_max V ds n). Qed.
Print Assumptions C06_fold_picks_max.

(* ... i.e. the last element of the stable sort by weight of the declarations for that name *)
Theorem C06_fold_is_stable_sort_max (V : Type) (ds : list (decl V)) (n : Z) :
  get (cascade ds) n = last_opt (stable_sort weight_of weight_leb (named d_name n ds)).
Proof. exact (fold_is_stable_sort_max V ds n). Qed.
Print Assumptions C06_fold_is_stable_sort_max.

(* user agent < user < author < author !important < user !important  (importance is ignored for the user agent) *)
Theorem C06_precedence_order (i j : bool) :
  declaration_precedence UA i = declaration_precedence UA j /\
  declaration_precedence UA i < declaration_precedence User false /\
  declaration_precedence User false < declaration_precedence Author false /\
  declaration_precedence Author false < declaration_precedence Author true /\
  declaration_precedence Author true < declaration_precedence User true.
Proof. exact (precedence_order i j). Qed.
Print Assumptions C06_precedence_order.

(* the string-level transliteration (tied to the source by exhaustive direct calls) is that table *)
Theorem C06_declaration_precedence_strings (o : origin) (i : bool) :
  declaration_precedence_str (origin_str o) i = Some (declaration_precedence o i).
Proof. exact (precedence_str_origin o i). Qed.
Print Assumptions C06_declaration_precedence_strings.

(* the function REGENERATED from weasyprint/css/__init__.py on every run (gen/GenCss.v, interpreter base/Py.v)
   computes that table for every origin string and importance flag; its assert fires exactly when the string is
   not an origin *)
Theorem C06_source_declaration_precedence (o : string) (imp : bool) :
  Py.run Py.real_ops GenCss.declaration_precedence_body
    [("origin"%string, Py.VStr o); ("importance"%string, Py.VBool imp)]
    (fun _ r => exists z, declaration_precedence_str o imp = Some z /\ r = Some (Py.VNum (inject_Z z)))
    (fun m => declaration_precedence_str o imp = None /\ m = "AssertionError"%string).
Proof. exact (C06_gen_precedence.gen_declaration_precedence o imp). Qed.
Print Assumptions C06_source_declaration_precedence.

Theorem C06_source_declaration_precedence_origin (o : origin) (imp : bool) :
  Py.run Py.real_ops GenCss.declaration_precedence_body
    [("origin"%string, Py.VStr (origin_str o)); ("importance"%string, Py.VBool imp)]
    (fun _ r => r = Some (Py.VNum (inject_Z (declaration_precedence o imp)))) (fun _ => False).
Proof. exact (C06_gen_precedence.gen_declaration_precedence_origin o imp). Qed.
Print Assumptions C06_source_declaration_precedence_origin.

(* origin and importance come first: whatever the specificities and the order, no declaration for the property
   has a higher precedence than the winner *)
Theorem C06_origin_importance_first (V : Type) (ds : list (decl V)) n w d :
  get (cascade ds) n = Some w -> In d ds -> d_name d = n -> prec d <= prec w.
Proof. exact (origin_importance_first V ds n w d). Qed.
Print Assumptions C06_origin_importance_first.

(* then specificity *)
Theorem C06_specificity_second (V : Type) (ds : list (decl V)) n w d :
  get (cascade ds) n = Some w -> In d ds -> d_name d = n -> prec d = prec w ->
  spec_lt (d_spec d) (d_spec w) \/ d_spec d = d_spec w.
Proof. exact (specificity_second V ds n w d). Qed.
Print Assumptions C06_specificity_second.

(* the style attribute is above any selector: when a style-attribute declaration competes at the winner's level
   of origin and importance, the winner does not come from a selector, whatever its specificity (a, b, c) *)
Theorem C06_style_attr_above_selectors (V : Type) (ds : list (decl V)) n w d :
  get (cascade ds) n = Some w -> In d ds -> d_name d = n -> prec d = prec w ->
  d_spec d = style_attr_spec -> forall a b c, d_spec w <> sel a b c.
Proof. exact (style_attr_above_selectors V ds n w d). Qed.
Print Assumptions C06_style_attr_above_selectors.

(* source order across all sheets: in the application sequence of an element (attributes, then the sheets in
   list order, the matches of a sheet in cssselect2's order), a declaration for the same property with the
   same weight as the winner is not positioned after it.  orders_distinct: cssselect2 gives each selector of a
   matcher its own order number (shared by a sheet and the sheets it @imports). *)
Theorem C06_source_order_across_sheets (V : Type) p attrs (sheets : list (sheet V)) n w d :
  orders_distinct sheets ->
  get (element_cascade p attrs sheets) n = Some w ->
  In d (app_seq p attrs sheets) -> d_name d = n -> weight_of d = weight_of w ->
  pos_le d w.
Proof. exact (source_order_across_sheets V p attrs sheets n w d). Qed.
Print Assumptions C06_source_order_across_sheets.

(* read for ordinary sheets: later sheet, else later rule, else later declaration of the rule *)
Theorem C06_later_sheet_later_rule_wins (V : Type) p attrs (sheets : list (sheet V)) n w d :
  orders_distinct sheets ->
  get (element_cascade p attrs sheets) n = Some w ->
  In d (app_seq p attrs sheets) -> d_name d = n -> weight_of d = weight_of w ->
  d_selspec d = d_spec d -> d_selspec w = d_spec w ->
  d_sheet d < d_sheet w \/
  (d_sheet d = d_sheet w /\ (d_order d < d_order w \/ (d_order d = d_order w /\ d_idx d <= d_idx w))).
Proof. exact (later_sheet_later_rule_wins V p attrs sheets n w d). Qed.
Print Assumptions C06_later_sheet_later_rule_wins.

(* ---- @import (model/C06Imports.v: flat = the walk of preprocess_stylesheet with its ignore_imports flag, an
   imported sheet being loaded into the importing sheet's matcher every time its @import is met) *)

(* loading recursively = substituting the text of every honoured @import at its place, each time, and reading the
   rules of the resulting import-free sheet in text order *)
Theorem C06_import_is_textual_substitution (V : Type) f fs allow (items : list (item V)) l :
  flat f fs allow items = Some l ->
  exists its, inline f fs allow items = Some its /\ has_import its = false /\ text_rules its = l.
Proof. exact (flat_is_textual V f fs allow items l). Qed.
Print Assumptions C06_import_is_textual_substitution.

(* a sheet importing u, v, u holds the rules of u twice, around those of v *)
Theorem C06_import_twice_is_textual (V : Type) f fs u v (a b : list (frule V)) :
  flat f fs true (file fs u) = Some a -> flat f fs true (file fs v) = Some b ->
  flat (4 + f) fs true [IImport u true; IImport v true; IImport u true] = Some (a ++ b ++ a).
Proof. exact (import_twice_is_textual V f fs u v a b). Qed.
Print Assumptions C06_import_twice_is_textual.

(* sheets loaded from texts have distinct order numbers: the hypothesis of the source-order theorems holds *)
Theorem C06_loaded_orders_distinct (V : Type) f fs (l : list (origin * list (item V))) sheets :
  load_sheets f fs l = Some sheets -> orders_distinct sheets.
Proof. exact (loaded_orders_distinct V f fs l sheets). Qed.
Print Assumptions C06_loaded_orders_distinct.

(* the last instance wins: on any application sequence P ++ B, when the segment B applied last holds a
   declaration weighing at least the winner of P (e.g. B repeats an earlier segment of P), the winner is in B *)
Theorem C06_last_segment_wins (V : Type) (P B : list (decl V)) n w0 d :
  get (cascade P) n = Some w0 -> In d B -> d_name d = n -> wle w0 d ->
  exists w, get (cascade (P ++ B)) n = Some w /\ In w B.
Proof. exact (last_segment_wins V P B n w0 d). Qed.
Print Assumptions C06_last_segment_wins.

(* ... on a loaded sheet whose rules are P ++ B (B = the rules of the @import met last): a declaration from B
   (order number above the selectors of P) that ties with the winner forces the winner to come from B too *)
Theorem C06_last_import_instance_wins (V : Type) p attrs (sheets : list (sheet V)) n w d (P : list (frule V)) :
  orders_distinct sheets ->
  get (element_cascade p attrs sheets) n = Some w ->
  In d (app_seq p attrs sheets) -> d_name d = n -> weight_of d = weight_of w ->
  d_selspec d = d_spec d -> d_selspec w = d_spec w ->
  d_sheet d = d_sheet w -> nsel P < d_order d -> nsel P < d_order w.
Proof. exact (last_import_instance_wins V p attrs sheets n w d P). Qed.
Print Assumptions C06_last_import_instance_wins.

(* add_page_declarations: the same for the @page rules that match the page type, in list order *)
Theorem C06_page_declarations_pick_max (V : Type) p (sheets : list (page_sheet V)) n :
  match get (page_cascade p sheets) n with
  | None => forall d, In d (page_seq p sheets) -> d_name d <> n
  | Some w => exists l1 l2, page_seq p sheets = l1 ++ w :: l2 /\ d_name w = n /\
                (forall d, In d l1 -> d_name d = n -> wle d w) /\
                (forall d, In d l2 -> d_name d = n -> wlt d w)
  end.
Proof. exact (page_declarations_pick_max V p sheets n). Qed.
Print Assumptions C06_page_declarations_pick_max.

(* ================================================================ 2. inheritance, initial values *)
(* parameters: INITIAL_VALUES, INHERITED, INITIAL_NOT_COMPUTED, the computer functions, the preset widths of
   AnonymousStyle; element_style = computed_from_cascaded *)

(* no winning declaration: inherited -> the parent's computed value, otherwise (and on the root) the initial value *)
Theorem C06_no_declaration_inherits_or_initial (V : Type) initial inherited not_computed compute preset_zero
        (parent : option (Z -> V)) casc k :
  lookup casc k = None -> preset_zero k = None -> not_computed k = false ->
  element_style V initial inherited not_computed compute preset_zero parent casc k =
  match parent with
  | Some p => if inherited k then p k else initial k
  | None => initial k
  end.
Proof. exact (no_declaration V initial inherited not_computed compute preset_zero parent casc k). Qed.
Print Assumptions C06_no_declaration_inherits_or_initial.

(* 'inherit' and 'initial' are honoured; 'inherit' on the root gives the initial value *)
Theorem C06_inherit_initial_keywords (V : Type) initial inherited not_computed compute preset_zero
        (parent : option (Z -> V)) casc k :
  (lookup casc k = Some CInherit ->
   element_style V initial inherited not_computed compute preset_zero parent casc k =
   match parent with Some p => p k | None => initial_value V initial not_computed compute None k end) /\
  (lookup casc k = Some CInitial ->
   element_style V initial inherited not_computed compute preset_zero parent casc k =
   initial_value V initial not_computed compute parent k).
Proof.
  exact (conj (inherit_keyword V initial inherited not_computed compute preset_zero parent casc k)
              (initial_keyword V initial inherited not_computed compute preset_zero parent casc k)).
Qed.
Print Assumptions C06_inherit_initial_keywords.

(* by induction on the depth: an inherited property that is not declared (or declared 'inherit') on the way down
   from an element to a descendant has the element's computed value at the descendant *)
Theorem C06_inherited_along_path (V : Type) initial inherited not_computed compute preset_zero
        (path : list nat) (t : tree V) (parent : option (Z -> V)) k s :
  inherited k = true -> preset_zero k = None ->
  transparent_below t path k ->
  style_at V initial inherited not_computed compute preset_zero parent t path = Some s ->
  s k = element_style V initial inherited not_computed compute preset_zero parent (t_casc t) k.
Proof. exact (inherited_along_path V initial inherited not_computed compute preset_zero path t parent k s). Qed.
Print Assumptions C06_inherited_along_path.

(* ================================================================ 3. relative values *)
Open Scope Q_scope.

(* em, ex, ch on a length property: the element's own font size *)
Theorem C06_em_against_own_font_size e v :
  px_is (length e false None (LDim v Em)) (v * own_fs e) /\
  px_is (length e false None (LDim v Ex)) (v * own_fs e * ex_ratio e) /\
  px_is (length e false None (LDim v Ch)) (v * own_fs e * ch_ratio e).
Proof. exact (conj (em_against_own_font_size e v) (ex_ch_against_own_font_size e v)). Qed.
Print Assumptions C06_em_against_own_font_size.

(* font-size: em and % against the parent's font size (the initial 16px on the root) *)
Theorem C06_font_size_em_against_parent e parent v :
  some_is (font_size e parent (FDim v Em)) (v * parent_or_initial parent) /\
  some_is (font_size e parent (FDim v Pct)) (v * parent_or_initial parent / 100).
Proof. exact (conj (font_size_em_against_parent e parent v) (font_size_percent_against_parent e parent v)). Qed.
Print Assumptions C06_font_size_em_against_parent.

(* rem: the computed font size of the root element, in every length property of every element - the root element
   included (element_env = what set_computed_styles gives the element; on the root, doc_root is its own size);
   in the root element's own font-size property: the initial 16px *)
Theorem C06_rem_against_root (root : bool) own doc_root exr chr parent v :
  (root = true -> doc_root == own) ->
  px_is (length (element_env root own doc_root exr chr) false None (LDim v Rem)) (v * doc_root) /\
  some_is (font_size (element_env root own doc_root exr chr) parent (FDim v Rem))
          (v * (if root then 16 else doc_root)).
Proof.
  exact (fun H => conj (rem_in_length_properties root own doc_root exr chr v H)
                       (font_size_rem_against_root own exr chr parent root doc_root v)).
Qed.
Print Assumptions C06_rem_against_root.

(* absolute units: 1in = 96px = 72pt = 6pc = 2.54cm = 25.4mm = 101.6q *)
Theorem C06_absolute_units e b fs v u f :
  (to_pixels u = Some f -> px_is (length e b fs (LDim v u)) (v * f)) /\
  to_pixels In_ = Some 96 /\
  (exists f, to_pixels Pt = Some f /\ f * 72 == 96) /\ (exists f, to_pixels Pc = Some f /\ f * 6 == 96) /\
  (exists f, to_pixels Cm = Some f /\ f * (254 # 100) == 96) /\
  (exists f, to_pixels Mm = Some f /\ f * (254 # 10) == 96) /\
  (exists f, to_pixels Qu = Some f /\ f * (1016 # 10) == 96).
Proof. exact (conj (absolute_units e b fs v u f) unit_table_exact). Qed.
Print Assumptions C06_absolute_units.

(* larger / smaller: monotone in the parent's size, strictly larger / smaller and positive *)
Theorem C06_larger_smaller_monotone p q :
  (p <= q -> larger p <= larger q /\ smaller p <= smaller q) /\
  (0 < p -> p < larger p /\ smaller p < p /\ 0 < smaller p).
Proof. exact (conj (larger_smaller_monotone p q) (larger_is_larger_smaller_is_smaller p)). Qed.
Print Assumptions C06_larger_smaller_monotone.

(* line-height: number kept, percentage and em against the element's own font size *)
Theorem C06_line_height e v :
  line_height e (HNumber v) = RNumber v /\
  line_height e (HPct v) = RPixels (v / 100 * own_fs e) /\
  match line_height e (HLen v Em) with RPixels q => q == v * own_fs e | _ => False end.
Proof.
  exact (conj (proj2 (line_height_percent_against_own_font_size e v))
              (conj (proj1 (line_height_percent_against_own_font_size e v))
                    (line_height_em_against_own_font_size e v))).
Qed.
Print Assumptions C06_line_height.

(* bolder / lighter: whenever the lookup table of the source answers, it answers what the CSS table says, for
   every weight 1..1000; and it answers for every weight the validator lets through (100, 200 ... 900) *)
Theorem C06_bolder_lighter_table (w : Z) :
  (1 <= w <= 1000)%Z ->
  (forall r, font_weight (Some w) WBolder = Some r -> r = css_bolder w) /\
  (forall r, font_weight (Some w) WLighter = Some r -> r = css_lighter w) /\
  (valid_weight w = true ->
   font_weight (Some w) WBolder = Some (css_bolder w) /\ font_weight (Some w) WLighter = Some (css_lighter w)).
Proof. exact (bolder_lighter_table w). Qed.
Print Assumptions C06_bolder_lighter_table.

(* ================================================================ 4. media *)
Theorem C06_media_selects (ql : list string) (dev : string) :
  evaluate_media_query ql dev = true <-> In "all"%string ql \/ In dev ql.
Proof. exact (media_selects ql dev). Qed.
Print Assumptions C06_media_selects.

(* evaluate_media_query REGENERATED from weasyprint/css/media_queries.py computes the model above, for every list
   of media types and every device type *)
Theorem C06_source_evaluate_media_query (ql : list string) (dev : string) :
  Py.run Py.real_ops GenMedia.evaluate_media_query_body
    [("query_list"%string, Py.VList (map Py.VStr ql)); ("device_media_type"%string, Py.VStr dev)]
    (fun _ r => r = Some (Py.VBool (evaluate_media_query ql dev))) (fun _ => False).
Proof. exact (C06_gen_media.gen_evaluate_media_query ql dev). Qed.
Print Assumptions C06_source_evaluate_media_query.

(* ================================================================ 5. source: the length computers
   weasyprint/css/computed_values.py: length, pixel_length, length_pixels_only, line_height as REGENERATED on every
   run (gen/GenComputed.v; ZERO_PIXELS, Dimension and the table LENGTHS_TO_PIXELS are read from css/properties.py
   and css/utils.py as they are today).  Operations C06_gen_length.lops xr cr: exact rationals, the namedtuple
   constructor, and character_ratio(style, 'x' | '0') answered by ANY two functions xr, cr of the style (the Pango
   measure is an oracle); lops2 also answers a call of `length` by running the regenerated body of length.
   style_val own rootfs root more: a style with style['font_size'] = own, style.root_style['font_size'] = rootfs,
   style.is_root_element = root and any further entries; dim v u = Dimension(v, u). *)
Open Scope Q_scope.
Open Scope string_scope.

(* the regenerated length() returns exactly what the hand model `length` (section 3 rests on it) says, for every
   keyword / number / unit, every font-size argument, pixels_only or not, every style and property name: the value
   itself (LSame) or the model's number of pixels (up to ==), bare or as Dimension(q, 'px'); it never raises *)
Theorem C06_source_length xr cr own rootfs (root : bool) more (n : string) k (v : lval) (fs : option Q) (po : bool) :
  C06_gen_length.res_ok po (C06_gen_length.lval_val k v)
    (length (C06_gen_length.env_of xr cr own rootfs root more) (String.eqb n "font_size") fs v)
    (PyLink.call_body (C06_gen_length.lops xr cr) C06_gen_length.length_fn
       [C06_gen_length.style_val own rootfs root more; Py.VStr n; C06_gen_length.lval_val k v;
        C06_gen_length.oq_val fs; Py.VBool po]).
Proof. exact (C06_gen_length.gen_length xr cr own rootfs root more n k v fs po). Qed.
Print Assumptions C06_source_length.

(* the clause, about the source itself: relative units are resolved against the font-size ARGUMENT when one is
   given (the font-size computer hands in the parent's font size), else against the element's own font size; rem
   against the root element's - on the root element its own font size, except in font-size (root_style is then the
   initial value) *)
Theorem C06_source_length_relative_units xr cr own rootfs (root : bool) more n fs po v :
  let st := C06_gen_length.style_val own rootfs root more in
  let f := match fs with Some f => f | None => own end in
  (exists q, q == v * f /\
     C06_gen_length.length_call xr cr own rootfs root more n (C06_gen_length.dim v (Py.VStr "em")) fs po =
     C06_gen_length.px_val po q) /\
  (exists q, q == v * f * xr st /\
     C06_gen_length.length_call xr cr own rootfs root more n (C06_gen_length.dim v (Py.VStr "ex")) fs po =
     C06_gen_length.px_val po q) /\
  (exists q, q == v * f * cr st /\
     C06_gen_length.length_call xr cr own rootfs root more n (C06_gen_length.dim v (Py.VStr "ch")) fs po =
     C06_gen_length.px_val po q) /\
  (exists q, q == v * (if root && negb (String.eqb n "font_size") then own else rootfs) /\
     C06_gen_length.length_call xr cr own rootfs root more n (C06_gen_length.dim v (Py.VStr "rem")) fs po =
     C06_gen_length.px_val po q).
Proof. exact (C06_gen_length.gen_length_relative_units xr cr own rootfs root more n fs po v). Qed.
Print Assumptions C06_source_length_relative_units.

(* percentages stay percentages (0% too: repair fbc7bb3) and auto / content / from-font stay themselves *)
Theorem C06_source_length_percentage_kept xr cr own rootfs (root : bool) more n fs po v k :
  C06_gen_length.length_call xr cr own rootfs root more n (C06_gen_length.dim v (Py.VStr "%")) fs po =
  C06_gen_length.dim v (Py.VStr "%") /\
  C06_gen_length.length_call xr cr own rootfs root more n (Py.VStr (C06_gen_length.kw_str k)) fs po =
  Py.VStr (C06_gen_length.kw_str k).
Proof. exact (C06_gen_length.gen_length_percentage_kept xr cr own rootfs root more n fs po v k). Qed.
Print Assumptions C06_source_length_percentage_kept.

(* absolute units: v * the entry of LENGTHS_TO_PIXELS as the source reads today (to_pixels: 1in = 96px = 72pt ...) *)
Theorem C06_source_length_absolute_units xr cr own rootfs (root : bool) more n fs po v u f :
  to_pixels u = Some f ->
  exists q, q == v * f /\
    C06_gen_length.length_call xr cr own rootfs root more n
      (C06_gen_length.dim v (Py.VStr (C06_gen_length.unit_str u))) fs po = C06_gen_length.px_val po q.
Proof. exact (C06_gen_length.gen_length_absolute_units xr cr own rootfs root more n fs po v u f). Qed.
Print Assumptions C06_source_length_absolute_units.

(* pixel_length (letter-spacing) keeps 'normal' and otherwise is length() with pixels_only; length_pixels_only
   (column-width, outline-offset) likewise: the model's answer through the regenerated length *)
Theorem C06_source_pixel_length xr cr own rootfs (root : bool) more n k v :
  C06_gen_length.res_ok true (C06_gen_length.lval_val k v)
    (length (C06_gen_length.env_of xr cr own rootfs root more) (String.eqb n "font_size") None v)
    (PyLink.call_body (C06_gen_length.lops2 xr cr) C06_gen_length.pixel_length_fn
       [C06_gen_length.style_val own rootfs root more; Py.VStr n; C06_gen_length.lval_val k v]) /\
  PyLink.call_body (C06_gen_length.lops2 xr cr) C06_gen_length.pixel_length_fn
    [C06_gen_length.style_val own rootfs root more; Py.VStr n; Py.VStr "normal"] = Py.VStr "normal" /\
  C06_gen_length.res_ok true (C06_gen_length.lval_val k v)
    (length (C06_gen_length.env_of xr cr own rootfs root more) (String.eqb n "font_size") None v)
    (PyLink.call_body (C06_gen_length.lops2 xr cr) C06_gen_length.length_pixels_only_fn
       [C06_gen_length.style_val own rootfs root more; Py.VStr n; C06_gen_length.lval_val k v]).
Proof. exact (C06_gen_length.gen_pixel_length xr cr own rootfs root more n k v). Qed.
Print Assumptions C06_source_pixel_length.

(* the regenerated line_height returns the hand model's answer: 'normal', ('NUMBER', n), ('PIXELS', px) *)
Theorem C06_source_line_height xr cr own rootfs (root : bool) more n v :
  String.eqb n "font_size" = false -> C06_gen_length.lh_wf v ->
  C06_gen_length.lh_ok (line_height (C06_gen_length.env_of xr cr own rootfs root more) v)
    (PyLink.call_body (C06_gen_length.lops2 xr cr) C06_gen_length.line_height_fn
       [C06_gen_length.style_val own rootfs root more; Py.VStr n; C06_gen_length.lh_val v]).
Proof. exact (C06_gen_length.gen_line_height xr cr own rootfs root more n v). Qed.
Print Assumptions C06_source_line_height.

(* line-height: a percentage and em against the element's own font size, a number kept (about the source) *)
Theorem C06_source_line_height_relative xr cr own rootfs (root : bool) more q :
  (exists x, x == q / 100 * own /\
     PyLink.call_body (C06_gen_length.lops2 xr cr) C06_gen_length.line_height_fn
       [C06_gen_length.style_val own rootfs root more; Py.VStr "line_height"; C06_gen_length.dim q (Py.VStr "%")] =
     Py.VList [Py.VStr "PIXELS"; Py.VNum x]) /\
  (exists x, x == q * own /\
     PyLink.call_body (C06_gen_length.lops2 xr cr) C06_gen_length.line_height_fn
       [C06_gen_length.style_val own rootfs root more; Py.VStr "line_height"; C06_gen_length.dim q (Py.VStr "em")] =
     Py.VList [Py.VStr "PIXELS"; Py.VNum x]) /\
  PyLink.call_body (C06_gen_length.lops2 xr cr) C06_gen_length.line_height_fn
    [C06_gen_length.style_val own rootfs root more; Py.VStr "line_height"; C06_gen_length.dim q Py.VNone] =
  Py.VList [Py.VStr "NUMBER"; Py.VNum q].
Proof. exact (C06_gen_length.gen_line_height_relative xr cr own rootfs root more q). Qed.
Print Assumptions C06_source_line_height_relative.

(* the regenerated font_size computer (table FONT_SIZE_KEYWORDS and INITIAL_VALUES['font_size'] as the source has
   them today; the for / else searches of larger / smaller; its call of length() runs the regenerated length)
   returns exactly the hand model `font_size`: the seven keywords, larger / smaller for EVERY parent size,
   percentages, every length unit; parent = None on the root element.  fstyle: style_val plus style.parent_style *)
Theorem C06_source_font_size xr cr own rootfs (root : bool) parent more v :
  C06_gen_font_size.fs_wf v ->
  C06_gen_font_size.fs_ok
    (font_size (C06_gen_length.env_of xr cr own rootfs root
                  (("parent_style", C06_gen_font_size.parent_val parent) :: more)) parent v)
    (PyLink.call_body (C06_gen_length.lops2 xr cr) C06_gen_font_size.font_size_fn
       [C06_gen_font_size.fstyle own rootfs root parent more; Py.VStr "font_size"; C06_gen_font_size.fs_val v]).
Proof. exact (C06_gen_font_size.gen_font_size xr cr own rootfs root parent more v). Qed.
Print Assumptions C06_source_font_size.

(* the clause, about the source: in font-size, em and % are resolved against the PARENT's font size (the initial
   16px on the root element), rem against the root element's (root_style) *)
Theorem C06_source_font_size_relative xr cr own rootfs (root : bool) parent more q :
  let call v := PyLink.call_body (C06_gen_length.lops2 xr cr) C06_gen_font_size.font_size_fn
                  [C06_gen_font_size.fstyle own rootfs root parent more; Py.VStr "font_size"; v] in
  (exists x, x == q * parent_or_initial parent /\ call (C06_gen_length.dim q (Py.VStr "em")) = Py.VNum x) /\
  (exists x, x == q * parent_or_initial parent / 100 /\ call (C06_gen_length.dim q (Py.VStr "%")) = Py.VNum x) /\
  (exists x, x == q * rootfs /\ call (C06_gen_length.dim q (Py.VStr "rem")) = Py.VNum x).
Proof. exact (C06_gen_font_size.gen_font_size_relative xr cr own rootfs root parent more q). Qed.
Print Assumptions C06_source_font_size_relative.

(* the tuple computers length_tuple (border-spacing, size, clip: pixels_only) and length_or_percentage_tuple
   (transform-origin), regenerated: for EVERY tuple of values (vals ps: each a keyword or Dimension(v, u)) the result
   is a tuple of the same length whose elements are, one by one, the hand model's answers (each_ok = Forall2 res_ok);
   nothing raises *)
Theorem C06_source_length_tuples xr cr own rootfs (root : bool) more n (ps : list (C06_gen_length.lkw * lval)) :
  (exists rs,
     PyLink.call_body (C06_gen_length.lops2 xr cr) C06_gen_tuples.length_tuple_fn
       [C06_gen_length.style_val own rootfs root more; Py.VStr n; Py.VList (C06_gen_tuples.vals ps)] = Py.VList rs /\
     C06_gen_tuples.each_ok true (C06_gen_length.env_of xr cr own rootfs root more) (String.eqb n "font_size") ps rs) /\
  (exists rs,
     PyLink.call_body (C06_gen_length.lops2 xr cr) C06_gen_tuples.length_or_percentage_tuple_fn
       [C06_gen_length.style_val own rootfs root more; Py.VStr n; Py.VList (C06_gen_tuples.vals ps)] = Py.VList rs /\
     C06_gen_tuples.each_ok false (C06_gen_length.env_of xr cr own rootfs root more) (String.eqb n "font_size") ps rs).
Proof. exact (C06_gen_tuples.gen_tuples xr cr own rootfs root more n ps). Qed.
Print Assumptions C06_source_length_tuples.

(* three more computers, regenerated (gen/GenComputedGap.v): gap (column-gap, row-gap), word_spacing and
   border_radius (the four border-*-radius properties).  gap keeps 'normal' and hands every other value to
   length(): the hand model's answer, as Dimension(q, 'px') or the value itself; it never raises *)
Theorem C06_source_gap xr cr own rootfs (root : bool) more n k v :
  C06_gen_length.res_ok false (C06_gen_length.lval_val k v)
    (length (C06_gen_length.env_of xr cr own rootfs root more) (String.eqb n "font_size") None v)
    (PyLink.call_body (C06_gen_length.lops2 xr cr) C06_gen_gap.gap_fn
       [C06_gen_length.style_val own rootfs root more; Py.VStr n; C06_gen_length.lval_val k v]) /\
  PyLink.call_body (C06_gen_length.lops2 xr cr) C06_gen_gap.gap_fn
    [C06_gen_length.style_val own rootfs root more; Py.VStr n; Py.VStr "normal"] = Py.VStr "normal".
Proof. exact (C06_gen_gap.gen_gap xr cr own rootfs root more n k v). Qed.
Print Assumptions C06_source_gap.

(* the clause: a gap given in an absolute unit computes to the fixed multiple of the pixel, never negative for a
   non-negative specified length; a percentage gap stays the percentage *)
Theorem C06_source_gap_clauses xr cr own rootfs (root : bool) more n v u f :
  (to_pixels u = Some f ->
   exists q, q == v * f /\ (0 <= v -> 0 <= q) /\
     PyLink.call_body (C06_gen_length.lops2 xr cr) C06_gen_gap.gap_fn
       [C06_gen_length.style_val own rootfs root more; Py.VStr n;
        C06_gen_length.dim v (Py.VStr (C06_gen_length.unit_str u))] =
     C06_gen_length.dim q (Py.VStr "px")) /\
  PyLink.call_body (C06_gen_length.lops2 xr cr) C06_gen_gap.gap_fn
    [C06_gen_length.style_val own rootfs root more; Py.VStr n; C06_gen_length.dim v (Py.VStr "%")] =
  C06_gen_length.dim v (Py.VStr "%").
Proof. exact (C06_gen_gap.gen_gap_clauses xr cr own rootfs root more n v u f). Qed.
Print Assumptions C06_source_gap_clauses.

(* word-spacing: 'normal' computes to the number 0, every other value to the hand model's answer in bare pixels *)
Theorem C06_source_word_spacing xr cr own rootfs (root : bool) more n k v :
  C06_gen_length.res_ok true (C06_gen_length.lval_val k v)
    (length (C06_gen_length.env_of xr cr own rootfs root more) (String.eqb n "font_size") None v)
    (PyLink.call_body (C06_gen_length.lops2 xr cr) C06_gen_gap.word_spacing_fn
       [C06_gen_length.style_val own rootfs root more; Py.VStr n; C06_gen_length.lval_val k v]) /\
  PyLink.call_body (C06_gen_length.lops2 xr cr) C06_gen_gap.word_spacing_fn
    [C06_gen_length.style_val own rootfs root more; Py.VStr n; Py.VStr "normal"] = Py.VNum 0.
Proof. exact (C06_gen_gap.gen_word_spacing xr cr own rootfs root more n k v). Qed.
Print Assumptions C06_source_word_spacing.

Theorem C06_source_word_spacing_clauses xr cr own rootfs (root : bool) more n v u f :
  to_pixels u = Some f ->
  exists q, q == v * f /\ (0 <= v -> 0 <= q) /\
    PyLink.call_body (C06_gen_length.lops2 xr cr) C06_gen_gap.word_spacing_fn
      [C06_gen_length.style_val own rootfs root more; Py.VStr n;
       C06_gen_length.dim v (Py.VStr (C06_gen_length.unit_str u))] = Py.VNum q.
Proof. exact (C06_gen_gap.gen_word_spacing_clauses xr cr own rootfs root more n v u f). Qed.
Print Assumptions C06_source_word_spacing_clauses.

(* border-*-radius: for EVERY tuple of radii the result is the tuple of the hand model's answers, one by one, each
   Dimension(q, 'px') or the percentage itself; nothing raises *)
Theorem C06_source_border_radius xr cr own rootfs (root : bool) more n (ps : list (C06_gen_length.lkw * lval)) :
  exists rs,
    PyLink.call_body (C06_gen_length.lops2 xr cr) C06_gen_gap.border_radius_fn
      [C06_gen_length.style_val own rootfs root more; Py.VStr n; Py.VList (C06_gen_tuples.vals ps)] = Py.VList rs /\
    C06_gen_tuples.each_ok false (C06_gen_length.env_of xr cr own rootfs root more) (String.eqb n "font_size") ps rs.
Proof. exact (C06_gen_gap.gen_border_radius xr cr own rootfs root more n ps). Qed.
Print Assumptions C06_source_border_radius.

(* border_width (border-*-width, column-rule-width, outline-width), regenerated whole.  Operations lops3: lops2 and
   the builtins "%replace" (str.replace: C06_gen_border_width.str_replace), "%getitem" (the entry of a mapping for a
   str key, KeyError without one), "%isinstance" with the marker "%int" (C06_gen_border_width.isint: the integers).
   For EVERY property name n and every style whose entry n.replace('width', 'style') is the border style b:
   none / hidden give 0 whatever the value; else thin / medium / thick give 1 / 3 / 5, an int is kept, and any other
   value is the hand model's answer for length() in bare pixels; nothing raises *)
Theorem C06_source_border_width xr cr own rootfs (root : bool) more n b :
  C06_gen_border_width.style_of_border own rootfs root more n b ->
  let call value :=
    PyLink.call_body (C06_gen_border_width.lops3 xr cr) C06_gen_border_width.border_width_fn
      [C06_gen_length.style_val own rootfs root more; Py.VStr n; value] in
  (C06_gen_border_width.no_border b = true -> forall x, call x = Py.VNum 0) /\
  (C06_gen_border_width.no_border b = false ->
     call (Py.VStr "thin") = Py.VNum 1 /\ call (Py.VStr "medium") = Py.VNum 3 /\ call (Py.VStr "thick") = Py.VNum 5 /\
     (forall q z, Py.as_int q = Some z -> call (Py.VNum q) = Py.VNum q) /\
     (forall k v, C06_gen_length.res_ok true (C06_gen_length.lval_val k v)
                    (length (C06_gen_length.env_of xr cr own rootfs root more) (String.eqb n "font_size") None v)
                    (call (C06_gen_length.lval_val k v)))).
Proof. exact (C06_gen_border_width.gen_border_width xr cr own rootfs root more n b). Qed.
Print Assumptions C06_source_border_width.

(* the clause: with a visible border style, a width in an absolute unit is the fixed multiple of the pixel, never
   negative for a non-negative specified length *)
Theorem C06_source_border_width_absolute xr cr own rootfs (root : bool) more n b v u f :
  C06_gen_border_width.style_of_border own rootfs root more n b -> C06_gen_border_width.no_border b = false ->
  to_pixels u = Some f ->
  exists q, q == v * f /\ (0 <= v -> 0 <= q) /\
    PyLink.call_body (C06_gen_border_width.lops3 xr cr) C06_gen_border_width.border_width_fn
      [C06_gen_length.style_val own rootfs root more; Py.VStr n;
       C06_gen_length.dim v (Py.VStr (C06_gen_length.unit_str u))] = Py.VNum q.
Proof. exact (C06_gen_border_width.gen_border_width_absolute xr cr own rootfs root more n b v u f). Qed.
Print Assumptions C06_source_border_width_absolute.

(* the key under which the style is read, for the six properties the function is registered for *)
Theorem C06_source_border_width_keys :
  C06_gen_border_width.str_replace "width" "style" "border_top_width" = "border_top_style" /\
  C06_gen_border_width.str_replace "width" "style" "border_right_width" = "border_right_style" /\
  C06_gen_border_width.str_replace "width" "style" "border_bottom_width" = "border_bottom_style" /\
  C06_gen_border_width.str_replace "width" "style" "border_left_width" = "border_left_style" /\
  C06_gen_border_width.str_replace "width" "style" "column_rule_width" = "column_rule_style" /\
  C06_gen_border_width.str_replace "width" "style" "outline_width" = "outline_style".
Proof. repeat split. Qed.
Print Assumptions C06_source_border_width_keys.

(* tab_size (tab-size), regenerated whole, operations lops3: an int (a number of spaces) is kept; every other value
   is what length() (pixels_only=False) makes of it, i.e. the hand model C06Values.length *)
Theorem C06_source_tab_size xr cr own rootfs (root : bool) more n :
  let call value :=
    PyLink.call_body (C06_gen_border_width.lops3 xr cr) C06_gen_tab_size.tab_size_fn
      [C06_gen_length.style_val own rootfs root more; Py.VStr n; value] in
  (forall q z, Py.as_int q = Some z -> call (Py.VNum q) = Py.VNum q) /\
  (forall k v, C06_gen_length.res_ok false (C06_gen_length.lval_val k v)
                 (length (C06_gen_length.env_of xr cr own rootfs root more) (String.eqb n "font_size") None v)
                 (call (C06_gen_length.lval_val k v))).
Proof. exact (C06_gen_tab_size.gen_tab_size xr cr own rootfs root more n). Qed.
Print Assumptions C06_source_tab_size.

(* a tab-size length in an absolute unit is the fixed multiple of the pixel, a Dimension in px, never negative for a
   non-negative specified length *)
Theorem C06_source_tab_size_absolute xr cr own rootfs (root : bool) more n v u f :
  to_pixels u = Some f ->
  exists q, (q == v * f)%Q /\ ((0 <= v)%Q -> (0 <= q)%Q) /\
    PyLink.call_body (C06_gen_border_width.lops3 xr cr) C06_gen_tab_size.tab_size_fn
      [C06_gen_length.style_val own rootfs root more; Py.VStr n;
       C06_gen_length.dim v (Py.VStr (C06_gen_length.unit_str u))] = C06_gen_length.dim q (Py.VStr "px").
Proof. exact (C06_gen_tab_size.gen_tab_size_absolute xr cr own rootfs root more n v u f). Qed.
Print Assumptions C06_source_tab_size_absolute.
