(* C06 - The cascade, inheritance and computed values select the right value: property theorems only.
   Models: model/C06Cascade.v (declaration_precedence, the application loops of StyleFor.__init__ and
   add_page_declarations), model/C06Inherit.v (ComputedStyle.__missing__ / AnonymousStyle), model/C06Values.v
   (length, font_size, font_weight, line_height, evaluate_media_query).  Proofs: proofs/C06_*.v. *)
From Coq Require Import ZArith QArith List Bool String.
Require Import WV.model.C06Cascade WV.model.C06Inherit WV.model.C06Values WV.model.C06Imports.
Require Import WV.proofs.C06_cascade WV.proofs.C06_order WV.proofs.C06_inherit WV.proofs.C06_values WV.proofs.C06_imports.
Require WV.base.Py WV.gen.GenCss WV.proofs.C06_gen_precedence WV.gen.GenMedia WV.proofs.C06_gen_media.
Import ListNotations.

(* ================================================================ 1. the cascade *)
Open Scope Z_scope.

(* For EVERY sequence of declarations applied by the loop, and every property name: the cascaded style holds the
   last declaration of maximal weight, weight = (declaration_precedence origin importance, specificity) compared
   as Python tuples.   wle d w : weight d <= weight w;  wlt d w : weight d < weight w. *)
Theorem C06_fold_picks_max (V : Type) (ds : list (decl V)) (n : Z) :
  match get (cascade ds) n with
  | None => forall d, In d ds -> d_name d <> n
  | Some w => exists l1 l2, ds = l1 ++ w :: l2 /\ d_name w = n /\
                (forall d, In d l1 -> d_name d = n -> wle d w) /\
                (forall d, In d l2 -> d_name d = n -> wlt d w)
  end.
Proof. exact (fold_picks_max V ds n). Qed.
Print Assumptions C06_fold_picks_max.

(* ... i.e. the last element of the stable sort by weight of the declarations for that name *)
Theorem C06_fold_is_stable_sort_max (V : Type) (ds : list (decl V)) (n : Z) :
  get (cascade ds) n = last_opt (stable_sort weight_of weight_leb (named d_name n ds)).
Proof. exact (fold_is_stable_sort_max V ds n). Qed.
Print Assumptions C06_fold_is_stable_sort_max.

(* user agent < user < author < author !important < user !important  (importance is ignored for the user agent) *)
Theorem C06_precedence_order (i j : bool) :
  declaration_precedence UA i = declaration_precedence UA j /\
  declaration_precedence UA i < declaration_precedence User false /\
  declaration_precedence User false < declaration_precedence Author false /\
  declaration_precedence Author false < declaration_precedence Author true /\
  declaration_precedence Author true < declaration_precedence User true.
Proof. exact (precedence_order i j). Qed.
Print Assumptions C06_precedence_order.

(* the string-level transliteration (tied to the source by exhaustive direct calls) is that table *)
Theorem C06_declaration_precedence_strings (o : origin) (i : bool) :
  declaration_precedence_str (origin_str o) i = Some (declaration_precedence o i).
Proof. exact (precedence_str_origin o i). Qed.
Print Assumptions C06_declaration_precedence_strings.

(* the function REGENERATED from weasyprint/css/__init__.py on every run (gen/GenCss.v, interpreter base/Py.v)
   computes that table for every origin string and importance flag; its assert fires exactly when the string is
   not an origin *)
Theorem C06_source_declaration_precedence (o : string) (imp : bool) :
  Py.run Py.real_ops GenCss.declaration_precedence_body
    [("origin"%string, Py.VStr o); ("importance"%string, Py.VBool imp)]
    (fun _ r => exists z, declaration_precedence_str o imp = Some z /\ r = Some (Py.VNum (inject_Z z)))
    (fun m => declaration_precedence_str o imp = None /\ m = "AssertionError"%string).
Proof. exact (C06_gen_precedence.gen_declaration_precedence o imp). Qed.
Print Assumptions C06_source_declaration_precedence.

Theorem C06_source_declaration_precedence_origin (o : origin) (imp : bool) :
  Py.run Py.real_ops GenCss.declaration_precedence_body
    [("origin"%string, Py.VStr (origin_str o)); ("importance"%string, Py.VBool imp)]
    (fun _ r => r = Some (Py.VNum (inject_Z (declaration_precedence o imp)))) (fun _ => False).
Proof. exact (C06_gen_precedence.gen_declaration_precedence_origin o imp). Qed.
Print Assumptions C06_source_declaration_precedence_origin.

(* origin and importance come first: whatever the specificities and the order, no declaration for the property
   has a higher precedence than the winner *)
Theorem C06_origin_importance_first (V : Type) (ds : list (decl V)) n w d :
  get (cascade ds) n = Some w -> In d ds -> d_name d = n -> prec d <= prec w.
Proof. exact (origin_importance_first V ds n w d). Qed.
Print Assumptions C06_origin_importance_first.

(* then specificity *)
Theorem C06_specificity_second (V : Type) (ds : list (decl V)) n w d :
  get (cascade ds) n = Some w -> In d ds -> d_name d = n -> prec d = prec w ->
  spec_lt (d_spec d) (d_spec w) \/ d_spec d = d_spec w.
Proof. exact (specificity_second V ds n w d). Qed.
Print Assumptions C06_specificity_second.

(* the style attribute is above any selector: when a style-attribute declaration competes at the winner's level
   of origin and importance, the winner does not come from a selector, whatever its specificity (a, b, c) *)
Theorem C06_style_attr_above_selectors (V : Type) (ds : list (decl V)) n w d :
  get (cascade ds) n = Some w -> In d ds -> d_name d = n -> prec d = prec w ->
  d_spec d = style_attr_spec -> forall a b c, d_spec w <> sel a b c.
Proof. exact (style_attr_above_selectors V ds n w d). Qed.
Print Assumptions C06_style_attr_above_selectors.

(* source order across all sheets: in the application sequence of an element (attributes, then the sheets in
   list order, the matches of a sheet in cssselect2's order), a declaration for the same property with the
   same weight as the winner is not positioned after it.  orders_distinct: cssselect2 gives each selector of a
   matcher its own order number (shared by a sheet and the sheets it @imports). *)
Theorem C06_source_order_across_sheets (V : Type) p attrs (sheets : list (sheet V)) n w d :
  orders_distinct sheets ->
  get (element_cascade p attrs sheets) n = Some w ->
  In d (app_seq p attrs sheets) -> d_name d = n -> weight_of d = weight_of w ->
  pos_le d w.
Proof. exact (source_order_across_sheets V p attrs sheets n w d). Qed.
Print Assumptions C06_source_order_across_sheets.

(* read for ordinary sheets: later sheet, else later rule, else later declaration of the rule *)
Theorem C06_later_sheet_later_rule_wins (V : Type) p attrs (sheets : list (sheet V)) n w d :
  orders_distinct sheets ->
  get (element_cascade p attrs sheets) n = Some w ->
  In d (app_seq p attrs sheets) -> d_name d = n -> weight_of d = weight_of w ->
  d_selspec d = d_spec d -> d_selspec w = d_spec w ->
  d_sheet d < d_sheet w \/
  (d_sheet d = d_sheet w /\ (d_order d < d_order w \/ (d_order d = d_order w /\ d_idx d <= d_idx w))).
Proof. exact (later_sheet_later_rule_wins V p attrs sheets n w d). Qed.
Print Assumptions C06_later_sheet_later_rule_wins.

(* ---- @import (model/C06Imports.v: flat = the walk of preprocess_stylesheet with its ignore_imports flag, an
   imported sheet being loaded into the importing sheet's matcher every time its @import is met) *)

(* loading recursively = substituting the text of every honoured @import at its place, each time, and reading the
   rules of the resulting import-free sheet in text order *)
Theorem C06_import_is_textual_substitution (V : Type) f fs allow (items : list (item V)) l :
  flat f fs allow items = Some l ->
  exists its, inline f fs allow items = Some its /\ has_import its = false /\ text_rules its = l.
Proof. exact (flat_is_textual V f fs allow items l). Qed.
Print Assumptions C06_import_is_textual_substitution.

(* a sheet importing u, v, u holds the rules of u twice, around those of v *)
Theorem C06_import_twice_is_textual (V : Type) f fs u v (a b : list (frule V)) :
  flat f fs true (file fs u) = Some a -> flat f fs true (file fs v) = Some b ->
  flat (4 + f) fs true [IImport u true; IImport v true; IImport u true] = Some (a ++ b ++ a).
Proof. exact (import_twice_is_textual V f fs u v a b). Qed.
Print Assumptions C06_import_twice_is_textual.

(* sheets loaded from texts have distinct order numbers: the hypothesis of the source-order theorems holds *)
Theorem C06_loaded_orders_distinct (V : Type) f fs (l : list (origin * list (item V))) sheets :
  load_sheets f fs l = Some sheets -> orders_distinct sheets.
Proof. exact (loaded_orders_distinct V f fs l sheets). Qed.
Print Assumptions C06_loaded_orders_distinct.

(* the last instance wins: on any application sequence P ++ B, when the segment B applied last holds a
   declaration weighing at least the winner of P (e.g. B repeats an earlier segment of P), the winner is in B *)
Theorem C06_last_segment_wins (V : Type) (P B : list (decl V)) n w0 d :
  get (cascade P) n = Some w0 -> In d B -> d_name d = n -> wle w0 d ->
  exists w, get (cascade (P ++ B)) n = Some w /\ In w B.
Proof. exact (last_segment_wins V P B n w0 d). Qed.
Print Assumptions C06_last_segment_wins.

(* ... on a loaded sheet whose rules are P ++ B (B = the rules of the @import met last): a declaration from B
   (order number above the selectors of P) that ties with the winner forces the winner to come from B too *)
Theorem C06_last_import_instance_wins (V : Type) p attrs (sheets : list (sheet V)) n w d (P : list (frule V)) :
  orders_distinct sheets ->
  get (element_cascade p attrs sheets) n = Some w ->
  In d (app_seq p attrs sheets) -> d_name d = n -> weight_of d = weight_of w ->
  d_selspec d = d_spec d -> d_selspec w = d_spec w ->
  d_sheet d = d_sheet w -> nsel P < d_order d -> nsel P < d_order w.
Proof. exact (last_import_instance_wins V p attrs sheets n w d P). Qed.
Print Assumptions C06_last_import_instance_wins.

(* add_page_declarations: the same for the @page rules that match the page type, in list order *)
Theorem C06_page_declarations_pick_max (V : Type) p (sheets : list (page_sheet V)) n :
  match get (page_cascade p sheets) n with
  | None => forall d, In d (page_seq p sheets) -> d_name d <> n
  | Some w => exists l1 l2, page_seq p sheets = l1 ++ w :: l2 /\ d_name w = n /\
                (forall d, In d l1 -> d_name d = n -> wle d w) /\
                (forall d, In d l2 -> d_name d = n -> wlt d w)
  end.
Proof. exact (page_declarations_pick_max V p sheets n). Qed.
Print Assumptions C06_page_declarations_pick_max.

(* ================================================================ 2. inheritance, initial values *)
(* parameters: INITIAL_VALUES, INHERITED, INITIAL_NOT_COMPUTED, the computer functions, the preset widths of
   AnonymousStyle; element_style = computed_from_cascaded *)

(* no winning declaration: inherited -> the parent's computed value, otherwise (and on the root) the initial value *)
Theorem C06_no_declaration_inherits_or_initial (V : Type) initial inherited not_computed compute preset_zero
        (parent : option (Z -> V)) casc k :
  lookup casc k = None -> preset_zero k = None -> not_computed k = false ->
  element_style V initial inherited not_computed compute preset_zero parent casc k =
  match parent with
  | Some p => if inherited k then p k else initial k
  | None => initial k
  end.
Proof. exact (no_declaration V initial inherited not_computed compute preset_zero parent casc k). Qed.
Print Assumptions C06_no_declaration_inherits_or_initial.

(* 'inherit' and 'initial' are honoured; 'inherit' on the root gives the initial value *)
Theorem C06_inherit_initial_keywords (V : Type) initial inherited not_computed compute preset_zero
        (parent : option (Z -> V)) casc k :
  (lookup casc k = Some CInherit ->
   element_style V initial inherited not_computed compute preset_zero parent casc k =
   match parent with Some p => p k | None => initial_value V initial not_computed compute None k end) /\
  (lookup casc k = Some CInitial ->
   element_style V initial inherited not_computed compute preset_zero parent casc k =
   initial_value V initial not_computed compute parent k).
Proof.
  exact (conj (inherit_keyword V initial inherited not_computed compute preset_zero parent casc k)
              (initial_keyword V initial inherited not_computed compute preset_zero parent casc k)).
Qed.
Print Assumptions C06_inherit_initial_keywords.

(* by induction on the depth: an inherited property that is not declared (or declared 'inherit') on the way down
   from an element to a descendant has the element's computed value at the descendant *)
Theorem C06_inherited_along_path (V : Type) initial inherited not_computed compute preset_zero
        (path : list nat) (t : tree V) (parent : option (Z -> V)) k s :
  inherited k = true -> preset_zero k = None ->
  transparent_below t path k ->
  style_at V initial inherited not_computed compute preset_zero parent t path = Some s ->
  s k = element_style V initial inherited not_computed compute preset_zero parent (t_casc t) k.
Proof. exact (inherited_along_path V initial inherited not_computed compute preset_zero path t parent k s). Qed.
Print Assumptions C06_inherited_along_path.

(* ================================================================ 3. relative values *)
Open Scope Q_scope.

(* em, ex, ch on a length property: the element's own font size *)
Theorem C06_em_against_own_font_size e v :
  px_is (length e false None (LDim v Em)) (v * own_fs e) /\
  px_is (length e false None (LDim v Ex)) (v * own_fs e * ex_ratio e) /\
  px_is (length e false None (LDim v Ch)) (v * own_fs e * ch_ratio e).
Proof. exact (conj (em_against_own_font_size e v) (ex_ch_against_own_font_size e v)). Qed.
Print Assumptions C06_em_against_own_font_size.

(* font-size: em and % against the parent's font size (the initial 16px on the root) *)
Theorem C06_font_size_em_against_parent e parent v :
  some_is (font_size e parent (FDim v Em)) (v * parent_or_initial parent) /\
  some_is (font_size e parent (FDim v Pct)) (v * parent_or_initial parent / 100).
Proof. exact (conj (font_size_em_against_parent e parent v) (font_size_percent_against_parent e parent v)). Qed.
Print Assumptions C06_font_size_em_against_parent.

(* rem: the computed font size of the root element, in every length property of every element - the root element
   included (element_env = what set_computed_styles gives the element; on the root, doc_root is its own size);
   in the root element's own font-size property: the initial 16px *)
Theorem C06_rem_against_root (root : bool) own doc_root exr chr parent v :
  (root = true -> doc_root == own) ->
  px_is (length (element_env root own doc_root exr chr) false None (LDim v Rem)) (v * doc_root) /\
  some_is (font_size (element_env root own doc_root exr chr) parent (FDim v Rem))
          (v * (if root then 16 else doc_root)).
Proof.
  exact (fun H => conj (rem_in_length_properties root own doc_root exr chr v H)
                       (font_size_rem_against_root own exr chr parent root doc_root v)).
Qed.
Print Assumptions C06_rem_against_root.

(* absolute units: 1in = 96px = 72pt = 6pc = 2.54cm = 25.4mm = 101.6q *)
Theorem C06_absolute_units e b fs v u f :
  (to_pixels u = Some f -> px_is (length e b fs (LDim v u)) (v * f)) /\
  to_pixels In_ = Some 96 /\
  (exists f, to_pixels Pt = Some f /\ f * 72 == 96) /\ (exists f, to_pixels Pc = Some f /\ f * 6 == 96) /\
  (exists f, to_pixels Cm = Some f /\ f * (254 # 100) == 96) /\
  (exists f, to_pixels Mm = Some f /\ f * (254 # 10) == 96) /\
  (exists f, to_pixels Qu = Some f /\ f * (1016 # 10) == 96).
Proof. exact (conj (absolute_units e b fs v u f) unit_table_exact). Qed.
Print Assumptions C06_absolute_units.

(* larger / smaller: monotone in the parent's size, strictly larger / smaller and positive *)
Theorem C06_larger_smaller_monotone p q :
  (p <= q -> larger p <= larger q /\ smaller p <= smaller q) /\
  (0 < p -> p < larger p /\ smaller p < p /\ 0 < smaller p).
Proof. exact (conj (larger_smaller_monotone p q) (larger_is_larger_smaller_is_smaller p)). Qed.
Print Assumptions C06_larger_smaller_monotone.

(* line-height: number kept, percentage and em against the element's own font size *)
Theorem C06_line_height e v :
  line_height e (HNumber v) = RNumber v /\
  line_height e (HPct v) = RPixels (v / 100 * own_fs e) /\
  match line_height e (HLen v Em) with RPixels q => q == v * own_fs e | _ => False end.
Proof.
  exact (conj (proj2 (line_height_percent_against_own_font_size e v))
              (conj (proj1 (line_height_percent_against_own_font_size e v))
                    (line_height_em_against_own_font_size e v))).
Qed.
Print Assumptions C06_line_height.

(* bolder / lighter: whenever the lookup table of the source answers, it answers what the CSS table says, for
   every weight 1..1000; and it answers for every weight the validator lets through (100, 200 ... 900) *)
Theorem C06_bolder_lighter_table (w : Z) :
  (1 <= w <= 1000)%Z ->
  (forall r, font_weight (Some w) WBolder = Some r -> r = css_bolder w) /\
  (forall r, font_weight (Some w) WLighter = Some r -> r = css_lighter w) /\
  (valid_weight w = true ->
   font_weight (Some w) WBolder = Some (css_bolder w) /\ font_weight (Some w) WLighter = Some (css_lighter w)).
Proof. exact (bolder_lighter_table w). Qed.
Print Assumptions C06_bolder_lighter_table.

(* ================================================================ 4. media *)
Theorem C06_media_selects (ql : list string) (dev : string) :
  evaluate_media_query ql dev = true <-> In "all"%string ql \/ In dev ql.
Proof. exact (media_selects ql dev). Qed.
Print Assumptions C06_media_selects.

(* evaluate_media_query REGENERATED from weasyprint/css/media_queries.py computes the model above, for every list
   of media types and every device type *)
Theorem C06_source_evaluate_media_query (ql : list string) (dev : string) :
  Py.run Py.real_ops GenMedia.evaluate_media_query_body
    [("query_list"%string, Py.VList (map Py.VStr ql)); ("device_media_type"%string, Py.VStr dev)]
    (fun _ r => r = Some (Py.VBool (evaluate_media_query ql dev))) (fun _ => False).
Proof. exact (C06_gen_media.gen_evaluate_media_query ql dev). Qed.
Print Assumptions C06_source_evaluate_media_query.
