(* C03 - Content stays on its page and every page makes progress: property theorems only.
   Model: coq/model/Frag2.v, tied to /repo by the frag2-render correspondence. *)
From Coq Require Import ZArith List Bool.
Require Import WV.model.Frag2 WV.proofs.C01_defs WV.proofs.C03_fit WV.proofs.C03_thm WV.proofs.C04_breaks.
Import ListNotations.
Open Scope Z_scope.

(* One layout call with [bs] pixels reserved at the bottom by the ancestors: every line of the fragment ends above
   page_bottom - bs, except possibly the first line when the page was empty; the fragment's own bottom
   padding and border are non-negative. *)
Theorem C03_lines_fit_or_first : forall b c, wf_box b = true -> wf_geom b = true ->
  forall p m bs sk pie a r A B C, 0 <= bs -> bcl c b p m bs sk pie a = (Some r, A, B, C) ->
    fitl c pie (page_bottom c - bs) (frag_lines (b_frag r)) /\ geom_ok (b_frag r).
Proof. exact bcl_fit. Qed.
Print Assumptions C03_lines_fit_or_first.

(* find_earlier_page_break only removes lines from the end of the page *)
Theorem C03_find_earlier_keeps_a_prefix newc newc' res :
  find_earlier newc = Some (newc', res) -> exists t, lines_l newc = lines_l newc' ++ t.
Proof. exact (find_earlier_lines_prefix newc newc' res). Qed.
Print Assumptions C03_find_earlier_keeps_a_prefix.

(* All pages of a document, any fuel, any page height (also pages shorter than a line): on every page each line
   but the first ends above the page bottom. *)
Theorem C03_pages_fit : forall fuel root H lh ltr i resume np right,
  wf_box root = true -> wf_geom root = true ->
  Forall (page_fits H lh)
         (match paginate_loop fuel root H lh ltr i resume np right with PDone l | PFuel l _ | PStuck l => l end).
Proof. exact pages_fit. Qed.
Print Assumptions C03_pages_fit.

(* blank pages only for a side mismatch, never two in a row *)
Theorem C03_blank_only_when_required ltr np right :
  is_blank ltr np right = true ->
  (exists w, want_side ltr np = Some w /\ w <> right) /\ is_blank ltr np (negb right) = false.
Proof. intros X. split; [exact (blank_only_for_side_mismatch ltr np right X)|exact (no_two_blank_pages ltr np right X)]. Qed.
Print Assumptions C03_blank_only_when_required.

Definition ex_doc3 : box :=
  Blk (mkStyle 0 0 0 3 0 4 BAuto BAuto BAuto 1 1 true)
      [Blk (mkStyle 5 (-5) 0 0 0 0 BAuto BAuto BAuto 1 1 false) [Lines [1; 2; 3; 4; 5]] false] true.
Example C03_example :
  wf_box ex_doc3 = true /\ wf_geom ex_doc3 = true /\
  exists pages, paginate_res ex_doc3 25 10 = PDone pages /\ (length pages > 1)%nat.
Proof. split; [reflexivity|]. split; [reflexivity|]. eexists. split; [vm_compute; reflexivity|]. simpl. auto with arith. Qed.

(* ---- every page makes progress; pagination terminates within a bound that depends on the document only ---- *)
Require Import WV.proofs.C01_blocks WV.proofs.C01_thm WV.proofs.C03_progress_pos WV.proofs.C03_progress_step
        WV.proofs.C03_progress.

(* [pos root sk] = number of units (boxes and lines) of the document that lie before the resume point sk; on valid
   resume points it orders exactly like the lexicographic document order on skip stacks *)
Theorem C03_position_is_document_order : forall b sk sk', wf_skip b sk -> wf_skip b sk' ->
  (later b sk sk' <-> (pos b sk < pos b sk')%nat).
Proof. exact later_iff_pos. Qed.
Print Assumptions C03_position_is_document_order.

(* find_earlier_page_break never moves the break back to (or before) the point where the fragment started:
   it never gives back everything *)
Theorem C03_find_earlier_keeps_something : forall b sk f kept res,
  wf_box b = true -> wf_skip b sk -> cinv b sk f -> find_earlier_f f = Some (kept, res) ->
  (pos b sk < pos b (Some res))%nat.
Proof. exact find_earlier_later. Qed.
Print Assumptions C03_find_earlier_keeps_something.

(* One page: the root laid out on an EMPTY page (page_is_empty = true, the way the page loop calls it) from any
   valid resume point, for any page height (also shorter than a line), line height, margins, break values,
   orphans/widows: the call never aborts, it conserves the content, the returned resume point is valid and
   STRICTLY LATER in document order than the one the page started from. *)
Theorem C03_page_makes_progress : forall root c p m bs resume a,
  wf_box root = true -> is_blk root = true -> wf_skip root resume ->
  exists r A B C, bcl c root p m bs resume true a = (Some r, A, B, C) /\
    wf_res root (b_resume r) /\
    fwords (b_frag r) ++ words_res root (b_resume r) = words_from root resume /\
    (b_resume r = None \/
     exists s, b_resume r = Some s /\ (pos root resume < pos root (Some s))%nat /\ later root resume (Some s)).
Proof. exact page_makes_progress. Qed.
Print Assumptions C03_page_makes_progress.

(* The page loop terminates: with fuel >= page_bound root = 2 * (number of boxes + number of lines) it returns
   PDone (neither PFuel nor PStuck) and at most page_bound root pages, blank pages included. *)
Theorem C03_pagination_terminates : forall root H lh ltr,
  wf_box root = true -> is_blk root = true ->
  forall fuel, (page_bound root <= fuel)%nat ->
  exists pages, paginate_loop fuel root H lh ltr 0 None None true = PDone pages /\
                (length pages <= page_bound root)%nat.
Proof. exact pagination_terminates. Qed.
Print Assumptions C03_pagination_terminates.

(* the same from every state the loop can be in (page number, resume point, pending forced break, side) *)
Theorem C03_pagination_terminates_from : forall root H lh ltr fuel i resume np right,
  wf_box root = true -> is_blk root = true -> wf_skip root resume ->
  (2 * (bsize root - pos root resume) <= fuel)%nat ->
  exists pages, paginate_loop fuel root H lh ltr i resume np right = PDone pages /\
                (length pages <= 2 * (bsize root - pos root resume))%nat.
Proof. exact pagination_terminates_from. Qed.
Print Assumptions C03_pagination_terminates_from.

(* the root is never aborted on an empty page: PStuck is impossible for any fuel *)
Theorem C03_never_stuck : forall fuel root H lh ltr i resume np right,
  wf_box root = true -> is_blk root = true -> wf_skip root resume ->
  match paginate_loop fuel root H lh ltr i resume np right with PStuck _ => False | _ => True end.
Proof. exact never_stuck. Qed.
Print Assumptions C03_never_stuck.

(* with the 500 pages of fuel of [paginate_res]: complete pagination of every document whose bound is <= 500 *)
Theorem C03_paginate_res_done : forall root H lh,
  wf_box root = true -> is_blk root = true -> (page_bound root <= page_fuel)%nat ->
  exists pages, paginate_res root H lh = PDone pages /\ paginate root H lh = pages /\
                (length pages <= page_bound root)%nat /\ pages_words pages = bwords root.
Proof. exact paginate_res_done. Qed.
Print Assumptions C03_paginate_res_done.

(* beyond the bound the result does not depend on the fuel *)
Theorem C03_fuel_irrelevant : forall root H lh ltr fuel fuel',
  wf_box root = true -> is_blk root = true -> (page_bound root <= fuel)%nat -> (fuel <= fuel')%nat ->
  paginate_loop fuel' root H lh ltr 0 None None true = paginate_loop fuel root H lh ltr 0 None None true.
Proof. exact pagination_fuel_irrelevant. Qed.
Print Assumptions C03_fuel_irrelevant.

(* non-vacuity: nested blocks, an empty block, break-inside: avoid, forced left/right breaks (blank pages),
   orphans = widows = 2; page heights 5 (shorter than the line height 10), 30, 1000 *)
Example C03_progress_example :
  wf_box pg_doc = true /\ is_blk pg_doc = true /\ page_bound pg_doc = 44%nat /\ (page_bound pg_doc <= page_fuel)%nat /\
  (exists pages, paginate_res pg_doc 5 10 = PDone pages /\ length pages = 14%nat) /\
  (exists pages, paginate_res pg_doc 30 10 = PDone pages /\ length pages = 7%nat) /\
  (exists pages, paginate_res pg_doc 1000 10 = PDone pages /\ length pages = 4%nat).
Proof. exact pagination_terminates_example. Qed.
