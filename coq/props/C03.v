(* C03 - Content stays on its page and every page makes progress: property theorems only.
   Model: coq/model/Frag2.v, tied to /repo by the frag2-render correspondence. *)
From Coq Require Import ZArith List Bool.
Require Import WV.model.Frag2 WV.proofs.C01_defs WV.proofs.C03_fit WV.proofs.C03_thm WV.proofs.C04_breaks.
Import ListNotations.
Open Scope Z_scope.

(* One layout call with [bs] pixels reserved at the bottom by the ancestors: every line of the fragment ends above
   page_bottom - bs, except possibly the first line when the page was empty; the fragment's own bottom
   padding and border are non-negative. *)
Theorem C03_lines_fit_or_first : forall b c, wf_box b = true -> wf_geom b = true ->
  forall p m bs sk pie a r A B C, 0 <= bs -> bcl c b p m bs sk pie a = (Some r, A, B, C) ->
    fitl c pie (page_bottom c - bs) (frag_lines (b_frag r)) /\ geom_ok (b_frag r).
Proof. exact bcl_fit. Qed.
Print Assumptions C03_lines_fit_or_first.

(* find_earlier_page_break only removes lines from the end of the page *)
Theorem C03_find_earlier_keeps_a_prefix newc newc' res :
  find_earlier newc = Some (newc', res) -> exists t, lines_l newc = lines_l newc' ++ t.
Proof. exact (find_earlier_lines_prefix newc newc' res). Qed.
Print Assumptions C03_find_earlier_keeps_a_prefix.

(* All pages of a document, any fuel, any page height (also pages shorter than a line): on every page each line
   but the first ends above the page bottom. *)
Theorem C03_pages_fit : forall fuel root H lh ltr i resume np right,
  wf_box root = true -> wf_geom root = true ->
  Forall (page_fits H lh)
         (match paginate_loop fuel root H lh ltr i resume np right with PDone l | PFuel l _ | PStuck l => l end).
Proof. exact pages_fit. Qed.
Print Assumptions C03_pages_fit.

(* blank pages only for a side mismatch, never two in a row *)
Theorem C03_blank_only_when_required ltr np right :
  is_blank ltr np right = true ->
  (exists w, want_side ltr np = Some w /\ w <> right) /\ is_blank ltr np (negb right) = false.
Proof. intros X. split; [exact (blank_only_for_side_mismatch ltr np right X)|exact (no_two_blank_pages ltr np right X)]. Qed.
Print Assumptions C03_blank_only_when_required.

Definition ex_doc3 : box :=
  Blk (mkStyle 0 0 0 3 0 4 BAuto BAuto BAuto 1 1 true)
      [Blk (mkStyle 5 (-5) 0 0 0 0 BAuto BAuto BAuto 1 1 false) [Lines [1; 2; 3; 4; 5]] false] true.
Example C03_example :
  wf_box ex_doc3 = true /\ wf_geom ex_doc3 = true /\
  exists pages, paginate_res ex_doc3 25 10 = PDone pages /\ (length pages > 1)%nat.
Proof. split; [reflexivity|]. split; [reflexivity|]. eexists. split; [vm_compute; reflexivity|]. simpl. auto with arith. Qed.

(* ---- every page makes progress; pagination terminates within a bound that depends on the document only ---- *)
Require Import WV.proofs.C01_blocks WV.proofs.C01_thm WV.proofs.C03_progress_pos WV.proofs.C03_progress_step
        WV.proofs.C03_progress.

(* [pos root sk] = number of units (boxes and lines) of the document that lie before the resume point sk; on valid
   resume points it orders exactly like the lexicographic document order on skip stacks *)
Theorem C03_position_is_document_order : forall b sk sk', wf_skip b sk -> wf_skip b sk' ->
  (later b sk sk' <-> (pos b sk < pos b sk')%nat).
Proof. exact later_iff_pos. Qed.
Print Assumptions C03_position_is_document_order.

(* find_earlier_page_break never moves the break back to (or before) the point where the fragment started:
   it never gives back everything *)
Theorem C03_find_earlier_keeps_something : forall b sk f kept res,
  wf_box b = true -> wf_skip b sk -> cinv b sk f -> find_earlier_f f = Some (kept, res) ->
  (pos b sk < pos b (Some res))%nat.
Proof. exact find_earlier_later. Qed.
Print Assumptions C03_find_earlier_keeps_something.

(* One page: the root laid out on an EMPTY page (page_is_empty = true, the way the page loop calls it) from any
   valid resume point, for any page height (also shorter than a line), line height, margins, break values,
   orphans/widows: the call never aborts, it conserves the content, the returned resume point is valid and
   STRICTLY LATER in document order than the one the page started from. *)
Theorem C03_page_makes_progress : forall root c p m bs resume a,
  wf_box root = true -> is_blk root = true -> wf_skip root resume ->
  exists r A B C, bcl c root p m bs resume true a = (Some r, A, B, C) /\
    wf_res root (b_resume r) /\
    fwords (b_frag r) ++ words_res root (b_resume r) = words_from root resume /\
    (b_resume r = None \/
     exists s, b_resume r = Some s /\ (pos root resume < pos root (Some s))%nat /\ later root resume (Some s)).
Proof. exact page_makes_progress. Qed.
Print Assumptions C03_page_makes_progress.

(* The page loop terminates: with fuel >= page_bound root = 2 * (number of boxes + number of lines) it returns
   PDone (neither PFuel nor PStuck) and at most page_bound root pages, blank pages included. *)
Theorem C03_pagination_terminates : forall root H lh ltr,
  wf_box root = true -> is_blk root = true ->
  forall fuel, (page_bound root <= fuel)%nat ->
  exists pages, paginate_loop fuel root H lh ltr 0 None None true = PDone pages /\
                (length pages <= page_bound root)%nat.
Proof. exact pagination_terminates. Qed.
Print Assumptions C03_pagination_terminates.

(* the same from every state the loop can be in (page number, resume point, pending forced break, side) *)
Theorem C03_pagination_terminates_from : forall root H lh ltr fuel i resume np right,
  wf_box root = true -> is_blk root = true -> wf_skip root resume ->
  (2 * (bsize root - pos root resume) <= fuel)%nat ->
  exists pages, paginate_loop fuel root H lh ltr i resume np right = PDone pages /\
                (length pages <= 2 * (bsize root - pos root resume))%nat.
Proof. exact pagination_terminates_from. Qed.
Print Assumptions C03_pagination_terminates_from.

(* the root is never aborted on an empty page: PStuck is impossible for any fuel *)
Theorem C03_never_stuck : forall fuel root H lh ltr i resume np right,
  wf_box root = true -> is_blk root = true -> wf_skip root resume ->
  match paginate_loop fuel root H lh ltr i resume np right with PStuck _ => False | _ => True end.
Proof. exact never_stuck. Qed.
Print Assumptions C03_never_stuck.

(* with the 500 pages of fuel of [paginate_res]: complete pagination of every document whose bound is <= 500 *)
Theorem C03_paginate_res_done : forall root H lh,
  wf_box root = true -> is_blk root = true -> (page_bound root <= page_fuel)%nat ->
  exists pages, paginate_res root H lh = PDone pages /\ paginate root H lh = pages /\
                (length pages <= page_bound root)%nat /\ pages_words pages = bwords root.
Proof. exact paginate_res_done. Qed.
Print Assumptions C03_paginate_res_done.

(* beyond the bound the result does not depend on the fuel *)
Theorem C03_fuel_irrelevant : forall root H lh ltr fuel fuel',
  wf_box root = true -> is_blk root = true -> (page_bound root <= fuel)%nat -> (fuel <= fuel')%nat ->
  paginate_loop fuel' root H lh ltr 0 None None true = paginate_loop fuel root H lh ltr 0 None None true.
Proof. exact pagination_fuel_irrelevant. Qed.
Print Assumptions C03_fuel_irrelevant.

(* non-vacuity: nested blocks, an empty block, break-inside: avoid, forced left/right breaks (blank pages),
   orphans = widows = 2; page heights 5 (shorter than the line height 10), 30, 1000 *)
Example C03_progress_example :
  wf_box pg_doc = true /\ is_blk pg_doc = true /\ page_bound pg_doc = 44%nat /\ (page_bound pg_doc <= page_fuel)%nat /\
  (exists pages, paginate_res pg_doc 5 10 = PDone pages /\ length pages = 14%nat) /\
  (exists pages, paginate_res pg_doc 30 10 = PDone pages /\ length pages = 7%nat) /\
  (exists pages, paginate_res pg_doc 1000 10 = PDone pages /\ length pages = 4%nat).
Proof. exact pagination_terminates_example. Qed.

(* ================= source: the arithmetic of the fragmentation model, REGENERATED from /repo on every run =========
   (gen/GenLayoutCtx.v from weasyprint/layout/__init__.py, gen/GenBreakLine.v from weasyprint/layout/block.py) *)
From Coq Require Import String.
Require WV.base.Py WV.base.PyLink WV.gen.GenLayoutCtx WV.gen.GenBreakLine.
Require WV.proofs.C03_gen_overflows WV.proofs.C03_gen_break_line WV.proofs.C03_gen_find_earlier.
Module OV := WV.proofs.C03_gen_overflows.
Module BL := WV.proofs.C03_gen_break_line.
Module FE := WV.proofs.C03_gen_find_earlier.

(* LayoutContext.overflows(bottom, position_y), for every pair of rationals: position_y > bottom * (1 + 1/10^9)
   (the literal 1e-9 read as the exact rational) *)
Theorem C03_source_overflows_exact O (HO : Py.ops_ok O) (b y : QArith_base.Q) :
  Py.run O GenLayoutCtx.ctx_overflows_body
    [("bottom"%string, Py.VNum b); ("position_y"%string, Py.VNum y)]
    (fun _ r => r = Some (Py.VBool (negb (QArith_base.Qle_bool y (QArith_base.Qmult b
                   (QArith_base.Qplus (QArith_base.Qmake 1%Z 1%positive) (QArith_base.Qmake 1%Z 1000000000%positive)))))))
    (fun _ => False).
Proof. exact (OV.gen_overflows_exact O HO b y). Qed.
Print Assumptions C03_source_overflows_exact.

(* ... which on integers, and on the multiples a/D, c/D of any 1/D, is the test `overflows` of the model
   (c > a for a >= 0, c >= a for a < 0), for -10^9 <= a < 10^9 *)
Theorem C03_source_overflows_is_model O (HO : Py.ops_ok O) (a c : Z) (D : positive) :
  (-1000000000 <= a < 1000000000)%Z ->
  Py.run O GenLayoutCtx.ctx_overflows_body
    [("bottom"%string, Py.VNum (QArith_base.Qmake a D)); ("position_y"%string, Py.VNum (QArith_base.Qmake c D))]
    (fun _ r => r = Some (Py.VBool (overflows a c))) (fun _ => False).
Proof. exact (OV.gen_overflows_grid O HO a c D). Qed.
Print Assumptions C03_source_overflows_is_model.

(* outside that range the two differ (bottom = 10^9, y = 10^9 + 1; bottom = -10^9 - 1, y = -10^9 - 2) *)
Theorem C03_source_overflows_out_of_range_refuted :
  (exists b y : Z, ~ (-1000000000 <= b < 1000000000)%Z /\
     OV.src_overflows (QArith_base.inject_Z b) (QArith_base.inject_Z y) = false /\ overflows b y = true) /\
  (exists b y : Z, ~ (-1000000000 <= b < 1000000000)%Z /\
     OV.src_overflows (QArith_base.inject_Z b) (QArith_base.inject_Z y) = true /\ overflows b y = false).
Proof. exact OV.gen_overflows_out_of_range_refuted. Qed.
Print Assumptions C03_source_overflows_out_of_range_refuted.

(* LayoutContext.overflows_page(bottom_space, position_y), its call of self.overflows linked to the regenerated body:
   what the model writes `overflows (page_bottom c - bottom_space) y`, on the multiples of any 1/D *)
Theorem C03_source_overflows_page_is_model n (pb bs y : Z) (D : positive) (extra : list (String.string * Py.val)) :
  (-1000000000 <= pb - bs < 1000000000)%Z ->
  Py.run (PyLink.linked GenLayoutCtx.GenLayoutCtx_table (S (S n))) GenLayoutCtx.ctx_overflows_page_body
    [("self"%string, Py.VObj (("page_bottom"%string, Py.VNum (QArith_base.Qmake pb D)) :: extra));
     ("bottom_space"%string, Py.VNum (QArith_base.Qmake bs D)); ("position_y"%string, Py.VNum (QArith_base.Qmake y D))]
    (fun _ r => r = Some (Py.VBool (overflows (pb - bs)%Z y))) (fun _ => False).
Proof. exact (OV.gen_overflows_page_grid n pb bs y D extra). Qed.
Print Assumptions C03_source_overflows_page_is_model.

(* _break_line, whole: for every list of placed lines, every list of lines still to come, orphans, widows >= 1 and
   page_is_empty, the regenerated body answers (abort, stop, resume_at) and leaves in new_children what
   `break_line` of the model decides: None = (True, False, resume_at), nothing removed; Some drop = (False, True,
   {index: skip_stack}) and the last `drop` lines removed.  remove_placeholders is any function (rp1, rp2, rp3: the
   state of context / absolute_boxes / fixed_boxes after the call); BL.dict1 k v is the display {k: v} *)
Theorem C03_source_break_line_is_model
        (T : Type) (kids_of : T -> list Py.val) (extra : T -> list (String.string * Py.val)) rp1 rp2 rp3
        (O : Py.qops) (HO : Py.ops_ok O)
        (HR : forall cx l ab fb,
            Py.ocall O "remove_placeholders"%string [Py.VObj cx; Py.VList l; Py.VList ab; Py.VList fb] =
            Py.VList [Py.VNone; Py.VObj (rp1 cx l ab fb); Py.VList (rp2 cx l ab fb); Py.VList (rp3 cx l ab fb)])
        (HD : forall k v, Py.ocall O "%dict1"%string [k; v] = BL.dict1 k v)
        st sx bx lc lx rest pie ix sk ra cx (ncs : list T) ab fb :
  BL.not_err sk -> (1 <= s_widows st)%nat ->
  Py.run O GenBreakLine.break_line_body (BL.bl_env T kids_of extra st sx bx lc lx rest pie ix sk ra cx ncs ab fb)
    (fun rho r =>
       match break_line st (List.length ncs) (List.length rest) pie with
       | None => r = Some (Py.VList [Py.VBool true; Py.VBool false; ra]) /\
                 Py.lookup "new_children"%string rho = Py.VList (map (BL.vline T kids_of extra) ncs)
       | Some drop => r = Some (Py.VList [Py.VBool false; Py.VBool true; BL.dict1 (Py.vint ix) sk]) /\
                      Py.lookup "new_children"%string rho =
                      Py.VList (map (BL.vline T kids_of extra) (removelast_n drop ncs))
       end)
    (fun _ => False).
Proof. exact (BL.gen_break_line T kids_of extra rp1 rp2 rp3 O HO HR HD st sx bx lc lx rest pie ix sk ra cx ncs ab fb). Qed.
Print Assumptions C03_source_break_line_is_model.

(* find_earlier_page_break, the case of a list of line boxes (its first statement): it returns what
   `find_earlier_f` of the model returns on a fragment whose children are these lines (None, or the first
   len - widows lines and the place to resume), for every orphans >= 1, widows and list of lines *)
Theorem C03_source_find_earlier_lines_is_model rp1 rp2 rp3 (O : Py.qops) (HO : Py.ops_ok O)
        (on wn : nat) (sx lcf bxs : list (String.string * Py.val))
        (HR : forall cx l ab fb,
            Py.ocall O "remove_placeholders"%string [Py.VObj cx; Py.VList l; Py.VList ab; Py.VList fb] =
            Py.VList [Py.VNone; Py.VObj (rp1 cx l ab fb); Py.VList (rp2 cx l ab fb); Py.VList (rp3 cx l ab fb)])
        (HD : forall k v, Py.ocall O "%dict1"%string [k; v] = BL.dict1 k v)
        (HI : forall d, Py.ocall O "%isinstance"%string [FE.enc_line on wn sx d; Py.VObj lcf] = Py.VBool true)
        st i y mt mb pt pb bt bb h (d0 : FE.ldata) (ds : list FE.ldata) cx ab fb :
  (1 <= on)%nat ->
  Py.run O GenBreakLine.find_earlier_lines_body
    [("context"%string, Py.VObj cx); ("children"%string, Py.VList (map (FE.enc_line on wn sx) (d0 :: ds)));
     ("absolute_boxes"%string, Py.VList ab); ("fixed_boxes"%string, Py.VList fb);
     ("boxes"%string, Py.VObj (("LineBox"%string, Py.VObj lcf) :: bxs))]
    (fun _ r =>
       exists enc : frag -> Py.val,
         (forall d, enc (FE.mk_line on wn d) = FE.enc_line on wn sx d) /\
         r = Some (FE.enc_found (find_earlier_f (FBlk st i y mt mb pt pb bt bb h (map (FE.mk_line on wn) (d0 :: ds)))) enc))
    (fun _ => False).
Proof.
  exact (FE.gen_find_earlier rp1 rp2 rp3 O HO on wn sx lcf bxs HR HD HI st i y mt mb pt pb bt bb h d0 ds cx ab fb).
Qed.
Print Assumptions C03_source_find_earlier_lines_is_model.

(* the hypotheses of the two theorems are satisfiable (an operations record, a run of each body) *)
Example C03_source_examples :
  (Py.ops_ok BL.ex_ops /\
   (forall cx l ab fb, Py.ocall BL.ex_ops "remove_placeholders"%string [Py.VObj cx; Py.VList l; Py.VList ab; Py.VList fb] =
                       Py.VList [Py.VNone; Py.VObj cx; Py.VList ab; Py.VList fb]) /\
   (forall k v, Py.ocall BL.ex_ops "%dict1"%string [k; v] = BL.dict1 k v)) /\
  break_line (mkStyle 0 0 0 0 0 0 BAuto BAuto BAuto 2 3 false) 5 1 false = Some 1%nat /\
  find_earlier_f (FBlk (mkStyle 0 0 0 0 0 0 BAuto BAuto BAuto 2 2 false) 0 0%Z 0%Z 0%Z 0%Z 0%Z 0%Z 0%Z 50%Z (map (FE.mk_line 2 2) FE.ex_lines)) =
    Some (map (FE.mk_line 2 2) (firstn 3 FE.ex_lines), SChild 0 (Some (SLine 3))).
Proof.
  split; [exact BL.ex_ops_hyps|]. split; [exact (proj1 BL.gen_break_line_example)|exact (proj1 FE.gen_find_earlier_example)].
Qed.
Print Assumptions C03_source_examples.
