(* C03 - Content stays on its page and every page makes progress: property theorems only.
   Model: coq/model/Frag2.v, tied to /repo by the frag2-render correspondence. *)
From Coq Require Import ZArith List Bool.
Require Import WV.model.Frag2 WV.proofs.C01_defs WV.proofs.C03_fit WV.proofs.C03_thm WV.proofs.C04_breaks.
Import ListNotations.
Open Scope Z_scope.

(* One layout call with [bs] pixels reserved at the bottom by the ancestors: every line of the fragment ends above
   page_bottom - bs, except possibly the first line when the page was empty; the fragment's own bottom
   padding and border are non-negative. *)
Theorem C03_lines_fit_or_first : forall b c, wf_box b = true -> wf_geom b = true ->
  forall p m bs sk pie a r A B C, 0 <= bs -> bcl c b p m bs sk pie a = (Some r, A, B, C) ->
    fitl c pie (page_bottom c - bs) (frag_lines (b_frag r)) /\ geom_ok (b_frag r).
Proof. exact bcl_fit. Qed.
Print Assumptions C03_lines_fit_or_first.

(* find_earlier_page_break only removes lines from the end of the page *)
Theorem C03_find_earlier_keeps_a_prefix newc newc' res :
  find_earlier newc = Some (newc', res) -> exists t, lines_l newc = lines_l newc' ++ t.
Proof. exact (find_earlier_lines_prefix newc newc' res). Qed.
Print Assumptions C03_find_earlier_keeps_a_prefix.

(* All pages of a document, any fuel, any page height (also pages shorter than a line): on every page each line
   but the first ends above the page bottom. *)
Theorem C03_pages_fit : forall fuel root H lh ltr i resume np right,
  wf_box root = true -> wf_geom root = true ->
  Forall (page_fits H lh)
         (match paginate_loop fuel root H lh ltr i resume np right with PDone l | PFuel l _ | PStuck l => l end).
Proof. exact pages_fit. Qed.
Print Assumptions C03_pages_fit.

(* blank pages only for a side mismatch, never two in a row *)
Theorem C03_blank_only_when_required ltr np right :
  is_blank ltr np right = true ->
  (exists w, want_side ltr np = Some w /\ w <> right) /\ is_blank ltr np (negb right) = false.
Proof. intros X. split; [exact (blank_only_for_side_mismatch ltr np right X)|exact (no_two_blank_pages ltr np right X)]. Qed.
Print Assumptions C03_blank_only_when_required.

Definition ex_doc3 : box :=
  Blk (mkStyle 0 0 0 3 0 4 BAuto BAuto BAuto 1 1 true)
      [Blk (mkStyle 5 (-5) 0 0 0 0 BAuto BAuto BAuto 1 1 false) [Lines [1; 2; 3; 4; 5]] false] true.
Example C03_example :
  wf_box ex_doc3 = true /\ wf_geom ex_doc3 = true /\
  exists pages, paginate_res ex_doc3 25 10 = PDone pages /\ (length pages > 1)%nat.
Proof. split; [reflexivity|]. split; [reflexivity|]. eexists. split; [vm_compute; reflexivity|]. simpl. auto with arith. Qed.
