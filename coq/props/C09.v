(* C09 - Inline formatting: greedy line breaking inside the available width. Property theorems only
   (models: model/C09*.v, proofs: proofs/C09_*.v). *)
From Coq Require Import String ZArith QArith List Bool.
Require Import WV.model.C09Line WV.model.C09Spec WV.model.C09Judge WV.model.C09Align.
Require Import WV.proofs.C09_pango WV.proofs.C09_sfl WV.proofs.C09_align.
Import ListNotations.
Open Scope Q_scope.

(* ---- 1. first line of a text run: split_first_line (model/C09Line.v) with Pango = the reference breaker G ----
   texts are lists over letters (1em), Sp, Nl, Shy (U+00AD), Hy (U+2010); `simple` = letters and spaces only;
   `words ws` = every word is a non-empty list of letters; join = the words separated by single spaces;
   wlen ws k = characters of the k first words on one line. *)

(* the "short text" shortcut of step 1 is sound: when Pango breaks a prefix of the text into two lines, it
   breaks the whole text at the same place, with the same width - for every text of letters and spaces, every
   prefix length, width and font size *)
Theorem C09_shortcut_is_sound fs ins (t : text) (m : nat) (w : Q) l r wd :
  0 <= fs -> simple t -> (m <= length t)%nat ->
  G fs ins (firstn m t) (Some w) false = (l, Some r, wd) ->
  G fs ins t (Some w) false = (l, Some r, wd).
Proof. exact (G_stable fs ins t m w l r wd). Qed.
Print Assumptions C09_shortcut_is_sound.

(* the breaker the implementation relies on is greedy on every list of words: it takes k words, the k+1 first
   words do not fit, and the k first words fit unless k = 1 (one unbreakable unit); the line is reported without
   the space that follows it *)
Theorem C09_first_fit_is_greedy fs ins (ws : list text) (w : Q) :
  0 <= fs -> words ws -> ws <> [] ->
  let n := length ws in let t := join ws in
  exists k, (1 <= k <= n)%nat /\
    ((2 <= k)%nat -> fits_chars fs w (wlen ws k)) /\
    ((k < n)%nat -> ~ fits_chars fs w (wlen ws (k + 1))) /\
    G fs ins t (Some w) false =
      if (k =? n)%nat then (length t, None, inject_Z (Z.of_nat (length t)) * fs)
      else ((wlen ws k + 1)%nat, Some (wlen ws k + 1)%nat, inject_Z (Z.of_nat (wlen ws k)) * fs).
Proof. exact (G_words fs ins ws w). Qed.
Print Assumptions C09_first_fit_is_greedy.

(* break_only_at_opportunities, white-space: nowrap | pre (or no width): for ALL texts of the alphabet the model of
   split_first_line returns the first paragraph as one line whatever the width, and resumes right after the
   preserved newline *)
Theorem C09_no_wrap_breaks_only_at_newline st (t : text) mw ils mini :
  text_wrap (st_ws st) = false \/ mw = None ->
  let fs := st_fs st in
  let p := para t in
  sfl_model st t mw ils mini =
  if has_ch is_nl t then
    let p' := if space_collapse (st_ws st) then rstrip p else p in
    Out p' (nbytes p') (Some (nbytes p + 1)%Z) (inject_Z (visw p') * fs)
  else Out t (nbytes t) None (inject_Z (visw t) * fs).
Proof. exact (no_wrap_only_newline st t mw ils mini). Qed.
Print Assumptions C09_no_wrap_breaks_only_at_newline.

(* the faithful model REFUTES greedy / opportunity statements in presence of soft hyphens and break-all; each
   witness is replayed on the implementation by the check (open findings F111-F113) *)
Theorem C09_greedy_refuted_overflow_runs_to_soft_hyphen :
  exists st t w, let o := sfl_model st t (Some w) true false in
    o = Out (tx "aaaaaaaaaa bbb ccc ddd ee-="%string) 27 (Some 27%Z) 260 /\ w < 260 /\
    sp_end (spec_first_line st t (Some w) true false) = 10%nat /\
    spec_mask st t (Some w) true false o <> 0%nat.
Proof. exact greedy_refuted_overflow_runs_to_soft_hyphen. Qed.
Print Assumptions C09_greedy_refuted_overflow_runs_to_soft_hyphen.

Theorem C09_soft_hyphen_break_without_hyphen_refuted :
  exists st t w, let o := sfl_model st t (Some w) true false in
    o = Out (tx "aaaaaa-"%string) 8 (Some 8%Z) 60 /\
    sp_hyphen (spec_first_line st t (Some w) true false) = true /\
    spec_mask st t (Some w) true false o <> 0%nat.
Proof. exact soft_hyphen_break_without_hyphen. Qed.
Print Assumptions C09_soft_hyphen_break_without_hyphen_refuted.

Theorem C09_break_all_greedy_refuted_hyphen_room :
  exists st t w, let o := sfl_model st t (Some w) true false in
    o = Out (tx "aa"%string) 2 (Some 2%Z) 20 /\
    sp_end (spec_first_line st t (Some w) true false) = 3%nat /\
    spec_mask st t (Some w) true false o <> 0%nat.
Proof. exact break_all_reserves_hyphen_room. Qed.
Print Assumptions C09_break_all_greedy_refuted_hyphen_room.

(* ---- 2. offsets of a line: text_align / the rtl mirror of get_next_linebox / justify_line / add_word_spacing ---- *)

(* 0 <= offset <= available - width (0 when the line is as wide as the available width or wider), whatever
   text-align, text-align-last, direction, white-space *)
Theorem C09_text_align_offset_bounds w av a l rtl col last :
  let o := fst (text_align w av a l rtl col last) in
  0 <= o /\ (w <= av -> o <= av - w) /\ (av <= w -> o == 0).
Proof. exact (text_align_bounds w av a l rtl col last). Qed.
Print Assumptions C09_text_align_offset_bounds.

(* center leaves the same room on both sides *)
Theorem C09_text_align_center_halves w av a l rtl col last :
  effective a l last = ACenter -> w < av ->
  let o := fst (text_align w av a l rtl col last) in
  o == (av - w) / 2 /\ o + w + o == av.
Proof. exact (text_align_center w av a l rtl col last). Qed.
Print Assumptions C09_text_align_center_halves.

(* after line.translate(offset_x) the line box lies inside the block, in ltr and in rtl (x = left bound) *)
Theorem C09_line_inside_block rtl x w av a l col last :
  w <= av ->
  let o := fst (text_align w av a l rtl col last) in
  let left := line_left rtl (if rtl then x + av else x) o w in
  x <= left /\ left + w <= x + av.
Proof. exact (line_inside_block rtl x w av a l col last). Qed.
Print Assumptions C09_line_inside_block.

(* rtl is the mirror image: the same offset is taken from the right bound *)
Theorem C09_rtl_mirror x w av o :
  line_left true (x + av) o w + w == x + av - o /\ line_left false x o w == x + o.
Proof. exact (rtl_mirror x w av o). Qed.
Print Assumptions C09_rtl_mirror.

(* left / right are physical sides whatever the direction *)
Theorem C09_left_right_physical w av l col rtl :
  w < av ->
  line_left rtl (if rtl then av else 0) (fst (text_align w av ALeft l rtl col false)) w == 0 /\
  line_left rtl (if rtl then av else 0) (fst (text_align w av ARight l rtl col false)) w + w == av.
Proof. exact (text_align_left_right_physical w av l col rtl). Qed.
Print Assumptions C09_left_right_physical.

(* justification: a line with at least one expandable space ends up exactly as wide as the available width
   (extra = available - width), for every tree of text / inline / atomic boxes, ltr or rtl *)
Theorem C09_justify_fills line extra :
  (0 < count_spaces line)%nat -> box_w (justify_line line extra) == box_w line + extra.
Proof. exact (justify_fills line extra). Qed.
Print Assumptions C09_justify_fills.

(* ... every box is shifted by the spacing added before it and widened by the spacing added inside it *)
Theorem C09_add_word_spacing_accounts b js adv :
  let '(b', a') := add_word_spacing b js adv in
  a' == adv + js * nq (count_spaces b) /\
  box_w b' == box_w b + js * nq (count_spaces b) /\
  (if moved b then box_x b' == box_x b + adv else box_x b' == box_x b) /\
  count_spaces b' = count_spaces b /\ moved b' = moved b.
Proof. exact (aws_spec b js adv). Qed.
Print Assumptions C09_add_word_spacing_accounts.

(* ... so boxes laid side by side stay side by side: no gap and no overlap is introduced (ltr) *)
Theorem C09_justify_keeps_boxes_adjacent js l x a :
  adjacent x l -> adjacent (x + a) (fst (ltr_go (awsf js) l a)).
Proof. exact (ltr_go_adjacent js l x a). Qed.
Print Assumptions C09_justify_keeps_boxes_adjacent.

(* ---- 3. stacking: iter_line_boxes / line_box_verticality (baseline-aligned children) ---- *)

(* consecutive lines are stacked without gap or overlap: y_{i+1} = y_i + h_i *)
Theorem C09_lines_stack hs y i yi hi yj hj :
  nth_error (stack y hs) i = Some (yi, hi) -> nth_error (stack y hs) (S i) = Some (yj, hj) -> yj = yi + hi.
Proof. exact (stack_consecutive hs y i yi hi yj hj). Qed.
Print Assumptions C09_lines_stack.

(* a line box is at least one line-height (the strut) high *)
Theorem C09_line_height_at_least_strut strut children : snd strut <= line_height_of strut children.
Proof. exact (line_height_ge_strut strut children). Qed.
Print Assumptions C09_line_height_at_least_strut.

(* one font size per paragraph: every line is exactly one line-height high and line i starts at y0 + i * lh *)
Theorem C09_uniform_lines strut children lh n y i yi hi :
  Forall (fun c => fst c == fst strut /\ snd c == snd strut) children ->
  line_height_of strut children == snd strut /\
  (nth_error (stack y (repeat lh n)) i = Some (yi, hi) -> yi == y + inject_Z (Z.of_nat i) * lh /\ hi = lh).
Proof. exact (uniform_lines strut children lh n y i yi hi). Qed.
Print Assumptions C09_uniform_lines.
