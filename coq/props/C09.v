(* C09 - Inline formatting: greedy line breaking inside the available width. Property theorems only
   (models: model/C09*.v, proofs: proofs/C09_*.v). *)
From Coq Require Import String ZArith QArith List Bool.
Require Import WV.model.C09Line WV.model.C09Spec WV.model.C09Judge WV.model.C09Align WV.model.C09Float.
Require Import WV.proofs.C09_pango WV.proofs.C09_greedy WV.proofs.C09_sfl WV.proofs.C09_align WV.proofs.C09_float.
Import ListNotations.
Open Scope Q_scope.

(* ---- 1. first line of a text run: split_first_line (model/C09Line.v) with Pango = the reference breaker G ----
   texts are lists over letters (1em), Sp, Nl, Shy (U+00AD), Hy (U+2010); `simple` = letters and spaces only;
   `words ws` = every word is a non-empty list of letters; join = the words separated by single spaces;
   wlen ws k = characters of the k first words on one line. *)

(* the "short text" shortcut of step 1 is sound: when Pango breaks a prefix of the text into two lines, it
   breaks the whole text at the same place, with the same width - for every text of letters and spaces, every
   prefix length, width and font size *)
Theorem C09_shortcut_is_sound fs ins (t : text) (m : nat) (w : Q) l r wd :
  0 <= fs -> simple t -> (m <= length t)%nat ->
  G fs ins (firstn m t) (Some w) false = (l, Some r, wd) ->
  G fs ins t (Some w) false = (l, Some r, wd).
Proof. exact (G_stable fs ins t m w l r wd). Qed.
Print Assumptions C09_shortcut_is_sound.

(* the breaker the implementation relies on is greedy on every list of words: it takes k words, the k+1 first
   words do not fit, and the k first words fit unless k = 1 (one unbreakable unit); the line is reported without
   the space that follows it *)
Theorem C09_first_fit_is_greedy fs ins (ws : list text) (w : Q) :
  0 <= fs -> words ws -> ws <> [] ->
  let n := length ws in let t := join ws in
  exists k, (1 <= k <= n)%nat /\
    ((2 <= k)%nat -> fits_chars fs w (wlen ws k)) /\
    ((k < n)%nat -> ~ fits_chars fs w (wlen ws (k + 1))) /\
    G fs ins t (Some w) false =
      if (k =? n)%nat then (length t, None, inject_Z (Z.of_nat (length t)) * fs)
      else ((wlen ws k + 1)%nat, Some (wlen ws k + 1)%nat, inject_Z (Z.of_nat (wlen ws k)) * fs).
Proof. exact (G_words fs ins ws w). Qed.
Print Assumptions C09_first_fit_is_greedy.

(* first_line_is_greedy, white-space: normal | pre-line | pre-wrap.  For every text satisfying the decidable guard
   `greedy_guard` (model/C09Spec.v: ordinary text = non-empty words of letters separated by single spaces; a
   wrapping white-space value; font size > 0; available width < 2^21 px; and either words may not be broken -
   no break-all, no overflow-wrap at a line start - or the first word fits), for every width (negative ones
   included, avail = max(0, width)), font size, is_line_start, minimum, overflow-wrap, hyphens value:
   the model of split_first_line instantiated with the reference breaker G returns the k first words, where
   the k+1 first words do not fit and the k first words fit unless k = 1 (one unbreakable word); the line, the
   white space skipped after it and the rest are the text (nothing lost, nothing duplicated); the resume index is
   the end of the skipped white space (None when the line is the whole text); the reported length and width are
   those of the line (under pre-wrap the preserved space hangs at the end of the line and is part of it).
   The shortcut of step 1, the look-ahead of step 3 and steps 4-5 never change the answer. *)
Theorem C09_first_line_is_greedy st (t : text) (mw : Q) (ils mini : bool) :
  greedy_guard st t mw ils mini = true ->
  let ws := words_of t in let n := length ws in let fs := st_fs st in let collapse := space_collapse (st_ws st) in
  exists k, (1 <= k <= n)%nat /\
    ((2 <= k)%nat -> fits_chars fs (avail mw) (wlen ws k)) /\
    ((k < n)%nat -> ~ fits_chars fs (avail mw) (wlen ws (k + 1))) /\
    let line := line_of collapse ws k in let skipped := skipped_of collapse ws k in let rest := rest_of ws k in
    t = (line ++ skipped ++ rest)%list /\
    forallb is_sp skipped = true /\
    sfl_model st t (Some mw) ils mini =
      Out line (nbytes line) (if (k =? n)%nat then None else Some (nbytes (line ++ skipped)%list))
          (inject_Z (visw line) * fs).
Proof. exact (first_line_is_greedy st t mw ils mini). Qed.
Print Assumptions C09_first_line_is_greedy.

(* lines_cover_text (the inline-level conservation C01 relies on): under the guard for every line (ordinary text,
   wrapping white-space, font size > 0, width < 2^21, words may not be broken or every word fits), calling the model
   of split_first_line again from each resume point terminates - the remaining text gets strictly shorter, a fuel of
   length + 1 is enough - without exception, every line is non-empty, only spaces are skipped between two lines, and
   the lines with the skipped spaces, in order, are exactly the text *)
Theorem C09_lines_cover_text st (t : text) (mw : Q) (mini : bool) :
  greedy_guard_all st t mw mini = true ->
  exists ls, split_lines (S (length t)) st t mw mini = Some ls /\
             flatten ls = t /\ Forall line_ok ls /\ (1 <= length ls <= length (words_of t))%nat.
Proof. exact (lines_cover_text st t mw mini). Qed.
Print Assumptions C09_lines_cover_text.

(* the word-level form of the same theorem *)
Theorem C09_first_line_is_greedy_on_words st (ws : list text) (mw : Q) (ils mini : bool) :
  words ws -> ws <> [] -> 0 < st_fs st -> text_wrap (st_ws st) = true -> Qle_bool two21 mw = false ->
  fits_chars (st_fs st) mw (wlen ws 1) \/ can_break_inside st ils mini = false ->
  let fs := st_fs st in let n := length ws in let collapse := space_collapse (st_ws st) in
  exists k, (1 <= k <= n)%nat /\
    ((2 <= k)%nat -> fits_chars fs (avail mw) (wlen ws k)) /\
    ((k < n)%nat -> ~ fits_chars fs (avail mw) (wlen ws (k + 1))) /\
    sfl_model st (join ws) (Some mw) ils mini =
      Out (line_of collapse ws k) (Z.of_nat (length (line_of collapse ws k)))
          (if (k =? n)%nat then None
           else Some (Z.of_nat (length (line_of collapse ws k) + length (skipped_of collapse ws k))))
          (inject_Z (Z.of_nat (length (line_of collapse ws k))) * fs).
Proof. exact (sfl_words st ws mw ils mini). Qed.
Print Assumptions C09_first_line_is_greedy_on_words.

(* break_only_at_opportunities, white-space: nowrap | pre (or no width): for ALL texts of the alphabet the model of
   split_first_line returns the first paragraph as one line whatever the width, and resumes right after the
   preserved newline *)
Theorem C09_no_wrap_breaks_only_at_newline st (t : text) mw ils mini :
  text_wrap (st_ws st) = false \/ mw = None ->
  let fs := st_fs st in
  let p := para t in
  sfl_model st t mw ils mini =
  if has_ch is_nl t then
    let p' := if space_collapse (st_ws st) then rstrip p else p in
    Out p' (nbytes p') (Some (nbytes p + 1)%Z) (inject_Z (visw p') * fs)
  else Out t (nbytes t) None (inject_Z (visw t) * fs).
Proof. exact (no_wrap_only_newline st t mw ils mini). Qed.
Print Assumptions C09_no_wrap_breaks_only_at_newline.

(* clauses that the faithful model used to REFUTE (findings F110-F115, soft hyphens and word-break: break-all) and
   that hold again since the repairs in /repo: on each former counter-example the model of the repaired
   split_first_line returns the greedy line of the specification (greedy_on st t w o: the outcome is o and
   spec_mask = 0).  These are instances: soft hyphens and breaks inside words stay outside the guard of
   C09_first_line_is_greedy (they are tied per case by the correspondence stream). *)
Theorem C09_overflowing_word_stops_before_later_soft_hyphen :
  greedy_on (st_normal OwNormal false) (tx "aaaaaaaaaa bbb ccc ddd ee-ff gg"%string) 70
            (Out (tx "aaaaaaaaaa"%string) 10 (Some 11%Z) 100).
Proof. exact overflowing_word_stops_before_later_soft_hyphen. Qed.
Print Assumptions C09_overflowing_word_stops_before_later_soft_hyphen.
Theorem C09_soft_hyphen_break_shows_hyphen :
  greedy_on (st_normal OwNormal false) (tx "aaaaaa-bb cc"%string) 70 (Out (tx "aaaaaa-="%string) 8 (Some 8%Z) 70).
Proof. exact soft_hyphen_break_shows_hyphen. Qed.
Print Assumptions C09_soft_hyphen_break_shows_hyphen.
Theorem C09_break_all_fills_the_line :
  greedy_on (st_normal OwNormal true) (tx "aaaaaaa"%string) 30 (Out (tx "aaa"%string) 3 (Some 3%Z) 30).
Proof. exact break_all_fills_the_line. Qed.
Print Assumptions C09_break_all_fills_the_line.
Theorem C09_text_fitting_without_trailing_space_is_not_hyphenated :
  greedy_on (st_normal OwNormal false) (tx "gb-g "%string) 30 (Out (tx "gb-g "%string) 6 None 40).
Proof. exact text_fitting_without_trailing_space_is_not_hyphenated. Qed.
Print Assumptions C09_text_fitting_without_trailing_space_is_not_hyphenated.
Theorem C09_soft_hyphen_keeps_room_under_overflow_wrap :
  greedy_on (st_normal OwAnywhere false) (tx "aa aaaa-bbb cc"%string) 70 (Out (tx "aa"%string) 2 (Some 3%Z) 20).
Proof. exact soft_hyphen_keeps_room_under_overflow_wrap. Qed.
Print Assumptions C09_soft_hyphen_keeps_room_under_overflow_wrap.

(* still refuted by the faithful model: beyond Pango's 2^21 px limit no width is set at all (the guard's width clause) *)
Theorem C09_greedy_refuted_beyond_pango_width_limit :
  exists st t w, let o := sfl_model st t (Some w) true false in
    o = Out (tx "a b"%string) 3 None 6291456 /\ w < 6291456 /\
    sp_end (spec_first_line st t (Some w) true false) = 1%nat /\
    spec_mask st t (Some w) true false o <> 0%nat.
Proof. exact greedy_refuted_beyond_pango_width_limit. Qed.
Print Assumptions C09_greedy_refuted_beyond_pango_width_limit.

(* inputs neither under the guard nor in a refuted class: checked on instances (and per case by the correspondence
   run), not proved for all inputs; proofs/C09_sfl.v says what is missing for each *)
Theorem C09_greedy_with_newline_partial :
  sfl_model (st_ws_ow WsPreLine OwNormal) (tx "aa bb/cc dd"%string) (Some 60) true false = Out (tx "aa bb"%string) 5 (Some 6%Z) 50 /\
  sfl_model (st_ws_ow WsPreLine OwNormal) (tx "aa bb/cc dd"%string) (Some 40) true false = Out (tx "aa"%string) 2 (Some 3%Z) 20.
Proof. exact greedy_with_newline_partial. Qed.
Print Assumptions C09_greedy_with_newline_partial.
Theorem C09_overflow_wrap_char_break_partial :
  let o := sfl_model (st_ws_ow WsNormal OwAnywhere) (tx "aaaaaaa bb"%string) (Some 30) true false in
  o = Out (tx "aaa"%string) 3 (Some 3%Z) 30 /\
  spec_mask (st_ws_ow WsNormal OwAnywhere) (tx "aaaaaaa bb"%string) (Some 30) true false o = 0%nat.
Proof. exact overflow_wrap_char_break_partial. Qed.
Print Assumptions C09_overflow_wrap_char_break_partial.
Theorem C09_edge_spaces_partial :
  let o := sfl_model (st_ws_ow WsNormal OwNormal) (tx " aaa bb"%string) (Some 30) false false in
  o = Out [] 0 (Some 1%Z) 0 /\ spec_mask (st_ws_ow WsNormal OwNormal) (tx " aaa bb"%string) (Some 30) false false o = 0%nat.
Proof. exact edge_spaces_partial. Qed.
Print Assumptions C09_edge_spaces_partial.

(* ---- 2. offsets of a line: text_align / the rtl mirror of get_next_linebox / justify_line / add_word_spacing ---- *)

(* 0 <= offset <= available - width (0 when the line is as wide as the available width or wider), whatever
   text-align, text-align-last, direction, white-space *)
Theorem C09_text_align_offset_bounds w av a l rtl col last :
  let o := fst (text_align w av a l rtl col last) in
  0 <= o /\ (w <= av -> o <= av - w) /\ (av <= w -> o == 0).
Proof. exact (text_align_bounds w av a l rtl col last). Qed.
Print Assumptions C09_text_align_offset_bounds.

(* center leaves the same room on both sides *)
Theorem C09_text_align_center_halves w av a l rtl col last :
  effective a l last = ACenter -> w < av ->
  let o := fst (text_align w av a l rtl col last) in
  o == (av - w) / 2 /\ o + w + o == av.
Proof. exact (text_align_center w av a l rtl col last). Qed.
Print Assumptions C09_text_align_center_halves.

(* after line.translate(offset_x) the line box lies inside the block, in ltr and in rtl (x = left bound) *)
Theorem C09_line_inside_block rtl x w av a l col last :
  w <= av ->
  let o := fst (text_align w av a l rtl col last) in
  let left := line_left rtl (if rtl then x + av else x) o w in
  x <= left /\ left + w <= x + av.
Proof. exact (line_inside_block rtl x w av a l col last). Qed.
Print Assumptions C09_line_inside_block.

(* rtl is the mirror image: the same offset is taken from the right bound *)
Theorem C09_rtl_mirror x w av o :
  line_left true (x + av) o w + w == x + av - o /\ line_left false x o w == x + o.
Proof. exact (rtl_mirror x w av o). Qed.
Print Assumptions C09_rtl_mirror.

(* left / right are physical sides whatever the direction *)
Theorem C09_left_right_physical w av l col rtl :
  w < av ->
  line_left rtl (if rtl then av else 0) (fst (text_align w av ALeft l rtl col false)) w == 0 /\
  line_left rtl (if rtl then av else 0) (fst (text_align w av ARight l rtl col false)) w + w == av.
Proof. exact (text_align_left_right_physical w av l col rtl). Qed.
Print Assumptions C09_left_right_physical.

(* justification: a line with at least one expandable space ends up exactly as wide as the available width
   (extra = available - width), for every tree of text / inline / atomic boxes, ltr or rtl *)
Theorem C09_justify_fills line extra :
  (0 < count_spaces line)%nat -> box_w (justify_line line extra) == box_w line + extra.
Proof. exact (justify_fills line extra). Qed.
Print Assumptions C09_justify_fills.

(* ... every box is shifted by the spacing added before it and widened by the spacing added inside it *)
Theorem C09_add_word_spacing_accounts b js adv :
  let '(b', a') := add_word_spacing b js adv in
  a' == adv + js * nq (count_spaces b) /\
  box_w b' == box_w b + js * nq (count_spaces b) /\
  (if moved b then box_x b' == box_x b + adv else box_x b' == box_x b) /\
  count_spaces b' = count_spaces b /\ moved b' = moved b.
Proof. exact (aws_spec b js adv). Qed.
Print Assumptions C09_add_word_spacing_accounts.

(* ... so boxes laid side by side stay side by side: no gap and no overlap is introduced (ltr) *)
Theorem C09_justify_keeps_boxes_adjacent js l x a :
  adjacent x l -> adjacent (x + a) (fst (ltr_go (awsf js) l a)).
Proof. exact (ltr_go_adjacent js l x a). Qed.
Print Assumptions C09_justify_keeps_boxes_adjacent.

(* atomic inline-level boxes with descendants (inline-block, inline-table, inline-flex): add_word_spacing translates
   the box, and Box.translate moves the whole subtree: every box laid out inside an atomic box of the line is still
   inside it after justification, at every depth (well_nested: model/C09Align.v) *)
Theorem C09_justify_moves_descendants_with_their_box line extra :
  well_nested line -> well_nested (justify_line line extra).
Proof. exact (justify_well_nested line extra). Qed.
Print Assumptions C09_justify_moves_descendants_with_their_box.

Theorem C09_add_word_spacing_moves_descendants x w ins js adv :
  fst (add_word_spacing (A x w ins) js adv) = A (x + adv) w (map (shift adv) ins) /\
  map (fun d => box_x d - (x + adv)) (map (shift adv) ins) = map (fun d => box_x d + adv - (x + adv)) ins.
Proof. exact (aws_atomic_moves_descendants x w ins js adv). Qed.
Print Assumptions C09_add_word_spacing_moves_descendants.

(* ---- 3. stacking: iter_line_boxes / line_box_verticality (baseline-aligned children) ---- *)

(* consecutive lines are stacked without gap or overlap: y_{i+1} = y_i + h_i *)
Theorem C09_lines_stack hs y i yi hi yj hj :
  nth_error (stack y hs) i = Some (yi, hi) -> nth_error (stack y hs) (S i) = Some (yj, hj) -> yj = yi + hi.
Proof. exact (stack_consecutive hs y i yi hi yj hj). Qed.
Print Assumptions C09_lines_stack.

(* a line box is at least one line-height (the strut) high *)
Theorem C09_line_height_at_least_strut strut children : snd strut <= line_height_of strut children.
Proof. exact (line_height_ge_strut strut children). Qed.
Print Assumptions C09_line_height_at_least_strut.

(* one font size per paragraph: every line is exactly one line-height high and line i starts at y0 + i * lh *)
Theorem C09_uniform_lines strut children lh n y i yi hi :
  Forall (fun c => fst c == fst strut /\ snd c == snd strut) children ->
  line_height_of strut children == snd strut /\
  (nth_error (stack y (repeat lh n)) i = Some (yi, hi) -> yi == y + inject_Z (Z.of_nat i) * lh /\ hi = lh).
Proof. exact (uniform_lines strut children lh n y i yi hi). Qed.
Print Assumptions C09_uniform_lines.

(* ---- 4. lines next to floats: avoid_collisions on a line box (model/C09Float.v) ---- *)

(* the three-clause vertical test of avoid_collisions is the intersection of the half-open extents [y, y + h) of the
   line box and of the float's margin box (CSS 2.1 9.5.1), for boxes and floats of positive height *)
Theorem C09_float_collision_is_interval_overlap y bh s :
  0 < bh -> 0 < s_mh s -> (collides y bh s = true <-> s_y s < y + bh /\ y < s_y s + s_mh s).
Proof. exact (collides_iff_overlaps y bh s). Qed.
Print Assumptions C09_float_collision_is_interval_overlap.

(* exact boundaries: a float whose top edge is the line's bottom edge does not shorten the line, nor does one whose
   bottom edge is the line's top edge *)
Theorem C09_float_starting_at_line_bottom_does_not_collide y bh s :
  0 < bh -> 0 < s_mh s -> s_y s == y + bh -> collides y bh s = false.
Proof. exact (float_below_line_boundary y bh s). Qed.
Print Assumptions C09_float_starting_at_line_bottom_does_not_collide.
Theorem C09_float_ending_at_line_top_does_not_collide y bh s :
  0 < bh -> 0 < s_mh s -> s_y s + s_mh s == y -> collides y bh s = false.
Proof. exact (float_above_line_boundary y bh s). Qed.
Print Assumptions C09_float_ending_at_line_top_does_not_collide.

(* the position and the interval returned for a line box: never higher than asked; the interval is exactly what the
   floats sharing vertical extent with the box at the RETURNED position leave of the containing block, and the box
   starts at its left edge (right edge in rtl) *)
Theorem C09_avoid_collisions_interval fuel shapes cbx cbw rtl bw bh y x y' av :
  0 < bh -> positive shapes ->
  avoid fuel shapes cbx cbw rtl bw bh y = Placed x y' av ->
  y <= y' /\
  let '(l, r) := spec_interval shapes cbx cbw y' bh in
  av = r - l /\ x = (if rtl then r else l).
Proof. exact (avoid_interval_spec fuel shapes cbx cbw rtl bw bh y x y' av). Qed.
Print Assumptions C09_avoid_collisions_interval.

(* the `while True` loop terminates: it goes down at most once per float *)
Theorem C09_avoid_collisions_terminates shapes cbx cbw rtl bw bh y :
  avoid (S (length shapes)) shapes cbx cbw rtl bw bh y <> NoFuel.
Proof. exact (avoid_fuel_enough shapes cbx cbw rtl bw bh y). Qed.
Print Assumptions C09_avoid_collisions_terminates.

(* ---- 5. text_align(context, line, available_width, last) of weasyprint/layout/inline.py REGENERATED from the source
   on every run (gen/GenInline.v, interpreter base/Py.v) computes the model text_align used in section 2, for every
   text-align-all / text-align-last / white-space / direction value, last-line flag, line width and available width
   (TA.line_box: line.width and the four entries of line.style, anything else abstract): it returns a number == the
   model's offset; and it runs the external statement justify_line(context, line, offset) exactly when the model
   answers Some extra, with an extra_width == extra (TA.text_align_post: the line is then in the state
   jl [context; line; extra_width] for whatever function jl of its arguments justify_line is, TA.justify_oracle;
   otherwise the line is untouched and no external statement has run).  So the theorems of section 2 are about the
   source. *)
Require WV.base.Py WV.gen.GenInline WV.proofs.C09_gen_text_align.
Module TA := WV.proofs.C09_gen_text_align.

Theorem C09_source_text_align O (HO : Py.ops_ok O) cf w av a l ws rtl last srest rest ret jl :
  Py.run (Py.with_calls O (TA.justify_oracle ret jl)) GenInline.text_align_body
    [("context"%string, Py.VObj cf); ("line"%string, TA.line_box w a l ws rtl srest rest);
     ("available_width"%string, Py.VNum av); ("last"%string, Py.VBool last)]
    (TA.text_align_post (Py.VObj cf) (TA.line_box w a l ws rtl srest rest) ret jl
       (text_align w av a l rtl (space_collapse ws) last))
    (fun _ => False).
Proof. exact (TA.gen_text_align O HO cf w av a l ws rtl last srest rest ret jl). Qed.
Print Assumptions C09_source_text_align.

(* the offset the source returns lies in [0, available_width - line.width], and is 0 for a line as wide as the
   available width or wider, for every direction / last-line flag / text-align(-last) / white-space value *)
Theorem C09_source_text_align_offset_in_range O (HO : Py.ops_ok O) cf w av a l ws rtl last srest rest ret jl :
  Py.run (Py.with_calls O (TA.justify_oracle ret jl)) GenInline.text_align_body
    [("context"%string, Py.VObj cf); ("line"%string, TA.line_box w a l ws rtl srest rest);
     ("available_width"%string, Py.VNum av); ("last"%string, Py.VBool last)]
    (fun _ res => exists o, res = Some (Py.VNum o) /\ 0 <= o /\ (w <= av -> o <= av - w) /\ (av <= w -> o == 0))
    (fun _ => False).
Proof. exact (TA.gen_text_align_offset_in_range O HO cf w av a l ws rtl last srest rest ret jl). Qed.
Print Assumptions C09_source_text_align_offset_in_range.

(* justify_line is called iff the effective alignment is justify, white space collapses and the line is narrower
   than the available width; it is given the room that is left *)
Theorem C09_text_align_justifies_iff w av a l rtl col last e :
  snd (text_align w av a l rtl col last) = Some e <->
  effective a l last = AJustify /\ col = true /\ w < av /\ e = av - w.
Proof. exact (TA.text_align_justifies_iff w av a l rtl col last e). Qed.
Print Assumptions C09_text_align_justifies_iff.

(* ---- 6. inline_block_width(box, context, containing_block) of weasyprint/layout/inline.py (the function under
   @handle_min_max_width) REGENERATED from the source on every run (gen/GenInline.v) computes the model ib_width of
   model/C09InlineBlock.v (CSS 2.1 10.3.9): for every box (width 'auto' or a number, any margins / borders / paddings,
   any other attributes), containing block and context, the box ends with width = the model's width and everything else
   as received; nothing is returned or raised.  shrink_to_fit stays an oracle: any function stf of (context, box,
   available width) that answers a number. *)
Require WV.model.C09InlineBlock WV.proofs.C09_gen_inline_block.
Module IB := WV.proofs.C09_gen_inline_block.
Module IBM := WV.model.C09InlineBlock.

Theorem C09_source_inline_block_width O (HO : Py.ops_ok O) stf (HS : IB.stf_oracle O stf) cf w s rest cbw cbrest :
  Py.run O GenInline.inline_block_width_body
    [("box"%string, IB.ib_box (IB.wval w) s rest); ("context"%string, Py.VObj cf);
     ("containing_block"%string, IB.cb_box cbw cbrest)]
    (fun rho res =>
       res = None /\
       Py.lookup "box" rho =
       IB.ib_box (Py.VNum (IBM.ib_width (stf (Py.VObj cf) (IB.ib_box (IB.wval w) s rest)) w cbw s)) s rest /\
       Py.lookup "context" rho = Py.VObj cf /\ Py.lookup "containing_block" rho = IB.cb_box cbw cbrest)
    (fun _ => False).
Proof. exact (IB.gen_inline_block_width O HO stf HS cf w s rest cbw cbrest). Qed.
Print Assumptions C09_source_inline_block_width.

(* "If 'width' is 'auto', the used value is the shrink-to-fit width": what the source stores is the oracle's answer
   for the width of the containing block minus the margins, border widths and paddings of the box *)
Theorem C09_source_inline_block_auto_is_shrink_to_fit O (HO : Py.ops_ok O) stf (HS : IB.stf_oracle O stf)
        cf s rest cbw cbrest :
  Py.run O GenInline.inline_block_width_body
    [("box"%string, IB.ib_box (Py.VStr "auto") s rest); ("context"%string, Py.VObj cf);
     ("containing_block"%string, IB.cb_box cbw cbrest)]
    (fun rho res =>
       PyTac.fieldv (Py.lookup "box" rho) "width" =
       Py.VNum (stf (Py.VObj cf) (IB.ib_box (Py.VStr "auto") s rest)
                    (cbw - (IBM.ml s + IBM.mr s + IBM.bl s + IBM.br s + IBM.pl s + IBM.pr s))))
    (fun _ => False).
Proof. exact (IB.gen_inline_block_auto_is_shrink_to_fit O HO stf HS cf s rest cbw cbrest). Qed.
Print Assumptions C09_source_inline_block_auto_is_shrink_to_fit.

(* a width that is not auto: the box is left exactly as received *)
Theorem C09_source_inline_block_given_width_kept O (HO : Py.ops_ok O) stf (HS : IB.stf_oracle O stf)
        cf x s rest cbw cbrest :
  Py.run O GenInline.inline_block_width_body
    [("box"%string, IB.ib_box (Py.VNum x) s rest); ("context"%string, Py.VObj cf);
     ("containing_block"%string, IB.cb_box cbw cbrest)]
    (fun rho res => Py.lookup "box" rho = IB.ib_box (Py.VNum x) s rest)
    (fun _ => False).
Proof. exact (IB.gen_inline_block_given_width_kept O HO stf HS cf x s rest cbw cbrest). Qed.
Print Assumptions C09_source_inline_block_given_width_kept.

(* with shrink_to_fit = min(max(preferred minimum, available), preferred) (CSS 2.1 10.3.5, layout/preferred.py): the
   auto width lies between the preferred minimum and the preferred width, the margin box fits in the containing block
   whenever the preferred minimum does, an overflowing box is as narrow as its content allows, and the width is the
   preferred width when that fits *)
Theorem C09_source_inline_block_auto_fits O (HO : Py.ops_ok O) pmin pref
        (HS : IB.stf_oracle O (fun _ _ => IBM.shrink pmin pref)) cf s rest cbw cbrest :
  pmin <= pref ->
  Py.run O GenInline.inline_block_width_body
    [("box"%string, IB.ib_box (Py.VStr "auto") s rest); ("context"%string, Py.VObj cf);
     ("containing_block"%string, IB.cb_box cbw cbrest)]
    (fun rho res =>
       exists wd, PyTac.fieldv (Py.lookup "box" rho) "width" = Py.VNum wd /\
                  pmin <= wd <= pref /\
                  (pmin <= cbw - IBM.hsum s -> wd + IBM.hsum s <= cbw) /\
                  (cbw < wd + IBM.hsum s -> wd == pmin) /\
                  (pref <= cbw - IBM.hsum s -> wd == pref))
    (fun _ => False).
Proof. exact (IB.gen_inline_block_auto_fits O HO pmin pref HS cf s rest cbw cbrest). Qed.
Print Assumptions C09_source_inline_block_auto_fits.

(* ---- 7. justify_line(context, line, extra_width) of weasyprint/layout/inline.py REGENERATED from the source on every
   run (gen/GenInline.v).  count_expandable_spaces and add_word_spacing are oracles.  Whatever functions cnt / aws of
   their arguments they are: add_word_spacing is called exactly when the count is not 0, with (context, the received
   line, extra_width / count, 0) and the line is left as it leaves it; otherwise the line is the received one. *)
Require WV.proofs.C09_gen_justify.
Module JL := WV.proofs.C09_gen_justify.

Theorem C09_source_justify_line O (HO : Py.ops_ok O) cf lf e cnt ret aws :
  Py.run (Py.with_calls O (JL.justify_oracle cnt ret aws)) GenInline.justify_line_body
    [("context"%string, Py.VObj cf); ("line"%string, Py.VObj lf); ("extra_width"%string, Py.VNum e)]
    (fun rho res =>
       res = None /\
       if Qeq_bool (cnt [Py.VObj lf]) 0
       then Py.lookup "line" rho = Py.VObj lf /\ Py.lookup "%call" rho = Py.VErr "unbound:%call"
       else Py.lookup "line" rho = aws [Py.VObj cf; Py.VObj lf; Py.VNum (e / cnt [Py.VObj lf]); Py.VNum 0] /\
            Py.lookup "%call" rho = ret)
    (fun _ => False).
Proof. exact (JL.gen_justify_line O HO cf lf e cnt ret aws). Qed.
Print Assumptions C09_source_justify_line.

(* with the callees as the model has them (count_spaces, add_word_spacing of model/C09Align.v, through ANY encoding enc
   of the model's inline boxes as objects with a decoding dec): the source leaves the line as the model's justify_line *)
Theorem C09_source_justify_line_is_model enc dec (dec_enc : forall b, dec (Py.VObj (enc b)) = b)
        O (HO : Py.ops_ok O) cf b e ret :
  Py.run (Py.with_calls O (JL.justify_oracle (JL.cnt_model dec) ret (JL.aws_model enc dec))) GenInline.justify_line_body
    [("context"%string, Py.VObj cf); ("line"%string, Py.VObj (enc b)); ("extra_width"%string, Py.VNum e)]
    (fun rho res => res = None /\ Py.lookup "line" rho = Py.VObj (enc (justify_line b e)))
    (fun _ => False).
Proof. exact (JL.gen_justify_line_model enc dec dec_enc O HO cf b e ret). Qed.
Print Assumptions C09_source_justify_line_is_model.

(* justification distributes exactly the extra width over the expandable spaces: the line the source leaves is wider
   by extra_width as soon as it holds an expandable space, it is the received line when it holds none, and its boxes
   stay nested in one another *)
Theorem C09_source_justify_line_fills enc dec (dec_enc : forall b, dec (Py.VObj (enc b)) = b)
        O (HO : Py.ops_ok O) cf b e ret :
  Py.run (Py.with_calls O (JL.justify_oracle (JL.cnt_model dec) ret (JL.aws_model enc dec))) GenInline.justify_line_body
    [("context"%string, Py.VObj cf); ("line"%string, Py.VObj (enc b)); ("extra_width"%string, Py.VNum e)]
    (fun rho res =>
       ((0 < count_spaces b)%nat -> box_w (dec (Py.lookup "line" rho)) == box_w b + e) /\
       (count_spaces b = 0%nat -> Py.lookup "line" rho = Py.VObj (enc b)) /\
       (well_nested b -> well_nested (dec (Py.lookup "line" rho))))
    (fun _ => False).
Proof. exact (JL.gen_justify_line_fills enc dec dec_enc O HO cf b e ret). Qed.
Print Assumptions C09_source_justify_line_fills.
