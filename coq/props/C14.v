(* C14 - Paged-media furniture: page boxes, margin boxes, page counters, running strings: property theorems only.
   The models (model/C14Page.v, C14Box.v, C14Pages.v, C14Pdf.v) are hand transliterations of the code named in
   their headers; harness/p_c14.py compares them with the implementation on every run. *)
From Coq Require Import ZArith QArith Qminmax List String Bool.
Require Import WV.model.C14Page WV.model.C14Box WV.model.C14Pages WV.model.C14Pdf WV.model.C14Doc WV.model.C14Margin.
Require Import WV.proofs.C14_page WV.proofs.C14_box WV.proofs.C14_pages WV.proofs.C14_pdf WV.proofs.C14_doc WV.proofs.C14_margin.
Import ListNotations.
Open Scope string_scope.
Open Scope list_scope.

(* ============================================================== 1. page selectors, specificity, cascade *)

(* StyleFor._page_type_match: `offset / a >= 0 and not offset % a` (a = 0: `offset == 0`), for ALL integers:
   :nth(an+b) matches the page of index i iff its number i+1 is a*n+b for some n >= 0 *)
Theorem C14_nth_semantics (a b index : Z) :
  nth_test a b index = true <-> exists n : Z, (0 <= n /\ index + 1 = a * n + b)%Z.
Proof. exact (nth_semantics a b index). Qed.
Print Assumptions C14_nth_semantics.

(* all conjuncts of a page selector: side, :blank, :first, page name, :nth(an+b) and :nth(an+b of group) *)
Theorem C14_page_type_match (sel : selector) (pt : page_type) :
  page_type_match sel pt = true <->
  ((forall s, s_side sel = Some s -> s = pt_side pt) /\
   (forall bl, s_blank sel = Some bl -> bl = pt_blank pt) /\
   (forall f, s_first sel = Some f -> (f = true <-> pt_index pt = 0%Z)) /\
   (forall n, s_name sel = Some n -> n = pt_name pt) /\
   (forall a b, s_index sel = Some (a, b, None) -> nth_spec a b (pt_index pt)) /\
   (forall a b g, s_index sel = Some (a, b, Some g) ->
      g = pt_name pt /\ exists gi, In (g, gi) (pt_groups pt) /\ nth_spec a b gi)).
Proof. exact (page_type_match_iff sel pt). Qed.
Print Assumptions C14_page_type_match.

(* the decidable rendition with which the judges of harness/p_c14.py decide implementation answers (bounded
   search for n, never the code's test) is exactly that specification *)
Theorem C14_match_spec_decided (sel : selector) (pt : page_type) :
  match_spec_b sel pt = true <-> match_spec sel pt.
Proof. exact (match_spec_b_correct sel pt). Qed.
Print Assumptions C14_match_spec_decided.

(* parse_page_selectors: specificity = (named page [+ named :nth groups], :first/:blank/:nth, :left/:right) *)
Theorem C14_selector_specificity (name : option string) (ps : list pseudo) sel sp :
  parse_selector name ps = Some (sel, sp) ->
  sp = (count_named name ps, count_first_blank_nth ps, count_left_right ps) /\ s_name sel = name.
Proof. exact (selector_specificity name ps sel sp). Qed.
Print Assumptions C14_selector_specificity.

(* add_page_declarations: for every (margin box, property) the entry is the LAST declaration of MAXIMAL
   (origin/importance, specificity) among the declarations of the rules whose selector matches the page *)
Theorem C14_page_cascade_winner (sheets : list sheet) (pt : page_type) (k : key) :
  let ds := for_key k (page_updates sheets pt) in
  let r := lookup_key k (add_page_declarations sheets pt []) in
  (ds = [] -> r = None) /\
  (ds <> [] -> exists d, r = Some d /\
     exists pre post, ds = pre ++ d :: post /\
       (forall e, In e pre -> weight_leb (snd e) (snd d) = true) /\
       (forall e, In e post -> weight_leb (snd d) (snd e) = false)).
Proof. exact (page_cascade_winner sheets pt k). Qed.
Print Assumptions C14_page_cascade_winner.

(* the order used is (precedence, (f, g, h)) lexicographically *)
Theorem C14_weight_order p1 f1 g1 h1 p2 f2 g2 h2 :
  weight_leb (p1, (f1, g1, h1)) (p2, (f2, g2, h2)) = true <->
  (p1 < p2 \/ (p1 = p2 /\ (f1 < f2 \/ (f1 = f2 /\ (g1 < g2 \/ (g1 = g2 /\ h1 <= h2))))))%Z.
Proof. exact (weight_leb_iff p1 f1 g1 h1 p2 f2 g2 h2). Qed.
Print Assumptions C14_weight_order.

(* only rules whose selector matches (in the sense of C14_page_type_match) contribute *)
Theorem C14_page_cascade_only_matching o ss pt (r : prule) e :
  In e (rule_updates o ss pt r) ->
  exists sp pseudo_type sel, In (sp, pseudo_type, sel) (fst r) /\ match_spec sel pt /\ fst (fst e) = pseudo_type.
Proof. exact (page_cascade_only_matching o ss pt r e). Qed.
Print Assumptions C14_page_cascade_only_matching.

(* remake_page applies the declarations again each time it meets the same page type: no effect *)
Theorem C14_page_cascade_idempotent sheets pt (k : key) :
  let st := add_page_declarations sheets pt [] in
  lookup_key k (add_page_declarations sheets pt st) = lookup_key k st.
Proof. exact (page_cascade_idempotent sheets pt k). Qed.
Print Assumptions C14_page_cascade_idempotent.

(* `@page A, B, ... { declarations; @top-left { declarations } }` (model of what preprocess_stylesheet registers):
   a page matched through the k-th selector of the list, whatever k, receives every page-level declaration of the
   body and every declaration of its margin box, with that selector's specificity ... *)
Theorem C14_selector_list_body_uniform sels ds mds (k : nat) name ps sel sp pt n v imp :
  (forall s, In s sels -> parse_selector (fst s) (snd s) <> None) ->
  nth_error sels k = Some (name, ps) -> parse_selector name ps = Some (sel, sp) -> match_spec sel pt ->
  (In (n, v, imp) ds ->
     In ((None, n), (v, (precedence Author imp, sp))) (page_updates (doc_sheets [(sels, ds, mds)]) pt)) /\
  (In (n, v, imp) mds ->
     In ((Some "@top-left", n), (v, (precedence Author imp, sp))) (page_updates (doc_sheets [(sels, ds, mds)]) pt)).
Proof. exact (selector_list_body_uniform sels ds mds k name ps sel sp pt n v imp). Qed.
Print Assumptions C14_selector_list_body_uniform.

(* ... and nothing else *)
Theorem C14_selector_list_body_only sels ds mds pt e :
  In e (page_updates (doc_sheets [(sels, ds, mds)]) pt) ->
  exists name ps sel sp n v imp,
    In (name, ps) sels /\ parse_selector name ps = Some (sel, sp) /\ match_spec sel pt /\
    ((In (n, v, imp) ds /\ e = ((None, n), (v, (precedence Author imp, sp)))) \/
     (In (n, v, imp) mds /\ e = ((Some "@top-left", n), (v, (precedence Author imp, sp))))).
Proof. exact (selector_list_body_only sels ds mds pt e). Qed.
Print Assumptions C14_selector_list_body_only.

(* ================================================================ 2. page box and margin box arithmetic *)
Open Scope Q_scope.

(* page_width_or_height: content area = page size - margins - borders - paddings *)
Theorem C14_page_content_area_is_the_rest (cb pb : Q) (ma inner mb : oq) :
  exists a i b, page_width_or_height cb pb ma inner mb = (Some a, Some i, Some b) /\
    (forall v, ma = Some v -> a = v) /\ (forall v, inner = Some v -> i = v) /\ (forall v, mb = Some v -> b = v) /\
    (count_auto ma inner mb <> 0%nat -> a + pb + i + b == cb) /\
    (inner = None -> ma = None -> a == 0) /\ (inner = None -> mb = None -> b == 0) /\
    (inner <> None -> ma = None -> mb = None -> a == b).
Proof. exact (page_content_area_is_the_rest cb pb ma inner mb). Qed.
Print Assumptions C14_page_content_area_is_the_rest.

(* compute_fixed_dimension (css-page-3 5.3.2.4) *)
Theorem C14_margin_box_fixed_sum (outer pb : Q) (ma inner mb : oq) (top_or_left : bool) :
  exists a i b, compute_fixed_dimension outer pb ma inner mb top_or_left = Ok (a, i, b) /\
    a + pb + i + b == outer /\
    (forall w, inner = Some w -> i = w) /\
    (inner = None -> 0 <= i) /\
    (forall x w y, ma = Some x -> inner = Some w -> mb = Some y ->
       if top_or_left then b = y else a = x) /\
    (forall w y, ma = None -> inner = Some w -> mb = Some y -> pb + w + y <= outer -> b = y) /\
    (forall x w, ma = Some x -> inner = Some w -> mb = None -> pb + x + w <= outer -> a = x) /\
    (forall w, ma = None -> inner = Some w -> mb = None -> pb + w <= outer -> a == b).
Proof. exact (margin_box_fixed_sum outer pb ma inner mb top_or_left). Qed.
Print Assumptions C14_margin_box_fixed_sum.

(* ---- the same two functions as REGENERATED from weasyprint/layout/page.py on every run (gen/GenPage.v, interpreter
   base/Py.v; compute_fixed_dimension from rule 2 on, the OrientedBox adapter as an attribute bag,
   restore_box_attributes an oracle): they compute the hand models above for every auto pattern, so the two
   theorems above are about the source *)
Require WV.base.Py WV.gen.GenPage WV.proofs.C14_gen_page.
Module GP := WV.proofs.C14_gen_page.

Theorem C14_source_page_width_or_height O (HO : Py.ops_ok O) (HR : GP.restore_oracle O) ma inner mb pb cb :
  Py.run O GenPage.page_width_or_height_body
    [("box"%string, GP.obox ma inner mb pb); ("containing_block_size"%string, Py.VNum cb)]
    (GP.pwh_post (page_width_or_height cb pb ma inner mb)) (fun _ => False).
Proof. exact (GP.gen_page_width_or_height O HO HR ma inner mb pb cb). Qed.
Print Assumptions C14_source_page_width_or_height.

Theorem C14_source_compute_fixed_dimension O (HO : Py.ops_ok O) (HR : GP.restore_oracle O) ma inner mb pb outer (tl : bool) :
  Py.run O GenPage.compute_fixed_dimension_body
    [("box"%string, GP.obox ma inner mb pb); ("outer"%string, Py.VNum outer); ("top_or_left"%string, Py.VBool tl)]
    (GP.cfd_post (compute_fixed_dimension outer pb ma inner mb tl))
    (GP.cfd_err (compute_fixed_dimension outer pb ma inner mb tl)).
Proof. exact (GP.gen_compute_fixed_dimension O HO HR ma inner mb pb outer tl). Qed.
Print Assumptions C14_source_compute_fixed_dimension.

(* the source's compute_fixed_dimension never fails its final assertion, makes margin + padding/border + inner +
   margin equal to the page margin it has to fill, keeps a specified inner size and gives a non-negative one else *)
Theorem C14_source_margin_box_fixed_sum O (HO : Py.ops_ok O) (HR : GP.restore_oracle O) ma inner mb pb outer (tl : bool) :
  Py.run O GenPage.compute_fixed_dimension_body
    [("box"%string, GP.obox ma inner mb pb); ("outer"%string, Py.VNum outer); ("top_or_left"%string, Py.VBool tl)]
    (fun rho res => res = None /\ exists a i b, GP.box_nums rho a i b /\ a + pb + i + b == outer /\
                    (forall w, inner = Some w -> i = w) /\ (inner = None -> 0 <= i))
    (fun _ => False).
Proof. exact (GP.source_fixed_dimension_sum O HO HR ma inner mb pb outer tl). Qed.
Print Assumptions C14_source_margin_box_fixed_sum.

(* the source's page_width_or_height leaves numbers, keeps what was specified and, unless over-constrained,
   margin + padding/border + content + margin = the page size *)
Theorem C14_source_page_content_area O (HO : Py.ops_ok O) (HR : GP.restore_oracle O) ma inner mb pb cb :
  Py.run O GenPage.page_width_or_height_body
    [("box"%string, GP.obox ma inner mb pb); ("containing_block_size"%string, Py.VNum cb)]
    (fun rho res => res = None /\ exists a i b, GP.box_nums rho a i b /\
                    (forall v, ma = Some v -> a = v) /\ (forall v, inner = Some v -> i = v) /\
                    (forall v, mb = Some v -> b = v) /\
                    (count_auto ma inner mb <> 0%nat -> a + pb + i + b == cb))
    (fun _ => False).
Proof. exact (GP.source_page_content_area O HO HR ma inner mb pb cb). Qed.
Print Assumptions C14_source_page_content_area.

(* compute_variable_dimension (css-page-3 5.3.2.1-3): the three boxes of a side *)
Theorem C14_three_boxes_fit_when_possible avail a b c gen_b :
  content_ok a -> content_ok b -> content_ok c ->
  (gen_b = false -> exists z, m_inner b = Some z /\ z == 0) ->
  fits_possible avail a b c gen_b ->
  exists a' b' c', compute_variable_dimension avail a b c gen_b = Ok (a', b', c') /\
    if gen_b
    then outer_of a' <= (1 # 2) * (avail - outer_of b') /\ outer_of c' <= (1 # 2) * (avail - outer_of b')
    else outer_of a' + outer_of c' <= avail.
Proof. exact (three_boxes_fit_when_possible avail a b c gen_b). Qed.
Print Assumptions C14_three_boxes_fit_when_possible.

Theorem C14_side_boxes_do_not_overlap avail a b c gen_b :
  content_ok a -> content_ok b -> content_ok c ->
  (gen_b = false -> exists z, m_inner b = Some z /\ z == 0) ->
  fits_possible avail a b c gen_b ->
  exists a' b' c', compute_variable_dimension avail a b c gen_b = Ok (a', b', c') /\
    let '(pa, pb, pc) := side_positions avail a' b' c' in
    0 <= pa /\ pc + outer_of c' <= avail /\
    (gen_b = true -> pa + outer_of a' <= pb /\ pb + outer_of b' <= pc) /\
    (gen_b = false -> pa + outer_of a' <= pc) /\
    (0 <= outer_of a' -> 0 <= outer_of b' -> 0 <= outer_of c' ->
       pa + outer_of a' <= avail /\ 0 <= pc /\ (gen_b = true -> 0 <= pb /\ pb + outer_of b' <= avail)).
Proof. exact (side_boxes_do_not_overlap avail a b c gen_b). Qed.
Print Assumptions C14_side_boxes_do_not_overlap.

Theorem C14_center_box_centred avail a b c :
  let '(pa, pb, pc) := side_positions avail a b c in
  pb + outer_of b / 2 == avail / 2 /\ pa == 0 /\ pc + outer_of c == avail.
Proof. exact (center_box_centred avail a b c). Qed.
Print Assumptions C14_center_box_centred.

(* the `flex_factor_sum == 0 -> 1` guard: no ZeroDivisionError for any input *)
Theorem C14_no_division_by_zero avail a b c gen_b : compute_variable_dimension avail a b c gen_b <> ErrDiv.
Proof. exact (no_division_by_zero avail a b c gen_b). Qed.
Print Assumptions C14_no_division_by_zero.

(* with room to spare, auto boxes get their max-content size (no forced line break in a margin box) *)
Theorem C14_preferred_widths_used_when_they_fit avail a c :
  content_ok a -> content_ok c -> m_inner a = None -> m_inner c = None ->
  0 <= outer_max a -> 0 <= outer_max c -> outer_max a + outer_max c < avail ->
  exists a' c' ia ic, cvd_two_auto avail a c = Ok (a', c') /\
    m_inner a' = Some ia /\ m_inner c' = Some ic /\ ia == m_max a /\ ic == m_max c.
Proof. exact (preferred_widths_used_when_they_fit avail a c). Qed.
Print Assumptions C14_preferred_widths_used_when_they_fit.

(* the naive reading "the three outer min-content sizes fit side by side" does not guarantee the fit once the
   centre box must be centred (by css-page-3's own rule, not a defect) *)
Theorem C14_naive_premise_insufficient :
  exists avail a b c,
    content_ok a /\ content_ok b /\ content_ok c /\
    outer_min a + outer_min b + outer_min c <= avail /\
    match compute_variable_dimension avail a b c true with
    | Ok (a', b', c') => avail < outer_of a' + outer_of b' + outer_of c'
    | _ => False
    end.
Proof. exact naive_premise_insufficient. Qed.
Print Assumptions C14_naive_premise_insufficient.

(* ===================================================== 3. page sides, blank pages, counters, strings *)
Close Scope Q_scope.

Theorem C14_forced_side_honoured (ltr right_page : bool) (pending : list brk) :
  exists pages,
    make_pages (2 * List.length pending) ltr right_page pending = Some pages /\
    alternating right_page (map fst pages) /\
    blank_then_content pages /\
    honoured ltr pending (content_sides pages) (preceded_by_blank false pages) /\
    (List.length pages <= 2 * List.length pending)%nat.
Proof. exact (forced_side_honoured ltr right_page pending). Qed.
Print Assumptions C14_forced_side_honoured.

Theorem C14_first_page_side (ltr : bool) (root_break : brk) (breaks : list brk) :
  exists rest,
    make_pages (2 * List.length (BAny :: breaks)) ltr (initial_right_page ltr root_break) (BAny :: breaks)
    = Some ((side_of (initial_right_page ltr root_break), false) :: rest) /\
    (root_break = BAny -> side_of (initial_right_page ltr root_break) = if ltr then SRight else SLeft) /\
    (forall w, next_page_side ltr root_break = Some w -> side_of (initial_right_page ltr root_break) = w).
Proof. exact (first_page_side ltr root_break breaks). Qed.
Print Assumptions C14_first_page_side.

Theorem C14_page_counter_counts_from_1 (styles : list cstyle) :
  Forall untouched styles ->
  page_counters None styles = map (fun k => Some (Z.of_nat k)) (seq 1 (List.length styles)).
Proof. exact (page_counter_counts_from_1 styles). Qed.
Print Assumptions C14_page_counter_counts_from_1.

Theorem C14_counter_reset_on_page_rule (before after : list cstyle) (st : cstyle) (x : Z) v0 :
  c_reset st = Some [("page", x)] -> touches_page (c_set st) = false -> touches_page (c_incr st) = false ->
  Forall untouched after ->
  page_counters v0 (before ++ st :: after) =
  page_counters v0 before ++ Some x :: map (fun k => Some (x + Z.of_nat k)%Z) (seq 1 (List.length after)).
Proof. exact (counter_reset_on_page_rule before after st x v0). Qed.
Print Assumptions C14_counter_reset_on_page_rule.

Theorem C14_counter_increment_on_page_rule (st : cstyle) (n : Z) v :
  c_incr st = Some [("page", n)] -> touches_page (c_set st) = false -> touches_page (c_reset st) = false ->
  update_page_counter v (standardize st true) = Some (oz v + n)%Z.
Proof. exact (counter_increment_on_page_rule st n v). Qed.
Print Assumptions C14_counter_increment_on_page_rule.

Theorem C14_margin_box_keeps_page_counter st v : untouched st -> margin_counter v st = v.
Proof. exact (margin_box_keeps_page_counter st v). Qed.
Print Assumptions C14_margin_box_keeps_page_counter.

(* make_margin_boxes: every margin box works on its own copy of the page state: what the j-th box of a page shows
   (counters after its own counter-* declarations, quotes from the page's quote depth) is a function of the
   page's state and of its own declarations, whatever the other margin boxes of the page declare *)
Theorem C14_margin_box_reads_page_state (st : pstate) (decls : list mdecl) (j : nat) (d : mdecl) :
  nth_error decls j = Some d ->
  nth_error (margin_boxes_model st decls) j = Some (box_output st d).
Proof. exact (margin_box_reads_page_state st decls j d). Qed.
Print Assumptions C14_margin_box_reads_page_state.

Theorem C14_margin_boxes_independent (st : pstate) (decls decls' : list mdecl) (j : nat) :
  nth_error decls j = nth_error decls' j ->
  nth_error (margin_boxes_model st decls) j = nth_error (margin_boxes_model st decls') j.
Proof. exact (margin_boxes_independent st decls decls' j). Qed.
Print Assumptions C14_margin_boxes_independent.

(* get_string_or_element_for = css-gcpm-3 string()/element() with first | start | last | first-except *)
Theorem C14_string_first_last_start_except (st : sstore) (current : nat) (kw : keyword) (first_element_assigns : bool) :
  get_string st current kw first_element_assigns =
  (let here := page_assignments st current in
   let entry := last_opt (List.concat (firstn (current - 1) st)) in
   match kw with
   | KFirst => match here with x :: _ => Some x | [] => entry end
   | KStart => match here with x :: _ => if first_element_assigns then Some x else entry | [] => entry end
   | KLast => match last_opt here with Some x => Some x | None => entry end
   | KFirstExcept => match here with _ :: _ => None | [] => entry end
   end).
Proof. exact (string_first_last_start_except st current kw first_element_assigns). Qed.
Print Assumptions C14_string_first_last_start_except.

Theorem C14_exit_value_is_next_entry (st : sstore) (p : nat) fl :
  get_string st (S p) KLast fl = entry_value st (S (S p)).
Proof. exact (exit_value_is_next_entry st p fl). Qed.
Print Assumptions C14_exit_value_is_next_entry.

(* ================================================================================ 4. PDF page boxes *)
Open Scope Q_scope.

Theorem C14_trimbox_is_page w h bl bt br bb zoom :
  let '(_, trim, _) := pdf_boxes w h bl bt br bb zoom in
  rect_eq trim (0, 0, zoom * (3 # 4) * w, zoom * (3 # 4) * h).
Proof. exact (trimbox_is_page w h bl bt br bb zoom). Qed.
Print Assumptions C14_trimbox_is_page.

Theorem C14_mediabox_is_page_times_scale_plus_bleed w h bl bt br bb zoom :
  let '(media, _, _) := pdf_boxes w h bl bt br bb zoom in
  let s := zoom * (3 # 4) in
  rect_eq media (- (s * bl), - (s * bt), s * (w + br), s * (h + bb)).
Proof. exact (mediabox_is_page_times_scale_plus_bleed w h bl bt br bb zoom). Qed.
Print Assumptions C14_mediabox_is_page_times_scale_plus_bleed.

Theorem C14_bleedbox_within_10pt w h bl bt br bb zoom :
  0 <= zoom -> 0 <= bl -> 0 <= bt -> 0 <= br -> 0 <= bb ->
  let '(media, trim, bleedbox) := pdf_boxes w h bl bt br bb zoom in
  rect_in trim bleedbox /\ rect_in bleedbox media /\
  let '(t1, t2, t3, t4) := trim in let '(x1, x2, x3, x4) := bleedbox in
  t1 - x1 <= 10 /\ t2 - x2 <= 10 /\ x3 - t3 <= 10 /\ x4 - t4 <= 10.
Proof. exact (bleedbox_within_10pt w h bl bt br bb zoom). Qed.
Print Assumptions C14_bleedbox_within_10pt.

Theorem C14_page_boxes_linear_in_zoom w h bl bt br bb zoom k :
  let '(media1, trim1, _) := pdf_boxes w h bl bt br bb zoom in
  let '(mediak, trimk, _) := pdf_boxes w h bl bt br bb (k * zoom) in
  rect_eq mediak (rect_scale k media1) /\ rect_eq trimk (rect_scale k trim1).
Proof. exact (page_boxes_linear_in_zoom w h bl bt br bb zoom k). Qed.
Print Assumptions C14_page_boxes_linear_in_zoom.

(* finding pdf-bleed-top-bottom-swapped: the MediaBox equals the area where the bleed is painted iff the top and
   bottom bleeds are equal; otherwise part of the painted bleed lies outside it *)
Theorem C14_mediabox_covers_painted_area_iff_symmetric w h bl bt br bb zoom :
  ~ zoom == 0 ->
  let '(media, _, _) := pdf_boxes w h bl bt br bb zoom in
  rect_eq media (painted_bleed_area w h bl bt br bb zoom) <-> bt == bb.
Proof. exact (mediabox_covers_painted_area_iff_symmetric w h bl bt br bb zoom). Qed.
Print Assumptions C14_mediabox_covers_painted_area_iff_symmetric.

Theorem C14_mediabox_covers_painted_area_refuted :
  exists w h bl bt br bb zoom, 0 <= bl /\ 0 <= bt /\ 0 <= br /\ 0 <= bb /\ 0 < zoom /\
    let '(media, _, _) := pdf_boxes w h bl bt br bb zoom in
    ~ rect_in (painted_bleed_area w h bl bt br bb zoom) media.
Proof. exact mediabox_covers_painted_area_refuted. Qed.
Print Assumptions C14_mediabox_covers_painted_area_refuted.

(* ====================================== 5. compute_variable_dimension as REGENERATED from weasyprint/layout/page.py *)
(* gen/GenPage.v on every run: the statements of compute_variable_dimension after `box_a, box_b, box_c = side_boxes`
   (the loops over side_boxes unrolled over the three names), the @property getters of OrientedBox (sugar, outer,
   outer_min_content_size, outer_max_content_size) as methods answered by running their own regenerated bodies
   (GV.glinked), every `x.outer = e` printed as the body of the setter; restore_box_attributes is an oracle.
   The adapters are attribute bags (GV.vbox): margin_a / margin_b / inner numbers or 'auto', padding_plus_border,
   min_content_size, max_content_size numbers (inputs), box.is_generated a boolean. *)
Require WV.base.PyLink WV.proofs.C14_gen_variable WV.proofs.C14_gen_variable_src.
Module GV := WV.proofs.C14_gen_variable.
Module GVS := WV.proofs.C14_gen_variable_src.

(* the source computes the hand model, for every input: it ends normally with the three adapters representing the
   model's boxes (GV.box_rep: numbers up to ==) when the model returns Ok, and raises the model's error otherwise
   (GV.cvd_err: AssertionError / ZeroDivisionError / TypeError for ErrAssert / ErrDiv / ErrType) *)
Theorem C14_source_compute_variable_dimension O (HO : Py.ops_ok O) (HR : GV.restore_oracle O) (n : nat)
        avail a b c (ga gb gc : bool) :
  Py.run (GV.glinked O GenPage.GenPage_table (S (S n))) GenPage.compute_variable_dimension_body
    (GV.cvd_env avail a b c ga gb gc)
    (GV.cvd_post (compute_variable_dimension avail a b c gb))
    (GV.cvd_err (compute_variable_dimension avail a b c gb)).
Proof. exact (GV.gen_compute_variable_dimension O HO HR n avail a b c ga gb gc). Qed.
Print Assumptions C14_source_compute_variable_dimension.

(* what the source raises, and when: only the AssertionError of `assert box_b.inner == 0`, exactly when the centre
   box is not generated and its inner size is not 0; otherwise it ends normally and margin_a, margin_b and inner of
   the three adapters are numbers (the final `assert 'auto' not in [...]` never fires) *)
Theorem C14_source_variable_dimension_total O (HO : Py.ops_ok O) (HR : GV.restore_oracle O) (n : nat)
        avail a b c (ga gb gc : bool) :
  Py.run (GV.glinked O GenPage.GenPage_table (S (S n))) GenPage.compute_variable_dimension_body
    (GV.cvd_env avail a b c ga gb gc)
    (fun rho res => res = None /\ (gb = true \/ exists z, m_inner b = Some z /\ z == 0) /\
                    GVS.bag_resolved (Py.lookup "box_a" rho) /\ GVS.bag_resolved (Py.lookup "box_b" rho) /\
                    GVS.bag_resolved (Py.lookup "box_c" rho))
    (fun m => m = "AssertionError"%string /\ gb = false /\ ~ (exists z, m_inner b = Some z /\ z == 0)).
Proof. exact (GVS.source_cvd_total O HO HR n avail a b c ga gb gc). Qed.
Print Assumptions C14_source_variable_dimension_total.

(* no ZeroDivisionError for any input (the `if flex_factor_sum == 0: flex_factor_sum = 1` guards of the source) *)
Theorem C14_source_no_division_by_zero O (HO : Py.ops_ok O) (HR : GV.restore_oracle O) (n : nat)
        avail a b c (ga gb gc : bool) :
  Py.run (GV.glinked O GenPage.GenPage_table (S (S n))) GenPage.compute_variable_dimension_body
    (GV.cvd_env avail a b c ga gb gc)
    (fun _ _ => True) (fun m => m <> "ZeroDivisionError"%string).
Proof. exact (GVS.source_no_division_by_zero O HO HR n avail a b c ga gb gc). Qed.
Print Assumptions C14_source_no_division_by_zero.

(* C14_three_boxes_fit_when_possible about the source: the outer sizes read from the adapters after the run
   (GVS.bag_outer = padding_plus_border + margin_a + margin_b + inner) fit *)
Theorem C14_source_three_boxes_fit_when_possible O (HO : Py.ops_ok O) (HR : GV.restore_oracle O) (n : nat)
        avail a b c (ga gb gc : bool) :
  content_ok a -> content_ok b -> content_ok c ->
  (gb = false -> exists z, m_inner b = Some z /\ z == 0) ->
  fits_possible avail a b c gb ->
  Py.run (GV.glinked O GenPage.GenPage_table (S (S n))) GenPage.compute_variable_dimension_body
    (GV.cvd_env avail a b c ga gb gc)
    (fun rho res => res = None /\
       let oa := GVS.bag_outer (Py.lookup "box_a" rho) in let ob := GVS.bag_outer (Py.lookup "box_b" rho) in
       let oc := GVS.bag_outer (Py.lookup "box_c" rho) in
       if gb then oa <= (1 # 2) * (avail - ob) /\ oc <= (1 # 2) * (avail - ob) else oa + oc <= avail)
    (fun _ => False).
Proof. exact (GVS.source_three_boxes_fit O HO HR n avail a b c ga gb gc). Qed.
Print Assumptions C14_source_three_boxes_fit_when_possible.

(* C14_side_boxes_do_not_overlap / C14_center_box_centred about the source: placed as make_margin_boxes places them
   (A at the start of the side, B centred, C at its end), the rectangles of the sizes left in the adapters do not
   overlap, the centre box is centred, and with non-negative outer sizes they stay inside the side *)
Theorem C14_source_side_boxes_do_not_overlap O (HO : Py.ops_ok O) (HR : GV.restore_oracle O) (n : nat)
        avail a b c (ga gb gc : bool) :
  content_ok a -> content_ok b -> content_ok c ->
  (gb = false -> exists z, m_inner b = Some z /\ z == 0) ->
  fits_possible avail a b c gb ->
  Py.run (GV.glinked O GenPage.GenPage_table (S (S n))) GenPage.compute_variable_dimension_body
    (GV.cvd_env avail a b c ga gb gc)
    (fun rho res => res = None /\
       let oa := GVS.bag_outer (Py.lookup "box_a" rho) in let ob := GVS.bag_outer (Py.lookup "box_b" rho) in
       let oc := GVS.bag_outer (Py.lookup "box_c" rho) in
       let pa := 0 in let pb := (1 # 2) * (avail - ob) in let pc := avail - oc in
       pb + ob / 2 == avail / 2 /\
       (gb = true -> pa + oa <= pb /\ pb + ob <= pc) /\ (gb = false -> pa + oa <= pc) /\
       (0 <= oa -> 0 <= ob -> 0 <= oc ->
          pa + oa <= avail /\ 0 <= pc /\ (gb = true -> 0 <= pb /\ pb + ob <= avail)))
    (fun _ => False).
Proof. exact (GVS.source_side_boxes_do_not_overlap O HO HR n avail a b c ga gb gc). Qed.
Print Assumptions C14_source_side_boxes_do_not_overlap.

(* ====================================== 6. StyleFor._page_type_match as REGENERATED from weasyprint/css/__init__.py *)
(* gen/GenPageSel.v on every run: the whole function.  The selector and the page type are the attribute bags GM.vsel /
   GM.vpt (namedtuples PageSelectorType / PageType: side 'left' / 'right', booleans, integers n#1, None, the :nth
   triple [a; b; group or None], the page groups a list of [name; index]); `offset % a` is the primitive PMod of
   base/Py.v (floor-mod), `offset / a` the exact quotient; `for group_name, index in page_type.groups` with its
   `continue` is printed as a loop over one variable with an unpacking and an if / else. *)
Require WV.gen.GenPageSel WV.proofs.C14_gen_match.
Module GM := WV.proofs.C14_gen_match.

(* the source computes the hand model page_type_match (on which C14_page_type_match and the cascade theorems of
   section 1 rest) for every selector and every page type, whatever the list of page groups, and raises nothing *)
Theorem C14_source_page_type_match O (HO : Py.ops_ok O) (sel : selector) (pt : page_type) :
  Py.run O GenPageSel.page_type_match_body (GM.env0 (GM.vsel sel) (GM.vpt pt))
    (fun _ r => r = Some (Py.VBool (page_type_match sel pt))) (fun _ => False).
Proof. exact (GM.gen_page_type_match O HO sel pt). Qed.
Print Assumptions C14_source_page_type_match.

(* the same as the value a caller receives *)
Theorem C14_source_page_type_match_call O (HO : Py.ops_ok O) (sel : selector) (pt : page_type) :
  PyLink.call_body O (GenPageSel.page_type_match_args, GenPageSel.page_type_match_body) [GM.vsel sel; GM.vpt pt]
  = Py.VBool (page_type_match sel pt).
Proof. exact (GM.call_page_type_match O HO sel pt). Qed.
Print Assumptions C14_source_page_type_match_call.

(* the source answers True exactly when the selector's meaning holds of the page: side, :blank, :first (index 0),
   page name, :nth(an+b) (the page number index+1 is a*n+b for some n >= 0), :nth(an+b of g) (the page is named g
   and one of its group entries (g, gi) has gi+1 = a*n+b for some n >= 0) *)
Theorem C14_source_page_type_match_spec O (HO : Py.ops_ok O) (sel : selector) (pt : page_type) :
  Py.run O GenPageSel.page_type_match_body (GM.env0 (GM.vsel sel) (GM.vpt pt))
    (fun _ r => exists m : bool, r = Some (Py.VBool m) /\
       (m = true <->
        ((forall s, s_side sel = Some s -> s = pt_side pt) /\
         (forall bl, s_blank sel = Some bl -> bl = pt_blank pt) /\
         (forall f, s_first sel = Some f -> (f = true <-> pt_index pt = 0%Z)) /\
         (forall n, s_name sel = Some n -> n = pt_name pt) /\
         (forall a b, s_index sel = Some (a, b, None) -> nth_spec a b (pt_index pt)) /\
         (forall a b g, s_index sel = Some (a, b, Some g) ->
            g = pt_name pt /\ exists gi, In (g, gi) (pt_groups pt) /\ nth_spec a b gi))))
    (fun _ => False).
Proof. exact (GM.source_page_type_match_spec O HO sel pt). Qed.
Print Assumptions C14_source_page_type_match_spec.

(* `offset == 0 if a == 0 else (offset / a >= 0 and not offset % a)` of the source, for ALL integers a, b and every
   page index: `@page :nth(an+b)` matches iff index + 1 = a*n + b for some n >= 0 *)
Theorem C14_source_nth_semantics O (HO : Py.ops_ok O) (a b : Z) (pt : page_type) :
  Py.run O GenPageSel.page_type_match_body (GM.env0 (GM.vsel (GM.sel_nth a b)) (GM.vpt pt))
    (fun _ r => exists m : bool, r = Some (Py.VBool m) /\
                (m = true <-> exists n : Z, (0 <= n /\ pt_index pt + 1 = a * n + b)%Z))
    (fun _ => False).
Proof. exact (GM.source_nth_semantics O HO a b pt). Qed.
Print Assumptions C14_source_nth_semantics.

(* ============================ 7. _standardize_page_based_counters as REGENERATED from weasyprint/layout/page.py *)
(* gen/GenPageCounters.v on every run: the whole function, the loop over the three property names unrolled by the
   translator (constant keys), `continue` folded into if / else, the loop over the (name, value) pairs over one
   variable with an unpacking.  The style dictionary is the attribute bag GC.sty (the three counter properties, each
   'auto' or a list of pairs: GC.vops, then any other entries `extra`), pseudo_type None for the page itself or the
   at-keyword of a margin box (GC.vpseudo). *)
Require WV.gen.GenPageCounters WV.proofs.C14_gen_counters.
Module GC := WV.proofs.C14_gen_counters.

(* the dictionary the source leaves is the hand model standardize (on which C14_page_counter_counts_from_1,
   C14_counter_reset_on_page_rule, C14_counter_increment_on_page_rule, C14_margin_box_keeps_page_counter rest), for
   every style and both contexts; nothing is raised, nothing is returned *)
Theorem C14_source_standardize_counters O (c : cstyle) (is_page : bool) (kw : string) (extra : list (string * Py.val)) :
  Py.run O GenPageCounters.standardize_page_based_counters_body
    [("style"%string, GC.sty (GC.vops (c_set c)) (GC.vops (c_reset c)) (GC.vops (c_incr c)) extra);
     ("pseudo_type"%string, GC.vpseudo is_page kw)]
    (fun rho r => r = None /\ Py.lookup "style" rho = GC.vstd (standardize c is_page) extra) (fun _ => False).
Proof. exact (GC.gen_standardize O c is_page kw extra). Qed.
Print Assumptions C14_source_standardize_counters.

(* in the terms of the property: the source drops exactly the entries named `pages` from the three properties
   ('auto' becomes empty), keeps the others in order, and puts `page 1` in front of counter-increment exactly in the
   page context when no entry of the three properties names `page` *)
Theorem C14_source_standardize_counters_spec O (c : cstyle) (is_page : bool) (kw : string) extra :
  Py.run O GenPageCounters.standardize_page_based_counters_body
    [("style"%string, GC.sty (GC.vops (c_set c)) (GC.vops (c_reset c)) (GC.vops (c_incr c)) extra);
     ("pseudo_type"%string, GC.vpseudo is_page kw)]
    (fun rho r => r = None /\ exists s' r' i' : ops,
       Py.lookup "style" rho =
         GC.sty (Py.VList (map GC.vpair s')) (Py.VList (map GC.vpair r')) (Py.VList (map GC.vpair i')) extra /\
       s' = filter GC.keep (GC.oplist (c_set c)) /\ r' = filter GC.keep (GC.oplist (c_reset c)) /\
       (forall nv, In nv s' <-> In nv (GC.oplist (c_set c)) /\ fst nv <> "pages"%string) /\
       (forall nv, In nv r' <-> In nv (GC.oplist (c_reset c)) /\ fst nv <> "pages"%string) /\
       ((is_page = true /\ ~ GC.names_page c) -> i' = ("page"%string, 1%Z) :: filter GC.keep (GC.oplist (c_incr c))) /\
       ((is_page = false \/ GC.names_page c) -> i' = filter GC.keep (GC.oplist (c_incr c))))
    (fun _ => False).
Proof. exact (GC.source_standardize_spec O c is_page kw extra). Qed.
Print Assumptions C14_source_standardize_counters_spec.
