(* C12 - Flex and grid containers distribute space and place items as specified: property theorems only.
   Models: model/C12Flex.v (flex.py step 6, css-flexbox 9.7), model/C12FlexLines.v (order, step 5, step 12),
   model/C12Grid.v (grid.py placement and track sizing); tied to /repo by the render correspondence of
   harness/p_c12.py (row_judge, col_judge, grid judges). *)
From Coq Require Import QArith List ZArith Bool Permutation Sorted.
Require Import WV.model.C12Flex WV.model.C12FlexLines.
Require Import WV.proofs.C12_flex_base WV.proofs.C12_flex_inv WV.proofs.C12_flex WV.proofs.C12_flex_lines.
Import ListNotations.
Open Scope Q_scope.

(* ---------------------------------------------------------------- flex 9.7: resolving flexible lengths *)

(* the `while not all(frozen)` loop ends within len(line) passes and never divides by zero: every input *)
Theorem C12_flex_resolve_fuel (items : list item) (gap avail : Q) :
  exists r, resolve items gap avail = Done r.
Proof. exact (resolve_fuel items gap avail). Qed.
Print Assumptions C12_flex_resolve_fuel.

(* each pass freezes at least one more item *)
Theorem C12_flex_pass_freezes_one md avail gap init0 l l' :
  forallb ffrozen l = false -> pass md avail gap init0 l = Some l' -> (cnt l' < cnt l)%nat.
Proof. exact (pass_decreases md avail gap init0 l l'). Qed.
Print Assumptions C12_flex_pass_freezes_one.

(* min <= used main size <= max, for every item of every line (min <= max, factors >= 0) *)
Theorem C12_flex_respects_min_max (items : list item) (gap avail : Q) (r : list fst) :
  Forall valid_item items -> resolve items gap avail = Done r ->
  map fit r = items /\
  forall x, In x r -> imin (fit x) <= ftarget x /\ le_max (ftarget x) (imax (fit x)).
Proof. exact (flex_respects_min_max items gap avail r). Qed.
Print Assumptions C12_flex_respects_min_max.

(* with clamping: growing never overflows the container nor makes an item smaller than its hypothetical size;
   shrinking never leaves a hole nor makes an item larger than its hypothetical size *)
Theorem C12_flex_right_direction (items : list item) (gap avail : Q) (r : list fst) :
  items <> [] -> Forall valid_item items -> resolve items gap avail = Done r ->
  match choose_mode items gap avail with
  | Grow => total gap r <= avail /\ forall x, In x r -> ihyp (fit x) <= ftarget x
  | Shrink => avail <= total gap r /\ forall x, In x r -> ftarget x <= ihyp (fit x)
  end.
Proof. exact (flex_right_direction items gap avail r). Qed.
Print Assumptions C12_flex_right_direction.

(* flex_fills + proportionality.  `free_factor md x` is the flex factor of x when x was flexible (9.7.3) and
   ends strictly between its min and max, else 0; `weight` is flex-grow when growing and
   flex-shrink * flex base size when shrinking.
   (1) all such items received k * weight for one common k (grow proportional to flex-grow, shrink
       proportional to flex-shrink x base size);
   (2) if their flex factors sum to at least 1: sum (target + main_outer_extra) + gaps = available space. *)
Theorem C12_flex_fills (items : list item) (gap avail : Q) (r : list fst) :
  items <> [] -> Forall valid_item items -> Forall (fun it => 0 <= imin it) items ->
  resolve items gap avail = Done r ->
  let md := choose_mode items gap avail in
  (exists k, forall x, In x r -> flexible md (fit x) = true -> inside x ->
                       ftarget x == ibase (fit x) + k * weight md (fit x)) /\
  (1 <= sumQ (free_factor md) r -> total gap r == avail).
Proof. exact (flex_fills_and_proportional items gap avail r). Qed.
Print Assumptions C12_flex_fills.

(* ---------------------------------------------------------------- order and line collection (step 5) *)

(* the lines, concatenated, are the items in order-modified document order (a stable sort by `order`);
   no line is empty; every line of two or more items fits in the main size *)
Theorem C12_lines_partition_in_order {A} (key : A -> Z) (sz : A -> Q) (wrap : bool) (main gap : Q) (items : list A) :
  let sorted := sort_ord key items in
  let lines := collect sz wrap main gap sorted in
  concat lines = sorted /\ Permutation sorted items /\ Sorted (kle key) sorted /\
  (forall k, filter (fun a => Z.eqb (key a) k) sorted = filter (fun a => Z.eqb (key a) k) items) /\
  Forall (fun ln => ln <> []) lines /\
  (wrap = true -> Forall (fits sz main gap) lines).
Proof. exact (lines_partition_in_order key sz wrap main gap items). Qed.
Print Assumptions C12_lines_partition_in_order.

(* the loop of step 5 is the greedy collection of css-flexbox 9.3 *)
Theorem C12_lines_greedy {A} (sz : A -> Q) (main gap : Q) (l : list A) :
  (forall d, In d l -> 0 <= sz d + gap) -> collect sz true main gap l = collect_css sz true main gap l.
Proof. exact (collect_is_greedy sz main gap l). Qed.
Print Assumptions C12_lines_greedy.

(* ---------------------------------------------------------------- main-axis placement (step 12) *)

(* one line: ids and widths are kept; the first item starts at origin + lead; consecutive margin boxes are
   gap + between apart; the last margin box ends trail before the end of the container; margin boxes + gaps +
   free space = container; auto margins absorb all the (non-negative) free space *)
Theorem C12_justify_positions (j : justify) (origin W gap : Q) (line : list jitem) x t : line = x :: t ->
  let ps := justify_line j origin W gap line in
  let n := length line in
  exists free j',
    (snd (margins_line (jfree W gap line) line) = free /\ j' = fallback JStart free j) /\
    map pid ps = map jid line /\ map pw ps = map jw line /\
    (exists p ps', ps = p :: ps' /\ px p == origin + lead j' free n) /\
    chain (fun a b => px b == px a + pmw a + gap + between j' free n) ps /\
    last_edge ps + trail j' free n == origin + W /\
    sumQ pmw ps + gaps_len line gap + free == W /\
    ((0 < nautos line)%Z -> 0 <= jfree W gap line -> free == 0).
Proof. exact (justify_positions j origin W gap line x t). Qed.
Print Assumptions C12_justify_positions.

(* lead / between / trail per justify-content keyword *)
Theorem C12_justify_keywords (free : Q) (n : nat) : (0 < n)%nat ->
  (lead JStart free n == 0 /\ between JStart free n == 0 /\ trail JStart free n == free) /\
  (lead JEnd free n == free /\ between JEnd free n == 0 /\ trail JEnd free n == 0) /\
  (lead JCenter free n == free / 2 /\ between JCenter free n == 0 /\ trail JCenter free n == free / 2) /\
  ((2 <= n)%nat -> lead JBetween free n == 0 /\ trail JBetween free n == 0 /\
                   between JBetween free n * (nQ n - 1) == free) /\
  (lead JAround free n == trail JAround free n /\ between JAround free n == 2 * lead JAround free n /\
   between JAround free n * nQ n == free) /\
  (lead JEvenly free n == trail JEvenly free n /\ between JEvenly free n == lead JEvenly free n /\
   between JEvenly free n * (nQ n + 1) == free).
Proof. exact (justify_keywords free n). Qed.
Print Assumptions C12_justify_keywords.
