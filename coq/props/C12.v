(* C12 - Flex and grid containers distribute space and place items as specified: property theorems only.
   Models: model/C12Flex.v (flex.py step 6, css-flexbox 9.7), model/C12FlexLines.v (order, step 5, step 12),
   model/C12Grid.v (grid.py placement and track sizing); tied to /repo by the render correspondence of
   harness/p_c12.py (row_judge, col_judge, grid judges). *)
From Coq Require Import QArith Qminmax List ZArith Bool Permutation Sorted.
Require Import WV.model.C12Flex WV.model.C12FlexLines.
Require Import WV.proofs.C12_flex_base WV.proofs.C12_flex_inv WV.proofs.C12_flex WV.proofs.C12_flex_lines.
Import ListNotations.
Open Scope Q_scope.

(* ---------------------------------------------------------------- flex 9.7: resolving flexible lengths *)

(* the `while not all(frozen)` loop ends within len(line) passes and never divides by zero: every input *)
Theorem C12_flex_resolve_fuel (items : list item) (gap avail : Q) :
  exists r, resolve items gap avail = Done r.
Proof. exact (resolve_fuel items gap avail). Qed.
Print Assumptions C12_flex_resolve_fuel.

(* each pass freezes at least one more item *)
Theorem C12_flex_pass_freezes_one md avail gap init0 l l' :
  forallb ffrozen l = false -> pass md avail gap init0 l = Some l' -> (cnt l' < cnt l)%nat.
Proof. exact (pass_decreases md avail gap init0 l l'). Qed.
Print Assumptions C12_flex_pass_freezes_one.

(* min <= used main size <= max, for every item of every line (min <= max, factors >= 0) *)
Theorem C12_flex_respects_min_max (items : list item) (gap avail : Q) (r : list fst) :
  Forall valid_item items -> resolve items gap avail = Done r ->
  map fit r = items /\
  forall x, In x r -> imin (fit x) <= ftarget x /\ le_max (ftarget x) (imax (fit x)).
Proof. exact (flex_respects_min_max items gap avail r). Qed.
Print Assumptions C12_flex_respects_min_max.

(* with clamping: growing never overflows the container nor makes an item smaller than its hypothetical size;
   shrinking never leaves a hole nor makes an item larger than its hypothetical size *)
Theorem C12_flex_right_direction (items : list item) (gap avail : Q) (r : list fst) :
  items <> [] -> Forall valid_item items -> resolve items gap avail = Done r ->
  match choose_mode items gap avail with
  | Grow => total gap r <= avail /\ forall x, In x r -> ihyp (fit x) <= ftarget x
  | Shrink => avail <= total gap r /\ forall x, In x r -> ftarget x <= ihyp (fit x)
  end.
Proof. exact (flex_right_direction items gap avail r). Qed.
Print Assumptions C12_flex_right_direction.

(* flex_fills + proportionality.  `free_factor md x` is the flex factor of x when x was flexible (9.7.3) and
   ends strictly between its min and max, else 0; `weight` is flex-grow when growing and
   flex-shrink * flex base size when shrinking.
   (1) all such items received k * weight for one common k (grow proportional to flex-grow, shrink
       proportional to flex-shrink x base size);
   (2) if their flex factors sum to at least 1: sum (target + main_outer_extra) + gaps = available space. *)
Theorem C12_flex_fills (items : list item) (gap avail : Q) (r : list fst) :
  items <> [] -> Forall valid_item items -> Forall (fun it => 0 <= imin it) items ->
  resolve items gap avail = Done r ->
  let md := choose_mode items gap avail in
  (exists k, forall x, In x r -> flexible md (fit x) = true -> inside x ->
                       ftarget x == ibase (fit x) + k * weight md (fit x)) /\
  (1 <= sumQ (free_factor md) r -> total gap r == avail).
Proof. exact (flex_fills_and_proportional items gap avail r). Qed.
Print Assumptions C12_flex_fills.

(* factor sums below 1 (css-flexbox 9.7.4.b): when no flexible item ends on its min or max, the line is
   resolved in one pass and takes min(1, sum of the flex factors of the flexible items) of the initial free space *)
Theorem C12_flex_fills_fraction (items : list item) (gap avail : Q) (r : list fst) :
  items <> [] -> Forall valid_item items -> Forall (fun it => 0 <= imin it) items ->
  resolve items gap avail = Done r ->
  let md := choose_mode items gap avail in
  (forall x, In x r -> flexible md (fit x) = true -> inside x) ->
  total gap r == avail - (1 - Qmin 1 (flex_sum md items)) * free_space avail gap (map (init_item md) items).
Proof. exact (flex_fills_fraction items gap avail r). Qed.
Print Assumptions C12_flex_fills_fraction.

(* ---------------------------------------------------------------- order and line collection (step 5) *)

(* the lines, concatenated, are the items in order-modified document order (a stable sort by `order`);
   no line is empty; every line of two or more items fits in the main size *)
Theorem C12_lines_partition_in_order {A} (key : A -> Z) (sz : A -> Q) (wrap : bool) (main gap : Q) (items : list A) :
  let sorted := sort_ord key items in
  let lines := collect sz wrap main gap sorted in
  concat lines = sorted /\ Permutation sorted items /\ Sorted (kle key) sorted /\
  (forall k, filter (fun a => Z.eqb (key a) k) sorted = filter (fun a => Z.eqb (key a) k) items) /\
  Forall (fun ln => ln <> []) lines /\
  (wrap = true -> Forall (fits sz main gap) lines).
Proof. exact (lines_partition_in_order key sz wrap main gap items). Qed.
Print Assumptions C12_lines_partition_in_order.

(* the loop of step 5 is the greedy collection of css-flexbox 9.3 *)
Theorem C12_lines_greedy {A} (sz : A -> Q) (main gap : Q) (l : list A) :
  (forall d, In d l -> 0 <= sz d + gap) -> collect sz true main gap l = collect_css sz true main gap l.
Proof. exact (collect_is_greedy sz main gap l). Qed.
Print Assumptions C12_lines_greedy.

(* ---------------------------------------------------------------- main-axis placement (step 12) *)

(* one line: ids and widths are kept; the first item starts at origin + lead; consecutive margin boxes are
   gap + between apart; the last margin box ends trail before the end of the container; margin boxes + gaps +
   free space = container; auto margins absorb all the (non-negative) free space *)
Theorem C12_justify_positions (reverse : bool) (j : justify) (origin W gap : Q) (line : list jitem) x t : line = x :: t ->
  let ps := justify_line reverse j origin W gap line in
  let n := length line in
  exists free j',
    (snd (margins_line (jfree W gap line) line) = free /\ j' = fallback (if reverse then JEnd else JStart) free j) /\
    map pid ps = map jid line /\ map pw ps = map jw line /\
    (exists p ps', ps = p :: ps' /\ px p == origin + lead j' free n) /\
    chain (fun a b => px b == px a + pmw a + gap + between j' free n) ps /\
    last_edge ps + trail j' free n == origin + W /\
    sumQ pmw ps + gaps_len line gap + free == W /\
    ((0 < nautos line)%Z -> 0 <= jfree W gap line -> free == 0).
Proof. exact (justify_positions reverse j origin W gap line x t). Qed.
Print Assumptions C12_justify_positions.

(* lead / between / trail per justify-content keyword *)
Theorem C12_justify_keywords (free : Q) (n : nat) : (0 < n)%nat ->
  (lead JStart free n == 0 /\ between JStart free n == 0 /\ trail JStart free n == free) /\
  (lead JEnd free n == free /\ between JEnd free n == 0 /\ trail JEnd free n == 0) /\
  (lead JCenter free n == free / 2 /\ between JCenter free n == 0 /\ trail JCenter free n == free / 2) /\
  ((2 <= n)%nat -> lead JBetween free n == 0 /\ trail JBetween free n == 0 /\
                   between JBetween free n * (nQ n - 1) == free) /\
  (lead JAround free n == trail JAround free n /\ between JAround free n == 2 * lead JAround free n /\
   between JAround free n * nQ n == free) /\
  (lead JEvenly free n == trail JEvenly free n /\ between JEvenly free n == lead JEvenly free n /\
   between JEvenly free n * (nQ n + 1) == free).
Proof. exact (justify_keywords free n). Qed.
Print Assumptions C12_justify_keywords.

(* ================================================================= grid (grid.py) *)
Close Scope Q_scope.
(* model/C12Flex.v calls its per-item state record `fst`; from here on `fst` is the pair projection again *)
Notation fst := (@Datatypes.fst _ _).
(* ---- C12 grid part: paste into coq/props/C12.v (needs these imports) ---- *)
From Coq Require Import ZArith QArith Qminmax List Bool.
Require Import WV.model.C12Grid WV.proofs.C12_grid_place WV.proofs.C12_grid_tracks.
Import ListNotations.

(* _intersect is exactly intersection of two non-empty integer intervals *)
Theorem C12_grid_intersect_exact (p1 s1 p2 s2 : Z) : (0 < s1)%Z -> (0 < s2)%Z ->
  (intersect p1 s1 p2 s2 = true <-> exists c : Z, (p1 <= c < p1 + s1)%Z /\ (p2 <= c < p2 + s2)%Z).
Proof. exact (intersect_spec p1 s1 p2 s2). Qed.
Print Assumptions C12_grid_intersect_exact.

(* every count()/while loop of grid_layout step 1 terminates within the fuel the model computes, for all validated items
   (spans >= 1), both flow axes, sparse and dense: OutOfFuel is the only outcome besides Ok *)
Theorem C12_grid_place_fuel (tcols trows : Z) (colflow dense : bool) (items : list item) :
  valid_items items -> grid_place tcols trows colflow dense items <> OutOfFuel.
Proof. exact (grid_place_fuel tcols trows colflow dense items). Qed.
Print Assumptions C12_grid_place_fuel.

(* two different items share a cell only if both are placed by line numbers on both axes *)
Theorem C12_grid_no_overlap (tcols trows : Z) (colflow dense : bool) (items : list item)
    (pl : list (option area)) (b : Z * Z * Z * Z) :
  valid_items items -> grid_place tcols trows colflow dense items = Ok (pl, b) ->
  forall i j iti itj ai aj, i <> j ->
    nth_error items i = Some iti -> nth_error items j = Some itj ->
    nth_error pl i = Some (Some ai) -> nth_error pl j = Some (Some aj) ->
    definite_item iti && definite_item itj = false ->
    forall cx cy : Z, in_area ai cx cy -> in_area aj cx cy -> False.
Proof. exact (grid_no_overlap tcols trows colflow dense items pl b). Qed.
Print Assumptions C12_grid_no_overlap.

(* every item gets an area of at least 1 x 1 tracks *)
Theorem C12_grid_all_placed (tcols trows : Z) (colflow dense : bool) (items : list item)
    (pl : list (option area)) (b : Z * Z * Z * Z) :
  valid_items items -> grid_place tcols trows colflow dense items = Ok (pl, b) ->
  length pl = length items /\
  forall i, (i < length items)%nat ->
    exists x y w h : Z, nth_error pl i = Some (Some (x, y, w, h)) /\ (1 <= w)%Z /\ (1 <= h)%Z.
Proof. exact (grid_all_placed tcols trows colflow dense items pl b). Qed.
Print Assumptions C12_grid_all_placed.

(* every area lies inside the second-axis bounds [implicit_second_1, implicit_second_2) and not before implicit_first_1 *)
Theorem C12_grid_inside_implicit_bounds (tcols trows : Z) (colflow dense : bool) (items : list item)
    (pl : list (option area)) (x1 x2 y1 y2 : Z) :
  valid_items items -> grid_place tcols trows colflow dense items = Ok (pl, (x1, x2, y1, y2)) ->
  forall i (x y w h : Z), nth_error pl i = Some (Some (x, y, w, h)) ->
    if colflow then (x1 <= x /\ y1 <= y /\ y + h <= y2)%Z else (y1 <= y /\ x1 <= x /\ x + w <= x2)%Z.
Proof. exact (grid_inside_implicit_bounds tcols trows colflow dense items pl x1 x2 y1 y2). Qed.
Print Assumptions C12_grid_inside_implicit_bounds.
(* ... and inside the implicit grid on both axes: implicit tracks are created up to the end line of every area, also
   for auto-placed items that span beyond the last track of the flow axis (fixed in /repo, F73) *)
Theorem C12_grid_inside_implicit_grid (tcols trows : Z) (colflow dense : bool) (items : list item)
    (pl : list (option area)) (x1 x2 y1 y2 : Z) :
  valid_items items -> grid_place tcols trows colflow dense items = Ok (pl, (x1, x2, y1, y2)) ->
  forall i x y w h, nth_error pl i = Some (Some (x, y, w, h)) ->
    (x1 <= x /\ x + w <= x2 /\ y1 <= y /\ y + h <= y2)%Z.
Proof. exact (grid_inside_implicit_grid tcols trows colflow dense items pl x1 x2 y1 y2). Qed.
Print Assumptions C12_grid_inside_implicit_grid.

(* sparse packing: fully automatic items, in order-modified document order, never go back on the flow axis *)
Theorem C12_grid_row_major_order (tcols trows : Z) (colflow : bool) (items : list item) (l : plog) (b : Z * Z * Z * Z) :
  valid_items items -> grid_place_log tcols trows colflow false items = Ok (l, b) ->
  forall ch1 i it ch2 j jt ch3,
    sort_children (index_from 0 items) = ch1 ++ (i, it) :: ch2 ++ (j, jt) :: ch3 ->
    fully_auto it -> fully_auto jt ->
    forall a c, lookup_area i l = Some a -> lookup_area j l = Some c ->
    (fst (first_of colflow a) <= fst (first_of colflow c))%Z.
Proof. exact (grid_row_major_order tcols trows colflow items l b). Qed.
Print Assumptions C12_grid_row_major_order.
(* still true of the current source (reported, not css-grid 8.5): sparse packing back-fills, so the full
   (row, column) order is not kept *)
Theorem C12_grid_lexicographic_order_refuted :
  exists items pl b, valid_items items /\ grid_place 4 2 false false items = Ok (pl, b) /\
    exists it jt xa ya wa ha xb yb wb hb,
      nth_error items 1 = Some it /\ nth_error items 2 = Some jt /\ fully_auto it /\ fully_auto jt /\
      nth_error pl 1 = Some (Some (xa, ya, wa, ha)) /\ nth_error pl 2 = Some (Some (xb, yb, wb, hb)) /\
      ya = yb /\ (xb < xa)%Z.
Proof. exact grid_lexicographic_order_refuted. Qed.
Print Assumptions C12_grid_lexicographic_order_refuted.
(* fixed in /repo (F244), css-grid 8.5 step 2, sparse packing: an item locked to a row (column) by its placement
   properties and automatic on the other axis is placed there right after the last track occupied in its rows
   (columns), with the span its properties give; on the FIRST line when nothing is placed in them *)
Theorem C12_grid_locked_sparse_position (colflow : bool) (fp : Z * Z) (ss se : gline) (ps : list area) :
  nonline ss = true -> nonline se = true -> gline_valid ss = true -> gline_valid se = true ->
  second_placement colflow false fp ss se ps = Some (occ_next (occupied colflow fp ps), auto_size ss se).
Proof. exact (grid_locked_sparse_position colflow fp ss se ps). Qed.
Print Assumptions C12_grid_locked_sparse_position.
Theorem C12_grid_locked_sparse_empty (colflow : bool) (fp : Z * Z) (ss se : gline) (ps : list area) :
  nonline ss = true -> nonline se = true -> gline_valid ss = true -> gline_valid se = true ->
  (forall a, In a ps -> intersect (fst (first_of colflow a)) (snd (first_of colflow a)) (fst fp) (snd fp) = false) ->
  second_placement colflow false fp ss se ps = Some (0, auto_size ss se)%Z.
Proof. exact (grid_locked_sparse_empty colflow fp ss se ps). Qed.
Print Assumptions C12_grid_locked_sparse_empty.
Theorem C12_grid_locked_item_first_cell :
  grid_place 3 2 false false [it_ GAuto GAuto (GLine 1) GAuto] = Ok ([Some (0, 0, 1, 1)%Z], (0, 3, 0, 2)%Z) /\
  grid_place 3 2 false false [it_ GAuto GAuto (GLine 2) GAuto] = Ok ([Some (0, 1, 1, 1)%Z], (0, 3, 0, 2)%Z) /\
  grid_place 3 2 false false [it_ (GSpan 2) GAuto (GLine 2) GAuto] = Ok ([Some (0, 1, 2, 1)%Z], (0, 3, 0, 2)%Z).
Proof. exact grid_locked_item_first_cell. Qed.
Print Assumptions C12_grid_locked_item_first_cell.

(* css-grid 8.3 on the current source (`from_end=True`): the lines an item occupies on an axis given by its
   grid-placement properties, negative integers counted from the end of the explicit grid, are the css-grid range *)
Theorem C12_grid_negative_lines_from_end (explicit : Z) (s e : gline) : gline_valid s = true -> gline_valid e = true ->
  get_placement (resolve_line (explicit + 1) s) (resolve_line (explicit + 1) e) = css_range explicit s e.
Proof. exact (placement_is_css explicit s e). Qed.
Print Assumptions C12_grid_negative_lines_from_end.

(* step 1 on the items of the style sheet (grid_layout_place = negative lines resolved, then the phases): every item
   is placed on at least 1 x 1 tracks; an item given by line numbers on both axes occupies exactly its css-grid 8.3
   range (with no explicit track on an axis, line -1 is line 1); every area lies inside the implicit grid, so the
   coordinates counted from the first implicit track (the indices used by track sizing and step 4) are >= 0 and the
   tracks it spans exist *)
Theorem C12_grid_layout_placement (tcols trows : Z) (colflow dense : bool) (items : list item)
    (pl : list (option area)) (x1 x2 y1 y2 : Z) :
  valid_items items -> grid_layout_place tcols trows colflow dense items = Ok (pl, (x1, x2, y1, y2)) ->
  length pl = length items /\
  forall i it, nth_error items i = Some it ->
    exists x y w h : Z, nth_error pl i = Some (Some (x, y, w, h)) /\ (1 <= w)%Z /\ (1 <= h)%Z /\
      (0 <= x - x1)%Z /\ (0 <= y - y1)%Z /\ (x + w <= x2)%Z /\ (y + h <= y2)%Z /\
      (forall cx cw cy ch, css_range tcols (col_s it) (col_e it) = Some (cx, cw) ->
                           css_range trows (row_s it) (row_e it) = Some (cy, ch) ->
                           (x, y, w, h) = (cx, cy, cw, ch)).
Proof. exact (layout_placement tcols trows colflow dense items pl x1 x2 y1 y2). Qed.
Print Assumptions C12_grid_layout_placement.

(* ... and auto-placed items overlap nothing, also with negative line numbers *)
Theorem C12_grid_layout_no_overlap (tcols trows : Z) (colflow dense : bool) (items : list item)
    (pl : list (option area)) (b : Z * Z * Z * Z) :
  valid_items items -> grid_layout_place tcols trows colflow dense items = Ok (pl, b) ->
  forall i j iti itj ai aj, i <> j ->
    nth_error items i = Some iti -> nth_error items j = Some itj ->
    nth_error pl i = Some (Some ai) -> nth_error pl j = Some (Some aj) ->
    definite_item iti && definite_item itj = false ->
    forall cx cy : Z, in_area ai cx cy -> in_area aj cx cy -> False.
Proof. exact (layout_no_overlap tcols trows colflow dense items pl b). Qed.
Print Assumptions C12_grid_layout_no_overlap.


(* ---- track sizing: px, percentage and fr tracks, definite container *)
Theorem C12_tracks_fuel (ts : list track) (box gap : Q) (stretch : bool) :
  ts <> [] -> resolve_tracks ts box gap stretch <> None.
Proof. exact (tracks_fuel ts box gap stretch). Qed.
Print Assumptions C12_tracks_fuel.

Theorem C12_tracks_fixed_exact (ts : list track) (box gap : Q) (stretch : bool) (out : list Q) :
  resolve_tracks ts box gap stretch = Some out ->
  Forall2 (fun t o => match t with
                      | TLen q => o == q
                      | TPct p => o == box * p / 100
                      | TFr _ b => b <= o
                      end) ts out.
Proof. exact (tracks_fixed_exact ts box gap stretch out). Qed.
Print Assumptions C12_tracks_fixed_exact.

Theorem C12_tracks_nonneg (ts : list track) (box gap : Q) (stretch : bool) (out : list Q) :
  0 <= box -> Forall track_nonneg ts -> resolve_tracks ts box gap stretch = Some out -> Forall (fun o => 0 <= o) out.
Proof. exact (tracks_nonneg ts box gap stretch out). Qed.
Print Assumptions C12_tracks_nonneg.

(* closed form for fr tracks without content and positive free space F: u = F / max(1, sum of factors), an fr track f is
   f * u, whatever the content distribution *)
Theorem C12_tracks_closed_form (ts : list track) (box gap : Q) (stretch : bool) (out : list Q) :
  Forall plain ts -> 0 < free_space ts box gap ->
  resolve_tracks ts box gap stretch = Some out ->
  let u := free_space ts box gap / Qmax 1 (fr_sum ts) in
  Forall2 (fun t o => o == match t with TFr f _ => f * u | _ => base_of box t end) ts out.
Proof. exact (tracks_closed ts box gap stretch out). Qed.
Print Assumptions C12_tracks_closed_form.

(* tracks_partition_container: fixed, percentage and fr tracks with the gaps fill the container exactly when the free
   space is positive and the fr factors sum to at least 1 *)
Theorem C12_tracks_partition_container (ts : list track) (box gap : Q) (stretch : bool) (out : list Q) :
  Forall plain ts -> 0 < free_space ts box gap -> 1 <= fr_sum ts ->
  resolve_tracks ts box gap stretch = Some out ->
  qsum out + (qlen ts - 1) * gap == box.
Proof. exact (tracks_partition_container ts box gap stretch out). Qed.
Print Assumptions C12_tracks_partition_container.

(* css-grid 12.7.1: factors summing to less than 1 take only that fraction of the free space, whatever the content
   distribution (fixed in /repo, F74: step 1.5 no longer stretches fr tracks) *)
Theorem C12_tracks_small_factors_leave_space (ts : list track) (box gap : Q) (stretch : bool) (out : list Q) :
  Forall plain ts -> 0 < free_space ts box gap -> fr_sum ts < 1 ->
  resolve_tracks ts box gap stretch = Some out ->
  qsum out + (qlen ts - 1) * gap == box - free_space ts box gap * (1 - fr_sum ts).
Proof. exact (tracks_small_factors_leave_space ts box gap stretch out). Qed.
Print Assumptions C12_tracks_small_factors_leave_space.

(* fr_proportional: fr tracks are proportional to their factors *)
Theorem C12_fr_proportional (ts : list track) (box gap : Q) (stretch : bool) (out : list Q) :
  Forall plain ts -> 0 < free_space ts box gap ->
  resolve_tracks ts box gap stretch = Some out ->
  forall i j fi bi fj bj oi oj,
    nth_error ts i = Some (TFr fi bi) -> nth_error ts j = Some (TFr fj bj) ->
    nth_error out i = Some oi -> nth_error out j = Some oj -> oi * fj == oj * fi.
Proof. exact (fr_proportional ts box gap stretch out). Qed.
Print Assumptions C12_fr_proportional.
(* fixed in /repo (F75): a flexible track with content is frozen and the fr size is computed again; the result is the one
   of the css-grid 12.7.1 reference algorithm *)
Theorem C12_tracks_refreeze_example :
  exists out, resolve_tracks [TFr 1 90; TFr 1 0; TFr 3 0] 300 0 true = Some out /\
    Forall2 Qeq out [90; 105 # 2; 315 # 2] /\ qsum out == 300 /\
    spec_axis_content [TFr 1 90; TFr 1 0; TFr 3 0] 300 0 out = true.
Proof. exact tracks_refreeze_example. Qed.
Print Assumptions C12_tracks_refreeze_example.

(* track positions (3.5, justify-content normal/start) and item rectangles (4) *)
Theorem C12_track_positions (sizes : list Q) (gap pos : Q) (k : nat) : (k < length sizes)%nat ->
  nth k (qpositions sizes gap pos) 0 == track_start sizes gap pos k /\
  track_start sizes gap pos (S k) == track_start sizes gap pos k + nth k sizes 0 + gap.
Proof. exact (fun H => conj (track_positions_spec sizes gap pos k H) (tracks_consecutive sizes gap pos k H)). Qed.
Print Assumptions C12_track_positions.
Theorem C12_area_rectangle (sizes : list Q) (gap pos : Q) (x w : nat) : (x + w <= length sizes)%nat ->
  track_start sizes gap pos x + span_extent sizes gap x w == track_start sizes gap pos (x + w) - gap.
Proof. exact (span_extent_spec sizes gap pos x w). Qed.
Print Assumptions C12_area_rectangle.

(* ---- the placement helpers of weasyprint/layout/grid.py REGENERATED from the source on every run
   (gen/GenGrid.v, interpreter base/Py.v) compute the models intersect, intersect_with_children, get_span and
   get_placement used by the placement theorems above.  Grid lines are the tuples (span, number, name) of
   css/validation with name None, or 'auto' (G.vline); integers are Py.vint; `lines` is any list of line-name
   lists; from_end=True counts a negative integer from the end of the explicit grid (G.rlz = the model's
   resolve_line).  The searches for NAMED lines of _get_line / _get_placement are outside the translated subset:
   they are printed as calls of "%unsupported" (an error value when executed) and the theorems - a value is
   returned - show they are not reached for lines without names.  Calls are linked (base/PyLink.v): the callee is
   the source's own regenerated function. *)
From Coq Require Import String.
Require WV.base.Py WV.base.PyLink WV.gen.GenGrid.
Require WV.proofs.C12_gen_grid_base WV.proofs.C12_gen_grid_place WV.proofs.C12_gen_grid_children.
Module G := WV.proofs.C12_gen_grid_base.
Module GP := WV.proofs.C12_gen_grid_place.
Module GC := WV.proofs.C12_gen_grid_children.

(* _intersect(position_1, size_1, position_2, size_2) is the model's intersect, on all integers *)
Theorem C12_source_intersect O (HO : Py.ops_ok O) (p1 s1 p2 s2 : Z) :
  Py.run O GenGrid.grid_intersect_body
    [("position_1"%string, Py.vint p1); ("size_1"%string, Py.vint s1); ("position_2"%string, Py.vint p2);
     ("size_2"%string, Py.vint s2)]
    (fun _ r => r = Some (Py.VBool (intersect p1 s1 p2 s2))) (fun _ => False).
Proof. exact (G.gen_intersect O HO p1 s1 p2 s2). Qed.
Print Assumptions C12_source_intersect.

(* _intersect_with_children(x, y, width, height, positions), calling the source's _intersect, is the model's
   intersect_with_children: every area, every list of placed areas *)
Theorem C12_source_intersect_with_children n (x y w h : Z) (ps : list area) :
  Py.run (PyLink.linked GenGrid.GenGrid_table (S n)) GenGrid.grid_intersect_with_children_body
    [("x"%string, Py.vint x); ("y"%string, Py.vint y); ("width"%string, Py.vint w); ("height"%string, Py.vint h);
     ("positions"%string, Py.VList (map GC.varea ps))]
    (fun _ r => r = Some (Py.VBool (intersect_with_children (x, y, w, h) ps))) (fun _ => False).
Proof. exact (GC.gen_intersect_with_children n x y w h ps). Qed.
Print Assumptions C12_source_intersect_with_children.

(* _get_span(place) is the model's get_span on every tuple (whatever the name of the line); no call site passes
   'auto' *)
Theorem C12_source_get_span O (HO : Py.ops_ok O) (sp : bool) (n : Z) (name : Py.val) :
  Py.run O GenGrid.grid_get_span_body
    [("place"%string, Py.VList [if sp then Py.VStr "span" else Py.VNone; Py.vint n; name])]
    (fun _ r => r = Some (Py.vint (get_span (if sp then GSpan n else GLine n)))) (fun _ => False).
Proof. exact (G.gen_get_span O HO sp n name). Qed.
Print Assumptions C12_source_get_span.

(* _get_placement(start, end, lines, from_end), calling the source's _get_line, returns the model's get_placement
   (None -> None, Some (coordinate, size) -> the pair): all nine auto / integer / span patterns, every integer,
   every list of line names, from_end or not; it never raises and never reaches a named-line search *)
Theorem C12_source_get_placement n (s e : gline) (ls : list Py.val) (fe : bool) :
  Py.run (PyLink.linked GenGrid.GenGrid_table (S n)) GenGrid.grid_get_placement_body
    [("start"%string, G.vline s); ("end"%string, G.vline e); ("lines"%string, Py.VList ls);
     ("from_end"%string, Py.VBool fe)]
    (fun _ r => r = Some (GP.vpl (get_placement (GP.rlz fe (Z.of_nat (List.length ls)) s)
                                                (GP.rlz fe (Z.of_nat (List.length ls)) e))))
    (fun _ => False).
Proof. exact (GP.gen_get_placement n s e ls fe). Qed.
Print Assumptions C12_source_get_placement.

(* with from_end=True (every call made with the grid-placement properties of an item) the lines are those of
   resolve_item, the first step of the model's grid_layout_place *)
Theorem C12_source_get_placement_resolved n (s e : gline) (ls : list Py.val) :
  Py.run (PyLink.linked GenGrid.GenGrid_table (S n)) GenGrid.grid_get_placement_body
    [("start"%string, G.vline s); ("end"%string, G.vline e); ("lines"%string, Py.VList ls);
     ("from_end"%string, Py.VBool true)]
    (fun _ r => r = Some (GP.vpl (get_placement (resolve_line (Z.of_nat (List.length ls)) s)
                                                (resolve_line (Z.of_nat (List.length ls)) e))))
    (fun _ => False).
Proof. exact (GP.gen_get_placement n s e ls true). Qed.
Print Assumptions C12_source_get_placement_resolved.

(* ---- _get_second_placement, the sparse case (the else branch of its final `if dense:`), REGENERATED from the
   source on every run (gen/GenGrid.v: grid_second_sparse_body).  The set occupied_tracks is given by the list of
   its elements (GS.tracks: the elements `range(x, x + width)` of the model's intervals); second_start is 'auto'
   (with a span the source searches with `for end_track in count(track + 1)`, outside the translated subset: the
   regenerated body raises there).  The call of _get_placement is answered by the source's own _get_placement. *)
Require WV.proofs.C12_gen_grid_second.
Module GS := WV.proofs.C12_gen_grid_second.

(* for EVERY set of occupied tracks (any list of integers, any order), every second_end without a name (auto /
   integer / span) and every list of line names the branch returns, without raising, the placement of the model at
   the line after the last occupied track (GS.next_track: max + 1, 0 for the empty set) *)
Theorem C12_source_second_sparse_auto n (occ : list Z) (e : gline) (ls : list Py.val) :
  Py.run (PyLink.linked GenGrid.GenGrid_table (S (S n))) GenGrid.grid_second_sparse_body
    [("occupied_tracks"%string, Py.VList (map Py.vint occ)); ("second_start"%string, Py.VStr "auto"%string);
     ("second_end"%string, G.vline e); ("second_tracks"%string, Py.VList ls)]
    (fun _ r => r = Some (GP.vpl (Some (pl_line_start (GS.next_track occ + 1)%Z e)))) (fun _ => False).
Proof. exact (GS.gen_second_sparse_auto n occ e ls). Qed.
Print Assumptions C12_source_second_sparse_auto.

(* it is the model's second_placement (sparse packing) on which the placement theorems above rest, for both flow
   directions, every first placement and every list of placed areas *)
Theorem C12_source_second_sparse_model n (colflow : bool) (fp : Z * Z) (se : gline) (ps : list area)
    (ls : list Py.val) :
  Py.run (PyLink.linked GenGrid.GenGrid_table (S (S n))) GenGrid.grid_second_sparse_body
    [("occupied_tracks"%string, Py.VList (map Py.vint (GS.tracks (occupied colflow fp ps))));
     ("second_start"%string, Py.VStr "auto"%string); ("second_end"%string, G.vline se);
     ("second_tracks"%string, Py.VList ls)]
    (fun _ r => r = Some (GP.vpl (second_placement colflow false fp GAuto se ps))) (fun _ => False).
Proof. exact (GS.gen_second_sparse_model n colflow fp se ps ls). Qed.
Print Assumptions C12_source_second_sparse_model.

(* the track computed from the elements of the set is the model's occ_next of the intervals *)
Theorem C12_source_second_next_track (occ : list (Z * Z)) : GS.next_track (GS.tracks occ) = occ_next occ.
Proof. exact (GS.next_track_occ occ). Qed.
Print Assumptions C12_source_second_next_track.

(* the returned track is after every occupied track *)
Theorem C12_source_second_track_after (occ : list Z) : forall t, In t occ -> (t < GS.next_track occ)%Z.
Proof. exact (GS.next_track_after occ). Qed.
Print Assumptions C12_source_second_track_after.

(* the returned (start, size): size >= 1; second_end auto: the cell at the track; `span k`: k tracks from the
   track; an integer line b: the tracks between the track and line b, one track when they coincide *)
Theorem C12_source_second_sparse_clauses (nt : Z) (e : gline) : gline_valid e = true ->
  let '(c, s) := pl_line_start (nt + 1)%Z e in
  (1 <= s)%Z /\
  match e with
  | GAuto => c = nt /\ s = 1%Z
  | GSpan k => c = nt /\ s = k
  | GLine b => c = Z.min nt (b - 1)%Z /\ s = Z.max 1 (Z.abs (b - 1 - nt))%Z
  end.
Proof. exact (GS.second_sparse_auto_clauses nt e). Qed.
Print Assumptions C12_source_second_sparse_clauses.

(* ---- flex_layout step 6 "resolve the flexible lengths" (css-flexbox 9.7) of weasyprint/layout/flex.py
   REGENERATED from the source on every run (gen/GenFlexResolve.v, interpreter base/Py.v) computes the model
   C12Flex on which the flex theorems above rest.  The body of `for line in flex_lines:` up to 9.7.6 is cut into
   consecutive slices: 9.7.1 (grow or shrink), 9.7.3 (freeze the inflexible items), 9.7.4 (initial free space) and
   the body of `while not all(frozen)`: 9.7.5.b (remaining free space), 9.7.5.c (distribution), 9.7.5.d (min / max
   clamping, main = 'width' and main = 'height'), 9.7.5.e (freezing).  Each theorem is for EVERY line: any number
   of items (F.cst: an attribute bag with any further attributes, F.vline: the list of the pairs (index, child)),
   any values of the slice's local variables before it runs.  F.rd0 / F.rd / F.rda write the loop state of an item
   (frozen, target_main_size, flex_factor, adjustment) into its attributes; FM.fst_of reads an item as the
   model's state (wide: min/max_width or min/max_height).  The run ends normally (no exception) and the values it
   leaves are the model's: equal, or == where the source adds in another order.  Loops that store attributes of
   the items are printed by the translator's rule rebuild_for (tools/py2coq.py).  Outside: a max size of inf
   (no max-width) in 9.7.5.d, the `while` test itself and 9.7.6. *)
Require WV.gen.GenFlexResolve WV.proofs.C12_gen_flex_base WV.proofs.C12_gen_flex_run WV.proofs.C12_gen_flex.
Module F := WV.proofs.C12_gen_flex_base.
Module FR := WV.proofs.C12_gen_flex_run.
Module FM := WV.proofs.C12_gen_flex.

(* 9.7.1: flex_factor_type is 'grow' exactly when the model chooses Grow (hypothetical sizes as step 3 computes
   them: FM.hyp_ok) *)
Theorem C12_source_flex_mode O (HO : Py.ops_ok O) wide (l : list F.cst) (gap avail : Q) hms fft :
  Forall (FM.hyp_ok wide) l ->
  Py.run O GenFlexResolve.flex_mode_body (FR.Emode (F.vline l) (Py.VNum gap) (Py.VNum avail) hms fft)
    (FR.ends (fun rho => exists g, Py.lookup "flex_factor_type" rho = Py.VStr (FR.mode_name g) /\
                                   FM.md_of g = C12Flex.choose_mode (map (FM.item_of wide) l) gap avail)) (fun _ => False).
Proof. exact (FM.gen_flex_mode O HO wide l gap avail hms fft). Qed.
Print Assumptions C12_source_flex_mode.

(* 9.7.3: the line after the loop holds the model's C12Flex.init_item of every item *)
Theorem C12_source_flex_inflexible O (HO : Py.ops_ok O) wide grow (l : list F.cst) new item idx child fc :
  Forall (FM.hyp_ok wide) l ->
  Py.run O GenFlexResolve.flex_inflexible_body (FR.Einfl (F.vline l) grow new item idx child fc)
    (FR.ends (fun rho => exists l', Py.lookup "line" rho = F.vline (map F.rd0 l') /\
                Forall2 FM.feq (map (FM.fst_of wide) l') (map (C12Flex.init_item (FM.md_of grow)) (map (FM.item_of wide) l))))
    (fun _ => False).
Proof. exact (FM.gen_flex_inflexible O HO wide grow l new item idx child fc). Qed.
Print Assumptions C12_source_flex_inflexible.

(* 9.7.4: initial_free_space is the model's C12Flex.free_space *)
Theorem C12_source_flex_initial_free_space O (HO : Py.ops_ok O) wide gap avail (l : list F.rst) ifs item i item1 idx child :
  Py.run O GenFlexResolve.flex_initial_free_space_body
    (FR.Efs (F.vline (map F.rd0 l)) (Py.VNum gap) (Py.VNum avail) ifs item i item1 idx child)
    (FR.ends (fun rho => exists q, Py.lookup "initial_free_space" rho = Py.VNum q /\
                                   q == C12Flex.free_space avail gap (map (FM.fst_of wide) l))) (fun _ => False).
Proof. exact (FM.gen_flex_initial_free_space O HO wide gap avail l ifs item i item1 idx child). Qed.
Print Assumptions C12_source_flex_initial_free_space.

(* 9.7.5.b: remaining_free_space is the model's C12Flex.pass_rem (flex factors as 9.7.3 set them: FM.factor_ok; `inf` is
   not a number of the embedding: any string; `sys` is not read) *)
Theorem C12_source_flex_remaining O (HO : Py.ops_ok O) wide grow gap avail init0 infs sys (l : list F.rst)
        ufs rem item i item1 idx child scaled :
  Forall (FM.factor_ok wide grow) l ->
  Py.run O GenFlexResolve.flex_remaining_body
    (FR.Erem (F.vline (map F.rd0 l)) (Py.VNum gap) (Py.VNum avail) (Py.VNum init0) (Py.VStr infs) sys ufs rem
             item i item1 idx child scaled)
    (FR.ends (fun rho => exists q, Py.lookup "remaining_free_space" rho = Py.VNum q /\
                                   q == C12Flex.pass_rem (FM.md_of grow) avail gap init0 (map (FM.fst_of wide) l) /\
                                   Py.lookup "initial_free_space" rho = Py.VNum init0)) (fun _ => False).
Proof. exact (FM.gen_flex_remaining O HO wide grow gap avail init0 infs sys l ufs rem item i item1 idx child scaled). Qed.
Print Assumptions C12_source_flex_remaining.

(* 9.7.5.c: the line after the distribution is the model's C12Flex.distribute (whenever the model does not divide by
   zero, the source does not either) *)
Theorem C12_source_flex_distribute O (HO : Py.ops_ok O) wide (l : list F.rst) rem grow new item idx child ss gs ratio :
  (grow = true -> ~ rem == 0 -> ~ C12Flex.gsum (map (FM.fst_of wide) l) == 0) ->
  Py.run O GenFlexResolve.flex_distribute_body
    (FR.Ed (F.vline (map F.rd0 l)) (Py.VNum rem) grow new item idx child ss gs ratio)
    (FR.ends (fun rho => exists l2 l', Py.lookup "line" rho = F.vline (map F.rd l2) /\
                           C12Flex.distribute (FM.md_of grow) rem (map (FM.fst_of wide) l) = Some l' /\
                           Forall2 FM.feq (map (FM.fst_of wide) l2) l')) (fun _ => False).
Proof. exact (FM.gen_flex_distribute O HO wide l rem grow new item idx child ss gs ratio). Qed.
Print Assumptions C12_source_flex_distribute.

(* ... and where the model's distribute is None (its DivZero outcome) the source raises ZeroDivisionError, when
   there is an unfrozen item (as there is inside the `while not all(frozen)` loop) *)
Theorem C12_source_flex_distribute_divzero O (HO : Py.ops_ok O) wide (l : list F.rst) rem new item idx child ss gs ratio :
  C12Flex.distribute Grow rem (map (FM.fst_of wide) l) = None ->
  existsb (fun r => negb (F.r_b r)) l = true ->
  Py.run O GenFlexResolve.flex_distribute_body
    (FR.Ed (F.vline (map F.rd0 l)) (Py.VNum rem) true new item idx child ss gs ratio)
    (fun _ _ => False) (fun m => m = "ZeroDivisionError"%string).
Proof. exact (FM.gen_flex_distribute_divzero O HO wide l rem new item idx child ss gs ratio). Qed.
Print Assumptions C12_source_flex_distribute_divzero.

(* 9.7.5.d: targets and adjustments after the clamping are the model's fix_viol, exactly (FR.clamp_body true /
   false: the slice specialised to main = 'width' / 'height') *)
Theorem C12_source_flex_clamp O (HO : Py.ops_ok O) wide (l : list F.rst) new item idx child mn mx cl :
  Py.run O (FR.clamp_body wide) (FR.Ecl (F.vline (map F.rd l)) new item idx child mn mx cl)
    (FR.ends (fun rho => exists l2, Py.lookup "line" rho = F.vline (map F.rda l2) /\
                map (fun r => (FM.fst_of wide r, F.r_a r)) l2 = map C12Flex.fix_viol (map (FM.fst_of wide) l))) (fun _ => False).
Proof. exact (FM.gen_flex_clamp O HO wide l new item idx child mn mx cl). Qed.
Print Assumptions C12_source_flex_clamp.

(* 9.7.5.e: the frozen flags after the pass are the model's C12Flex.freeze with the total of the adjustments *)
Theorem C12_source_flex_freeze O (HO : Py.ops_ok O) wide (l : list F.rst) adjs new item idx child :
  Py.run O GenFlexResolve.flex_freeze_body (FR.Efr (F.vline (map F.rda l)) adjs new item idx child)
    (FR.ends (fun rho => exists l2, Py.lookup "line" rho = F.vline (map F.rda l2) /\
                let p := map (fun r => (FM.fst_of wide r, F.r_a r)) l in
                map (FM.fst_of wide) l2 = map (C12Flex.freeze (C12Flex.sumQ snd p)) p)) (fun _ => False).
Proof. exact (FM.gen_flex_freeze O HO wide l adjs new item idx child). Qed.
Print Assumptions C12_source_flex_freeze.
