(* C07 - Declarations: invalid ones vanish, shorthands equal longhands, units agree, var() is substitution.
   Property theorems only (models: model/C07*.v, proofs: proofs/C07_*.v). *)
From Coq Require Import ZArith QArith List Bool String Permutation.
Require Import WV.model.C07Tok WV.model.C07Decl WV.model.C07Expand WV.model.C07Full WV.model.C07Var WV.model.C07Units
  WV.model.C07Pending WV.model.C07Ranges.
Require Import WV.proofs.C07_decl WV.proofs.C07_expand WV.proofs.C07_full WV.proofs.C07_units WV.proofs.C07_var WV.proofs.C07_pending WV.proofs.C07_ranges.
Require Import WV.gen.GenCssUtils WV.proofs.C07_gen_units.
Import ListNotations.
Open Scope string_scope.

(* ---- 1. preprocess_declarations (css/validation/__init__.py), for every list of declarations and every
   validator/expander table `validator : name -> tokens -> Ok longhands | Invalid | Crash` ----
   pp = the generator's output, pp1 = what one item yields (declarations with an unresolvable name, no value or an
   invalid value, parse errors, nested rules, at-rules, whitespace: Ok []). *)
Section Preprocess.
  Variable T0 T V : Type.
  Variable strip : T0 -> T.
  Variable is_empty : T -> bool.
  Variable validator : string -> T -> res (list (string * V)).
  Variable not_print proprietary unstable : string -> bool.
  Notation pp := (pp T0 T V strip is_empty validator not_print proprietary unstable).
  Notation pp1 := (pp1 T0 T V strip is_empty validator not_print proprietary unstable).
  Notation resolve_name := (resolve_name not_print proprietary unstable).

  Theorem C07_invalid_vanishes ds1 bad ds2 :
    pp1 bad = Ok [] -> pp (ds1 ++ bad :: ds2) = pp (ds1 ++ ds2).
  Proof. exact (vanishes T0 T V strip is_empty validator not_print proprietary unstable ds1 bad ds2). Qed.

  Theorem C07_invalid_value_yields_nothing name lname value imp n :
    resolve_name name lname = Some n -> validator n (strip value) = Invalid ->
    pp1 (IDecl name lname value imp) = Ok [].
  Proof. exact (invalid_yields_nothing T0 T V strip is_empty validator not_print proprietary unstable name lname value imp n). Qed.

  Theorem C07_non_declaration_yields_nothing (d : item T0) : is_decl T0 d = false -> pp1 d = Ok [].
  Proof. exact (non_declaration_yields_nothing T0 T V strip is_empty validator not_print proprietary unstable d). Qed.

  (* the output is the concatenation, in source order, of what each item yields by itself *)
  Theorem C07_order_preserved ds :
    (forall d, In d ds -> pp1 d <> Crash) ->
    pp ds = Ok (flat_map (fun d => match pp1 d with Ok l => l | _ => [] end) ds).
  Proof. exact (pp_is_concat T0 T V strip is_empty validator not_print proprietary unstable ds). Qed.

  Theorem C07_important_flag_carried name lname value imp imp' l :
    pp1 (IDecl name lname value imp) = Ok l ->
    Forall (fun o => snd o = imp) l /\
    pp1 (IDecl name lname value imp') = Ok (map (fun o => (fst o, imp')) l).
  Proof. exact (important_flag_carried T0 T V strip is_empty validator not_print proprietary unstable name lname value imp imp' l). Qed.

  (* validators raise nothing but InvalidValues => no declaration block aborts the stylesheet *)
  Theorem C07_no_crash ds : (forall n t, validator n t <> Crash) -> exists l, pp ds = Ok l.
  Proof. exact (no_crash T0 T V strip is_empty validator not_print proprietary unstable ds). Qed.

  (* a shorthand declaration = the longhand declarations whose own validation gives its (name, value) pairs *)
  Theorem C07_shorthand_equals_longhands name lname value imp n l (longs : list (item T0)) :
    resolve_name name lname = Some n -> is_empty (strip value) = false ->
    validator n (strip value) = Ok l ->
    Forall2 (fun nv d => exists dn dln dv n',
               d = IDecl dn dln dv imp /\ resolve_name dn dln = Some n' /\ is_empty (strip dv) = false /\
               validator n' (strip dv) = Ok [nv]) l longs ->
    pp [IDecl name lname value imp] = pp longs.
  Proof. exact (shorthand_equals_longhands T0 T V strip is_empty validator not_print proprietary unstable name lname value imp n l longs). Qed.
End Preprocess.
Print Assumptions C07_invalid_vanishes.
Print Assumptions C07_invalid_value_yields_nothing.
Print Assumptions C07_non_declaration_yields_nothing.
Print Assumptions C07_order_preserved.
Print Assumptions C07_important_flag_carried.
Print Assumptions C07_no_crash.
Print Assumptions C07_shorthand_equals_longhands.

(* ---- 2. the two paths that consult no validator (validation/properties.py validate_non_shorthand,
   expanders.py _find_var), over tinycss2 component values; prop_validator = the ~200 individual validators,
   other_expander = the shorthands that are not modelled: both arbitrary ---- *)
Section Pending.
  Variable V0 : Type.
  Variable known supported : string -> bool.
  Variable prop_validator : string -> list tok -> option V0.
  Variable is_color is_border_width is_border_style is_column_width is_column_count is_flex_basis : tok -> bool.
  Variable flex_factor : tok -> option (Q * option Z).
  Variable other_expander : string -> option (list tok -> res (list (string * value V0))).
  Variable not_print proprietary unstable : string -> bool.
  Notation full_pp := (full_pp V0 known supported prop_validator is_color is_border_width is_border_style
                               is_column_width is_column_count is_flex_basis flex_factor other_expander
                               not_print proprietary unstable).

  Theorem C07_custom_property_kept name lname value imp :
    prefix "--" name = true -> not_print name = false -> other_expander name = None ->
    remove_whitespace value <> [] ->
    full_pp [IDecl name lname value imp] = Ok [(style_key name, VRaw (remove_whitespace value), imp)].
  Proof. exact (custom_property_kept V0 known supported prop_validator is_color is_border_width is_border_style
                  is_column_width is_column_count is_flex_basis flex_factor other_expander
                  not_print proprietary unstable name lname value imp). Qed.

  Theorem C07_var_takes_pending_path name lname value imp n :
    resolve_name not_print proprietary unstable name lname = Some n ->
    prefix "--" n = false -> known n = true -> supported n = true ->
    str_in n FOUR_SIDES = false -> str_in n BORDER_SIDES = false ->
    str_in n ["border"; "border-radius"; "columns"; "flex"] = false -> other_expander n = None ->
    any_var (remove_whitespace value) = true ->
    full_pp [IDecl name lname value imp] = Ok [(style_key n, VPendingProp (remove_whitespace value) n, imp)].
  Proof. exact (var_takes_pending_path V0 known supported prop_validator is_color is_border_width is_border_style
                  is_column_width is_column_count is_flex_basis flex_factor other_expander
                  not_print proprietary unstable name lname value imp n). Qed.

  Theorem C07_var_in_four_sides_is_pending name lname value imp n :
    resolve_name not_print proprietary unstable name lname = Some n ->
    str_in n FOUR_SIDES = true -> any_var (remove_whitespace value) = true ->
    full_pp [IDecl name lname value imp] =
    Ok (map (fun ln => (style_key ln, VPendingExp (remove_whitespace value) n, imp)) (four_names n)).
  Proof. exact (var_in_four_sides_is_pending V0 known supported prop_validator is_color is_border_width
                  is_border_style is_column_width is_column_count is_flex_basis flex_factor other_expander
                  not_print proprietary unstable name lname value imp n). Qed.
End Pending.
Print Assumptions C07_custom_property_kept.
Print Assumptions C07_var_takes_pending_path.
Print Assumptions C07_var_in_four_sides_is_pending.

(* ---- 3. expanders (css/validation/expanders.py) ---- *)
Section Expanders.
  Variable V0 : Type.
  Variable known supported : string -> bool.
  Variable prop_validator : string -> list tok -> option V0.
  Notation vns := (validate_non_shorthand V0 known supported prop_validator).
  Notation validate_each := (validate_each V0 known supported prop_validator).

  (* expand_four_sides: 1-4 values go to top/right/bottom/left as CSS 2.1 8.3 says (four_spec), 0 or more
     than 4 are invalid *)
  Theorem C07_four_sides_rule tokens name :
    any_var tokens = false -> (List.length tokens = 1%nat \/ has_wide_keyword tokens = false) ->
    expand_four_sides V0 known supported prop_validator tokens name =
    match four_spec tokens with
    | None => Invalid
    | Some (top, right_, bottom, left_) =>
        validate_each (combine (four_names name) [[top]; [right_]; [bottom]; [left_]])
    end.
  Proof. exact (four_sides_rule V0 known supported prop_validator tokens name). Qed.

  Theorem C07_four_sides_count (tokens : list tok) :
    four_spec tokens = None <-> (List.length tokens = 0 \/ 4 < List.length tokens)%nat.
  Proof. exact (four_sides_count tokens). Qed.

  (* ... and what it yields is what the four longhand declarations yield *)
  (* inherit / initial are only valid as the whole value (css-cascade 7.3) *)
  Theorem C07_wide_keyword_only_alone tokens name :
    any_var tokens = false -> (2 <= List.length tokens)%nat -> has_wide_keyword tokens = true ->
    expand_four_sides V0 known supported prop_validator tokens name = Invalid.
  Proof. exact (wide_keyword_only_alone V0 known supported prop_validator tokens name). Qed.

  Theorem C07_four_sides_equals_longhands tokens name top right_ bottom left_ out :
    any_var tokens = false -> (List.length tokens = 1%nat \/ has_wide_keyword tokens = false) ->
    four_spec tokens = Some (top, right_, bottom, left_) ->
    Forall (fun n => known n = true /\ supported n = true) (four_names name) ->
    expand_four_sides V0 known supported prop_validator tokens name = Ok out ->
    Forall2 (fun nv nt => vns [snd nt] (fst nt) false = Ok [nv])
            out (combine (four_names name) [top; right_; bottom; left_]).
  Proof. exact (four_sides_equals_longhands V0 known supported prop_validator tokens name top right_ bottom left_ out). Qed.

  (* generic_expander: whatever the wrapped expander does, a valid shorthand sets exactly the expanded names,
     each once, in their order ... *)
  Theorem C07_shorthand_sets_every_longhand names wrapped tokens name l :
    generic_expander V0 known supported prop_validator names wrapped tokens name = Ok l ->
    map fst l = map (actual_name name) names.
  Proof. exact (shorthand_sets_every_longhand V0 known supported prop_validator names wrapped tokens name l). Qed.

  (* ... the omitted ones are reset to 'initial' ... *)
  Theorem C07_omitted_longhands_are_initial name names results l nn :
    emit V0 known supported prop_validator name names results = Ok l -> In nn names -> lookup nn results = None ->
    In (actual_name name nn, VKeyword "initial") l.
  Proof. exact (emit_omitted V0 known supported prop_validator name names results l nn). Qed.

  (* ... and two values for the same longhand make it invalid *)
  Theorem C07_duplicates_are_invalid names y1 y2 y3 n a b :
    Forall (fun p => In (fst p) names) (y1 ++ (n, a) :: y2 ++ (n, b) :: y3) ->
    collect names (y1 ++ (n, a) :: y2 ++ (n, b) :: y3) [] = Invalid.
  Proof. exact (duplicates_are_invalid names y1 y2 y3 n a b). Qed.

  (* border-top/right/bottom/left, outline, column-rule: every order of the components is the same declaration *)
  Theorem C07_border_side_order_free is_color is_border_width is_border_style tokens tokens' name :
    Permutation tokens tokens' -> any_var tokens = false ->
    expand_border_side V0 known supported prop_validator is_color is_border_width is_border_style tokens name =
    expand_border_side V0 known supported prop_validator is_color is_border_width is_border_style tokens' name.
  Proof. exact (border_side_order_free V0 known supported prop_validator is_color is_border_width is_border_style
                  tokens tokens' name). Qed.

  (* border-radius: h{1,4} [ / v{1,4} ]? ; corners top-left, top-right, bottom-right, bottom-left get the
     pairs of four_spec h and four_spec v (v = h without slash) *)
  Theorem C07_border_radius_rule h v :
    Forall (fun t => is_slash t = false) h -> Forall (fun t => is_slash t = false) v -> v <> [] ->
    let result h v :=
      match four_spec h, four_spec v with
      | Some (h1, h2, h3, h4), Some (v1, v2, v3, v4) =>
          let pairs := combine RADIUS_NAMES [[h1; v1]; [h2; v2]; [h3; v3]; [h4; v4]] in
          bind (validate_each pairs) (fun _ => Ok pairs)
      | _, _ => Invalid
      end in
    border_radius_inner V0 known supported prop_validator h = result h h /\
    border_radius_inner V0 known supported prop_validator (h ++ TLit "/" :: v) = result h v /\
    border_radius_inner V0 known supported prop_validator (h ++ [TLit "/"]) = Invalid /\
    (forall w, border_radius_inner V0 known supported prop_validator (h ++ TLit "/" :: v ++ TLit "/" :: w) = Invalid).
  Proof. exact (border_radius_rule V0 known supported prop_validator h v). Qed.

  (* columns: the two components in either order (only `auto` is both a width and a count) *)
  Theorem C07_columns_order_free is_column_width is_column_count a b name :
    (forall t, is_column_width t = true -> is_column_count t = true -> kw_is t "auto" = true) ->
    kw_is a "auto" && kw_is b "auto" = false -> any_var [a; b] = false ->
    expand_columns V0 known supported prop_validator is_column_width is_column_count [a; b] name =
    expand_columns V0 known supported prop_validator is_column_width is_column_count [b; a] name.
  Proof. exact (columns_order_free V0 known supported prop_validator is_column_width is_column_count a b name). Qed.
End Expanders.
Print Assumptions C07_four_sides_rule.
Print Assumptions C07_four_sides_count.
Print Assumptions C07_wide_keyword_only_alone.
Print Assumptions C07_four_sides_equals_longhands.
Print Assumptions C07_shorthand_sets_every_longhand.
Print Assumptions C07_omitted_longhands_are_initial.
Print Assumptions C07_duplicates_are_invalid.
Print Assumptions C07_border_side_order_free.
Print Assumptions C07_border_radius_rule.
Print Assumptions C07_columns_order_free.

(* flex: none | [ <grow> <shrink>? || <basis> ]: g, s numbers, b a basis that is not a number, z the unitless zero *)
Theorem C07_flex_rule is_flex_basis flex_factor g s b z G S Z0 :
  get_keyword g = None -> is_num_zero g = false -> is_flex_basis g = false -> flex_factor g = Some G ->
  get_keyword s = None -> is_num_zero s = false -> is_flex_basis s = false -> flex_factor s = Some S ->
  is_num_zero b = false -> is_flex_basis b = true -> kw_is b "none" = false -> flex_factor b = None ->
  is_num_zero z = true -> get_keyword z = None -> flex_factor z = Some Z0 -> is_flex_basis z = true ->
  let yield g s b := Ok [("-grow", [num_tok g]); ("-shrink", [num_tok s]); ("-basis", [b])] in
  let flex := flex_inner is_flex_basis flex_factor in
  flex [TIdent "none" "none"] = yield (0%Q, Some 0%Z) (0%Q, Some 0%Z) AUTO /\
  flex [g] = yield G ONE ZERO_PX /\ flex [g; s] = yield G S ZERO_PX /\ flex [b] = yield ONE ONE b /\
  flex [g; b] = yield G ONE b /\ flex [b; g] = yield G ONE b /\
  flex [g; s; b] = yield G S b /\ flex [b; g; s] = yield G S b /\
  flex [z] = yield Z0 ONE ZERO_PX /\ flex [g; z] = yield G Z0 ZERO_PX /\ flex [g; s; z] = yield G S z /\
  flex [g; s; g] = Invalid /\ flex [b; b] = Invalid.
Proof. exact (flex_rule is_flex_basis flex_factor g s b z G S Z0). Qed.
Print Assumptions C07_flex_rule.

(* the two flex factors must be next to each other *)
Theorem C07_flex_rejects_basis_between_factors is_flex_basis flex_factor g s b G S :
  get_keyword g = None -> is_num_zero g = false -> is_flex_basis g = false -> flex_factor g = Some G ->
  is_num_zero s = false -> is_flex_basis s = false -> flex_factor s = Some S ->
  is_num_zero b = false -> is_flex_basis b = true ->
  flex_inner is_flex_basis flex_factor [g; b; s] = Invalid.
Proof. exact (flex_rejects_basis_between_factors is_flex_basis flex_factor g s b G S). Qed.
Print Assumptions C07_flex_rejects_basis_between_factors.

(* ---- 4. units (css/utils.py LENGTHS_TO_PIXELS, css/computed_values.py length) ---- *)
Theorem C07_unit_table_exact :
  exists f_px f_pt f_pc f_in f_cm f_mm f_q,
    factor "px" = Some f_px /\ factor "pt" = Some f_pt /\ factor "pc" = Some f_pc /\ factor "in" = Some f_in /\
    factor "cm" = Some f_cm /\ factor "mm" = Some f_mm /\ factor "q" = Some f_q /\
    (f_px == 1 /\ f_in == 96 /\ f_pt * 3 == 4 /\ f_pc == 16 /\ f_cm * 254 == 9600 /\ f_mm * 254 == 960 /\
     f_q * 1016 == 960)%Q.
Proof. exact unit_table_exact. Qed.
Print Assumptions C07_unit_table_exact.

(* per_inch = CSS Values 3, 5.2 ; lengths that are the same number of inches compute to the same pixels *)
Theorem C07_equal_lengths_interchangeable v1 u1 v2 u2 p1 p2 :
  per_inch u1 = Some p1 -> per_inch u2 = Some p2 -> (v1 / p1 == v2 / p2)%Q ->
  exists x1 x2, length_px v1 u1 = Some x1 /\ length_px v2 u2 = Some x2 /\ (x1 == x2)%Q.
Proof. exact (equal_lengths_interchangeable v1 u1 v2 u2 p1 p2). Qed.
Print Assumptions C07_equal_lengths_interchangeable.

(* ---- 4b. the same, about the table REGENERATED from weasyprint/css/utils.py on every run (gen/GenCssUtils.v:
   lengths_to_pixels, the exact rationals of the source's decimal literals; gen_factor = lookup in it,
   gen_length_px = computed_values.length over it) *)
Theorem C07_source_unit_table_is_css u :
  match gen_factor u, per_inch u with
  | Some f, Some p => (f * p == 96)%Q
  | None, None => True
  | _, _ => False
  end.
Proof. exact (gen_table_is_css u). Qed.
Print Assumptions C07_source_unit_table_is_css.

Theorem C07_source_unit_table_is_model u :
  match gen_factor u, factor u with
  | Some f, Some g => (f == g)%Q
  | None, None => True
  | _, _ => False
  end.
Proof. exact (gen_table_is_model u). Qed.
Print Assumptions C07_source_unit_table_is_model.

Theorem C07_source_equal_lengths_interchangeable v1 u1 v2 u2 p1 p2 :
  per_inch u1 = Some p1 -> per_inch u2 = Some p2 -> (v1 / p1 == v2 / p2)%Q ->
  exists x1 x2, gen_length_px v1 u1 = Some x1 /\ gen_length_px v2 u2 = Some x2 /\ (x1 == x2)%Q.
Proof. exact (gen_equal_lengths_interchangeable v1 u1 v2 u2 p1 p2). Qed.
Print Assumptions C07_source_equal_lengths_interchangeable.

(* ---- 5. var() (css/__init__.py resolve_var + ComputedStyle.__missing__) ----
   Subst env key fallback var_name: textual substitution (model/C07Var.v); the implementation stores --a-b under
   `__a-b` (impl_key: the exact name, `--` replaced by `__`) and takes as fallback the arguments after the first
   comma, commas included (impl_fallback). *)
Theorem C07_var_is_substitution env fuel tokens o :
  solved_tokens env fuel tokens = Some o ->
  SubstL env impl_key impl_fallback impl_has_fallback impl_var_name [] tokens o.
Proof. exact (solved_tokens_sound env fuel tokens o). Qed.
Print Assumptions C07_var_is_substitution.

(* every reference is substituted by itself: the tokens of a declaration are resolved one by one, what one
   reference gives does not depend on the references around it - their names, their fallbacks (a memo per style
   keyed by the property's name alone would break this) *)
Theorem C07_var_references_independent env fuel before t after r :
  solved_tokens env fuel (before ++ t :: after) = Some (SOk r) ->
  exists rb rt ra, r = (rb ++ rt ++ ra)%list /\
                   solved_tokens env fuel before = Some (SOk rb) /\ solved_tokens env fuel [t] = Some (SOk rt) /\
                   solved_tokens env fuel after = Some (SOk ra).
Proof. exact (references_are_independent env fuel before t after r). Qed.
Print Assumptions C07_var_references_independent.

(* a reference to a property whose value substitutes well does not look at its fallback *)
Theorem C07_var_fallback_unused_when_defined env fuel ps n ln v lv fb e0 erest l :
  env (var_key v) = e0 :: erest -> str_in (var_key v) ps = false ->
  subst_each (resolve_var env fuel (ps ++ [var_key v])) (e0 :: erest) = Some (SOk l) ->
  has_var (TFunc n ln (TIdent v lv :: TLit "," :: fb)) = true -> String.eqb ln "var" = true ->
  resolve_var env (S fuel) ps (TFunc n ln (TIdent v lv :: TLit "," :: fb)) = Some (RToks l).
Proof. exact (fallback_unused_when_defined env fuel ps n ln v lv fb e0 erest l). Qed.
Print Assumptions C07_var_fallback_unused_when_defined.

(* a reference to an undefined property is its own fallback ... *)
Theorem C07_var_fallback_used_when_undefined env fuel ps n ln v lv fb :
  env (var_key v) = [] -> str_in (var_key v) ps = false ->
  has_var (TFunc n ln (TIdent v lv :: TLit "," :: fb)) = true -> String.eqb ln "var" = true ->
  resolve_var env (S fuel) ps (TFunc n ln (TIdent v lv :: TLit "," :: fb)) =
  lift (subst_each (resolve_var env fuel ps) (remove_whitespace fb)).
Proof. exact (fallback_used_when_undefined env fuel ps n ln v lv fb). Qed.
Print Assumptions C07_var_fallback_used_when_undefined.

(* ... so is a reference to a property that is invalid at computed-value time (a cycle) *)
Theorem C07_var_fallback_used_when_invalid env fuel ps n ln v lv fb e0 erest :
  env (var_key v) = e0 :: erest -> str_in (var_key v) ps = false ->
  subst_each (resolve_var env fuel (ps ++ [var_key v])) (e0 :: erest) = Some SInvalid ->
  has_var (TFunc n ln (TIdent v lv :: TLit "," :: fb)) = true -> String.eqb ln "var" = true ->
  resolve_var env (S fuel) ps (TFunc n ln (TIdent v lv :: TLit "," :: fb)) =
  lift (subst_each (resolve_var env fuel ps) (remove_whitespace fb)).
Proof. exact (fallback_used_when_invalid env fuel ps n ln v lv fb e0 erest). Qed.
Print Assumptions C07_var_fallback_used_when_invalid.

(* ... and the fallback is the textual remainder after the first comma, commas included: the grammar's
   var( <custom-property-name> [, <declaration-value>]? ) (css_fallback), whatever the white space around the name *)
Theorem C07_var_fallback_is_textual_remainder w1 name w2 rest :
  Forall (fun t => is_ws t = true) w1 -> Forall (fun t => is_ws t = true) w2 ->
  is_ws name = false -> is_comma name = false ->
  impl_fallback (w1 ++ name :: w2 ++ TLit "," :: rest) = css_fallback (w1 ++ name :: w2 ++ TLit "," :: rest) /\
  impl_fallback (w1 ++ name :: w2 ++ TLit "," :: rest) = remove_whitespace rest.
Proof. exact (fallback_is_textual_remainder w1 name w2 rest). Qed.
Print Assumptions C07_var_fallback_is_textual_remainder.

(* distinct names are distinct properties: the key under which a custom property is stored and looked up keeps
   its exact name *)
Theorem C07_var_distinct_names_distinct_properties x y :
  prefix "--" x = true -> prefix "--" y = true -> impl_key x = impl_key y -> x = y.
Proof. exact (distinct_names_distinct_properties x y). Qed.
Print Assumptions C07_var_distinct_names_distinct_properties.

(* acyclic definitions (ranked): some fuel is enough, and then any more *)
Theorem C07_var_fuel_sufficient env rk n tokens :
  ranked env rk -> Forall (fun t => refs_lt rk n t = true) tokens ->
  exists F, forall f, (F <= f)%nat ->
    exists o, solved_tokens env f tokens = Some o /\
              SubstL env impl_key impl_fallback impl_has_fallback impl_var_name [] tokens o.
Proof. exact (fun H => solved_tokens_fuel_sufficient env rk H n tokens). Qed.
Print Assumptions C07_var_fuel_sufficient.

(* a property that refers to itself, directly or not, is invalid at computed-value time: var(--x, 7) is 7,
   var(--x) without fallback makes the declaration invalid (unset) *)
Theorem C07_var_cycle_uses_fallback :
  let env := fun k => if String.eqb k "__x" then [TAtom 1; VAR "--x" []] else [] in
  solved_tokens env 5 [VAR "--x" [TLit ","; TAtom 7]] = Some (SOk [TAtom 7]) /\
  solved_tokens env 5 [VAR "--x" []; TAtom 2] = Some SInvalid /\
  (let env2 := fun k => if String.eqb k "__x" then [VAR "--y" []] else
                        if String.eqb k "__y" then [VAR "--x" []] else [] in
   solved_tokens env2 6 [VAR "--x" [TLit ","; TAtom 7]; VAR "--y" [TLit ","; TAtom 8]] = Some (SOk [TAtom 7; TAtom 8])).
Proof. exact cycle_uses_fallback. Qed.
Print Assumptions C07_var_cycle_uses_fallback.

(* ---- 6. the Pending object of a declaration with var() (css/utils.py Pending.solve) is ONE object for every
   element the rule matches and every longhand of a shorthand.  run reported calls = the calls it receives in
   order, each (no tokens?, what validate() does on the substituted tokens), with its flag made explicit;
   alone c = what call c gives on an object of its own. ---- *)
Theorem C07_pending_history_independent V reported reported' before before' c after after' :
  nth (List.length before) (map fst (run V reported (before ++ c :: after))) Crash =
  nth (List.length before') (map fst (run V reported' (before' ++ c :: after'))) Crash.
Proof. exact (history_independent V reported reported' before before' c after after'). Qed.
Print Assumptions C07_pending_history_independent.

Theorem C07_pending_results_are_pointwise V reported calls :
  map fst (run V reported calls) = map (alone V) calls.
Proof. exact (results_are_pointwise V reported calls). Qed.
Print Assumptions C07_pending_results_are_pointwise.

(* one rule, several elements, any order of computation: the computed value of element e's longhand k is the
   value the declaration validates to with e's custom properties substituted, or - invalid at computed-value
   time - unset for that element only *)
Theorem C07_shared_rule_is_per_element V (E T : Type) (validate : T -> string -> res V) (solved : E -> T)
        (is_empty : T -> bool) (order : list (E * string)) reported :
  map (fun rl => computed_of V (fst rl))
      (run V reported (map (fun ek => (is_empty (solved (fst ek)), validate (solved (fst ek)) (snd ek))) order)) =
  map (fun ek => computed_of V (if is_empty (solved (fst ek)) then Invalid
                                else validate (solved (fst ek)) (snd ek))) order.
Proof. exact (shared_rule_is_per_element V E T validate solved is_empty order reported). Qed.
Print Assumptions C07_shared_rule_is_per_element.

(* the only thing the history decides is the warning: at most one per declaration, at the first failing call *)
Theorem C07_pending_warns_once V reported calls :
  (List.length (filter (fun rl => snd rl) (run V reported calls)) <= 1)%nat.
Proof. exact (warned_at_most_once V reported calls). Qed.
Print Assumptions C07_pending_warns_once.

Theorem C07_pending_warns_at_first_failure V before c after :
  Forall (fun x => fails V x = false) before -> fails V c = true ->
  map snd (run V false (before ++ c :: after)) =
  (map (fun _ => false) before ++ true :: map (fun _ => false) after)%list.
Proof. exact (warned_at_first_failure V before c after). Qed.
Print Assumptions C07_pending_warns_at_first_failure.

(* the generator that PendingExpander.validate consumes lazily, once consumed entirely, is the eager expander of
   section 3 *)
Theorem C07_four_sides_generator_agrees V0 known supported prop_validator tokens name :
  expand_four_sides V0 known supported prop_validator tokens name =
  gen_result (four_sides_gen V0 known supported prop_validator tokens name).
Proof. exact (four_sides_gen_agrees V0 known supported prop_validator tokens name). Qed.
Print Assumptions C07_four_sides_generator_agrees.

(* a shorthand that is invalid as a whole after substitution gives no longhand a value: validate() consumes the
   generator entirely (expander_validate is the eager expander followed by a lookup) *)
Theorem C07_pending_shorthand_all_or_nothing V (shorthand : string) (g : gen (string * V)) (keys : list string) :
  all_or_nothing shorthand g keys = true.
Proof. exact (pending_shorthand_all_or_nothing V shorthand g keys). Qed.
Print Assumptions C07_pending_shorthand_all_or_nothing.

Theorem C07_expander_validate_is_eager V (shorthand : string) (g : gen (string * V)) (wanted : string) :
  expander_validate V shorthand g wanted =
  match gen_result g with
  | Ok items => match find_key V shorthand items wanted with Some v => Ok v | None => Crash end
  | Invalid => Invalid
  | Crash => Crash
  end.
Proof. exact (expander_validate_is_eager V shorthand g wanted). Qed.
Print Assumptions C07_expander_validate_is_eager.

(* refuted (finding var:undefined-dropped): var() of an undefined property without fallback does not invalidate the
   declaration, it is erased from it *)
Theorem C07_undefined_var_is_erased :
  let env := fun _ : string => @nil tok in
  solved_tokens env 2 [VAR "--p" []; TWs; TAtom 2] = Some (SOk [TWs; TAtom 2]) /\
  solved_tokens env 2 [VAR "--p" []] = Some (SOk []).
Proof. exact undefined_var_is_erased. Qed.
Print Assumptions C07_undefined_var_is_erased.

(* ---- 7. ranges of the one-number / one-length properties (model/C07Ranges.v): css_accepts is written from the
   value definitions of the specifications, impl_accepts models the validators' tests; a token is
   (kind 0 number | 1 length | 2 percentage, value, written as an integer?) ---- *)
(* what a validator accepts its grammar allows *)
Theorem C07_validators_within_grammar p k v i :
  impl_accepts p k v i = true -> css_accepts p k v i = true.
Proof. exact (validators_within_grammar p k v i). Qed.
Print Assumptions C07_validators_within_grammar.

(* orphans, widows, column-count, bookmark-level, max-lines: <integer [1,inf]> and nothing else *)
Theorem C07_integer_bounds p v i :
  str_in p INT_GE_1 = true ->
  (css_accepts p 0 v i = true <-> i = true /\ (1 <= v)%Q) /\
  css_accepts p 1 v i = false /\ css_accepts p 2 v i = false.
Proof. exact (integer_bounds p v i). Qed.
Print Assumptions C07_integer_bounds.
