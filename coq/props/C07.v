(* C07 - Declarations: property theorems only (models: model/C07*.v, proofs: proofs/C07_*.v). *)
From Coq Require Import ZArith QArith List Bool String.
Require Import WV.model.C07Tok WV.model.C07Decl WV.model.C07Expand WV.model.C07Full WV.model.C07Var WV.model.C07Units.
Import ListNotations.

Theorem C07_placeholder : True.
Proof. exact I. Qed.
Print Assumptions C07_placeholder.
