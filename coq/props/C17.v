(* C17 - What is painted is what was laid out, in CSS paint order: property theorems only.
   Models: model/C17Stacking.v (stacking.py + the paint sequence of draw/__init__.py), model/C17Spec.v (CSS 2.1
   Appendix E over the input tree); proofs: proofs/C17_*.v.
   box        abstract layout box tree (class, position, float, z-index, opacity/transform/overflow flags, ...)
   from_box   StackingContext.from_box with its four mutable lists; from_page = StackingContext.from_page
   paint_ctx  the sequence of draw calls / q-Q / group / clip / cm events of draw_stacking_context
   owned c    the box ids a context structure owns (children, child contexts, floats; not the two alias lists)
   ids t      the box ids of the tree in tree order *)
From Coq Require Import ZArith QArith Qminmax List Bool Permutation Sorted.
Require Import WV.model.C17Stacking WV.model.C17Spec.
Require Import WV.proofs.C17_sort WV.proofs.C17_dispatch WV.proofs.C17_partition WV.proofs.C17_collect
  WV.proofs.C17_order WV.proofs.C17_brackets WV.proofs.C17_ties WV.proofs.C17_refuted.
Require Import WV.model.C17Radius WV.proofs.C17_radius.
Import ListNotations.
Open Scope Z_scope.

(* ---- the four mutable lists of _dispatch: appending and "insert at the index saved before the children" is
        the same as returning what the subtree contributes, itself first (every tree, every state) ---- *)
Theorem C17_dispatch_is_functional (b : box) (st : dst) :
  dispatch b st = (fst (fd b), sapp st (snd (fd b))).
Proof. exact (dispatch_fd b st). Qed.
Print Assumptions C17_dispatch_is_functional.

(* ---- every_box_painted_once: the dispatch partitions the box tree (all trees) ---- *)
Theorem C17_every_box_painted_once (t : box) : Permutation (owned (from_box t)) (ids t).
Proof. exact (dispatch_partitions_tree t). Qed.
Print Assumptions C17_every_box_painted_once.

Theorem C17_every_box_painted_once_page (pi : info) (children : list box) :
  Permutation (owned (from_page pi children)) (bid pi :: flat_map ids children).
Proof. exact (page_partitions_tree pi children). Qed.
Print Assumptions C17_every_box_painted_once_page.

(* ... and in every context of the result (nested ones included) block_level_boxes / blocks_and_cells are exactly
   the block-level boxes / block-level boxes and cells of the context's own tree, in tree order: each has its
   background painted once at point 4 and its line boxes once at point 7 *)
Theorem C17_block_lists_are_the_tree_blocks (t : box) :
  Forall (fun c => ctx_blocks c = filter (fun n => block_level (knd (pinfo n))) (ctx_tree c) /\
                   ctx_bcs c = filter (fun n => block_level (knd (pinfo n)) || is_cell (knd (pinfo n))) (ctx_tree c))
         (all_ctxs (from_box t)).
Proof. exact (aliases_are_tree_boxes t). Qed.
Print Assumptions C17_block_lists_are_the_tree_blocks.

(* ---- appendix_E_order: on every well-formed layout tree the paint sequence is the Appendix E sequence
        (own background/border; negative z ascending; in-flow block backgrounds in tree order; floats; inline
        content; z = 0 / auto positioned descendants in tree order; positive z ascending; outlines).
        wf: the tree has the shape layout produces (children of line/inline boxes are inline-level, tables hold
        row groups > rows > cells, a block container holds line boxes or blocks), boxes painted as contexts are
        of the classes draw_stacking_context paints; the exclusion (table rows / row groups painted as contexts)
        is refuted below. ---- *)
Theorem C17_appendix_E_order (t : box) :
  wf t = true -> paint_ctx (from_box t) = appendix_E (2 * S (height t)) SRoot t.
Proof. exact (appendix_E_order t). Qed.
Print Assumptions C17_appendix_E_order.

Theorem C17_appendix_E_order_page (page : box) :
  wf_page page = true ->
  paint_ctx (from_page (binfo page) (bkids page)) = appendix_E (2 * S (height page)) SPage page.
Proof. exact (appendix_E_page_order page). Qed.
Print Assumptions C17_appendix_E_order_page.

(* ---- z_ties_by_tree_order (all trees): the child contexts are the positioned / context-forming descendants
        in tree order; the buckets are these, split at 0 and stably sorted: increasing z-index, and for each
        z-index the original tree order ---- *)
Theorem C17_z_ties_by_tree_order (t : box) :
  let c := from_box t in
  let cs := flat_map parts (kids_of t) in
  subseq cs (preorder t) /\
  Forall (fun x => ctx_z x < 0) (ctx_neg c) /\ Forall (fun x => ctx_z x = 0) (ctx_zero c) /\
  Forall (fun x => 0 < ctx_z x) (ctx_pos c) /\
  StronglySorted (fun a b => ctx_z a <= ctx_z b) (ctx_neg c ++ ctx_zero c ++ ctx_pos c) /\
  (forall k, filter (fun x => ctx_z x =? k) (ctx_neg c ++ ctx_zero c ++ ctx_pos c) =
             map node_of (filter (fun x => zkey x =? k) cs)).
Proof.
  intros c cs. destruct (z_ties_by_tree_order t) as [H1 [_ [H3 [H4 [H5 [H6 H7]]]]]].
  repeat split; assumption.
Qed.
Print Assumptions C17_z_ties_by_tree_order.

Theorem C17_bucket_sort_is_stable {A} (key : A -> Z) (k : Z) (l : list A) :
  Permutation (sort_z key l) l /\ StronglySorted (fun a b => key a <= key b) (sort_z key l) /\
  filter (fun a => key a =? k) (sort_z key l) = filter (fun a => key a =? k) l.
Proof. exact (conj (sort_z_perm key l) (conj (sort_z_sorted key l) (sort_z_stable key k l))). Qed.
Print Assumptions C17_bucket_sort_is_stable.

(* ---- brackets ---- *)
(* the q/Q, group and inner q/Q brackets of every paint list are well nested (any structure, any mode) *)
Theorem C17_paint_brackets_balanced (n : pnode) (m : pmode) : balanced (paint m n).
Proof. exact (paint_balanced n m). Qed.
Print Assumptions C17_paint_brackets_balanced.

(* opacity_transform_apply_to_subtree: for the context of any box b (opacity < 1 and transforms always form one)
   the group bracket and the transform enclose ctx_inner, which is balanced (the group's close is the matching
   one), mentions only boxes of b's subtree, and b's context owns exactly the boxes of b's subtree *)
Theorem C17_opacity_transform_apply_to_subtree (b : box) :
  let c := from_box b in
  tm (binfo b) <> TSingular ->
  paint_ctx c =
    EOpen (bid (binfo b)) BStack :: ctx_pre c ++
    group_open c ++ transform_set c ++ ctx_inner c ++ group_close c ++ [EClose (bid (binfo b)) BStack] /\
  balanced (ctx_inner c) /\
  incl (map event_id (ctx_inner c)) (ids b) /\
  Permutation (owned c) (ids b).
Proof. exact (opacity_transform_enclose_subtree b). Qed.
Print Assumptions C17_opacity_transform_apply_to_subtree.

(* clip_encloses_descendants_only: the overflow clip is set right after the inner q and ends at its Q; between
   them only descendants of the box are painted (plus its own content when it is replaced, or its own inline
   boxes when it is an inline box); its background and border come before the inner q, its outline after *)
Theorem C17_clip_encloses_descendants_only (b : box) :
  let c := from_box b in
  let id := bid (binfo b) in
  ctx_inner c = ctx_own_bg c ++ EOpen id BInner :: ctx_clip c ++ ctx_body c ++ EClose id BInner :: ctx_outlines c /\
  (ovf (binfo b) && negb (is_page (knd (binfo b))) = true -> ctx_clip c = [ESet id GClip]) /\
  balanced (ctx_body c) /\
  (forall e, In e (ctx_body c) ->
     In (event_id e) (flat_map ids (bkids b)) \/ e = EPaint id LContent \/
     (is_inline (knd (binfo b)) = true /\ (e = EPaint id LBg \/ e = EPaint id LBorder))).
Proof. exact (clip_encloses_descendants b). Qed.
Print Assumptions C17_clip_encloses_descendants_only.

(* ---- what the faithful model refutes (findings; each witness is replayed on the implementation) ---- *)
Theorem C17_row_context_background_lost_refuted :
  exists t, painted (appendix_E_paint t) 3 LBg = true /\ painted (paint_ctx (from_box t)) 3 LBg = false /\
            painted (appendix_E_paint t) 4 LBg = true /\ painted (paint_ctx (from_box t)) 4 LBg = false /\
            painted (paint_ctx (from_box t)) 6 LContent = true.
Proof. exact row_context_background_lost. Qed.
Print Assumptions C17_row_context_background_lost_refuted.

(* (former finding, fixed) a grid container - like every box of the classes of point 2 - that is painted as a
   stacking context paints its own background and border first, outside the inner q and the overflow clip *)
Theorem C17_grid_context_paints_own_background (b : box) :
  (knd (binfo b) = KGrid \/ knd (binfo b) = KInlineGrid) ->
  let c := from_box b in
  ctx_own_bg c = [EPaint (bid (binfo b)) LBg; EPaint (bid (binfo b)) LBorder] /\
  ctx_inner c = ctx_own_bg c ++ EOpen (bid (binfo b)) BInner :: ctx_clip c ++ ctx_body c ++
                EClose (bid (binfo b)) BInner :: ctx_outlines c.
Proof. exact (grid_context_own_background b). Qed.
Print Assumptions C17_grid_context_paints_own_background.

(* (former finding F105, fixed) z-index is ignored where it does not apply: the z_index of the context built for
   any box is its z-index if the box is positioned or a flex / grid item, else 0 - exactly the key of the
   specification, so the order theorem needs no hypothesis on z-index any more *)
Theorem C17_z_index_only_where_it_applies (b : box) :
  ctx_z (from_box b) = (if z_applies (binfo b) then z_of (binfo b) else 0).
Proof. exact (ctx_z_from_box b). Qed.
Print Assumptions C17_z_index_only_where_it_applies.

(* (former finding F106, fixed) a cell of a collapsed-border table painted as a context paints its background and
   no border of its own; every other box of the point 2 classes paints background then border *)
Theorem C17_context_own_background_and_border (b : box) :
  point2_class (knd (binfo b)) = true ->
  ctx_own_bg (from_box b) =
  EPaint (bid (binfo b)) LBg ::
  (if is_cell (knd (binfo b)) && col (binfo b) then [] else [EPaint (bid (binfo b)) LBorder]).
Proof. exact (context_own_background b). Qed.
Print Assumptions C17_context_own_background_and_border.

(* ================================================================================================
   Rounded corners: Box.rounded_box(bt, br, bb, bl) (model/C17Radius.v) - the curves used for the inner edge of
   borders, for background-clip: padding-box / content-box and for the overflow clip.  W x H is the border box,
   R its eight outer radii, (bt, br, bb, bl) the distances of the inner rectangle from the border box.
   ================================================================================================ *)
Open Scope Q_scope.

(* scaled radii never overlap: on each side of the result the two curves fit, and no radius is negative *)
Theorem C17_scaled_radii_never_overlap W H R bt br bb bl :
  0 <= W - bl - br -> 0 <= H - bt - bb ->
  let o := rounded_box W H R bt br bb bl in
  nonneg (rr o) /\ fits (rw o) (rh o) (rr o).
Proof. exact (scaled_radii_never_overlap W H R bt br bb bl). Qed.
Print Assumptions C17_scaled_radii_never_overlap.

(* the code follows CSS Backgrounds 3: the specified radii times k = the 5.5 overlap factor of the border box, minus the
   width of the adjacent side, floored at 0, per axis, each corner with ITS OWN two sides (top-left: left/top,
   top-right: right/top, bottom-right: right/bottom, bottom-left: left/bottom) - that is css_inner_fit - times one
   common factor f <= 1 on the inner rectangle that is 1 when these radii fit *)
Theorem C17_inner_radius_is_outer_minus_own_sides W H R bt br bb bl :
  let o := rounded_box W H R bt br bb bl in
  let k := ratio W H R in
  let f := ratio (W - bl - br) (H - bt - bb) (inner_raw (css_outer W H R) bt br bb bl) in
  dx o = bl /\ dy o = bt /\ rw o = W - bl - br /\ rh o = H - bt - bb /\
  tlx (rr o) = Qmax 0 (tlx R * k - bl) * f /\ tly (rr o) = Qmax 0 (tly R * k - bt) * f /\
  trx (rr o) = Qmax 0 (trx R * k - br) * f /\ try_ (rr o) = Qmax 0 (try_ R * k - bt) * f /\
  brx (rr o) = Qmax 0 (brx R * k - br) * f /\ bry (rr o) = Qmax 0 (bry R * k - bb) * f /\
  blx (rr o) = Qmax 0 (blx R * k - bl) * f /\ bly (rr o) = Qmax 0 (bly R * k - bb) * f /\
  k <= 1 /\ f <= 1 /\ rr o = css_inner_fit W H R bt br bb bl /\
  (fits (W - bl - br) (H - bt - bb) (inner_raw (css_outer W H R) bt br bb bl) -> f == 1).
Proof. exact (inner_radius_is_outer_minus_own_sides W H R bt br bb bl). Qed.
Print Assumptions C17_inner_radius_is_outer_minus_own_sides.

(* mirror symmetry: mirroring radii and side widths left <-> right (top <-> bottom) mirrors the result *)
Theorem C17_rounded_box_mirror_h W H R bt br bb bl :
  let o := rounded_box W H R bt br bb bl in
  let o' := rounded_box W H (mirror_h R) bt bl bb br in
  dx o' = br /\ dy o' = dy o /\ rw o' == rw o /\ rh o' = rh o /\ radii_eq (rr o') (mirror_h (rr o)).
Proof. exact (rounded_box_mirror_h W H R bt br bb bl). Qed.
Print Assumptions C17_rounded_box_mirror_h.

Theorem C17_rounded_box_mirror_v W H R bt br bb bl :
  let o := rounded_box W H R bt br bb bl in
  let o' := rounded_box W H (mirror_v R) bb br bt bl in
  dx o' = dx o /\ dy o' = bb /\ rw o' = rw o /\ rh o' == rh o /\ radii_eq (rr o') (mirror_v (rr o)).
Proof. exact (rounded_box_mirror_v W H R bt br bb bl). Qed.
Print Assumptions C17_rounded_box_mirror_v.

(* (former finding F162, fixed) the inner curve follows the outer curve, overlapping specified radii included:
   Ro = the used outer radii (specified radii scaled by 5.5, what rounded_border_box returns).  Whenever the inner
   radii taken from Ro fit the inner rectangle, at every corner the inner ellipse has the centre of the outer one
   and radii not larger (so it is inside, C17_concentric_ellipse_inside), or the corner is square with its vertex
   beyond the extent of the outer curve on one axis.  They always fit when no radius is clipped at 0. *)
Theorem C17_inner_curve_inside_outer W H R bt br bb bl :
  0 <= bt -> 0 <= br -> 0 <= bb -> 0 <= bl ->
  let Ro := css_outer W H R in
  fits (W - bl - br) (H - bt - bb) (inner_raw Ro bt br bb bl) ->
  let i := rr (rounded_box W H R bt br bb bl) in
  radii_eq i (inner_raw Ro bt br bb bl) /\
  (0 < tlx i -> 0 < tly i -> bl + tlx i == tlx Ro /\ bt + tly i == tly Ro /\ tlx i <= tlx Ro /\ tly i <= tly Ro) /\
  (0 < trx i -> 0 < try_ i -> br + trx i == trx Ro /\ bt + try_ i == try_ Ro /\ trx i <= trx Ro /\ try_ i <= try_ Ro) /\
  (0 < brx i -> 0 < bry i -> br + brx i == brx Ro /\ bb + bry i == bry Ro /\ brx i <= brx Ro /\ bry i <= bry Ro) /\
  (0 < blx i -> 0 < bly i -> bl + blx i == blx Ro /\ bb + bly i == bly Ro /\ blx i <= blx Ro /\ bly i <= bly Ro) /\
  (tlx i == 0 \/ tly i == 0 -> tlx Ro <= bl \/ tly Ro <= bt) /\
  (trx i == 0 \/ try_ i == 0 -> trx Ro <= br \/ try_ Ro <= bt) /\
  (brx i == 0 \/ bry i == 0 -> brx Ro <= br \/ bry Ro <= bb) /\
  (blx i == 0 \/ bly i == 0 -> blx Ro <= bl \/ bly Ro <= bb).
Proof. exact (inner_curve_inside_outer W H R bt br bb bl). Qed.
Print Assumptions C17_inner_curve_inside_outer.

Theorem C17_inner_radii_fit_when_not_clipped W H R bt br bb bl :
  0 <= W -> 0 <= H -> nonneg R ->
  let Ro := css_outer W H R in
  bl <= tlx Ro -> bt <= tly Ro -> br <= trx Ro -> bt <= try_ Ro ->
  br <= brx Ro -> bb <= bry Ro -> bl <= blx Ro -> bb <= bly Ro ->
  fits (W - bl - br) (H - bt - bb) (inner_raw Ro bt br bb bl).
Proof. exact (inner_fits_when_not_clipped W H R bt br bb bl). Qed.
Print Assumptions C17_inner_radii_fit_when_not_clipped.

Theorem C17_border_box_has_the_used_outer_radii W H R :
  0 <= W -> 0 <= H -> nonneg R ->
  radii_eq (rr (rounded_border_box W H R)) (css_outer W H R) /\ fits W H (css_outer W H R).
Proof.
  intros Hw Hh N. split; [exact (border_box_radii W H R Hw Hh N)|exact (proj2 (css_outer_fits W H R Hw Hh N))].
Qed.
Print Assumptions C17_border_box_has_the_used_outer_radii.

Theorem C17_concentric_ellipse_inside rx ry Rx Ry x y :
  0 < rx -> rx <= Rx -> 0 < ry -> ry <= Ry ->
  x * x * (ry * ry) + y * y * (rx * rx) <= rx * rx * (ry * ry) ->
  x * x * (Ry * Ry) + y * y * (Rx * Rx) <= Rx * Rx * (Ry * Ry).
Proof. exact (concentric_inside rx ry Rx Ry x y). Qed.
Print Assumptions C17_concentric_ellipse_inside.

(* the limit of C17_inner_curve_inside_outer (not a finding: CSS is silent on inner radii that overlap): with a radius
   clipped at 0 beside one that no longer fits, the overlap check on the inner rectangle shrinks the inner curve
   towards the inner corner and a point of it is outside the outer curve, although the outer radii do not overlap *)
Theorem C17_inner_rescale_can_leave_outer_curve :
  exists W H R bt br bb bl px py,
    on_tl_curve (rounded_box W H R bt br bb bl) px py = true /\
    outside_tl_curve (rounded_border_box W H R) px py = true /\
    Qle_bool 1 (ratio W H R) = true.
Proof. exact inner_rescale_can_leave_outer_curve. Qed.
Print Assumptions C17_inner_rescale_can_leave_outer_curve.

(* ---- Box.rounded_box and its four callers as REGENERATED from weasyprint/formatting_structure/boxes.py on every
   run (gen/GenBoxes.v, interpreter base/Py.v), with border_box_x / border_box_y / border_width / border_height /
   padding_width / padding_height answered by their own regenerated bodies (base/PyLink.v): for every box geometry,
   every eight radii and every four distances the returned tuple is the model's rounded box placed at the border
   box (numbers up to ==); so the corner theorems above are about the source *)
From Coq Require Import String.
Require WV.base.Py WV.base.PyLink WV.gen.GenBoxes WV.proofs.C17_gen_rounded.
Module GR := WV.proofs.C17_gen_rounded.

Theorem C17_source_rounded_box n R g bt br bb bl :
  Py.run (PyLink.linked GenBoxes.GenBoxes_table (S (S n))) GenBoxes.rounded_box_body
      [("self"%string, GR.vbox R g); ("bt"%string, Py.VNum bt); ("br"%string, Py.VNum br); ("bb"%string, Py.VNum bb);
       ("bl"%string, Py.VNum bl)]
      (GR.post (GR.bbx g) (GR.bby g) (rounded_box (GR.bbw g) (GR.bbh g) R bt br bb bl)) (fun _ => False).
Proof. exact (GR.gen_rounded_box_linked n R g bt br bb bl). Qed.
Print Assumptions C17_source_rounded_box.

Theorem C17_source_rounded_padding_box n R g :
  Py.run (PyLink.linked GenBoxes.GenBoxes_table (S (S (S n)))) GenBoxes.rounded_padding_box_body [("self"%string, GR.vbox R g)]
      (GR.ret_rep (GR.bbx g) (GR.bby g)
         (rounded_padding_box (GR.bbw g) (GR.bbh g) R (GR.g_bt g, GR.g_br g, GR.g_bb g, GR.g_bl g))) (fun _ => False).
Proof. exact (GR.gen_rounded_padding_box_linked n R g). Qed.
Print Assumptions C17_source_rounded_padding_box.

Theorem C17_source_rounded_border_box n R g :
  Py.run (PyLink.linked GenBoxes.GenBoxes_table (S (S (S n)))) GenBoxes.rounded_border_box_body [("self"%string, GR.vbox R g)]
      (GR.ret_rep (GR.bbx g) (GR.bby g) (rounded_border_box (GR.bbw g) (GR.bbh g) R)) (fun _ => False).
Proof. exact (GR.gen_rounded_border_box_linked n R g). Qed.
Print Assumptions C17_source_rounded_border_box.

Theorem C17_source_rounded_content_box n R g :
  Py.run (PyLink.linked GenBoxes.GenBoxes_table (S (S (S n)))) GenBoxes.rounded_content_box_body [("self"%string, GR.vbox R g)]
      (GR.ret_rep (GR.bbx g) (GR.bby g)
         (rounded_content_box (GR.bbw g) (GR.bbh g) R (GR.g_bt g, GR.g_br g, GR.g_bb g, GR.g_bl g)
            (GR.g_pt g, GR.g_pr g, GR.g_pb g, GR.g_pl g))) (fun _ => False).
Proof. exact (GR.gen_rounded_content_box_linked n R g). Qed.
Print Assumptions C17_source_rounded_content_box.

Theorem C17_source_rounded_box_ratio n R g k :
  Py.run (PyLink.linked GenBoxes.GenBoxes_table (S (S (S n)))) GenBoxes.rounded_box_ratio_body
      [("self"%string, GR.vbox R g); ("ratio"%string, Py.VNum k)]
      (GR.ret_rep (GR.bbx g) (GR.bby g)
         (rounded_box_ratio (GR.bbw g) (GR.bbh g) R (GR.g_bt g, GR.g_br g, GR.g_bb g, GR.g_bl g) k)) (fun _ => False).
Proof. exact (GR.gen_rounded_box_ratio_linked n R g k). Qed.
Print Assumptions C17_source_rounded_box_ratio.

(* ---- StackingContext.__init__ as REGENERATED from weasyprint/stacking.py on every run (gen/GenStacking.v,
   interpreter base/Py.v; `self.x.append(c)` printed as `self.x = self.x + [c]`, `self.x.sort(key=lambda c:
   c.z_index)` as the stable-sort primitive PSortedByAttr): for every box (its style's z-index an integer or auto,
   any position, flex / grid item or not), every list of child contexts (objects whose z_index is the model's
   ctx_z, whatever else they carry) and whatever blocks / floats / blocks_and_cells / page are, the constructor
   returns nothing, raises nothing and leaves in `self` the components of the model's mk_ctx: the buckets
   negative_z_contexts / zero_z_contexts / positive_z_contexts (layers 3, 8, 9 of CSS 2.1 Appendix E: sorted by
   z-index, ties in tree order) and z_index = zctx (0 when auto or when z-index does not apply).  So the paint-order
   theorems above, which rest on mk_ctx, are about the source *)
Require WV.gen.GenStacking WV.proofs.C17_gen_stacking.
Module GS := WV.proofs.C17_gen_stacking.

Theorem C17_source_stacking_init_builds_mk_ctx (cextra : pnode -> list (string * Py.val))
        (i : info) es eb kids (children blocks floats bcs : list pnode) (Pg bl fl bc : Py.val) :
  Py.run Py.real_ops GenStacking.stacking_init_body
      [("self"%string, Py.VObj []); ("box"%string, GS.vbox i es eb);
       ("child_contexts"%string, Py.VList (map (GS.vctx pnode ctx_z cextra) children));
       ("blocks"%string, bl); ("floats"%string, fl); ("blocks_and_cells"%string, bc); ("page"%string, Pg)]
      (fun rho r =>
         r = None /\
         Py.lookup "self" rho =
           GS.ctx_fields (mk_ctx i kids children blocks floats bcs) (GS.vctx pnode ctx_z cextra)
                         (GS.vbox i es eb) Pg bl fl bc)
      (fun _ => False).
Proof. exact (GS.gen_stacking_init_is_mk_ctx Py.real_ops Py.real_ok cextra i es eb kids children blocks floats bcs Pg bl fl bc). Qed.
Print Assumptions C17_source_stacking_init_builds_mk_ctx.

(* the same, spelled out: the three buckets are the children with z < 0 sorted (stably) by z, the children with
   z = 0 in tree order, the other children sorted by z; for any type of child contexts *)
Theorem C17_source_stacking_init_buckets (C : Type) (cz : C -> Z) (cextra : C -> list (string * Py.val))
        (i : info) es eb (children : list C) (Pg bl fl bc : Py.val) :
  Py.run Py.real_ops GenStacking.stacking_init_body
      [("self"%string, Py.VObj []); ("box"%string, GS.vbox i es eb);
       ("child_contexts"%string, Py.VList (map (GS.vctx C cz cextra) children));
       ("blocks"%string, bl); ("floats"%string, fl); ("blocks_and_cells"%string, bc); ("page"%string, Pg)]
      (fun rho r =>
         r = None /\
         Py.lookup "self" rho =
           Py.VObj [("box"%string, GS.vbox i es eb); ("page"%string, Pg); ("block_level_boxes"%string, bl);
                    ("float_contexts"%string, fl);
                    ("negative_z_contexts"%string,
                     Py.VList (map (GS.vctx C cz cextra) (sort_z cz (filter (fun c => cz c <? 0) children))));
                    ("zero_z_contexts"%string,
                     Py.VList (map (GS.vctx C cz cextra) (filter (fun c => cz c =? 0) children)));
                    ("positive_z_contexts"%string,
                     Py.VList (map (GS.vctx C cz cextra)
                                   (sort_z cz (filter (fun c => negb (cz c <? 0) && negb (cz c =? 0)) children))));
                    ("blocks_and_cells"%string, bc);
                    ("z_index"%string,
                     Py.VNum (inject_Z (if negb (static i) || fit i || git i
                                        then match zi i with Some z => z | None => 0 end else 0)))])
      (fun _ => False).
Proof. exact (GS.gen_stacking_init C cz cextra Py.real_ops Py.real_ok i es eb children Pg bl fl bc). Qed.
Print Assumptions C17_source_stacking_init_buckets.

(* z-index only where it applies: a static box that is neither a flex nor a grid item (it has a context of its own
   because of opacity / transform / overflow, or is a float / inline-block) gets z_index 0 whatever its style says,
   so that its parent puts it in the zero layer (tree order) *)
Theorem C17_source_z_index_ignored_where_it_does_not_apply (cextra : pnode -> list (string * Py.val))
        (i : info) es eb (children : list pnode) (Pg bl fl bc : Py.val) :
  static i = true -> fit i = false -> git i = false ->
  Py.run Py.real_ops GenStacking.stacking_init_body
      [("self"%string, Py.VObj []); ("box"%string, GS.vbox i es eb);
       ("child_contexts"%string, Py.VList (map (GS.vctx pnode ctx_z cextra) children));
       ("blocks"%string, bl); ("floats"%string, fl); ("blocks_and_cells"%string, bc); ("page"%string, Pg)]
      (fun rho r => exists f, Py.lookup "self" rho = Py.VObj f /\ Py.lookup "z_index" f = Py.VNum (inject_Z 0))
      (fun _ => False).
Proof. exact (GS.gen_stacking_init_static_is_zero Py.real_ops Py.real_ok cextra i es eb children Pg bl fl bc). Qed.
Print Assumptions C17_source_z_index_ignored_where_it_does_not_apply.

(* ---- the decisions of _dispatch as REGENERATED from weasyprint/stacking.py on every run (gen/GenStacking.v,
   stacking_dispatch_body).  GD.dcase_of is the case analysis of the model's dispatch (first theorem); the second
   theorem runs the regenerated body: for every box (a placeholder or not; any position, z-index, opacity number,
   transform list, overflow keyword, float, class) it ends in the statement the model's case names, with
   len(child_contexts) / len(blocks) / len(blocks_and_cells) taken before the children are dispatched.  The
   statements outside the translated subset (the calls of StackingContext.from_box / _dispatch_children and the
   list.insert calls) are printed as calls of "%unsupported" carrying their text, which answer that text here
   (GD.doracle: also isinstance by the model's class tables and box.is_floated() by the model's flt), so the last
   one executed is read in the final environment *)
Require WV.proofs.C17_gen_dispatch.
Module GD := WV.proofs.C17_gen_dispatch.

Theorem C17_dispatch_is_this_case_analysis i kids st :
  dispatch (Box i kids) st =
  let dch (st : dst) : list pnode * dst :=
        if is_parent (knd i) then dispatch_list kids st else (map embed kids, st) in
  match GD.dcase_of i with
  | GD.DOwn =>
      let '(nk, s) := dch st0 in
      (None, mkS (s_cc st ++ [mk_ctx i nk (s_cc s) (s_bl s) (s_fl s) (s_bc s)]) (s_bl st) (s_fl st) (s_bc st))
  | GD.DFake =>
      let '(nk, s) := dch (mkS (s_cc st) [] [] []) in
      (None, mkS (insert_at (List.length (s_cc st)) (mk_ctx i nk [] (s_bl s) (s_fl s) (s_bc s)) (s_cc s))
                 (s_bl st) (s_fl st) (s_bc st))
  | GD.DFloat =>
      let '(nk, s) := dch (mkS (s_cc st) [] [] []) in
      (None, mkS (s_cc s) (s_bl st) (s_fl st ++ [mk_ctx i nk [] (s_bl s) (s_fl s) (s_bc s)]) (s_bc st))
  | GD.DInline =>
      let '(nk, s) := dch (mkS (s_cc st) [] [] []) in
      (Some (mk_ctx i nk [] (s_bl s) (s_fl s) (s_bc s)), mkS (s_cc s) (s_bl st) (s_fl st) (s_bc st))
  | GD.DNormal b c =>
      let '(nk, s) := dch st in
      let nb := PB i nk in
      (Some nb,
       mkS (s_cc s) (if b then insert_at (List.length (s_bl st)) nb (s_bl s) else s_bl s) (s_fl s)
           (if c then insert_at (List.length (s_bc st)) nb (s_bc s) else s_bc s))
  end.
Proof. exact (GD.dispatch_by_case i kids st). Qed.
Print Assumptions C17_dispatch_is_this_case_analysis.

Theorem C17_source_dispatch_decides (ph : bool) (i : info) (op : Q) (tl : list Py.val) (ov : string)
        es eb eph (pg : Py.val) (ccl bll fll bcl : list Py.val) :
  opa i = negb (Qle_bool 1 op) ->                                  (* style['opacity'] < 1 *)
  trf i = match tl with [] => false | _ => true end ->             (* style['transform'] is not empty *)
  ovf i = negb (String.eqb ov "visible") ->                        (* style['overflow'] != 'visible' *)
  Py.run (Py.with_calls Py.real_ops (GD.doracle ph i)) GenStacking.stacking_dispatch_body
      [("box"%string, GD.dparam ph (GD.dbox i op tl ov es eb) eph); ("page"%string, pg);
       ("child_contexts"%string, Py.VList ccl); ("blocks"%string, Py.VList bll); ("floats"%string, Py.VList fll);
       ("blocks_and_cells"%string, Py.VList bcl); ("boxes"%string, GD.vboxes);
       ("AbsolutePlaceholder"%string, Py.VStr "AbsolutePlaceholder")]
      (fun rho r =>
         match GD.dcase_of i with
         | GD.DOwn => Py.lookup "%unsupported" rho = Py.VStr GD.tag_own /\ r = Some Py.VNone
         | GD.DFake => Py.lookup "%unsupported" rho = Py.VStr GD.tag_fake_insert /\
                       Py.lookup "index" rho = Py.vint (Z.of_nat (List.length ccl)) /\ r = None
         | GD.DFloat => Py.lookup "%unsupported" rho = Py.VStr GD.tag_float /\ r = None
         | GD.DInline => Py.lookup "%unsupported" rho = Py.VStr GD.tag_inline /\ r = None
         | GD.DNormal b c =>
             Py.lookup "blocks_index" rho = (if b then Py.vint (Z.of_nat (List.length bll)) else Py.VNone) /\
             Py.lookup "blocks_and_cells_index" rho = (if c then Py.vint (Z.of_nat (List.length bcl)) else Py.VNone) /\
             Py.lookup "%unsupported" rho =
               Py.VStr (if c then GD.tag_bc_insert else if b then GD.tag_blocks_insert else GD.tag_children) /\
             r = Some (GD.dbox i op tl ov es eb)
         end)
      (fun _ => False).
Proof. exact (GD.gen_dispatch_decides Py.real_ops Py.real_ok ph i op tl ov es eb eph pg ccl bll fll bcl). Qed.
Print Assumptions C17_source_dispatch_decides.
