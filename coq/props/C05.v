(* C05 - Box model arithmetic and normal-flow geometry: property theorems only. *)
From Coq Require Import QArith List String.
Require Import WV.base.Py WV.gen.GenBlock WV.proofs.PyTac WV.proofs.C05_width WV.proofs.C05_collapse.
Import ListNotations.
Open Scope string_scope.

(* CSS 2.1 10.3.3 on the current source of block_level_width, containing block given as (width, height) *)
Theorem C05_width_equation_ltr is_col ml mr w pl pr bl br px cbw :
  len ml -> len mr -> len w ->
  run real_ops block_level_width_body
      [("box", mkbox ml mr w pl pr bl br px is_col); ("containing_block", cb_tuple cbw)]
      (width_post ml mr w pl pr bl br px cbw false) (fun _ => False).
Proof. exact (block_level_width_equation_tuple_cb is_col ml mr w pl pr bl br px cbw). Qed.
Print Assumptions C05_width_equation_ltr.

(* ... and with a box as containing block, both directions, column boxes or not *)
Theorem C05_width_equation_ltr_rtl (rtl is_col : bool) ml mr w pl pr bl br px cbw :
  len ml -> len mr -> len w ->
  run real_ops block_level_width_body
      [("box", mkbox ml mr w pl pr bl br px is_col);
       ("containing_block", cb_box cbw (if rtl then "rtl" else "ltr"))]
      (width_post ml mr w pl pr bl br px cbw (rtl && negb is_col)) (fun _ => False).
Proof. exact (block_level_width_equation_box_cb rtl is_col ml mr w pl pr bl br px cbw). Qed.
Print Assumptions C05_width_equation_ltr_rtl.

(* collapse_margin on the current source, every list of margins *)
Theorem C05_collapse_margin_spec (ms : list Q) :
  run real_ops collapse_margin_body [("adjoining_margins", VList (map VNum ms))]
      (returns (collapse ms)) (fun _ => False).
Proof. exact (collapse_margin_spec ms). Qed.
Print Assumptions C05_collapse_margin_spec.

Theorem C05_collapse_is_maxpos_plus_minneg (ms : list Q) :
  let P := maxpos ms in let N := minneg ms in
  (collapse ms == P + N /\
  0 <= P /\ N <= 0 /\
  (forall m, In m ms -> 0 <= m -> m <= P) /\
  (forall m, In m ms -> m <= 0 -> N <= m) /\
  (P == 0 \/ exists m, In m ms /\ 0 <= m /\ P == m) /\
  (N == 0 \/ exists m, In m ms /\ m <= 0 /\ N == m))%Q.
Proof. exact (collapse_is_maxpos_plus_minneg ms). Qed.
Print Assumptions C05_collapse_is_maxpos_plus_minneg.

Theorem C05_collapse_order_independent a b : (collapse (a ++ b) == collapse (b ++ a))%Q.
Proof. exact (collapse_app_comm a b). Qed.
Print Assumptions C05_collapse_order_independent.

(* min-width / max-width: handle_min_max_width re-runs the regenerated block_level_width with the clamped width;
   the used width then respects min-width, and max-width whenever max >= min; the box does not move (ltr) *)
Require Import WV.proofs.PyNatural WV.model.C05MinMax WV.proofs.C05_minmax.
Theorem C05_min_max_width_respected is_col ml mr w pl pr bl br px cbw minw maxw :
  len ml -> len mr -> len w ->
  exists a c d x ic,
    with_min_max (mkbox ml mr w pl pr bl br px is_col) (cb_tuple cbw) minw maxw
      = Some (mkbox (VNum a) (VNum c) (VNum d) pl pr bl br x ic) /\
    (minw <= d)%Q /\
    (forall m, maxw = Some m -> (minw <= m)%Q -> (d <= m)%Q) /\
    (x == px)%Q.
Proof. exact (min_max_width_respected is_col ml mr w pl pr bl br px cbw minw maxw). Qed.
Print Assumptions C05_min_max_width_respected.

(* the interpreter is natural in its answer type (what makes the composition above possible) *)
Theorem C05_interpreter_natural (O : qops) (A : Type) (body : list stmt) (rho : env)
        (obs : env -> option val -> A) (kerr : string -> A) :
  run O body rho obs kerr = match run_out O body rho with ONorm rho' r => obs rho' r | OErr m => kerr m end.
Proof. exact (run_natural O body rho obs kerr). Qed.
Print Assumptions C05_interpreter_natural.

(* percentage() of layout/percent.py, regenerated from the source: what resolve_percentages feeds into the width
   equation above.  dim v u is the computed Dimension(v, u). *)
Require WV.gen.GenPercent WV.proofs.C05_percentage.
Theorem C05_percentage_resolution (v r : Q) (refer : val) :
  let body := GenPercent.percentage_body in
  let dim := C05_percentage.dim in
  run real_ops body [("value", VNone); ("refer_to", refer)] (fun _ res => res = Some VNone) (fun _ => False) /\
  run real_ops body [("value", VStr "auto"); ("refer_to", refer)] (fun _ res => res = Some (VStr "auto")) (fun _ => False) /\
  run real_ops body [("value", dim v "px"); ("refer_to", refer)] (fun _ res => res = Some (VNum v)) (fun _ => False) /\
  run real_ops body [("value", dim v "%"); ("refer_to", VNum r)]
    (fun _ res => exists x, res = Some (VNum x) /\ x == r * v / 100) (fun _ => False).
Proof. exact (C05_percentage.percentage_spec v r refer). Qed.
Print Assumptions C05_percentage_resolution.
