(* C05 - Box model arithmetic and normal-flow geometry: property theorems only. *)
From Coq Require Import QArith List String.
Require Import WV.base.Py WV.gen.GenBlock WV.proofs.PyTac WV.proofs.C05_width WV.proofs.C05_collapse.
Import ListNotations.
Open Scope string_scope.

(* CSS 2.1 10.3.3 on the current source of block_level_width, containing block given as (width, height) *)
Theorem C05_width_equation_ltr is_col ml mr w pl pr bl br px cbw :
  len ml -> len mr -> len w ->
  run real_ops block_level_width_body
      [("box", mkbox ml mr w pl pr bl br px is_col); ("containing_block", cb_tuple cbw)]
      (width_post ml mr w pl pr bl br px cbw false) (fun _ => False).
Proof. exact (block_level_width_equation_tuple_cb is_col ml mr w pl pr bl br px cbw). Qed.
Print Assumptions C05_width_equation_ltr.

(* ... and with a box as containing block, both directions, column boxes or not *)
Theorem C05_width_equation_ltr_rtl (rtl is_col : bool) ml mr w pl pr bl br px cbw :
  len ml -> len mr -> len w ->
  run real_ops block_level_width_body
      [("box", mkbox ml mr w pl pr bl br px is_col);
       ("containing_block", cb_box cbw (if rtl then "rtl" else "ltr"))]
      (width_post ml mr w pl pr bl br px cbw (rtl && negb is_col)) (fun _ => False).
Proof. exact (block_level_width_equation_box_cb rtl is_col ml mr w pl pr bl br px cbw). Qed.
Print Assumptions C05_width_equation_ltr_rtl.

(* collapse_margin on the current source, every list of margins *)
Theorem C05_collapse_margin_spec (ms : list Q) :
  run real_ops collapse_margin_body [("adjoining_margins", VList (map VNum ms))]
      (returns (collapse ms)) (fun _ => False).
Proof. exact (collapse_margin_spec ms). Qed.
Print Assumptions C05_collapse_margin_spec.

Theorem C05_collapse_is_maxpos_plus_minneg (ms : list Q) :
  let P := maxpos ms in let N := minneg ms in
  (collapse ms == P + N /\
  0 <= P /\ N <= 0 /\
  (forall m, In m ms -> 0 <= m -> m <= P) /\
  (forall m, In m ms -> m <= 0 -> N <= m) /\
  (P == 0 \/ exists m, In m ms /\ 0 <= m /\ P == m) /\
  (N == 0 \/ exists m, In m ms /\ m <= 0 /\ N == m))%Q.
Proof. exact (collapse_is_maxpos_plus_minneg ms). Qed.
Print Assumptions C05_collapse_is_maxpos_plus_minneg.

Theorem C05_collapse_order_independent a b : (collapse (a ++ b) == collapse (b ++ a))%Q.
Proof. exact (collapse_app_comm a b). Qed.
Print Assumptions C05_collapse_order_independent.

(* min-width / max-width: handle_min_max_width re-runs the regenerated block_level_width with the clamped width;
   the used width then respects min-width, and max-width whenever max >= min; the box does not move (ltr) *)
Require Import WV.proofs.PyNatural WV.model.C05MinMax WV.proofs.C05_minmax.
Theorem C05_min_max_width_respected is_col ml mr w pl pr bl br px cbw minw maxw :
  len ml -> len mr -> len w ->
  exists a c d x ic,
    with_min_max (mkbox ml mr w pl pr bl br px is_col) (cb_tuple cbw) minw maxw
      = Some (mkbox (VNum a) (VNum c) (VNum d) pl pr bl br x ic) /\
    (minw <= d)%Q /\
    (forall m, maxw = Some m -> (minw <= m)%Q -> (d <= m)%Q) /\
    (x == px)%Q.
Proof. exact (min_max_width_respected is_col ml mr w pl pr bl br px cbw minw maxw). Qed.
Print Assumptions C05_min_max_width_respected.

(* the interpreter is natural in its answer type (what makes the composition above possible) *)
Theorem C05_interpreter_natural (O : qops) (A : Type) (body : list stmt) (rho : env)
        (obs : env -> option val -> A) (kerr : string -> A) :
  run O body rho obs kerr = match run_out O body rho with ONorm rho' r => obs rho' r | OErr m => kerr m end.
Proof. exact (run_natural O body rho obs kerr). Qed.
Print Assumptions C05_interpreter_natural.

(* percentage() of layout/percent.py, regenerated from the source: what resolve_percentages feeds into the width
   equation above.  dim v u is the computed Dimension(v, u). *)
Require WV.gen.GenPercent WV.proofs.C05_percentage.
Theorem C05_percentage_resolution (v r : Q) (refer : val) :
  let body := GenPercent.percentage_body in
  let dim := C05_percentage.dim in
  run real_ops body [("value", VNone); ("refer_to", refer)] (fun _ res => res = Some VNone) (fun _ => False) /\
  run real_ops body [("value", VStr "auto"); ("refer_to", refer)] (fun _ res => res = Some (VStr "auto")) (fun _ => False) /\
  run real_ops body [("value", dim v "px"); ("refer_to", refer)] (fun _ res => res = Some (VNum v)) (fun _ => False) /\
  run real_ops body [("value", dim v "%"); ("refer_to", VNum r)]
    (fun _ res => exists x, res = Some (VNum x) /\ x == r * v / 100) (fun _ => False).
Proof. exact (C05_percentage.percentage_spec v r refer). Qed.
Print Assumptions C05_percentage_resolution.

(* ---- source: more of layout/percent.py under the translator tie (regenerated on every run).
   adjust_box_sizing(box, axis), specialised by constant propagation to its two call sites axis='width' / 'height'
   (gen/GenBoxSizing.v), equals the hand model [adjust] on the three sizes of the axis and changes nothing else ... *)
Require WV.gen.GenBoxSizing WV.model.C05BoxSizing WV.proofs.C05_gen_box_sizing.
Theorem C05_source_adjust_box_sizing_width s srest pl pr pt pb bl br bt bb w mn mx h mnh mxh rest :
  let bsbox := C05BoxSizing.bsbox in let vo := C05BoxSizing.vo in
  run real_ops GenBoxSizing.adjust_box_sizing_width_body
    [("box", bsbox (VStr (C05BoxSizing.sizing_kw s)) srest (VNum pl) (VNum pr) (VNum pt) (VNum pb) (VNum bl) (VNum br)
                   (VNum bt) (VNum bb) (vo w) (vo mn) (VNum mx) h mnh mxh rest)]
    (fun rho res => res = None /\ exists w' mn' mx',
       lookup "box" rho = bsbox (VStr (C05BoxSizing.sizing_kw s)) srest (VNum pl) (VNum pr) (VNum pt) (VNum pb) (VNum bl)
                                (VNum br) (VNum bt) (VNum bb) w' mn' mx' h mnh mxh rest /\
       let z' := C05BoxSizing.adjust s (C05BoxSizing.mkEdges pl pr bl br) (C05BoxSizing.mkSizes w mn mx) in
       C05BoxSizing.rep w' (C05BoxSizing.sz z') /\ C05BoxSizing.rep mn' (C05BoxSizing.sz_min z') /\
       C05BoxSizing.repq mx' (C05BoxSizing.sz_max z'))
    (fun _ => False).
Proof. exact (C05_gen_box_sizing.adjust_box_sizing_width_is_model s srest pl pr pt pb bl br bt bb w mn mx h mnh mxh rest). Qed.
Print Assumptions C05_source_adjust_box_sizing_width.

Theorem C05_source_adjust_box_sizing_height s srest pl pr pt pb bl br bt bb w mnw mxw h mn mx rest :
  let bsbox := C05BoxSizing.bsbox in let vo := C05BoxSizing.vo in
  run real_ops GenBoxSizing.adjust_box_sizing_height_body
    [("box", bsbox (VStr (C05BoxSizing.sizing_kw s)) srest (VNum pl) (VNum pr) (VNum pt) (VNum pb) (VNum bl) (VNum br)
                   (VNum bt) (VNum bb) w mnw mxw (vo h) (vo mn) (VNum mx) rest)]
    (fun rho res => res = None /\ exists h' mn' mx',
       lookup "box" rho = bsbox (VStr (C05BoxSizing.sizing_kw s)) srest (VNum pl) (VNum pr) (VNum pt) (VNum pb) (VNum bl)
                                (VNum br) (VNum bt) (VNum bb) w mnw mxw h' mn' mx' rest /\
       let z' := C05BoxSizing.adjust s (C05BoxSizing.mkEdges pt pb bt bb) (C05BoxSizing.mkSizes h mn mx) in
       C05BoxSizing.rep h' (C05BoxSizing.sz z') /\ C05BoxSizing.rep mn' (C05BoxSizing.sz_min z') /\
       C05BoxSizing.repq mx' (C05BoxSizing.sz_max z'))
    (fun _ => False).
Proof. exact (C05_gen_box_sizing.adjust_box_sizing_height_is_model s srest pl pr pt pb bl br bt bb w mnw mxw h mn mx rest). Qed.
Print Assumptions C05_source_adjust_box_sizing_height.

(* ... and the clause "box-sizing only changes which box the declared size measures", about the regenerated text:
   with non-negative paddings and borders, each declared size d >= 0 of the axis becomes the content size c such that
   the box named by box-sizing ([extent]: content, padding or border box) measures d, c floored at 0 when the
   paddings / borders alone exceed d; 'auto' stays 'auto'; every other entry of the box is unchanged *)
Theorem C05_source_box_sizing_measures_declared_width s srest pl pr pt pb bl br bt bb w mn mx h mnh mxh rest :
  (0 <= pl -> 0 <= pr -> 0 <= bl -> 0 <= br ->
  let bsbox := C05BoxSizing.bsbox in let vo := C05BoxSizing.vo in
  run real_ops GenBoxSizing.adjust_box_sizing_width_body
    [("box", bsbox (VStr (C05BoxSizing.sizing_kw s)) srest (VNum pl) (VNum pr) (VNum pt) (VNum pb) (VNum bl) (VNum br)
                   (VNum bt) (VNum bb) (vo w) (vo mn) (VNum mx) h mnh mxh rest)]
    (fun rho res => res = None /\ exists z',
       lookup "box" rho = bsbox (VStr (C05BoxSizing.sizing_kw s)) srest (VNum pl) (VNum pr) (VNum pt) (VNum pb) (VNum bl)
                                (VNum br) (VNum bt) (VNum bb) (vo (C05BoxSizing.sz z')) (vo (C05BoxSizing.sz_min z'))
                                (VNum (C05BoxSizing.sz_max z')) h mnh mxh rest /\
       C05BoxSizing.adjust_spec s (C05BoxSizing.mkEdges pl pr bl br) (C05BoxSizing.mkSizes w mn mx) z')
    (fun _ => False))%Q.
Proof. exact (C05_gen_box_sizing.box_sizing_measures_declared_width s srest pl pr pt pb bl br bt bb w mn mx h mnh mxh rest). Qed.
Print Assumptions C05_source_box_sizing_measures_declared_width.

Theorem C05_source_box_sizing_measures_declared_height s srest pl pr pt pb bl br bt bb w mnw mxw h mn mx rest :
  (0 <= pt -> 0 <= pb -> 0 <= bt -> 0 <= bb ->
  let bsbox := C05BoxSizing.bsbox in let vo := C05BoxSizing.vo in
  run real_ops GenBoxSizing.adjust_box_sizing_height_body
    [("box", bsbox (VStr (C05BoxSizing.sizing_kw s)) srest (VNum pl) (VNum pr) (VNum pt) (VNum pb) (VNum bl) (VNum br)
                   (VNum bt) (VNum bb) w mnw mxw (vo h) (vo mn) (VNum mx) rest)]
    (fun rho res => res = None /\ exists z',
       lookup "box" rho = bsbox (VStr (C05BoxSizing.sizing_kw s)) srest (VNum pl) (VNum pr) (VNum pt) (VNum pb) (VNum bl)
                                (VNum br) (VNum bt) (VNum bb) w mnw mxw (vo (C05BoxSizing.sz z'))
                                (vo (C05BoxSizing.sz_min z')) (VNum (C05BoxSizing.sz_max z')) rest /\
       C05BoxSizing.adjust_spec s (C05BoxSizing.mkEdges pt pb bt bb) (C05BoxSizing.mkSizes h mn mx) z')
    (fun _ => False))%Q.
Proof. exact (C05_gen_box_sizing.box_sizing_measures_declared_height s srest pl pr pt pb bl br bt bb w mnw mxw h mn mx rest). Qed.
Print Assumptions C05_source_box_sizing_measures_declared_height.

(* what [adjust_spec] says, unfolded once (the specification is written from the property text, not from the code) *)
Theorem C05_box_sizing_spec_reading s e d c :
  C05BoxSizing.measures s e d c <->
  ((C05BoxSizing.extent s e 0 <= d -> C05BoxSizing.extent s e c == d) /\ (~ C05BoxSizing.extent s e 0 <= d -> c == 0))%Q.
Proof. unfold C05BoxSizing.measures. tauto. Qed.
Print Assumptions C05_box_sizing_spec_reading.

(* any other box-sizing keyword trips the assert *)
Theorem C05_source_adjust_box_sizing_bad_keyword (kw : string) srest pl pr pt pb bl br bt bb w mnw mxw h mnh mxh rest :
  C05BoxSizing.sizing_of kw = None ->
  let box := C05BoxSizing.bsbox (VStr kw) srest pl pr pt pb bl br bt bb w mnw mxw h mnh mxh rest in
  run real_ops GenBoxSizing.adjust_box_sizing_width_body [("box", box)] (fun _ _ => False) (fun m => m = "AssertionError") /\
  run real_ops GenBoxSizing.adjust_box_sizing_height_body [("box", box)] (fun _ _ => False) (fun m => m = "AssertionError").
Proof. exact (C05_gen_box_sizing.gen_adjust_bad_keyword real_ops kw srest pl pr pt pb bl br bt bb w mnw mxw h mnh mxh rest). Qed.
Print Assumptions C05_source_adjust_box_sizing_bad_keyword.

(* resolve_one_percentage(box, name, refer_to) and resolve_percentages(box, containing_block) (gen/GenResolve.v).
   The calls that mutate the box are printed as `%call, box = f(box, 'name', ...)`; [rlinked ha n] interprets a call by
   running the regenerated body of the callee (the specialisation selected by the constant name); ha: which of the
   four border_*_width attributes the box has when resolve_percentages is entered.
   For EVERY box object whose style holds a computed length c under one of the fourteen names, the call stores
   percentage(c, refer_to) - 0 instead of 'auto' for min_width / min_height - under that name, nothing else *)
Require WV.gen.GenResolve WV.model.C05Resolve WV.model.C05ResolveLink WV.proofs.C05_gen_resolve_one WV.proofs.C05_gen_resolve.
Theorem C05_source_resolve_one_percentage ha n b name c r :
  C05Resolve.rp_name name = true -> C05Resolve.sty b name = C05Resolve.cv c ->
  ocall (C05ResolveLink.rlinked ha (S (S n))) "resolve_one_percentage" [b; VStr name; VNum r]
  = VList [VNone; C05Resolve.setf name (C05Resolve.rop_val name c (VNum r)) b].
Proof. exact (C05_gen_resolve.resolve_one_spec ha n b name c r). Qed.
Print Assumptions C05_source_resolve_one_percentage.

(* 'percentages resolve against the containing block': what is stored (percentage() itself is
   C05_percentage_resolution above; here as a function) *)
Theorem C05_percentages_resolve_against_reference (v r : Q) (refer : val) :
  C05Resolve.pct (C05Resolve.CPct v) (VNum r) = VNum (r * v / 100) /\
  C05Resolve.pct (C05Resolve.CPx v) refer = VNum v /\
  C05Resolve.pct C05Resolve.CAuto refer = VStr "auto" /\
  C05Resolve.min0c C05Resolve.CAuto refer = VNum 0.
Proof. repeat split. Qed.
Print Assumptions C05_percentages_resolve_against_reference.

(* ... and which reference each property gets: the model [resolve], field by field.  cbw, cbh: width and height of
   the containing block (None: 'auto'); mh: the reference of the vertical margins and paddings ([vertical_ref]: the
   page height for a page box, else the WIDTH of the containing block, CSS 2.1 8.3 / 8.4); keep: border-collapse is
   'collapse' and the attribute is already set *)
Theorem C05_resolve_reading s sbl sbr sbt sbb keep cbw cbh mh inf u :
  let pct := C05Resolve.pct in let min0c := C05Resolve.min0c in
  let U := C05Resolve.resolve s sbl sbr sbt sbb keep cbw cbh mh inf u in
  let W := VNum cbw in let MH := VNum mh in
  C05Resolve.u_ml U = pct (C05Resolve.c_ml s) W /\ C05Resolve.u_mr U = pct (C05Resolve.c_mr s) W /\
  C05Resolve.u_mt U = pct (C05Resolve.c_mt s) MH /\ C05Resolve.u_mb U = pct (C05Resolve.c_mb s) MH /\
  C05Resolve.u_pl U = pct (C05Resolve.c_pl s) W /\ C05Resolve.u_pr U = pct (C05Resolve.c_pr s) W /\
  C05Resolve.u_pt U = pct (C05Resolve.c_pt s) MH /\ C05Resolve.u_pb U = pct (C05Resolve.c_pb s) MH /\
  C05Resolve.u_w U = pct (C05Resolve.c_w s) W /\ C05Resolve.u_minw U = min0c (C05Resolve.c_minw s) W /\
  C05Resolve.u_maxw U = pct (C05Resolve.c_maxw s) W /\
  (forall h, cbh = Some h ->
     C05Resolve.u_h U = pct (C05Resolve.c_h s) (VNum h) /\ C05Resolve.u_minh U = min0c (C05Resolve.c_minh s) (VNum h) /\
     C05Resolve.u_maxh U = pct (C05Resolve.c_maxh s) (VNum h)) /\
  (cbh = None ->
     (* CSS 2.1 10.5 / 10.7: a percentage height is 'auto', a percentage min-height 0, max-height refers to `inf` *)
     C05Resolve.u_h U = match C05Resolve.c_h s with C05Resolve.CPx v => VNum v | _ => VStr "auto" end /\
     C05Resolve.u_minh U = min0c (C05Resolve.c_minh s) (VNum 0) /\ C05Resolve.u_maxh U = pct (C05Resolve.c_maxh s) inf) /\
  C05Resolve.u_bl U = (if keep "border_left_width" then C05Resolve.u_bl u else sbl) /\
  C05Resolve.u_br U = (if keep "border_right_width" then C05Resolve.u_br u else sbr) /\
  C05Resolve.u_bt U = (if keep "border_top_width" then C05Resolve.u_bt u else sbt) /\
  C05Resolve.u_bb U = (if keep "border_bottom_width" then C05Resolve.u_bb u else sbb).
Proof.
  cbv zeta. repeat split; try reflexivity.
  - subst cbh. reflexivity.
  - subst cbh. reflexivity.
  - subst cbh. reflexivity.
  - subst cbh. reflexivity.
  - subst cbh. reflexivity.
  - subst cbh. reflexivity.
Qed.
Print Assumptions C05_resolve_reading.

(* resolve_percentages, every statement of the regenerated text, every call linked: the box afterwards is the
   resolved box ([resolve] above) passed through the two linked calls of adjust_box_sizing; the containing block is
   a box or a pair; for a page box its height is a number *)
Theorem C05_source_resolve_percentages ha n (as_box is_page : bool) kw collapse sbl sbr sbt sbb s u srest rest cbrest
        i cbw cbh mh f1 f2 :
  let O := C05ResolveLink.rlinked ha (S (S (S n))) in
  C05_gen_resolve.vertical_ref is_page cbw cbh = Some mh ->
  ocall O "adjust_box_sizing"
    [VObj (C05_gen_resolve.resolved ha kw collapse sbl sbr sbt sbb s u srest rest cbw cbh mh i); VStr "width"]
    = VList [VNone; VObj f1] ->
  ocall O "adjust_box_sizing" [VObj f1; VStr "height"] = VList [VNone; VObj f2] ->
  run O GenResolve.resolve_percentages_body
    [("box", C05Resolve.rbox kw (C05Resolve.bcv collapse) sbl sbr sbt sbb s u srest rest);
     ("containing_block", C05Resolve.cbval as_box cbw cbh cbrest); ("box_is_page", VBool is_page); ("inf", VNum i)]
    (fun rho res => res = None /\ lookup "box" rho = VObj f2) (fun _ => False).
Proof.
  exact (C05_gen_resolve.resolve_percentages_linked ha n as_box is_page kw collapse sbl sbr sbt sbb s u srest rest cbrest
           i cbw cbh mh f1 f2).
Qed.
Print Assumptions C05_source_resolve_percentages.

(* ... composed with the theorems about adjust_box_sizing: when the resolved paddings, borders and maximum sizes are
   numbers (sizes and minimum sizes numbers or 'auto'), the box afterwards holds the resolved margins, paddings and
   borders and, on each axis, the three sizes of the model [adjust] (which meets the box-sizing clause above) *)
Theorem C05_source_resolve_percentages_box_sizing ha n (as_box is_page : bool) sz collapse sbl sbr sbt sbb s u srest rest
        cbrest i cbw cbh mh pl pr pt pb bl br bt bb w mnw mxw h mnh mxh :
  C05_gen_resolve.vertical_ref is_page cbw cbh = Some mh ->
  let vo := C05BoxSizing.vo in
  let U := C05Resolve.resolve s sbl sbr sbt sbb (fun x => collapse && ha x)%bool cbw cbh mh (VNum i) u in
  C05Resolve.u_pl U = VNum pl -> C05Resolve.u_pr U = VNum pr -> C05Resolve.u_pt U = VNum pt -> C05Resolve.u_pb U = VNum pb ->
  C05Resolve.u_bl U = VNum bl -> C05Resolve.u_br U = VNum br -> C05Resolve.u_bt U = VNum bt -> C05Resolve.u_bb U = VNum bb ->
  C05Resolve.u_w U = vo w -> C05Resolve.u_minw U = vo mnw -> C05Resolve.u_maxw U = VNum mxw ->
  C05Resolve.u_h U = vo h -> C05Resolve.u_minh U = vo mnh -> C05Resolve.u_maxh U = VNum mxh ->
  run (C05ResolveLink.rlinked ha (S (S (S n)))) GenResolve.resolve_percentages_body
    [("box", C05Resolve.rbox (VStr (C05BoxSizing.sizing_kw sz)) (C05Resolve.bcv collapse) sbl sbr sbt sbb s u srest rest);
     ("containing_block", C05Resolve.cbval as_box cbw cbh cbrest); ("box_is_page", VBool is_page); ("inf", VNum i)]
    (fun rho res => res = None /\
       exists w' mnw' mxw' h' mnh' mxh',
         lookup "box" rho =
           C05Resolve.rbox (VStr (C05BoxSizing.sizing_kw sz)) (C05Resolve.bcv collapse) sbl sbr sbt sbb s
             (C05Resolve.mkUsed (C05Resolve.u_ml U) (C05Resolve.u_mr U) (C05Resolve.u_mt U) (C05Resolve.u_mb U)
                (VNum pl) (VNum pr) (VNum pt) (VNum pb) (VNum bl) (VNum br) (VNum bt) (VNum bb)
                w' mnw' mxw' h' mnh' mxh') srest rest /\
         let zw := C05BoxSizing.adjust sz (C05BoxSizing.mkEdges pl pr bl br) (C05BoxSizing.mkSizes w mnw mxw) in
         let zh := C05BoxSizing.adjust sz (C05BoxSizing.mkEdges pt pb bt bb) (C05BoxSizing.mkSizes h mnh mxh) in
         C05BoxSizing.rep w' (C05BoxSizing.sz zw) /\ C05BoxSizing.rep mnw' (C05BoxSizing.sz_min zw) /\
         C05BoxSizing.repq mxw' (C05BoxSizing.sz_max zw) /\
         C05BoxSizing.rep h' (C05BoxSizing.sz zh) /\ C05BoxSizing.rep mnh' (C05BoxSizing.sz_min zh) /\
         C05BoxSizing.repq mxh' (C05BoxSizing.sz_max zh))
    (fun _ => False).
Proof.
  exact (C05_gen_resolve.resolve_percentages_typed ha n as_box is_page sz collapse sbl sbr sbt sbb s u srest rest cbrest i
           cbw cbh mh pl pr pt pb bl br bt bb w mnw mxw h mnh mxh).
Qed.
Print Assumptions C05_source_resolve_percentages_box_sizing.

(* ---- source: the functions that a call of a @handle_min_max_width / @handle_min_max_height function executes: the
   inner `wrapper` of the two decorators of layout/min_max.py, regenerated on every run (gen/GenMinMax.v).  The
   decorated function is ANY oracle F (given the attributes of the box and the tuple of the other arguments it raises,
   or answers the returned value and the state of the box and of the arguments after the call); getattr is the
   builtin.  The regenerated bodies compute the hand model wrap_width / wrap_height (model/C05MinMaxWrap.v): the
   first entry; when size > max: size := max, margins (and position_x) as at the first entry, re-entry; the same when
   size < min; nothing is clamped while the height is 'auto'. *)
Require WV.gen.GenMinMax WV.model.C05MinMaxWrap WV.proofs.C05_minmax_wrap WV.proofs.C05_gen_minmax.
Theorem C05_source_min_max_width_wrapper (O : qops) (HO : ops_ok O) (F : C05MinMaxWrap.oracle)
  (HF : forall f a, ocall O "function" [VObj f; VList a] = C05MinMaxWrap.enc (F f a))
  (HG : forall f n d, ocall O "%getattr" [VObj f; VStr n; d] = C05MinMaxWrap.getattr_sem f n d)
  (A : Type) (obs : env -> option val -> A) (kerr : string -> A) f0 a0 :
  run O GenMinMax.min_max_width_wrapper_body [("box", VObj f0); ("args", VList a0)] obs kerr =
  match C05MinMaxWrap.wrap_width F f0 a0 with
  | inl m => kerr m
  | inr (r, f, a) =>
      obs [("box", VObj f); ("args", VList a);
           ("computed_margins", VList [lookup "margin_left" f0; lookup "margin_right" f0]);
           ("position_x", C05MinMaxWrap.getattr_sem f0 "position_x" VNone); ("result", r)] (Some r)
  end.
Proof. exact (C05_gen_minmax.gen_wrap_width O HO F HF HG obs kerr f0 a0). Qed.
Print Assumptions C05_source_min_max_width_wrapper.

Theorem C05_source_min_max_height_wrapper (O : qops) (HO : ops_ok O) (F : C05MinMaxWrap.oracle)
  (HF : forall f a, ocall O "function" [VObj f; VList a] = C05MinMaxWrap.enc (F f a))
  (A : Type) (obs : env -> option val -> A) (kerr : string -> A) f0 a0 :
  run O GenMinMax.min_max_height_wrapper_body [("box", VObj f0); ("args", VList a0)] obs kerr =
  match C05MinMaxWrap.wrap_height F f0 a0 with
  | inl m => kerr m
  | inr (r, f, a) =>
      obs [("box", VObj f); ("args", VList a);
           ("computed_margins", VList [lookup "margin_top" f0; lookup "margin_bottom" f0]); ("result", r)] (Some r)
  end.
Proof. exact (C05_gen_minmax.gen_wrap_height O HO F HF obs kerr f0 a0). Qed.
Print Assumptions C05_source_min_max_height_wrapper.

(* the same with the two calls interpreted inside the operations record: no hypothesis is left *)
Theorem C05_source_min_max_width_wrapper_closed (F : C05MinMaxWrap.oracle) (A : Type) (obs : env -> option val -> A)
        (kerr : string -> A) f0 a0 :
  run (with_calls real_ops (C05MinMaxWrap.wrap_calls F)) GenMinMax.min_max_width_wrapper_body
      [("box", VObj f0); ("args", VList a0)] obs kerr =
  match C05MinMaxWrap.wrap_width F f0 a0 with
  | inl m => kerr m
  | inr (r, f, a) => obs (C05_gen_minmax.width_final f0 f a r) (Some r)
  end.
Proof. exact (C05_gen_minmax.gen_wrap_width_closed F obs kerr f0 a0). Qed.
Print Assumptions C05_source_min_max_width_wrapper_closed.

(* the min/max clause about the source: around any function that keeps a numeric width it is given and leaves the
   bounds alone, the regenerated wrapper returns with min <= width, width <= max when min <= max, width == min
   otherwise (min wins); it raises only what the function raises.  The same for the height unless it stays 'auto'. *)
Theorem C05_source_min_max_width_clamped (O : qops) (HO : ops_ok O) (F : C05MinMaxWrap.oracle)
  (HF : forall f a, ocall O "function" [VObj f; VList a] = C05MinMaxWrap.enc (F f a))
  (HG : forall f n d, ocall O "%getattr" [VObj f; VStr n; d] = C05MinMaxWrap.getattr_sem f n d) f0 a0 (mn mx : Q) :
  (forall f a r f' a', F f a = inr (r, f', a') ->
     lookup "min_width" f' = lookup "min_width" f /\ lookup "max_width" f' = lookup "max_width" f /\
     (forall w, lookup "width" f = VNum w -> exists d, lookup "width" f' = VNum d /\ d == w)) ->
  (forall f a r f' a', F f a = inr (r, f', a') -> exists d, lookup "width" f' = VNum d) ->
  lookup "min_width" f0 = VNum mn -> lookup "max_width" f0 = VNum mx ->
  run O GenMinMax.min_max_width_wrapper_body [("box", VObj f0); ("args", VList a0)]
      (fun rho _ => exists d, lookup "width" (C05_gen_minmax.box_of rho) = VNum d /\
                              mn <= d /\ (mn <= mx -> d <= mx) /\ (~ mn <= mx -> d == mn))
      (fun m => exists f a, F f a = inl m).
Proof. exact (C05_gen_minmax.source_min_max_width O HO F HF HG f0 a0 mn mx). Qed.
Print Assumptions C05_source_min_max_width_clamped.

Theorem C05_source_min_max_height_clamped (O : qops) (HO : ops_ok O) (F : C05MinMaxWrap.oracle)
  (HF : forall f a, ocall O "function" [VObj f; VList a] = C05MinMaxWrap.enc (F f a)) f0 a0 (mn mx : Q) :
  (forall f a r f' a', F f a = inr (r, f', a') ->
     lookup "min_height" f' = lookup "min_height" f /\ lookup "max_height" f' = lookup "max_height" f /\
     (forall w, lookup "height" f = VNum w -> exists d, lookup "height" f' = VNum d /\ d == w)) ->
  (forall f a r f' a', F f a = inr (r, f', a') ->
     lookup "height" f' = VStr "auto" \/ exists d, lookup "height" f' = VNum d) ->
  lookup "min_height" f0 = VNum mn -> lookup "max_height" f0 = VNum mx ->
  run O GenMinMax.min_max_height_wrapper_body [("box", VObj f0); ("args", VList a0)]
      (fun rho _ => lookup "height" (C05_gen_minmax.box_of rho) = VStr "auto" \/
                    exists d, lookup "height" (C05_gen_minmax.box_of rho) = VNum d /\
                              mn <= d /\ (mn <= mx -> d <= mx) /\ (~ mn <= mx -> d == mn))
      (fun m => exists f a, F f a = inl m).
Proof. exact (C05_gen_minmax.source_min_max_height O HO F HF f0 a0 mn mx). Qed.
Print Assumptions C05_source_min_max_height_clamped.

(* whatever every answer of the decorated function satisfies (the width equation, say), what the regenerated wrapper
   returns satisfies: its answer is the answer of one of its calls *)
Theorem C05_source_min_max_width_preserves (O : qops) (HO : ops_ok O) (F : C05MinMaxWrap.oracle)
  (HF : forall f a, ocall O "function" [VObj f; VList a] = C05MinMaxWrap.enc (F f a))
  (HG : forall f n d, ocall O "%getattr" [VObj f; VStr n; d] = C05MinMaxWrap.getattr_sem f n d)
  (P : C05MinMaxWrap.answer -> Prop) f0 a0 :
  (forall f a c, F f a = inr c -> P c) ->
  run O GenMinMax.min_max_width_wrapper_body [("box", VObj f0); ("args", VList a0)]
      (fun rho r => exists v a, r = Some v /\ lookup "args" rho = VList a /\ P (v, C05_gen_minmax.box_of rho, a))
      (fun _ => True).
Proof. exact (C05_gen_minmax.source_min_max_width_preserves O HO F HF HG P f0 a0). Qed.
Print Assumptions C05_source_min_max_width_preserves.

(* the calls the wrappers make (model, equal to the source by the theorems above): every re-entry starts from the
   margins of the first entry - and from its position_x when it has one that is not None -, and the answer of the
   wrapper is the answer of one of the calls *)
Theorem C05_min_max_width_reentry_restored (F : C05MinMaxWrap.oracle) f0 a0 :
  (forall fin ain, In (fin, ain) (fst (C05MinMaxWrap.wrap_width_full F f0 a0)) ->
     (fin, ain) = (f0, a0) \/
     (lookup "margin_left" fin = lookup "margin_left" f0 /\ lookup "margin_right" fin = lookup "margin_right" f0 /\
      (C05MinMaxWrap.getattr_sem f0 "position_x" VNone <> VNone ->
       lookup "position_x" fin = C05MinMaxWrap.getattr_sem f0 "position_x" VNone))) /\
  (forall c, C05MinMaxWrap.wrap_width F f0 a0 = inr c ->
     exists fin ain, In (fin, ain) (fst (C05MinMaxWrap.wrap_width_full F f0 a0)) /\ F fin ain = inr c).
Proof. exact (C05_minmax_wrap.wrap_width_calls F f0 a0). Qed.
Print Assumptions C05_min_max_width_reentry_restored.

Theorem C05_min_max_height_reentry_restored (F : C05MinMaxWrap.oracle) f0 a0 :
  (forall fin ain, In (fin, ain) (fst (C05MinMaxWrap.wrap_height_full F f0 a0)) ->
     (fin, ain) = (f0, a0) \/
     (lookup "margin_top" fin = lookup "margin_top" f0 /\ lookup "margin_bottom" fin = lookup "margin_bottom" f0 /\ True)) /\
  (forall c, C05MinMaxWrap.wrap_height F f0 a0 = inr c ->
     exists fin ain, In (fin, ain) (fst (C05MinMaxWrap.wrap_height_full F f0 a0)) /\ F fin ain = inr c).
Proof. exact (C05_minmax_wrap.wrap_height_calls F f0 a0). Qed.
Print Assumptions C05_min_max_height_reentry_restored.
