(* C11 - Floats and positioned boxes obey the CSS 2.1 placement rules: property theorems only.
   Models: model/C11Abs.v (absolute_width, absolute_height, absolute_replaced, handle_min_max_width),
   model/C11Float.v (get_clearance, avoid_collisions, find_float_position, relative_positioning), hand-written
   from /repo/weasyprint/layout/{absolute,min_max,float,block}.py and tied to the code on every run by
   exact-rational direct-call correspondence (harness/p_c11.py). *)
From Coq Require Import QArith Qminmax List Bool.
Require Import WV.model.C11Abs WV.model.C11Float WV.proofs.C11_abs WV.proofs.C11_float.
Import ListNotations.
Open Scope Q_scope.

(* ---------------------------------------------------------------- absolutely positioned boxes, horizontal *)

(* CSS 2.1 10.3.7.  `constraint_spec cbx cbw b p` reads: with the used offsets measured on the final position
   (left_used = x - cbx, right_used = cbx + cbw - (x + margin-left + paddings/borders + width + margin-right)),
   every specified one of left, right, width, margin-left, margin-right is the used one - so that
   left + margin-left + border/padding + width + margin-right + right = containing block width - and auto
   margins are 0 unless left, width and right are all specified.  For every input where the five values are
   not all specified, both directions, any shrink-to-fit oracle.
   In all the theorems about absolutely positioned boxes (cbx, cbw) / (cb0, cbs) is the origin and size of the
   containing block handed to absolute.py by its caller, universally quantified.  That the caller hands over the
   padding box of the USED size of the nearest positioned ancestor (its height after min-height / max-height, after a
   formatting-context root has grown to contain its floats) is glue of block_container_layout: it is judged on full
   renders by the render-absolute monitor, whose containing blocks have used heights that differ from their content
   heights (finding F212, repaired). *)
Theorem C11_abs_width_constraint ltr stf cbx cbw b content p :
  over_constrained b = false ->
  placed_of b (abs_width ltr stf cbx cbw b) content = Some p ->
  constraint_spec cbx cbw b p.
Proof. exact (abs_width_constraint ltr stf cbx cbw b content p). Qed.
Print Assumptions C11_abs_width_constraint.

Theorem C11_abs_width_auto_margins_equal ltr stf cbx cbw b content p l r w :
  a_start b = Some l -> a_end b = Some r -> a_size b = Some w -> a_ms b = None -> a_me b = None ->
  placed_of b (abs_width ltr stf cbx cbw b) content = Some p ->
  (l + a_pad b + w + r <= cbw -> p_ms p == p_me p /\ 0 <= p_ms p) /\
  (~ l + a_pad b + w + r <= cbw -> if ltr then p_ms p == 0 else p_me p == 0).
Proof. exact (abs_width_auto_margins_equal ltr stf cbx cbw b content p l r w). Qed.
Print Assumptions C11_abs_width_auto_margins_equal.

(* over-constrained: left, margin-left and width win in ltr; right, margin-right and width in rtl *)
Theorem C11_abs_width_over_constrained ltr stf cbx cbw b content p :
  over_constrained b = true ->
  placed_of b (abs_width ltr stf cbx cbw b) content = Some p ->
  overconstrained_spec ltr cbx cbw b p.
Proof. exact (abs_width_over_constrained ltr stf cbx cbw b content p). Qed.
Print Assumptions C11_abs_width_over_constrained.

Theorem C11_abs_width_static_position ltr stf cbx cbw b content p :
  a_start b = None -> a_end b = None -> ltr = true ->
  placed_of b (abs_width ltr stf cbx cbw b) content = Some p -> p_x p == a_pos b.
Proof. exact (abs_width_static ltr stf cbx cbw b content p). Qed.
Print Assumptions C11_abs_width_static_position.

Theorem C11_abs_width_shrink_to_fit ltr stf cbx cbw b content p :
  a_size b = None -> (a_start b = None \/ a_end b = None) ->
  placed_of b (abs_width ltr stf cbx cbw b) content = Some p ->
  exists avail, p_size p = stf avail /\
                avail == cbw - (num0 (a_start b) + p_ms p + a_pad b + p_me p + num0 (a_end b)).
Proof. exact (abs_width_shrink_to_fit ltr stf cbx cbw b content p). Qed.
Print Assumptions C11_abs_width_shrink_to_fit.

(* min-width / max-width (CSS 2.1 10.4): re-entering absolute_width through handle_min_max_width is a single
   run of the rules with the clamp value as the specified width; it never fails *)
Theorem C11_abs_width_min_max_reentry ltr stf cbx cbw minw maxw b :
  let f := abs_width ltr stf cbx cbw in
  exists w1, a_size (fst (f b)) = Some w1 /\
  handle_min_max f minw maxw b =
    Some (let over := match maxw with Some m => gtb w1 m | None => false end in
          let w2 := if over then num0 maxw else w1 in
          if gtb minw w2 then f (set_size b minw)
          else if over then f (set_size b (num0 maxw)) else f b).
Proof. exact (abs_width_min_max_reentry ltr stf cbx cbw minw maxw b). Qed.
Print Assumptions C11_abs_width_min_max_reentry.

(* ------------------------------------------------------------------ absolutely positioned boxes, vertical *)
Theorem C11_abs_height_constraint cby cbh b content p :
  over_constrained b = false ->
  placed_of b (abs_height cby cbh b) content = Some p ->
  constraint_spec cby cbh b p.
Proof. exact (abs_height_constraint cby cbh b content p). Qed.
Print Assumptions C11_abs_height_constraint.

Theorem C11_abs_height_auto_margins_equal cby cbh b content p t bo h :
  a_start b = Some t -> a_end b = Some bo -> a_size b = Some h -> a_ms b = None -> a_me b = None ->
  placed_of b (abs_height cby cbh b) content = Some p -> p_ms p == p_me p.
Proof. exact (abs_height_auto_margins_equal cby cbh b content p t bo h). Qed.
Print Assumptions C11_abs_height_auto_margins_equal.

Theorem C11_abs_height_over_constrained cby cbh b content p :
  over_constrained b = true ->
  placed_of b (abs_height cby cbh b) content = Some p ->
  overconstrained_spec true cby cbh b p.
Proof. exact (abs_height_over_constrained cby cbh b content p). Qed.
Print Assumptions C11_abs_height_over_constrained.

(* min-height / max-height (CSS 2.1 10.7): absolute_height is wrapped by handle_min_max_height, which does
   nothing while the height is still auto and otherwise amounts to one run of the rules with the clamp value as
   the specified height *)
Theorem C11_abs_height_min_max_reentry cby cbh minh maxh b :
  let f := abs_height cby cbh in
  match a_size (fst (f b)) with
  | None => handle_min_max_h f minh maxh b = f b
  | Some h1 =>
      handle_min_max_h f minh maxh b =
        (let over := match maxh with Some m => gtb h1 m | None => false end in
         let h2 := if over then num0 maxh else h1 in
         if gtb minh h2 then f (set_size b minh)
         else if over then f (set_size b (num0 maxh)) else f b)
  end.
Proof. exact (abs_height_min_max_reentry cby cbh minh maxh b). Qed.
Print Assumptions C11_abs_height_min_max_reentry.

(* with a specified height the vertical constraint holds for the used, clamped height *)
Theorem C11_abs_height_min_max_constraint cby cbh minh maxh b h content p :
  a_size b = Some h ->
  over_constrained b = false ->
  placed_of b (handle_min_max_h (abs_height cby cbh) minh maxh b) content = Some p ->
  constraint_spec cby cbh (set_size b (clamped_width h minh maxh)) p.
Proof. exact (abs_height_min_max_constraint cby cbh minh maxh b h content p). Qed.
Print Assumptions C11_abs_height_min_max_constraint.

(* ------------------------------------------------------------------- absolutely positioned replaced boxes *)
(* the literal equation of 10.3.8 / 10.6.5 on the used values the code stores, for ALL inputs *)
Theorem C11_abs_replaced_equation hz ltr cb0 cbs b b' :
  abs_replaced_axis hz ltr cb0 cbs b = Some b' ->
  exists l r MS ME SZ, a_start b' = Some l /\ a_end b' = Some r /\ a_ms b' = Some MS /\ a_me b' = Some ME /\
    a_size b' = Some SZ /\ a_size b = Some SZ /\
    l + MS + a_pad b + SZ + ME + r == cbs /\ a_pos b' == cb0 + l.
Proof. exact (abs_replaced_equation hz ltr cb0 cbs b b'). Qed.
Print Assumptions C11_abs_replaced_equation.

Theorem C11_abs_replaced_constraint hz ltr cb0 cbs b b' p :
  over_constrained b = false ->
  abs_replaced_axis hz ltr cb0 cbs b = Some b' -> placed_replaced b' = Some p ->
  constraint_spec cb0 cbs b p.
Proof. exact (abs_replaced_constraint hz ltr cb0 cbs b b' p). Qed.
Print Assumptions C11_abs_replaced_constraint.

Theorem C11_abs_replaced_auto_margins_equal hz ltr cb0 cbs b b' p l r w :
  a_start b = Some l -> a_end b = Some r -> a_size b = Some w -> a_ms b = None -> a_me b = None ->
  abs_replaced_axis hz ltr cb0 cbs b = Some b' -> placed_replaced b' = Some p ->
  (hz = false \/ l + a_pad b + w + r <= cbs -> p_ms p == p_me p) /\
  (hz = true -> ~ l + a_pad b + w + r <= cbs -> if ltr then p_ms p == 0 else p_me p == 0).
Proof. exact (abs_replaced_auto_margins_equal hz ltr cb0 cbs b b' p l r w). Qed.
Print Assumptions C11_abs_replaced_auto_margins_equal.

Theorem C11_abs_replaced_over_constrained hz ltr cb0 cbs b b' p :
  over_constrained b = true -> (hz = false -> ltr = true) ->
  abs_replaced_axis hz ltr cb0 cbs b = Some b' -> placed_replaced b' = Some p ->
  overconstrained_spec ltr cb0 cbs b p.
Proof. exact (abs_replaced_over_constrained hz ltr cb0 cbs b b' p). Qed.
Print Assumptions C11_abs_replaced_over_constrained.

(* ------------------------------------------------------------------------------------------- clearance *)
Theorem C11_clear_moves_below shapes c hyp :
  match get_clearance shapes c hyp with
  | None => forall s, In s shapes -> names c s = true -> s_bottom s <= hyp
  | Some v => 0 < v /\ (forall s, In s shapes -> names c s = true -> s_bottom s <= hyp + v) /\
              (exists s, In s shapes /\ names c s = true /\ s_bottom s == hyp + v)
  end.
Proof. exact (clear_moves_below shapes c hyp). Qed.
Print Assumptions C11_clear_moves_below.

(* ---------------------------------------------------------------------------------------- float placement *)
(* the `while True` loop of avoid_collisions ends within (number of shapes + 1) iterations *)
Theorem C11_avoid_collisions_terminates shapes l0 r0 bw bh y :
  avoid_loop (S (length shapes)) shapes l0 r0 bw bh y <> None.
Proof. exact (avoid_loop_terminates shapes l0 r0 bw bh y). Qed.
Print Assumptions C11_avoid_collisions_terminates.

(* a float never overlaps the margin box of a float placed before it *)
Theorem C11_float_no_overlap fuel shapes cbx cbw rtl b x y :
  floated b -> ~ f_bh b == 0 -> 0 <= margin_height b -> (forall s, In s shapes -> 0 < s_h s) ->
  find_float_position fuel shapes cbx cbw rtl b = Some (x, y) ->
  forall s, In s shapes -> ~ overlaps x y (margin_width b) (margin_height b) s.
Proof. exact (float_no_overlap fuel shapes cbx cbw rtl b x y). Qed.
Print Assumptions C11_float_no_overlap.

Theorem C11_float_not_above fuel shapes cbx cbw rtl b x y :
  floated b -> ~ f_bh b == 0 ->
  find_float_position fuel shapes cbx cbw rtl b = Some (x, y) ->
  f_py b <= y /\ (shapes <> [] -> s_y (last shapes (mk_shape true 0 0 0 0)) <= y).
Proof. exact (float_not_above fuel shapes cbx cbw rtl b x y). Qed.
Print Assumptions C11_float_not_above.

Theorem C11_float_as_high_as_possible fuel shapes cbx cbw rtl b x y :
  floated b -> ~ f_bh b == 0 -> 0 <= margin_height b -> (forall s, In s shapes -> 0 < s_h s) ->
  find_float_position fuel shapes cbx cbw rtl b = Some (x, y) ->
  forall y', start_y shapes b <= y' -> y' < y ->
    no_room_at shapes cbx (cbx + cbw) (margin_width b) (margin_height b) y'.
Proof. exact (float_as_high_as_possible fuel shapes cbx cbw rtl b x y). Qed.
Print Assumptions C11_float_as_high_as_possible.

Theorem C11_float_as_far_as_possible fuel shapes cbx cbw rtl b x y :
  floated b -> ~ f_bh b == 0 ->
  find_float_position fuel shapes cbx cbw rtl b = Some (x, y) ->
  match f_kind b with
  | FloatRight =>
      x + margin_width b == cbx + cbw \/
      exists s, In s shapes /\ s_left s = false /\ collides y (margin_height b) s = true /\ x + margin_width b == s_x s
  | _ =>
      x == cbx \/
      exists s, In s shapes /\ s_left s = true /\ collides y (margin_height b) s = true /\ x == s_x s + s_w s
  end.
Proof. exact (float_as_far_as_possible fuel shapes cbx cbw rtl b x y). Qed.
Print Assumptions C11_float_as_far_as_possible.

Theorem C11_float_inside_containing_block fuel shapes cbx cbw rtl b x y :
  floated b -> ~ f_bh b == 0 -> 0 <= margin_height b -> (forall s, In s shapes -> 0 < s_h s) ->
  margin_width b <= cbw ->
  find_float_position fuel shapes cbx cbw rtl b = Some (x, y) ->
  (colliding shapes y (margin_height b) = [] \/
   margin_width b <= band_right (colliding shapes y (margin_height b)) (cbx + cbw) -
                     band_left (colliding shapes y (margin_height b)) cbx) /\
  cbx <= x /\ x + margin_width b <= cbx + cbw.
Proof. exact (float_inside_band fuel shapes cbx cbw rtl b x y). Qed.
Print Assumptions C11_float_inside_containing_block.

(* the full statement: any sequence of floats with positive margin-box height and non-zero border-box height,
   placed one after the other, is pairwise disjoint and ordered by top edge; the placement always succeeds *)
Theorem C11_floats_pairwise_disjoint reqs :
  Forall good_request reqs ->
  exists out, place_all [] reqs = Some out /\ length out = length reqs /\
              pairwise_disjoint out /\ sorted_y out.
Proof. exact (floats_pairwise_disjoint reqs). Qed.
Print Assumptions C11_floats_pairwise_disjoint.

(* table wrappers, block-level replaced boxes and formatting-context roots never overlap a float's margin box *)
Theorem C11_bfc_root_no_overlap fuel shapes cbx cbw rtl b x y aw :
  is_floated (f_kind b) = false -> f_kind b <> LineBox -> 0 <= f_bh b -> (forall s, In s shapes -> 0 < s_h s) ->
  avoid_collisions fuel shapes cbx cbw rtl false b = Some (x, y, aw) ->
  forall s, In s shapes -> ~ overlaps (x + f_ml b) (y + f_mt b) (f_bw b) (f_bh b) s.
Proof. exact (bfc_root_no_overlap fuel shapes cbx cbw rtl b x y aw). Qed.
Print Assumptions C11_bfc_root_no_overlap.

(* the horizontal band handed to a line box is clear of every float *)
Theorem C11_line_band_no_overlap fuel shapes cbx cbw b x y aw :
  f_kind b = LineBox -> 0 <= f_bh b -> (forall s, In s shapes -> 0 < s_h s) ->
  avoid_collisions fuel shapes cbx cbw false false b = Some (x, y, aw) ->
  forall s w, In s shapes -> w <= aw -> ~ overlaps (x + f_ml b) (y + f_mt b) w (f_bh b) s.
Proof. exact (line_band_no_overlap fuel shapes cbx cbw b x y aw). Qed.
Print Assumptions C11_line_band_no_overlap.

(* ------------------------------------------------------------------------------------ relative positioning *)
Theorem C11_relative_vector ltr offs : rel_vector_spec ltr offs (rel_vector ltr offs).
Proof. exact (rel_vector_meets_spec ltr offs). Qed.
Print Assumptions C11_relative_vector.

Theorem C11_relative_moves_subtree_only ltr offs x y kids :
  let b := RBox true false ltr offs x y kids in
  let v := rel_vector ltr offs in
  relative_positioning b = translate (fst v) (snd v) b /\
  positions (relative_positioning b) = map (fun p => (fst p + fst v, snd p + snd v)) (positions b).
Proof. exact (relative_moves_subtree_only ltr offs x y kids). Qed.
Print Assumptions C11_relative_moves_subtree_only.

(* ---- absolute_height and absolute_width (the function under the handle_min_max_width decorator) of
   weasyprint/layout/absolute.py REGENERATED from the source on every run (gen/GenAbsolute.v, interpreter
   base/Py.v) compute the models abs_height / abs_width used above, for every pattern of 'auto' among
   top/bottom/height/margins (left/right/width/margins, root / ltr / rtl parent): the mutated box agrees field by
   field (A.vbox_rep / A.hbox_rep, numbers up to ==) and the returned (translate_box, translation) is the
   model's.  shrink_to_fit is an oracle (A.stf_oracle: some function of the available width). *)
From Coq Require Import String.
Require WV.base.Py WV.gen.GenAbsolute WV.proofs.C11_gen_abs.
Module A := WV.proofs.C11_gen_abs.

Theorem C11_source_absolute_height O (HO : Py.ops_ok O) t bo h mt mb pt pbo bt bbo pos ctx cbx cby cbw cbh :
  Py.run O GenAbsolute.absolute_height_body
    [("box"%string, A.vbox t bo h mt mb pt pbo bt bbo pos); ("context"%string, ctx); ("cb_x"%string, cbx);
     ("cb_y"%string, Py.VNum cby); ("cb_width"%string, cbw); ("cb_height"%string, Py.VNum cbh)]
    (A.height_post (abs_height cby cbh (A.vaxis t bo h mt mb pt pbo bt bbo pos))) (fun _ => False).
Proof. exact (A.gen_absolute_height O HO t bo h mt mb pt pbo bt bbo pos ctx cbx cby cbw cbh). Qed.
Print Assumptions C11_source_absolute_height.

Theorem C11_source_absolute_width O (HO : Py.ops_ok O) stf (HS : A.stf_oracle O stf)
      (root ltr : bool) l r w ml mr pl pr bl br pos cbx cby cbw cbh :
  Py.run O GenAbsolute.absolute_width_body
    [("box"%string, A.hbox root ltr l r w ml mr pl pr bl br pos); ("context"%string, Py.VObj []);
     ("cb_x"%string, Py.VNum cbx); ("cb_y"%string, cby); ("cb_width"%string, Py.VNum cbw); ("cb_height"%string, cbh)]
    (A.width_post (abs_width (root || ltr) stf cbx cbw (A.haxis l r w ml mr pl pr bl br pos))) (fun _ => False).
Proof. exact (A.gen_absolute_width O HO stf HS root ltr l r w ml mr pl pr bl br pos cbx cby cbw cbh). Qed.
Print Assumptions C11_source_absolute_width.

(* ---- absolute_replaced of weasyprint/layout/absolute.py (CSS 2.1 10.3.8 / 10.6.5), the WHOLE body REGENERATED from
   the source on every run (gen/GenAbsReplaced.v): for every pattern of 'auto' among left / right / margin_left /
   margin_right and top / bottom / margin_top / margin_bottom, every parent direction (root / ltr / rtl) and all
   numbers it never raises and returns the mutated box whose fields are, axis by axis, the model abs_replaced_axis
   (A.hbox_rep / A.vbox_rep, numbers up to ==), so C11_abs_replaced_* above are about the source.
   inline_replaced_box_width_height is an oracle statement (AR.sizes_oracle: it leaves numbers w, h in box.width,
   box.height); box.margin_width() / border_width() / margin_height() / border_height() are call oracles here
   (ARS.methods_ok) and the Box methods regenerated from formatting_structure/boxes.py in the _linked form. *)
Require WV.gen.GenAbsReplaced WV.proofs.C11_gen_replaced_steps WV.proofs.C11_gen_replaced.
Module ARS := WV.proofs.C11_gen_replaced_steps.
Module AR := WV.proofs.C11_gen_replaced.

Theorem C11_source_absolute_replaced O (HO : Py.ops_ok O) (HM : ARS.methods_ok O) ctx rv cbx cby cbw cbh
        root ltr l r ml mr t bo mt mb w0 h0 w h pl pr bl br px pt pb bt bb py
        (HOr : AR.sizes_oracle O rv cbw cbh root ltr l r ml mr t bo mt mb w0 h0 w h pl pr bl br px pt pb bt bb py) :
  Py.run O GenAbsReplaced.absolute_replaced_body
    (AR.env_in ctx cbx cby cbw cbh root ltr l r ml mr t bo mt mb w0 h0 pl pr bl br px pt pb bt bb py)
    (AR.replaced_post
       (abs_replaced_axis true (root || ltr) cbx cbw (A.haxis l r (Some w) ml mr pl pr bl br px))
       (abs_replaced_axis false true cby cbh (A.vaxis t bo (Some h) mt mb pt pb bt bb py)))
    (fun _ => False).
Proof.
  exact (AR.gen_absolute_replaced O HO HM ctx rv cbx cby cbw cbh root ltr l r ml mr t bo mt mb w0 h0 w h
           pl pr bl br px pt pb bt bb py HOr).
Qed.
Print Assumptions C11_source_absolute_replaced.

(* the clauses about the regenerated body itself (AR.axis_clauses, per axis: the used values are numbers with
   start + margin + padding/border + size + margin + end = containing block size and position = origin + start for
   ALL inputs; not over-constrained: every specified value is the used one; two auto margins between specified
   offsets are equal - horizontally when the box fits, else the start-side one is 0 (ltr) / the end-side one (rtl);
   over-constrained: ltr ignores right (bottom), rtl ignores left; both offsets auto in ltr: static position) *)
Theorem C11_source_absolute_replaced_clauses O (HO : Py.ops_ok O) (HM : ARS.methods_ok O) ctx rv cbx cby cbw cbh
        root ltr l r ml mr t bo mt mb w0 h0 w h pl pr bl br px pt pb bt bb py
        (HOr : AR.sizes_oracle O rv cbw cbh root ltr l r ml mr t bo mt mb w0 h0 w h pl pr bl br px pt pb bt bb py) :
  Py.run O GenAbsReplaced.absolute_replaced_body
    (AR.env_in ctx cbx cby cbw cbh root ltr l r ml mr t bo mt mb w0 h0 pl pr bl br px pt pb bt bb py)
    (fun rho res =>
       exists bh bv B, res = Some B /\ Py.lookup "box" rho = B /\ A.hbox_rep B bh /\ A.vbox_rep B bv /\
         AR.axis_clauses true (root || ltr) cbx cbw (A.haxis l r (Some w) ml mr pl pr bl br px) bh /\
         AR.axis_clauses false true cby cbh (A.vaxis t bo (Some h) mt mb pt pb bt bb py) bv)
    (fun _ => False).
Proof.
  exact (AR.gen_absolute_replaced_clauses O HO HM ctx rv cbx cby cbw cbh root ltr l r ml mr t bo mt mb w0 h0 w h
           pl pr bl br px pt pb bt bb py HOr).
Qed.
Print Assumptions C11_source_absolute_replaced_clauses.

(* nothing left abstract but the replaced-size oracle: margin_width / border_width / margin_height / border_height
   (and the padding ones they call) are the Box methods regenerated from formatting_structure/boxes.py *)
Theorem C11_source_absolute_replaced_linked n sizes ctx rv cbx cby cbw cbh
        root ltr l r ml mr t bo mt mb w0 h0 w h pl pr bl br px pt pb bt bb py :
  sizes (AR.box_in root ltr l r ml mr t bo mt mb pl pr bl br px pt pb bt bb py w0 h0) (Py.VList [Py.VNum cbw; Py.VNum cbh])
    = Py.VList [rv; AR.box_in root ltr l r ml mr t bo mt mb pl pr bl br px pt pb bt bb py (Py.VNum w) (Py.VNum h)] ->
  Py.run (AR.replaced_ops (S (S (S n))) sizes) GenAbsReplaced.absolute_replaced_body
    (AR.env_in ctx cbx cby cbw cbh root ltr l r ml mr t bo mt mb w0 h0 pl pr bl br px pt pb bt bb py)
    (AR.clauses_post (root || ltr) cbx cby cbw cbh (A.haxis l r (Some w) ml mr pl pr bl br px)
                     (A.vaxis t bo (Some h) mt mb pt pb bt bb py))
    (fun _ => False).
Proof.
  exact (AR.gen_absolute_replaced_linked n sizes ctx rv cbx cby cbw cbh root ltr l r ml mr t bo mt mb w0 h0 w h
           pl pr bl br px pt pb bt bb py).
Qed.
Print Assumptions C11_source_absolute_replaced_linked.

(* ---- the end of absolute_block (after the loop over the absolute descendants) REGENERATED from the source
   (GenAbsReplaced.absolute_block_translate_body): `if translate_box_width: translate_x -= new_box.width`, likewise
   vertically, `new_box.translate(translate_x, translate_y)`, `return new_box, resume_at`.  For every pair returned by
   absolute_width / absolute_height (C11_source_absolute_width / _height above) and every laid-out box,
   new_box.translate receives exactly the vector that final_pos (the model of the final position, on which
   C11_abs_* rest) adds to the position, and the function returns (the translated box, resume_at).  box.translate is
   an external statement (AT.translate_oracle: the box is left in the state tr [box; dx; dy; ignore_floats]). *)
Require WV.proofs.C11_gen_translate.
Module AT := WV.proofs.C11_gen_translate.

Theorem C11_source_absolute_block_translate O (HO : Py.ops_ok O) ret tr (tbw tbh : bool) tx ty W H rest resume :
  Py.run (Py.with_calls O (AT.translate_oracle ret tr)) GenAbsReplaced.absolute_block_translate_body
    (AT.translate_env tbw tx tbh ty (AT.laid_box W H rest) resume)
    (fun rho res =>
       exists dx dy,
         (forall x0, x0 + dx == final_pos x0 W (tbw, tx)) /\ (forall y0, y0 + dy == final_pos y0 H (tbh, ty)) /\
         res = Some (Py.VList [tr [AT.laid_box W H rest; Py.VNum dx; Py.VNum dy; Py.VBool false]; resume]) /\
         Py.lookup "new_box" rho = tr [AT.laid_box W H rest; Py.VNum dx; Py.VNum dy; Py.VBool false] /\
         Py.lookup "%call" rho = ret)
    (fun _ => False).
Proof. exact (AT.gen_absolute_block_translate O HO ret tr tbw tbh tx ty W H rest resume). Qed.
Print Assumptions C11_source_absolute_block_translate.

(* ---- get_clearance of weasyprint/layout/float.py REGENERATED from the source, with
   excluded_shape.margin_height() answered by the Box methods margin_height / border_height / padding_height
   REGENERATED from formatting_structure/boxes.py (base/PyLink.v): for every list of placed floats (side, position,
   box dimensions), clear value and position it returns None exactly when the model does, else a number == the
   model's; so C11_clear_moves_below is about the source. *)
Require WV.base.PyLink WV.gen.GenFloat WV.gen.GenBoxes WV.proofs.C11_gen_clearance.
Module CL := WV.proofs.C11_gen_clearance.

Theorem C11_source_get_clearance n (floats : list CL.pfloat) c py cm :
  Py.run (PyLink.linked GenBoxes.GenBoxes_table (S (S (S n)))) GenFloat.get_clearance_body
    [("context"%string, CL.vctx CL.pfloat CL.pf_shape (fun p => CL.dims_fields (CL.pf_d p)) floats);
     ("box"%string, CL.vbox c py); ("collapsed_margin"%string, Py.VNum cm)]
    (fun _ r => exists v, r = Some (CL.voq v) /\ CL.oq_eq v (get_clearance (map CL.pf_shape floats) c (py + cm)))
    (fun _ => False).
Proof. exact (CL.gen_get_clearance_linked n floats c py cm). Qed.
Print Assumptions C11_source_get_clearance.

(* ---- the `while True:` loop of avoid_collisions (weasyprint/layout/float.py) REGENERATED from the source
   (GenFloat.avoid_loop_body): for every list of placed floats (abstract, read through sh_of), every box width /
   height / margins, containing block, flag `outer` and start position, if the interpreter's loop fuel exceeds
   the number of floats the loop ends by `break` (the body falls off its end: no exception, no fuel exhaustion)
   and leaves in position_y, max_left_bound, max_right_bound the components of the model's avoid_loop run with
   fuel (number of floats + 1): position_y exactly, the bounds up to == (the source computes
   max(max(left_bounds), default), the model folds Qmax from the default).  So C11_avoid_collisions_terminates,
   C11_float_no_overlap, ... are about the source loop.  shape.margin_height() / shape.margin_width() /
   containing_block.content_box_x() are call oracles here and the regenerated Box methods in the _linked form. *)
Require WV.proofs.PyNatural WV.proofs.C11_gen_avoid.
Module AV := WV.proofs.C11_gen_avoid.

Theorem C11_source_avoid_loop T (sh_of : T -> shape) extra O (HO : Py.ops_ok O)
    (HMH : forall t, Py.ocall O ".margin_height"%string [AV.vshape T sh_of extra t] = Py.VNum (s_h (sh_of t)))
    (HMW : forall t, Py.ocall O ".margin_width"%string [AV.vshape T sh_of extra t] = Py.VNum (s_w (sh_of t)))
    (shapes : list T) (bw bh ml mr cbw cbx : Q) xb xc (outer : bool)
    (HCB : Py.ocall O ".content_box_x"%string [AV.vcb cbw xc] = Py.VNum cbx) (y0 : Q) :
  (List.length shapes < Py.wfuel O)%nat ->
  Py.run O GenFloat.avoid_loop_body
    [("excluded_shapes"%string, Py.VList (map (AV.vshape T sh_of extra) shapes)); ("position_y"%string, Py.VNum y0);
     ("box_width"%string, Py.VNum bw); ("box_height"%string, Py.VNum bh); ("box"%string, AV.vbox ml mr xb);
     ("containing_block"%string, AV.vcb cbw xc); ("outer"%string, Py.VBool outer)]
    (fun rho r =>
       r = None /\
       exists y mlb mrb,
         avoid_loop (S (List.length shapes)) (map sh_of shapes)
           (if outer then cbx else cbx + ml) (if outer then cbx + cbw else cbx + cbw - mr) bw bh y0 = Some (y, mlb, mrb) /\
         Py.lookup "position_y" rho = Py.VNum y /\
         exists a b, Py.lookup "max_left_bound" rho = Py.VNum a /\ a == mlb /\
                     Py.lookup "max_right_bound" rho = Py.VNum b /\ b == mrb)
    (fun _ => False).
Proof. exact (AV.gen_avoid_loop T sh_of extra O HO HMH HMW shapes bw bh ml mr cbw cbx xb xc outer HCB y0). Qed.
Print Assumptions C11_source_avoid_loop.

(* termination of the real `while True:` and absence of exceptions: with loop fuel above the number of floats the
   run's outcome is normal, off the end of the body - never the error "FuelExhausted" nor any other *)
Theorem C11_source_avoid_loop_terminates T (sh_of : T -> shape) extra O (HO : Py.ops_ok O)
    (HMH : forall t, Py.ocall O ".margin_height"%string [AV.vshape T sh_of extra t] = Py.VNum (s_h (sh_of t)))
    (HMW : forall t, Py.ocall O ".margin_width"%string [AV.vshape T sh_of extra t] = Py.VNum (s_w (sh_of t)))
    (shapes : list T) (bw bh ml mr cbw cbx : Q) xb xc (outer : bool)
    (HCB : Py.ocall O ".content_box_x"%string [AV.vcb cbw xc] = Py.VNum cbx) (y0 : Q) :
  (List.length shapes < Py.wfuel O)%nat ->
  (exists rho', PyNatural.run_out O GenFloat.avoid_loop_body
                  (AV.loop_env T sh_of extra shapes y0 bw bh ml mr cbw xb xc outer) = PyNatural.ONorm rho' None) /\
  (forall m, PyNatural.run_out O GenFloat.avoid_loop_body
               (AV.loop_env T sh_of extra shapes y0 bw bh ml mr cbw xb xc outer) <> PyNatural.OErr m).
Proof. exact (AV.gen_avoid_loop_terminates T sh_of extra O HO HMH HMW shapes bw bh ml mr cbw cbx xb xc outer HCB y0). Qed.
Print Assumptions C11_source_avoid_loop_terminates.

(* nothing left abstract but the floats: margin_height / margin_width / content_box_x (and the border / padding ones they call)
   are the Box methods regenerated from formatting_structure/boxes.py, any loop fuel N above the number of floats *)
Theorem C11_source_avoid_loop_linked n N (floats : list AV.pfloat) (bw bh ml mr : Q) (c : AV.cblock) xb (outer : bool)
    (y0 : Q) :
  (List.length floats < N)%nat ->
  Py.run (AV.linkedN n N) GenFloat.avoid_loop_body
    (AV.loop_env AV.pfloat AV.pf_shape AV.pf_extra floats y0 bw bh ml mr (AV.cb_w c) xb (AV.cb_fields c) outer)
    (AV.loop_post (avoid_loop (S (List.length floats)) (map AV.pf_shape floats)
                     (if outer then AV.content_box_x_of c else AV.content_box_x_of c + ml)
                     (if outer then AV.content_box_x_of c + AV.cb_w c else AV.content_box_x_of c + AV.cb_w c - mr)
                     bw bh y0))
    (fun _ => False).
Proof. exact (AV.gen_avoid_loop_linked n N floats bw bh ml mr c xb outer y0). Qed.
Print Assumptions C11_source_avoid_loop_linked.

(* ---- the statement `if box.style['position'] == 'relative': ...` of relative_positioning (weasyprint/layout/
   block.py) REGENERATED from the source on every run (gen/GenRelative.v): for every value of `position`, direction
   and pattern of auto among the used left / right / top / bottom that resolve_position_percentages leaves in the
   box (RP.rel_box: style['position'], style['direction'] and the four offsets, anything else abstract), a
   relatively positioned box is handed to box.translate(dx, dy) with (dx, dy) == rel_vector (the model of
   C11_relative_vector: left, or -right when left is auto, the direction deciding when both are set; top, else
   -bottom, else 0), and for any other position nothing happens at all (the environment is unchanged: no external
   statement has run).  resolve_position_percentages and box.translate are external statements (RP.rel_oracle):
   box.translate leaves the box in the state tr [box; dx; dy; ignore_floats] for whatever function tr of its
   arguments it is, so the final state of the box says what it received. *)
Require WV.gen.GenRelative WV.proofs.C11_gen_relative.
Module RP := WV.proofs.C11_gen_relative.

Theorem C11_source_relative_positioning O (HO : Py.ops_ok O) pos pos1 ltr0 ltr l0 r0 t0 b0 rest0
        (l r t bo : oq) rest1 cbl ret1 ret2 tr :
  let box0 := RP.rel_box pos ltr0 l0 r0 t0 b0 rest0 in
  let box1 := RP.rel_box pos1 ltr (RP.vo l) (RP.vo r) (RP.vo t) (RP.vo bo) rest1 in
  let rho0 := [("box"%string, box0); ("containing_block"%string, Py.VList cbl)] in
  Py.run (Py.with_calls O (RP.rel_oracle ret1 box1 ret2 tr)) GenRelative.relative_if_body rho0
    (fun rho res =>
       res = None /\
       if RP.is_relative pos
       then exists dx dy, dx == fst (rel_vector ltr (l, r, t, bo)) /\ dy == snd (rel_vector ltr (l, r, t, bo)) /\
                          Py.lookup "box" rho = tr [box1; Py.VNum dx; Py.VNum dy; Py.VBool false] /\
                          Py.lookup "%call" rho = ret2
       else rho = rho0)
    (fun _ => False).
Proof. exact (RP.gen_relative_if O HO pos pos1 ltr0 ltr l0 r0 t0 b0 rest0 l r t bo rest1 cbl ret1 ret2 tr). Qed.
Print Assumptions C11_source_relative_positioning.

(* ------------------------------------------------------------- float_width, find_float_position, float_layout head *)
(* weasyprint/layout/float.py regenerated on every run (gen/GenFloatPos.v): float_width (without its min/max
   decorator; shrink_to_fit an oracle), the whole body of find_float_position (avoid_collisions an oracle - its loop is
   C11_source_avoid_loop above -, box.translate an external statement that moves the position, box.margin_width()
   the model's margin_width: FP.ffp_calls) and the head of float_layout up to the clearance (resolve_percentages /
   resolve_position_percentages external statements leaving the box in any state: FP.fl_calls). *)
Require WV.gen.GenFloatPos WV.proofs.C11_gen_floatpos.
Module FP := WV.proofs.C11_gen_floatpos.

(* CSS 2.1 10.3.5: an auto width becomes the shrink-to-fit width for the containing block's width, any other width is
   kept, nothing else of the box changes *)
Theorem C11_source_float_width O (HO : Py.ops_ok O) (stf : Q -> Q) cf w rest cbw cbrest
        (Hs : forall bx, Py.ocall O "shrink_to_fit" [Py.VObj cf; bx; Py.VNum cbw] = Py.VNum (stf cbw)) :
  Py.run O GenFloatPos.float_width_body
    [("box"%string, FP.wbox w rest); ("context"%string, Py.VObj cf);
     ("containing_block"%string, Py.VObj (("width"%string, Py.VNum cbw) :: cbrest))]
    (fun rho res => res = None /\
                    Py.lookup "box" rho = FP.wbox (Some (match w with None => stf cbw | Some q => q end)) rest)
    (fun _ => False).
Proof. exact (FP.gen_float_width O HO stf cf w rest cbw cbrest Hs). Qed.
Print Assumptions C11_source_float_width.

(* the regenerated find_float_position returns the given box moved to the (x, y) of the hand model
   find_float_position (model/C11Float.v), for every list of excluded shapes, kind of box and position, when the
   oracle avoid_collisions answers what the model's avoid_collisions answers *)
Theorem C11_source_find_float_position O (HO : Py.ops_ok O) b rest ax ay aw sr shapes crest cb px fuel cbx cbw rtl
        (Hav : forall p, avoid_collisions fuel shapes cbx cbw rtl true (FP.with_py b p) = Some (ax p, ay p, aw p)) :
  Py.run (FP.ffp_ops O b ax ay aw) GenFloatPos.find_float_position_body
    [("context"%string, FP.ctxv sr shapes crest); ("box"%string, FP.fboxv b px (f_py b) rest);
     ("containing_block"%string, Py.VObj cb)]
    (fun rho res => exists X Y x y, res = Some (FP.fboxv b X Y rest) /\
                                    find_float_position fuel shapes cbx cbw rtl b = Some (x, y) /\ X == x /\ Y == y)
    (fun _ => False).
Proof.
  exact (FP.gen_find_float_position_model O HO b rest ax ay aw sr shapes crest cb px fuel cbx cbw rtl Hav).
Qed.
Print Assumptions C11_source_find_float_position.

(* CSS 2.1 9.5.1 rules 5 and 6 about the box the regenerated code returns: its outer top is not above the position
   it had, nor above the outer top of the float placed before it *)
Theorem C11_source_find_float_position_not_above O (HO : Py.ops_ok O) b rest ax ay aw sr shapes crest cb px
        fuel cbx cbw rtl (Hfl : floated b) (Hnz : ~ f_bh b == 0)
        (Hav : forall p, avoid_collisions fuel shapes cbx cbw rtl true (FP.with_py b p) = Some (ax p, ay p, aw p)) :
  Py.run (FP.ffp_ops O b ax ay aw) GenFloatPos.find_float_position_body
    [("context"%string, FP.ctxv sr shapes crest); ("box"%string, FP.fboxv b px (f_py b) rest);
     ("containing_block"%string, Py.VObj cb)]
    (fun rho res => exists X Y, res = Some (FP.fboxv b X Y rest) /\ f_py b <= Y /\
                                (shapes <> [] -> s_y (last shapes (mk_shape true 0 0 0 0)) <= Y))
    (fun _ => False).
Proof.
  exact (FP.gen_find_float_position_not_above O HO b rest ax ay aw sr shapes crest cb px fuel cbx cbw rtl Hfl Hnz Hav).
Qed.
Print Assumptions C11_source_find_float_position_not_above.

(* CSS 2.1 10.3.5 (and 10.6.7): after the head of float_layout none of the four margins is auto: an auto margin is 0,
   a number is kept, the rest of the box is as resolve_position_percentages left it *)
Theorem C11_source_float_layout_margins O (HO : Py.ops_ok O) cby b1 ml mr mt mb rest box0 cbw cbh cpy cbrest :
  let z := fun o : oq => match o with Some q => q | None => 0 end in
  Py.run (Py.with_calls O (FP.fl_calls cby b1 (FP.mbox ml mr mt mb rest))) GenFloatPos.float_layout_margins_body
    [("box"%string, Py.VObj box0);
     ("containing_block"%string,
      Py.VObj (("width"%string, Py.VNum cbw) :: ("height"%string, FP.vo cbh) :: ("position_y"%string, Py.VNum cpy)
               :: cbrest))]
    (fun rho res => res = None /\
                    Py.lookup "box" rho = FP.mbox (Some (z ml)) (Some (z mr)) (Some (z mt)) (Some (z mb)) rest)
    (fun _ => False).
Proof. exact (FP.gen_float_layout_margins O HO cby b1 ml mr mt mb rest box0 cbw cbh cpy cbrest). Qed.
Print Assumptions C11_source_float_layout_margins.

(* ------------------------------------------------------------- floats met inside a line box (inline.py) *)
(* hand-written model of the waiting-float queue (model/C11Queue.v), tied to the source by the render stream
   inline-float-queue of harness/p_c11.py *)
Require WV.model.C11Queue WV.proofs.C11_queue.

(* the float_layout calls for the floats of one line happen in source order, whatever the widths and the room *)
Theorem C11_line_floats_call_order room items :
  C11Queue.call_order (C11Queue.run_line room items) = seq 0 (C11Queue.count_floats items).
Proof. exact (C11_queue.queue_call_order_is_source_order room items). Qed.
Print Assumptions C11_line_floats_call_order.

(* once a float waits for the end of the line, every later float of the line waits too *)
Theorem C11_line_floats_waiting_suffix room items :
  let st := C11Queue.run_line room items in
  C11Queue.q_now st = seq 0 (List.length (C11Queue.q_now st)) /\
  C11Queue.q_wait st = seq (List.length (C11Queue.q_now st)) (List.length (C11Queue.q_wait st)) /\
  (List.length (C11Queue.q_now st) + List.length (C11Queue.q_wait st) = C11Queue.count_floats items)%nat.
Proof. exact (C11_queue.queue_waiting_is_a_suffix room items). Qed.
Print Assumptions C11_line_floats_waiting_suffix.

(* rule 5 (and 2, 3) for the floats of one line: placed in the order of the calls they are placed in source order,
   hence none above an earlier one, pairwise disjoint *)
Theorem C11_line_floats_rule5 room items reqs d :
  List.length reqs = C11Queue.count_floats items ->
  Forall good_request reqs ->
  map (fun i => nth i reqs d) (C11Queue.call_order (C11Queue.run_line room items)) = reqs /\
  exists out, place_all [] (map (fun i => nth i reqs d) (C11Queue.call_order (C11Queue.run_line room items))) = Some out /\
              List.length out = List.length reqs /\ pairwise_disjoint out /\ sorted_y out.
Proof. exact (C11_queue.line_floats_in_source_order room items reqs d). Qed.
Print Assumptions C11_line_floats_rule5.
