(* C13 - Replaced content: sizing rules, painted rectangle, embedding.  Property theorems only.
   Models: model/C13Replaced.v (layout/replaced.py), model/C13Background.v (layout/background.py + the repeat
   arithmetic of draw_background_image), model/C13Stream.v (Stream.add_image, _use_references).
   Specifications: model/C13Spec.v (written from CSS 2.1 10.3.2, 10.4, 10.6.2, 10.7, css-images-3, css-backgrounds-3). *)
From Coq Require Import QArith Qminmax List Bool String.
Require Import WV.model.C13Replaced WV.model.C13Spec WV.model.C13Background WV.model.C13Stream WV.model.C13XObject.
Require Import WV.proofs.C13_fit WV.proofs.C13_minmax WV.proofs.C13_sizing WV.proofs.C13_background WV.proofs.C13_stream WV.proofs.C13_xobject.
Import ListNotations.
Open Scope Q_scope.

(* ---- used width and height: inline_replaced_box_width_height computes the used size of CSS 2.1 (10.3.2 width,
   10.6.2 height, 10.4 ratio table when both are auto and there is a ratio, 10.4/10.7 clamping otherwise), for every
   computed width/height (None = auto), every well-formed intrinsic size (each of width/height/ratio possibly
   unknown), every min/max (None = no maximum), and never raises. *)
Theorem C13_used_size_css21 cw ch i cbw hsum minw minh maxw maxh :
  let fill := fill_width cbw hsum minw maxw in
  wf i -> (cw = None -> ch = None -> fill_ok i fill) ->
  exists w h, inline_wh cw ch i cbw hsum minw minh maxw maxh = Some (w, h) /\
              css_used_size cw ch i fill minw minh maxw maxh w h.
Proof. exact (used_size_css21 cw ch i cbw hsum minw minh maxw maxh). Qed.
Print Assumptions C13_used_size_css21.

Theorem C13_intrinsic_by_default w h r cbw hsum minw minh maxw maxh :
  0 < h -> 0 < r -> w == h * r ->
  minw <= w -> le_inf w (qmax_inf minw maxw) -> minh <= h -> le_inf h (qmax_inf minh maxh) ->
  exists w' h', inline_wh None None (Intr (Some w) (Some h) (Some r)) cbw hsum minw minh maxw maxh = Some (w', h')
                /\ w' == w /\ h' == h.
Proof. exact (intrinsic_by_default w h r cbw hsum minw minh maxw maxh). Qed.
Print Assumptions C13_intrinsic_by_default.

Theorem C13_ratio_preserved_height_auto w i r cbw hsum minw minh maxw maxh :
  wf i -> ir i = Some r ->
  exists w' h', inline_wh (Some w) None i cbw hsum minw minh maxw maxh = Some (w', h') /\
    w' == css_clamp w minw (qmax_inf minw maxw) /\
    (minh <= w' / r -> le_inf (w' / r) (qmax_inf minh maxh) -> w' == h' * r).
Proof. exact (ratio_preserved_height_auto w i r cbw hsum minw minh maxw maxh). Qed.
Print Assumptions C13_ratio_preserved_height_auto.

Theorem C13_ratio_preserved_width_auto h i r cbw hsum minw minh maxw maxh :
  wf i -> ir i = Some r ->
  exists w' h', inline_wh None (Some h) i cbw hsum minw minh maxw maxh = Some (w', h') /\
    h' == css_clamp h minh (qmax_inf minh maxh) /\
    (minw <= h' * r -> le_inf (h' * r) (qmax_inf minw maxw) -> w' == h' * r).
Proof. exact (ratio_preserved_width_auto h i r cbw hsum minw minh maxw maxh). Qed.
Print Assumptions C13_ratio_preserved_width_auto.

Theorem C13_fallback_300x150 cbw hsum minw minh maxw maxh :
  exists w' h', inline_wh None None (Intr None None None) cbw hsum minw minh maxw maxh = Some (w', h') /\
    w' == css_clamp 300 minw (qmax_inf minw maxw) /\ h' == css_clamp 150 minh (qmax_inf minh maxh).
Proof. exact (fallback_300x150 cbw hsum minw minh maxw maxh). Qed.
Print Assumptions C13_fallback_300x150.

(* ---- CSS 2.1 10.4, the table: whenever a row applies, min_max_auto_replaced returns that row's result (all eleven
   rows, w, h > 0); and some row always applies. *)
Theorem C13_minmax_table_10_4 r w h minw minh maxw maxh rw rh :
  0 < w -> 0 < h ->
  table_10_4 w h minw minh (qmax_inf minw maxw) (qmax_inf minh maxh) rw rh ->
  fst (mmar (Some r) w h minw minh maxw maxh) == rw /\ snd (mmar (Some r) w h minw minh maxw maxh) == rh.
Proof. exact (minmax_table_rows r w h minw minh maxw maxh rw rh). Qed.
Print Assumptions C13_minmax_table_10_4.

Theorem C13_minmax_table_10_4_total r w h minw minh maxw maxh :
  0 < w -> 0 < h ->
  table_10_4 w h minw minh (qmax_inf minw maxw) (qmax_inf minh maxh)
             (fst (mmar (Some r) w h minw minh maxw maxh)) (snd (mmar (Some r) w h minw minh maxw maxh)).
Proof. exact (minmax_table_total r w h minw minh maxw maxh). Qed.
Print Assumptions C13_minmax_table_10_4_total.

(* the 1e-6 work-around for a zero width breaks the min/max bounds (pathological: intrinsic width 0) *)
Theorem C13_minmax_zero_width_breaks_min_height :
  exists w h minw minh maxw maxh,
    w == 0 /\ 0 < h /\ 0 <= minw /\ 0 <= minh /\ snd (mmar (Some 1) w h minw minh maxw maxh) < minh.
Proof. exact minmax_zero_width_refuted. Qed.
Print Assumptions C13_minmax_zero_width_breaks_min_height.

(* ---- object-fit / object-position (replacedbox_layout) *)
Theorem C13_contain_inside_and_touching cw ch r :
  0 < r -> exists w h, contain_sizing cw ch (Some r) = Some (w, h) /\ contained cw ch r w h.
Proof. exact (contain_inside_and_touching cw ch r). Qed.
Print Assumptions C13_contain_inside_and_touching.

Theorem C13_cover_covers_and_touching cw ch r :
  0 < r -> exists w h, cover_sizing cw ch (Some r) = Some (w, h) /\ covering cw ch r w h.
Proof. exact (cover_covers_and_touching cw ch r). Qed.
Print Assumptions C13_cover_covers_and_touching.

Theorem C13_object_fit_contain rgt btm px py bw bh i cx cy r :
  ir i = Some r -> 0 < r ->
  exists dw dh x y, rb_layout Contain rgt btm px py bw bh i cx cy = Some (dw, dh, x, y) /\ contained bw bh r dw dh.
Proof. exact (object_fit_contain rgt btm px py bw bh i cx cy r). Qed.
Print Assumptions C13_object_fit_contain.

Theorem C13_object_fit_cover rgt btm px py bw bh i cx cy r :
  ir i = Some r -> 0 < r ->
  exists dw dh x y, rb_layout Cover rgt btm px py bw bh i cx cy = Some (dw, dh, x, y) /\ covering bw bh r dw dh.
Proof. exact (object_fit_cover rgt btm px py bw bh i cx cy r). Qed.
Print Assumptions C13_object_fit_cover.

Theorem C13_scale_down_is_min rgt btm px py bw bh cx cy w h r :
  0 < r -> w == h * r ->
  let i := Intr (Some w) (Some h) (Some r) in
  exists kw kh dw dh x y,
    contain_sizing bw bh (Some r) = Some (kw, kh) /\
    rb_layout ScaleDown rgt btm px py bw bh i cx cy = Some (dw, dh, x, y) /\
    ((kw <= w /\ kh <= h /\ dw == kw /\ dh == kh) \/ (w <= kw /\ h <= kh /\ dw == w /\ dh == h)).
Proof. exact (scale_down_is_min rgt btm px py bw bh cx cy w h r). Qed.
Print Assumptions C13_scale_down_is_min.

Theorem C13_object_position_inside f rgt btm px py bw bh i cx cy dw dh x y :
  rb_layout f rgt btm px py bw bh i cx cy = Some (dw, dh, x, y) ->
  (forall p, px = Pct p -> 0 <= p -> p <= 100 -> dw <= bw -> cx <= x /\ x + dw <= cx + bw) /\
  (forall p, py = Pct p -> 0 <= p -> p <= 100 -> dh <= bh -> cy <= y /\ y + dh <= cy + bh).
Proof. exact (object_position_inside f rgt btm px py bw bh i cx cy dw dh x y). Qed.
Print Assumptions C13_object_position_inside.

Theorem C13_object_position_aligned f rgt btm px py bw bh i cx cy dw dh x y p :
  rb_layout f rgt btm px py bw bh i cx cy = Some (dw, dh, x, y) -> px = Pct p ->
  aligned (if rgt then 100 - p else p) bw dw (x - cx).
Proof. exact (object_position_aligned f rgt btm px py bw bh i cx cy dw dh x y p). Qed.
Print Assumptions C13_object_position_aligned.

(* ---- background layers (layout_background_layer; the `space` arithmetic of draw_background_image) *)
Theorem C13_bg_contain i pw ph rgt btm px py rx ry r :
  is_round rx = false -> is_round ry = false -> is_zero (iw i) || is_zero (ih i) = false ->
  ir i = Some r -> 0 < r ->
  exists w h x y, bg_layout i BContain pw ph rgt btm px py rx ry = BLayer w h x y /\ contained pw ph r w h.
Proof. exact (bg_contain i pw ph rgt btm px py rx ry r). Qed.
Print Assumptions C13_bg_contain.

Theorem C13_bg_cover i pw ph rgt btm px py rx ry r :
  is_round rx = false -> is_round ry = false -> is_zero (iw i) || is_zero (ih i) = false ->
  ir i = Some r -> 0 < r ->
  exists w h x y, bg_layout i BCover pw ph rgt btm px py rx ry = BLayer w h x y /\ covering pw ph r w h.
Proof. exact (bg_cover i pw ph rgt btm px py rx ry r). Qed.
Print Assumptions C13_bg_cover.

(* round: an integer number (>= 1) of tiles exactly fills the positioning area; background-position is ignored *)
Theorem C13_bg_round_fills_x i size pw ph rgt btm px py ry w h x y :
  bg_layout i size pw ph rgt btm px py Round ry = BLayer w h x y -> ~ w == 0 ->
  exists n : Z, (1 <= n)%Z /\ w * inject_Z n == pw /\ x == 0.
Proof. exact (bg_round_fills_x i size pw ph rgt btm px py ry w h x y). Qed.
Print Assumptions C13_bg_round_fills_x.

Theorem C13_bg_round_fills_y i size pw ph rgt btm px py rx w h x y :
  bg_layout i size pw ph rgt btm px py rx Round = BLayer w h x y -> ~ h == 0 ->
  exists n : Z, (1 <= n)%Z /\ h * inject_Z n == ph /\ y == 0.
Proof. exact (bg_round_fills_y i size pw ph rgt btm px py rx w h x y). Qed.
Print Assumptions C13_bg_round_fills_y.

(* space: with n = floor(area / image) >= 2 tiles, the first starts at 0, the last ends at the far edge
   (step * (n - 1) + image = area) and the tiles do not overlap (image <= step) *)
Theorem C13_bg_space_distributes area paint img pos step off :
  0 < img -> (2 <= Qround.Qfloor (area / img))%Z ->
  draw_axis Space area paint img pos = Some (step, off) ->
  let n := Qround.Qfloor (area / img) in
  off == 0 /\ step * inject_Z (n - 1) + img == area /\ img <= step.
Proof. exact (space_distributes area paint img pos step off). Qed.
Print Assumptions C13_bg_space_distributes.

(* background-position percentages align the same percentage points of image and area (final sizes) *)
Theorem C13_bg_position_aligned_x i size pw ph rgt btm p py rx ry w h x y :
  is_round rx = false ->
  bg_layout i size pw ph rgt btm (Pct p) py rx ry = BLayer w h x y ->
  aligned (if rgt then 100 - p else p) pw w x.
Proof. exact (bg_position_aligned_x i size pw ph rgt btm p py rx ry w h x y). Qed.
Print Assumptions C13_bg_position_aligned_x.

Theorem C13_bg_position_aligned_y i size pw ph rgt btm px p rx ry w h x y :
  is_round ry = false ->
  bg_layout i size pw ph rgt btm px (Pct p) rx ry = BLayer w h x y ->
  aligned (if btm then 100 - p else p) ph h y.
Proof. exact (bg_position_aligned_y i size pw ph rgt btm px p rx ry w h x y). Qed.
Print Assumptions C13_bg_position_aligned_y.

(* the layer computation never raises when the intrinsic ratio, if known, is positive *)
Theorem C13_bg_layout_total i size pw ph rgt btm px py rx ry :
  opos (ir i) -> bg_layout i size pw ph rgt btm px py rx ry <> BErr.
Proof. exact (bg_layout_total i size pw ph rgt btm px py rx ry). Qed.
Print Assumptions C13_bg_layout_total.

(* ---- each distinct image is embedded once *)
Theorem C13_xobject_name_injective id1 b1 id2 b2 : name_of id1 b1 = name_of id2 b2 -> id1 = id2 /\ b1 = b2.
Proof. exact (name_of_injective id1 b1 id2 b2). Qed.
Print Assumptions C13_xobject_name_injective.

(* Stream.add_image: after any sequence of calls every (image id, interpolate) has exactly one entry in _images and
   in the XObject resources, nothing else is there, and every call returned its name *)
Theorem C13_image_embedded_once cs :
  let '(s, ns) := run_calls sinit cs in
  NoDup (map e_name (images s)) /\ NoDup (xobjs s) /\
  ns = map key_name cs /\
  (forall m, In m (map e_name (images s)) <-> In m (map key_name cs)) /\
  (forall m, In m (xobjs s) <-> In m (map key_name cs)).
Proof. exact (image_embedded_once cs). Qed.
Print Assumptions C13_image_embedded_once.

(* _use_references: whatever resource dictionaries (pages, groups, patterns) name an image, its XObject is added to
   the PDF exactly once *)
Theorem C13_xobject_added_once ds :
  let s := use_dicts ds in
  NoDup (added s) /\ (forall m, In m (added s) <-> exists d, In d ds /\ In m d).
Proof. exact (xobject_added_once ds). Qed.
Print Assumptions C13_xobject_added_once.

(* ---- the embedded image XObject (model/C13XObject.v): orientation, dimensions, /Decode *)
Open Scope Z_scope.

(* an orientation (EXIF code 1..8) shows every source pixel exactly once, inside the oriented dimensions *)
Theorem C13_orientation_bijection o w h x y :
  (let '(dx, dy) := dst_of o w h x y in src_of o w h dx dy) = (x, y) /\
  (let '(sx, sy) := src_of o w h x y in dst_of o w h sx sy) = (x, y).
Proof. exact (src_dst_inverse o w h x y). Qed.
Print Assumptions C13_orientation_bijection.

Theorem C13_orientation_in_range o w h x y :
  let '(ow, oh) := out_dims o w h in
  0 <= x < ow -> 0 <= y < oh ->
  let '(sx, sy) := src_of o w h x y in 0 <= sx < w /\ 0 <= sy < h.
Proof. exact (src_in_range o w h x y). Qed.
Print Assumptions C13_orientation_in_range.

(* image-orientation: <angle> [flip] = that many quarter turns to the right, then a horizontal flip *)
Theorem C13_angle_flip_code w h x y :
  src_of (quarter_code 0 false) w h x y = idv x y /\
  src_of (quarter_code 1 false) w h x y = rot_cw idv h x y /\
  src_of (quarter_code 2 false) w h x y = rot_cw (rot_cw idv h) w x y /\
  src_of (quarter_code 3 false) w h x y = rot_cw (rot_cw (rot_cw idv h) w) h x y /\
  src_of (quarter_code 0 true) w h x y = flip_h idv w x y /\
  src_of (quarter_code 1 true) w h x y = flip_h (rot_cw idv h) h x y /\
  src_of (quarter_code 2 true) w h x y = flip_h (rot_cw (rot_cw idv h) w) w x y /\
  src_of (quarter_code 3 true) w h x y = flip_h (rot_cw (rot_cw (rot_cw idv h) w) h) h x y.
Proof. exact (quarter_code_correct w h x y). Qed.
Print Assumptions C13_angle_flip_code.

(* the consumer paints the source ink iff /Decode is inverted exactly for sources with the Adobe APP14 marker,
   whether the DCT stream was passed through or re-encoded by Pillow (orientation, optimisation, quality) *)
Theorem C13_decode_iff_app14 reencoded app14 dec t :
  0 <= t <= 255 -> (painted dec (embedded reencoded app14 t) = t <-> dec = app14).
Proof. exact (decode_iff_app14 reencoded app14 dec t). Qed.
Print Assumptions C13_decode_iff_app14.

(* ... and that is the flag of the XObject model, for every orientation, mode and size *)
Theorem C13_xobject_decode_rule m trns app14 jpeg o w h :
  xa_decode_inverted (expected_attrs m trns app14 jpeg o w h) = true <-> (truth_mode m trns = MCMYK /\ app14 = true).
Proof. exact (expected_decode_rule m trns app14 jpeg o w h). Qed.
Print Assumptions C13_xobject_decode_rule.

Theorem C13_xobject_dims m trns app14 jpeg o w h :
  let e := expected_attrs m trns app14 jpeg o w h in
  (xa_w e, xa_h e) = if swaps o then (h, w) else (w, h).
Proof. exact (expected_dims m trns app14 jpeg o w h). Qed.
Print Assumptions C13_xobject_dims.

(* ---- SVG images: the viewBox -> viewport mapping (model/C13Svg.v, preserve_ratio of svg/utils.py) *)
Require Import WV.model.C13Svg WV.proofs.C13_svg.
Open Scope Q_scope.

(* for every viewBox (any min-x / min-y), every preserveAspectRatio and every viewport, the viewBox rectangle lands on
   the whole viewport (none), or on the largest fitting (meet) / smallest covering (slice) rectangle with the viewBox
   ratio, aligned min / mid / max on each axis *)
Theorem C13_svg_viewbox_onto_viewport vx vy vw vh intr p w h :
  0 < vw -> 0 < vh -> 0 <= w -> 0 <= h ->
  viewbox_placed p vw vh w h (map_rect (preserve_ratio (Some (vx, vy, vw, vh)) intr p w h) vx vy vw vh).
Proof. exact (viewbox_onto_viewport vx vy vw vh intr p w h). Qed.
Print Assumptions C13_svg_viewbox_onto_viewport.

Theorem C13_svg_scales vx vy vw vh intr p w h :
  0 < vw -> 0 < vh ->
  let '(sx, sy, _, _) := preserve_ratio (Some (vx, vy, vw, vh)) intr p w h in
  match p with PNone => sx == w / vw /\ sy == h / vh | PAlign _ _ _ => sx == sy end.
Proof. exact (preserve_ratio_scales vx vy vw vh intr p w h). Qed.
Print Assumptions C13_svg_scales.
Open Scope Z_scope.

(* ---- the sizing kernels of weasyprint/layout/replaced.py REGENERATED from the source on every run
   (gen/GenReplaced.v; interpreter base/Py.v; calls between them answered by their own regenerated bodies,
   base/PyLink.v) compute exactly the models used above, for every input; "vres None" is the raised
   ZeroDivisionError.  G.voq: None -> Python None; G.vspec x auto: an unspecified size is None or 'auto'. *)
Require WV.base.Py WV.base.PyLink WV.gen.GenReplaced WV.proofs.C13_gen_sizing.
Module G := WV.proofs.C13_gen_sizing.

Theorem C13_source_default_image_sizing n i sw sh (aw ah : bool) dw dh :
  PyLink.link GenReplaced.GenReplaced_table (S (S (S n))) "default_image_sizing"
    [G.voq (iw i); G.voq (ih i); G.voq (ir i); G.vspec sw aw; G.vspec sh ah; Py.VNum dw; Py.VNum dh]
  = G.vres (default_sizing i sw sh dw dh).
Proof. exact (G.gen_default_image_sizing_value n i sw sh aw ah dw dh). Qed.
Print Assumptions C13_source_default_image_sizing.

Theorem C13_source_contain_constraint_image_sizing n cw ch r :
  PyLink.link GenReplaced.GenReplaced_table (S (S n)) "contain_constraint_image_sizing"
    [Py.VNum cw; Py.VNum ch; G.voq r] = G.vres (contain_sizing cw ch r).
Proof. exact (G.gen_contain_value n cw ch r). Qed.
Print Assumptions C13_source_contain_constraint_image_sizing.

Theorem C13_source_cover_constraint_image_sizing n cw ch r :
  PyLink.link GenReplaced.GenReplaced_table (S (S n)) "cover_constraint_image_sizing"
    [Py.VNum cw; Py.VNum ch; G.voq r] = G.vres (cover_sizing cw ch r).
Proof. exact (G.gen_cover_value n cw ch r). Qed.
Print Assumptions C13_source_cover_constraint_image_sizing.

(* ---- replaced_box_width / replaced_box_height (the functions under the handle_min_max_* decorators) and
   min_max_auto_replaced of weasyprint/layout/replaced.py REGENERATED from the source on every run
   (gen/GenReplacedBox.v) compute exactly the models used above, for every 'auto' / number pattern of box.width and
   box.height, every None / number pattern of the intrinsic size and every finite min/max (float('inf') is outside the
   value domain of base/Py.v), and raise exactly when the model does.  c: what the calls outside the translated
   subset answer - image.get_intrinsic_size(image_resolution, font_size) answers the triple i; the (decorated)
   block_level_width called at point 3 of 10.3.2 leaves the box with the width `fill`.
   GM.sets_size p: box.width == fst p, box.height == snd p;  GU.sets_width / GU.sets_height: the attribute set. *)
Require WV.gen.GenReplacedBox WV.proofs.C13_gen_tac WV.proofs.C13_gen_minmax WV.proofs.C13_gen_used.
Module GT := WV.proofs.C13_gen_tac.
Module GM := WV.proofs.C13_gen_minmax.
Module GU := WV.proofs.C13_gen_used.

Theorem C13_source_min_max_auto_replaced (c : string -> list Py.val -> Py.val) imgf rs fs i w h minw minh maxw maxh :
  c ".get_intrinsic_size"%string [Py.VObj imgf; Py.VNum rs; Py.VNum fs] = GT.vintr i ->
  Py.run (Py.with_calls Py.real_ops c) GenReplacedBox.min_max_auto_replaced_body
    [("box"%string, GM.mbox w h minw minh maxw maxh imgf rs fs)]
    (GM.sets_size (mmar (ir i) w h minw minh (Some maxw) (Some maxh))) (fun _ => False).
Proof. exact (GM.gen_min_max_auto_replaced_real c imgf rs fs i w h minw minh maxw maxh). Qed.
Print Assumptions C13_source_min_max_auto_replaced.

Theorem C13_source_replaced_box_height (c : string -> list Py.val -> Py.val) imgf rs fs i bw bh :
  c ".get_intrinsic_size"%string [Py.VObj imgf; Py.VNum rs; Py.VNum fs] = GT.vintr i ->
  Py.run (Py.with_calls Py.real_ops c) GenReplacedBox.replaced_box_height_body
    [("box"%string, GU.hbox bw bh imgf rs fs)]
    (GU.sets_height (rbh_raw_hv bw i bh)) (GU.raises (rbh_raw_hv bw i bh)).
Proof. exact (GU.gen_replaced_box_height_real c imgf rs fs i bw bh). Qed.
Print Assumptions C13_source_replaced_box_height.

Theorem C13_source_replaced_box_width (c : string -> list Py.val -> Py.val) imgf rs fs cbf i bw bh minh maxh fill :
  c ".get_intrinsic_size"%string [Py.VObj imgf; Py.VNum rs; Py.VNum fs] = GT.vintr i ->
  c "block_level_width"%string [GU.wbox bw bh minh maxh imgf rs fs; Py.VObj cbf]
    = Py.VList [Py.VNone; GU.wbox (Some fill) bh minh maxh imgf rs fs] ->
  Py.run (Py.with_calls Py.real_ops c) GenReplacedBox.replaced_box_width_body
    [("box"%string, GU.wbox bw bh minh maxh imgf rs fs); ("containing_block"%string, Py.VObj cbf)]
    (GU.sets_width (rbw_raw bh i fill minh (Some maxh) bw)) (GU.raises (rbw_raw bh i fill minh (Some maxh) bw)).
Proof. exact (GU.gen_replaced_box_width_real c imgf rs fs cbf i bw bh minh maxh fill). Qed.
Print Assumptions C13_source_replaced_box_width.

(* max-width / max-height: none (float('inf') in the implementation, None in the model): the model of
   min_max_auto_replaced at "no maximum" is the model at every large enough number, where the theorem above ties it
   to the source *)
Theorem C13_source_min_max_no_maximum r w h minw minh :
  exists M0, forall Mw Mh, (M0 <= Mw)%Q -> (M0 <= Mh)%Q ->
    GM.qeq2 (mmar r w h minw minh None None) (mmar r w h minw minh (Some Mw) (Some Mh)).
Proof. exact (GM.mmar_no_max r w h minw minh). Qed.
Print Assumptions C13_source_min_max_no_maximum.

(* ---- replacedbox_layout (object-fit / object-position) of weasyprint/layout/replaced.py REGENERATED from the source
   on every run (gen/GenReplacedBox.v) returns exactly the quadruple of the model rb_layout used by the
   object-fit / object-position theorems above, for every None / number pattern of the intrinsic size, the five
   object-fit keywords, both origins and px / % positions on each axis, and raises ZeroDivisionError (a zero ratio)
   exactly when the model is None.  g answers image.get_intrinsic_size (outside the translated subset) with the
   triple i; GL.layout_callees g answers every other call with the callee's own regenerated body:
   contain_/cover_constraint_image_sizing -> _constraint_image_sizing (gen/GenReplaced.v), percentage
   (gen/GenPercent.v), Box.content_box_x / content_box_y (gen/GenBoxes.v).
   GLT.lbox: the box (width, height, replacement, style[object_fit, object_position, image_resolution, font_size],
   position_x/y and the left / top margin, padding, border);  GL.vlay: the four numbers, or the raised exception. *)
Require WV.proofs.C13_gen_layout_tail WV.proofs.C13_gen_layout WV.proofs.C13_gen_layout_prop.
Module GLT := WV.proofs.C13_gen_layout_tail.
Module GL := WV.proofs.C13_gen_layout.
Module GLP := WV.proofs.C13_gen_layout_prop.

Theorem C13_source_replacedbox_layout (g : list Py.val -> Py.val) imgf rs fs i f rgt btm px py
        bw bh posx posy ml mt pl pt bl bt :
  g [Py.VObj imgf; Py.VNum rs; Py.VNum fs] = GT.vintr i ->
  PyLink.call_body (Py.with_calls Py.real_ops (GL.layout_callees g))
    (GenReplacedBox.replacedbox_layout_args, GenReplacedBox.replacedbox_layout_body)
    [GLT.lbox f rgt btm px py bw bh imgf rs fs posx posy ml mt pl pt bl bt]
  = GL.vlay (rb_layout f rgt btm px py bw bh i (posx + ml + pl + bl) (posy + mt + pt + bt)).
Proof. exact (GL.gen_replacedbox_layout_value g imgf rs fs i f rgt btm px py bw bh posx posy ml mt pl pt bl bt). Qed.
Print Assumptions C13_source_replacedbox_layout.

(* the property clause the function carries, about the regenerated source itself (GLP.src_layout g box: the call
   above): for an image of known intrinsic size w x h and ratio r (r > 0, w = h r) it returns four numbers
   (draw_width, draw_height, x, y) such that
   GLP.fit_clause: fill -> the content box size; contain -> inside the content box, touching two opposite edges,
     ratio kept (contained); cover -> covers it, touching, ratio kept (covering); none -> the intrinsic size;
     scale-down -> the smaller of none and contain;
   GLP.position_clause far p area img pos (pos = x - content_box_x): a percentage p aligns the point at p% of the image
     with the point at p% of the content box, measured from the far edge for right / bottom origins (it resolves
     against the free space area - img); a length q is the offset from that edge. *)
Theorem C13_source_painted_rectangle (g : list Py.val -> Py.val) imgf rs fs f rgt btm px py
        bw bh posx posy ml mt pl pt bl bt w h r :
  g [Py.VObj imgf; Py.VNum rs; Py.VNum fs] = GT.vintr (Intr (Some w) (Some h) (Some r)) -> (0 < r)%Q -> (w == h * r)%Q ->
  exists dw dh x y,
    GLP.src_layout g (GLT.lbox f rgt btm px py bw bh imgf rs fs posx posy ml mt pl pt bl bt)
      = Py.VList [Py.VNum dw; Py.VNum dh; Py.VNum x; Py.VNum y] /\
    GLP.fit_clause f bw bh w h r dw dh /\
    GLP.position_clause rgt px bw dw (x - (posx + ml + pl + bl))%Q /\
    GLP.position_clause btm py bh dh (y - (posy + mt + pt + bt))%Q.
Proof.
  exact (GLP.source_painted_rectangle g imgf rs fs f rgt btm px py bw bh posx posy ml mt pl pt bl bt w h r).
Qed.
Print Assumptions C13_source_painted_rectangle.

(* contain / cover need only the ratio (intrinsic width or height may be unknown) *)
Theorem C13_source_contain_cover (g : list Py.val -> Py.val) imgf rs fs i (cover : bool) rgt btm px py
        bw bh posx posy ml mt pl pt bl bt r :
  g [Py.VObj imgf; Py.VNum rs; Py.VNum fs] = GT.vintr i -> ir i = Some r -> (0 < r)%Q ->
  exists dw dh x y,
    GLP.src_layout g
      (GLT.lbox (if cover then Cover else Contain) rgt btm px py bw bh imgf rs fs posx posy ml mt pl pt bl bt)
      = Py.VList [Py.VNum dw; Py.VNum dh; Py.VNum x; Py.VNum y] /\
    (if cover then covering bw bh r dw dh else contained bw bh r dw dh).
Proof.
  exact (GLP.source_contain_cover g imgf rs fs i cover rgt btm px py bw bh posx posy ml mt pl pt bl bt r).
Qed.
Print Assumptions C13_source_contain_cover.

(* ---------------------------------------------------------------- source: inline_replaced_box_layout and
   inline_replaced_box_width_height of layout/replaced.py, regenerated (gen/GenInlineReplaced.v), whole bodies; their
   callees (which mutate the box) are oracle statements that hand the box back.
   GI.ibox mt mr mb ml rest: the box, its four margins (Some number / None = 'auto') first, `rest` any other content;
   GI.ibox_used: the same box with every margin m replaced by GI.used_margin m (0 for 'auto', m otherwise);
   GI.wh_oracle: inline_replaced_box_width_height called on (ibox_used .., cb) leaves the box as box'.
   CSS 2.1 10.3.2 / 10.6.2 ("a computed value of 'auto' for margin-* becomes a used value of 0"): the margins are
   zeroed BEFORE the width / height are resolved, nothing else is touched, the function leaves what the resolution
   leaves, returns None and never raises. *)
Require WV.gen.GenInlineReplaced WV.proofs.C13_gen_inline.
Module GI := WV.proofs.C13_gen_inline.

Theorem C13_source_inline_replaced_box_layout (O : Py.qops) mt mr mb ml rest cb ret box' :
  GI.is_value cb -> GI.wh_oracle O mt mr mb ml rest cb ret box' ->
  Py.run O GenInlineReplaced.inline_replaced_box_layout_body
    [("box", GI.ibox mt mr mb ml rest); ("containing_block", cb)]%string
    (GI.leaves_box box') (fun _ => False).
Proof. exact (GI.gen_inline_replaced_box_layout O mt mr mb ml rest cb ret box'). Qed.
Print Assumptions C13_source_inline_replaced_box_layout.

(* what that box is: the four margins are the used margins, every other field is the one the box had *)
Theorem C13_source_inline_used_margins mt mr mb ml rest :
  PyTac.fieldv (GI.ibox_used mt mr mb ml rest) "margin_top" = Py.VNum (GI.used_margin mt) /\
  PyTac.fieldv (GI.ibox_used mt mr mb ml rest) "margin_right" = Py.VNum (GI.used_margin mr) /\
  PyTac.fieldv (GI.ibox_used mt mr mb ml rest) "margin_bottom" = Py.VNum (GI.used_margin mb) /\
  PyTac.fieldv (GI.ibox_used mt mr mb ml rest) "margin_left" = Py.VNum (GI.used_margin ml) /\
  (forall k, k <> "margin_top" -> k <> "margin_right" -> k <> "margin_bottom" -> k <> "margin_left" ->
             PyTac.fieldv (GI.ibox_used mt mr mb ml rest) k = Py.lookup k rest)%string.
Proof. exact (GI.ibox_used_fields mt mr mb ml rest). Qed.
Print Assumptions C13_source_inline_used_margins.

(* inline_replaced_box_width_height: GI.wh_plan bw bh is the list of callees in calling order -
   width and height both 'auto': replaced_box_width.without_min_max, replaced_box_height.without_min_max (the functions
   under the min/max decorators), then min_max_auto_replaced (CSS 2.1 10.4, the table for both-auto replaced elements);
   otherwise the decorated replaced_box_width then the decorated replaced_box_height (10.3.2 before 10.6.2) and no
   min_max_auto_replaced.  GI.plan_run: each callee is called on the box the previous one left (the width callees also
   get the containing block); the function leaves the box the last one leaves, returns None, never raises. *)
Theorem C13_source_inline_replaced_box_width_height (O : Py.qops) bw bh rest cb final :
  GI.is_value cb -> GI.plan_run O (GI.wh_plan bw bh) cb (GI.whbox bw bh rest) final ->
  Py.run O GenInlineReplaced.inline_replaced_box_width_height_body
    [("box", GI.whbox bw bh rest); ("containing_block", cb)]%string
    (GI.leaves_box final) (fun _ => False).
Proof. exact (GI.gen_inline_replaced_box_width_height O bw bh rest cb final). Qed.
Print Assumptions C13_source_inline_replaced_box_width_height.

Theorem C13_source_inline_plan bw bh :
  GI.wh_plan bw bh =
  (match bw, bh with
   | None, None => ["replaced_box_width.without_min_max"; "replaced_box_height.without_min_max"; "min_max_auto_replaced"]
   | _, _ => ["replaced_box_width"; "replaced_box_height"]
   end)%string.
Proof. exact (GI.wh_plan_cases bw bh). Qed.
Print Assumptions C13_source_inline_plan.

(* the two linked: inline_replaced_box_layout whose callee inline_replaced_box_width_height is answered by that
   function's own regenerated body (GIL.linked_to O O1; such operations exist: C13_source_inline_linked_exists).
   GIL.lbox bw bh mt mr mb ml rest: the box (width, height, the four margins, anything else); GIL.lbox_used: the same
   with the used margins.  The function leaves the box that the plan (GI.wh_plan bw bh, see above) leaves when it
   starts from the box with the USED margins. *)
Require WV.proofs.C13_gen_inline_link.
Module GIL := WV.proofs.C13_gen_inline_link.

Theorem C13_source_inline_layout_linked (O O1 : Py.qops) bw bh mt mr mb ml rest cb final :
  GI.is_value cb -> GIL.linked_to O O1 ->
  GI.plan_run O1 (GI.wh_plan bw bh) cb (GIL.lbox_used bw bh mt mr mb ml rest) final ->
  Py.run O GenInlineReplaced.inline_replaced_box_layout_body
    [("box", GIL.lbox bw bh mt mr mb ml rest); ("containing_block", cb)]%string
    (GI.leaves_box final) (fun _ => False).
Proof. exact (GIL.gen_inline_layout_linked O O1 bw bh mt mr mb ml rest cb final). Qed.
Print Assumptions C13_source_inline_layout_linked.

Theorem C13_source_inline_linked_exists (O1 : Py.qops) : exists O, GIL.linked_to O O1.
Proof. exact (GIL.linked_ops_exist O1). Qed.
Print Assumptions C13_source_inline_linked_exists.
