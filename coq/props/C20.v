(* C20 - Resources go through the caller's URL fetcher; fetch failures degrade gracefully: property theorems only
   (models: model/C20Url.v, C20Fetch.v, C20Doc.v; proofs: proofs/C20_url.v, C20_fetch.v, C20_doc.v,
   C20_absence.v, C20_logged.v).  The models are tied to /repo by the correspondence streams of harness/p_c20.py (url-join,
   consume-direct, docs); what the process opens besides the fetcher is a statement about system calls and is
   monitored (audit hooks), not proved. *)
From Coq Require Import List String Bool Arith ZArith Permutation.
Require Import WV.model.C20Url WV.model.C20Fetch WV.model.C20Doc WV.model.C20Cache.
Require Import WV.proofs.C20_url WV.proofs.C20_fetch WV.proofs.C20_doc WV.proofs.C20_absence WV.proofs.C20_logged WV.proofs.C20_cache.
Import ListNotations.
Open Scope string_scope.
Open Scope list_scope.

(* ---- 1. urls.fetch: `with fetch(url_fetcher, url) as result: body(result)`, for every fetcher ---- *)

(* every Exception raised by the fetcher becomes URLFetchingError("Class: message"); the body does not run *)
Theorem C20_fetch_wraps_every_exception (fetcher : string -> fret) (A : Type) url
        (body : fdict -> outcome A * list event) e :
  fetcher url = FRaise e -> e_is_exception e = true ->
  fetch fetcher url body = (Exc (URLFetchingError (e_name e ++ ": " ++ e_msg e)%string), [Called url]).
Proof. exact (fetch_wraps_exception fetcher A url body e). Qed.
Print Assumptions C20_fetch_wraps_every_exception.

(* nothing else comes out of it: URLFetchingError, a BaseException outside Exception (KeyboardInterrupt...),
   the AttributeError of an answer that is not a dict, or what the body itself raised *)
Theorem C20_fetch_nothing_else_escapes (fetcher : string -> fret) (A : Type) url
        (body : fdict -> outcome A * list event) x :
  fst (fetch fetcher url body) = Exc x ->
  (exists e, fetcher url = FRaise e /\ e_is_exception e = true /\
             x = URLFetchingError (e_name e ++ ": " ++ e_msg e)%string) \/
  (exists e, fetcher url = FRaise e /\ e_is_exception e = false /\ x = Raised e) \/
  (fetcher url = FNotDict /\ x = AttributeError "setdefault") \/
  (exists d, fetcher url = FDict d /\
     match d_file d with
     | Some _ => convert_stream_error (fst (body (setdefaults url d))) = Exc x
     | None => fst (body (setdefaults url d)) = Exc x
     end).
Proof. exact (fetch_exception_cases fetcher A url body x). Qed.
Print Assumptions C20_fetch_nothing_else_escapes.

(* file_obj is closed exactly once, after everything the body did and whatever the body's outcome; a failing
   close() is a warning, not an error; an EOFError / HTTPException / OSError / zlib.error that crosses the
   with block while the stream is in use comes out as URLFetchingError (convert_stream_error) *)
Theorem C20_fetch_closes_file_obj (fetcher : string -> fret) (A : Type) url
        (body : fdict -> outcome A * list event) d f :
  fetcher url = FDict d -> d_file d = Some f ->
  fetch fetcher url body =
    (convert_stream_error (fst (body (setdefaults url d))),
     Called url :: snd (body (setdefaults url d)) ++ Closed (fo_id f) ::
       (if fo_close_raises f then [CloseWarning url] else [])).
Proof. exact (fetch_closes_file_obj fetcher A url body d f). Qed.
Print Assumptions C20_fetch_closes_file_obj.

(* a `string` answer: nothing to close *)
Theorem C20_fetch_string_only (fetcher : string -> fret) (A : Type) url
        (body : fdict -> outcome A * list event) d :
  fetcher url = FDict d -> d_file d = None ->
  fetch fetcher url body = (fst (body (setdefaults url d)), Called url :: snd (body (setdefaults url d))).
Proof. exact (fetch_without_file_obj fetcher A url body d). Qed.
Print Assumptions C20_fetch_string_only.

(* the six consumers (image, linked sheet, @import, font source, attachment, external SVG <use>): an Exception
   raised by the call, any answer that carries data, and a stream whose read() raises an Exception of any class
   never escape - the resource is used or treated as absent, and "absent" always comes with a log *)
Theorem C20_consumers_degrade_gracefully (fetcher : string -> fret) c url :
  (exists e, fetcher url = FRaise e /\ e_is_exception e = true) \/
  (exists d, fetcher url = FDict d /\ (has_data d = true \/ dies_with_exception d = true)) ->
  exists v ev logs, consume fetcher c url = (Val v, ev, logs) /\ (v = None -> logs <> []).
Proof. exact (consume_graceful fetcher c url). Qed.
Print Assumptions C20_consumers_degrade_gracefully.

(* exactly what escapes a consumer: a BaseException outside Exception (from the call or from read()), and the
   AttributeError / KeyError of an answer that is not a dict / carries no data; no Exception raised by the
   fetcher or by the stream it returned *)
Theorem C20_consumer_escapes_characterised (fetcher : string -> fret) c url x ev logs :
  consume fetcher c url = (Exc x, ev, logs) ->
  (exists e, fetcher url = FRaise e /\ e_is_exception e = false /\ x = Raised e) \/
  (catches c (AttributeError "setdefault") = false /\ fetcher url = FNotDict /\
     x = AttributeError "setdefault") \/
  (catches c (KeyError "file_obj") = false /\
     exists d, fetcher url = FDict d /\ d_string d = None /\ d_file d = None /\ x = KeyError "file_obj") \/
  (exists d f e, fetcher url = FDict d /\ d_string d = None /\ d_file d = Some f /\
                 fo_read f = ReadRaises e /\ x = Raised e /\ e_is_exception e = false).
Proof. exact (consume_escape_cases fetcher c url x ev logs). Qed.
Print Assumptions C20_consumer_escapes_characterised.

(* REPAIRED (findings fetch-body-read-error-escapes F98 and fetch-body-read-other-error-escapes F230; the
   second was the refuted statement C20_read_other_error_escapes_refuted): a stream whose read() raises an
   Exception of any class - time-out, reset, truncated gzip body, ValueError of a closed file, ProtocolError of
   a urllib3 stream, StopIteration - is a fetching error for every consumer: resource skipped, failure logged,
   stream closed *)
Theorem C20_read_error_is_fetching_error (fetcher : string -> fret) c url d f e :
  fetcher url = FDict d -> d_string d = None -> d_file d = Some f -> fo_read f = ReadRaises e ->
  e_is_exception e = true ->
  exists ev logs, consume fetcher c url = (Val None, ev, logs) /\ logs <> [] /\ In (Closed (fo_id f)) ev.
Proof. exact (read_error_is_fetching_error fetcher c url d f e). Qed.
Print Assumptions C20_read_error_is_fetching_error.

(* ---- 2. url_join / iri_to_uri ---- *)

(* under a base with a scheme, whatever url_join returns is - also after iri_to_uri - an absolute URL *)
Theorem C20_url_join_yields_absolute b r allow a :
  scheme_ok (b_scheme b) = true -> ref_ok r = true ->
  url_join (Some b) r allow = Some a -> url_is_absolute (fetched_string a) = true.
Proof. exact (url_join_absolute b r allow a). Qed.
Print Assumptions C20_url_join_yields_absolute.

(* relative references stay on the base's scheme (path references also on its authority) and come out
   without "." or ".." segments *)
Theorem C20_relative_reference_resolution b r : relative_shape r = true ->
  exists b' sfx, urljoin b r = AHier b' sfx /\ b_scheme b' = b_scheme b /\
    (match r with RNet a _ _ => b_auth b' = a | _ => b_auth b' = b_auth b end) /\
    (match r with
     | RPath _ _ => Forall not_dot (b_segs b')
     | RRel segs _ => is_empty_path segs = false -> Forall not_dot (b_segs b')
     | _ => True
     end).
Proof. exact (urljoin_relative b r). Qed.
Print Assumptions C20_relative_reference_resolution.

Theorem C20_iri_to_uri_idempotent s : iri_to_uri (iri_to_uri s) = iri_to_uri s.
Proof. exact (iri_to_uri_idempotent s). Qed.
Print Assumptions C20_iri_to_uri_idempotent.

(* ---- 3. the resource state machine, for all documents, worlds and failure assignments ---- *)

(* the cache of get_image_from_uri is transparent: the machine that threads it does what the stateless
   semantics does, with every first request of a URL turned into a fetch and every later one dropped *)
Theorem C20_cache_transparent W fails c0 d : cache_ok W fails c0 ->
  snd (m_doc W fails c0 d) = cachefilter W fails (keys c0) (sem_doc W fails d) /\
  cache_ok W fails (fst (m_doc W fails c0 d)).
Proof. exact (machine_is_filtered_semantics W fails c0 d). Qed.
Print Assumptions C20_cache_transparent.

(* each cached request - an image URL with its image-orientation, an external <use> of a loaded SVG image -
   is fetched at most once per render and never when the cache holds it (option cache shared between
   renders): the cached fetches are exactly the first occurrences of the requests *)
Theorem C20_image_fetched_once W fails c0 d : cache_ok W fails c0 ->
  let ks := dedup (keys c0) (requests (sem_doc W fails d)) in
  keyed_fetches (snd (m_doc W fails c0 d)) = map key_fetch ks /\
  NoDup ks /\
  (forall k, In k ks -> ~ In k (keys c0) /\ In k (requests (sem_doc W fails d))) /\
  (forall k, In k (requests (sem_doc W fails d)) -> In k (keys c0) \/ In k ks).
Proof. exact (image_fetched_once W fails c0 d). Qed.
Print Assumptions C20_image_fetched_once.

(* expected_fetches: the multiset of URLs a render requests = the stylesheet, font, <use> and attachment
   references reached (with multiplicity) + each cached request (image URL x orientation, external <use> of
   a loaded SVG) once *)
Theorem C20_expected_fetches W fails d :
  Permutation (fetches (snd (m_doc W fails [] d)))
              (fetches (sem_doc W fails d) ++ map key_url (dedup [] (requests (sem_doc W fails d)))).
Proof. exact (expected_fetches W fails d). Qed.
Print Assumptions C20_expected_fetches.

(* every string handed to the fetcher is an absolute URL (document base and world keys hierarchical with a
   scheme; references inside data: resources absolute themselves) *)
Theorem C20_fetched_urls_absolute W fails d : wf_world abs_join W -> wf_doc abs_join d ->
  Forall abs_url (fetches (snd (m_doc W fails [] d))).
Proof. exact (fetched_urls_absolute W fails d). Qed.
Print Assumptions C20_fetched_urls_absolute.

(* failure_equals_absence: with URL u failing in any mode, the render shows exactly what the document (and
   the served sheets and SVGs) without the references to u shows: rules, fonts, what each image position
   displays, what is painted, what is embedded.  For an attachment only an exception is a failure (any bytes
   are a payload): if some attachment reference resolves to u, the mode must make att_ok false. *)
Theorem C20_failure_equals_absence W fails u m d c1 c2 :
  cache_ok W (upd fails u m) c1 -> cache_ok (remove_world u W) fails c2 ->
  (existsb (attaches u (d_base d)) (d_items d) = true -> att_ok W (upd fails u m) u = false) ->
  effects (snd (m_doc W (upd fails u m) c1 d)) =
  effects (snd (m_doc (remove_world u W) fails c2 (remove_doc u d))).
Proof. exact (failure_equals_absence W fails u m d c1 c2). Qed.
Print Assumptions C20_failure_equals_absence.

(* an exception is a failure for every kind of reference *)
Theorem C20_raise_equals_absence W fails u d :
  effects (snd (m_doc W (upd fails u MRaise) [] d)) =
  effects (snd (m_doc (remove_world u W) fails [] (remove_doc u d))).
Proof.
  exact (failure_equals_absence W fails u MRaise d [] []
           (cache_ok_nil _ _) (cache_ok_nil _ _) (fun _ => att_ok_raise W fails u)).
Qed.
Print Assumptions C20_raise_equals_absence.

(* every failure the library can notice is logged: for each fetch of a URL that fails detectably (any failure
   of an image or font source; an exception or a foreign type for a sheet; an exception for an attachment) the
   run has a log record naming that URL *)
Theorem C20_failures_are_logged W fails c0 d : cache_ok W fails c0 ->
  forall ch u, In (Fetch ch u) (snd (m_doc W fails c0 d)) -> detect fails ch u ->
               exists lv, In (Log lv u) (snd (m_doc W fails c0 d)).
Proof. exact (failures_are_logged W fails c0 d). Qed.
Print Assumptions C20_failures_are_logged.

(* ---- 4. option cache=<folder>: document.DiskCache (memory layer + files) refines a dict ---- *)

(* get after set returns the stored value, None (a failed image) included *)
Theorem C20_diskcache_get_after_set digest s k v :
  (is_bytes v = true -> afind (dc_mem s) k = None) -> dc_get digest (dc_set digest s k v) k = Some v.
Proof. exact (dc_get_after_set digest s k v). Qed.
Print Assumptions C20_diskcache_get_after_set.

Theorem C20_diskcache_stored_none_is_present digest s k :
  dc_get digest (dc_set digest s k (VObj None)) k = Some (VObj None) /\
  dc_contains digest (dc_set digest s k (VObj None)) k = true.
Proof. exact (conj (dc_get_after_set_none digest s k) (dc_contains_after_set digest s k (VObj None))). Qed.
Print Assumptions C20_diskcache_stored_none_is_present.

(* a key never set is absent: in a fresh cache, and after any operations on other keys, reopening included *)
Theorem C20_diskcache_never_set_absent digest k ops : never_sets digest k ops ->
  dc_get digest (snd (dc_run digest dc_empty ops)) k = None.
Proof. exact (fun H => dc_never_set_absent digest k ops H dc_empty eq_refl). Qed.
Print Assumptions C20_diskcache_never_set_absent.

(* under the callers' discipline (a key holds bytes or objects, never both) and distinct file names, every
   sequence of set / get / in on a DiskCache observes what the same sequence observes on a dict *)
Theorem C20_diskcache_refines_dict digest bytes_key ops :
  (forall a b, digest a = digest b -> a = b) -> disciplined bytes_key ops ->
  fst (dc_run digest dc_empty ops) = fst (dict_run [] ops).
Proof.
  exact (fun Hinj Hd => diskcache_refines_dict digest bytes_key Hinj ops Hd dc_empty [] (Inv_empty digest bytes_key)).
Qed.
Print Assumptions C20_diskcache_refines_dict.

(* outside that discipline the refinement fails: a bytes value under a key that holds an object is shadowed *)
Theorem C20_diskcache_stale_object_refuted :
  exists (s : dcache) k v, dc_get (fun x => x) (dc_set (fun x => x) s k v) k <> Some v.
Proof. exact dc_get_after_set_stale_refuted. Qed.
Print Assumptions C20_diskcache_stale_object_refuted.

(* the image cache of the state machine kept in a DiskCache (keys spelled injectively as strings) answers like
   the machine's association list, failed images (None) included *)
Theorem C20_diskcache_is_image_cache (show : rkey -> string) digest (c : cache) disk k :
  (forall a b, show a = show b -> a = b) ->
  afind disk (digest (show k)) = None ->
  let s := {| dc_mem := mem_of show c; dc_disk := disk |} in
  option_map loaded_of (dc_get digest s (show k)) = cfind c k /\
  dc_contains digest s (show k) = is_some (cfind c k) /\
  forall ok, dc_mem (dc_set digest s (show k) (obj_of ok)) = mem_of show ((k, ok) :: c).
Proof. exact (fun H => diskcache_is_image_cache show H digest c disk k). Qed.
Print Assumptions C20_diskcache_is_image_cache.
