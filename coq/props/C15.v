(* C15 - Counters and cross-references print the right numbers: property theorems only.
   Models: model/C15Style.v (counters.py render_value / render_marker / resolve_counter), model/C15Scope.v
   (build.py update_counters + scope push/pop of element_to_box), model/C15Loop.v (re-layout loop); all three are
   tied to /repo by correspondence streams on every run (harness/p_c15.py). *)
From Coq Require Import ZArith List String Bool.
Require Import WV.model.C15Style WV.model.C15StyleSpec WV.model.C15Scope WV.model.C15Loop.
Require Import WV.proofs.C15_digits WV.proofs.C15_render WV.proofs.C15_total WV.proofs.C15_scope WV.proofs.C15_lists
               WV.proofs.C15_loop.
Import ListNotations.
Open Scope Z_scope.

(* ------------------------------------------------------------------ the digit loops, all integers *)
(* numeric = positional notation: valid digits, most significant first, no leading zero, value n *)
Theorem C15_numeric_roundtrip k n : 2 <= k -> 0 <= n ->
  exists ds, num_loop (digit_fuel n) k n [] = Some ds /\ decode k ds = n /\ valid_digits k ds /\
             (0 < n -> exists d rest, ds = d :: rest /\ d <> 0).
Proof. exact (numeric_roundtrip k n). Qed.
Print Assumptions C15_numeric_roundtrip.

(* ... and it is the only such representation *)
Theorem C15_numeric_unique k ds : 2 <= k -> valid_digits k ds -> no_leading_zero ds ->
  num_loop (digit_fuel (decode k ds)) k (decode k ds) [] = Some ds.
Proof. exact (numeric_unique k ds). Qed.
Print Assumptions C15_numeric_unique.

(* alphabetic = bijective base-k numeration: decode_bij and the loop are inverse of each other *)
Theorem C15_alphabetic_roundtrip k n : 2 <= k -> 0 <= n ->
  exists ds, alpha_loop (digit_fuel n) k n [] = Some ds /\ decode_bij k ds = n /\ valid_digits k ds.
Proof. exact (alphabetic_roundtrip k n). Qed.
Print Assumptions C15_alphabetic_roundtrip.

Theorem C15_alphabetic_bijective k ds : 2 <= k -> valid_digits k ds ->
  alpha_loop (digit_fuel (decode_bij k ds)) k (decode_bij k ds) [] = Some ds.
Proof. exact (alphabetic_bijective k ds). Qed.
Print Assumptions C15_alphabetic_bijective.

(* additive: a representation, when there is one, is made of tuples of the descriptor whose weights sum to v *)
Theorem C15_additive_sums_to_value l v parts :
  Forall (fun ws => 0 <= fst ws) l -> 0 <= v ->
  add_loop l v [] = Some parts -> sum_w parts = v /\ Forall (fun p => In p l) parts.
Proof. exact (additive_sums_to_value l v parts). Qed.
Print Assumptions C15_additive_sums_to_value.

Theorem C15_additive_total_with_unit l v parts s :
  Forall (fun ws => 0 <= fst ws) l -> 0 <= v -> In (1, s) l -> add_loop l v parts <> None.
Proof. exact (additive_total_with_unit l v parts s). Qed.
Print Assumptions C15_additive_total_with_unit.

(* ------------------------------------------------------- one activation of render_value, any style *)
Theorem C15_cyclic_index l c v :
  c_symbols c = Some l -> 1 <= zlen l ->
  represent c "cyclic" None v = RpInitial (nth_sym l ((v - 1) mod zlen l)) /\
  0 <= (v - 1) mod zlen l < zlen l /\
  represent c "cyclic" None (v + zlen l) = represent c "cyclic" None v.
Proof. exact (cyclic_index l c v). Qed.
Print Assumptions C15_cyclic_index.

Theorem C15_symbolic_repeat l c v :
  c_symbols c = Some l -> 1 <= zlen l -> 1 <= v ->
  exists k, represent c "symbolic" None v = RpInitial (rep_text (Z.to_nat k) (nth_sym l ((v - 1) mod zlen l))) /\
            (k - 1) * zlen l < v <= k * zlen l.
Proof. exact (symbolic_repeat l c v). Qed.
Print Assumptions C15_symbolic_repeat.

Theorem C15_fixed_range l first c v :
  c_symbols c = Some l -> 1 <= zlen l ->
  represent c "fixed" (Some first) v =
    if (first <=? v) && (v <? first + zlen l) then RpInitial (nth_sym l (v - first)) else RpFallback.
Proof. exact (fixed_range l first c v). Qed.
Print Assumptions C15_fixed_range.

Theorem C15_numeric_representation l c v :
  c_symbols c = Some l -> 2 <= zlen l -> 0 < v ->
  exists ds, represent c "numeric" None v = RpInitial (join_idx l ds) /\
             decode (zlen l) ds = v /\ valid_digits (zlen l) ds /\ no_leading_zero ds.
Proof. exact (numeric_representation l c v). Qed.
Print Assumptions C15_numeric_representation.

Theorem C15_alphabetic_representation l c v :
  c_symbols c = Some l -> 2 <= zlen l -> 0 <= v ->
  exists ds, represent c "alphabetic" None v = RpInitial (join_idx l ds) /\
             decode_bij (zlen l) ds = v /\ valid_digits (zlen l) ds.
Proof. exact (alphabetic_representation l c v). Qed.
Print Assumptions C15_alphabetic_representation.

Theorem C15_additive_representation l c v t :
  c_additive c = Some l -> Forall (fun ws => 0 <= fst ws) l -> 0 < v ->
  represent c "additive" None v = RpInitial t ->
  exists parts, t = join_parts parts /\ sum_w parts = v /\ Forall (fun p => In p l) parts.
Proof. exact (additive_representation l c v t). Qed.
Print Assumptions C15_additive_representation.

(* the range rule: a value outside every range goes to the fallback style, unchanged *)
Theorem C15_range_then_fallback c sys fx prev v :
  check_ranges (ranges_of c sys) v = RgOut ->
  render_resolved c sys fx prev v = CallFallback v (fallback_of c) prev.
Proof. exact (range_then_fallback c sys fx prev v). Qed.
Print Assumptions C15_range_then_fallback.

(* the fallback style is called exactly when the value is out of range or not representable ... *)
Theorem C15_fallback_iff c sys fx prev v :
  (exists v' n p, render_resolved c sys fx prev v = CallFallback v' n p) <->
  (check_ranges (ranges_of c sys) v = RgOut \/
   (check_ranges (ranges_of c sys) v = RgIn /\
    represent c sys fx (if (v <? 0) && uses_negative sys then Z.abs v else v) = RpFallback)).
Proof. exact (fallback_iff c sys fx prev v). Qed.
Print Assumptions C15_fallback_iff.

(* ... and always with the ORIGINAL counter value, the style's fallback name, the list of styles tried *)
Theorem C15_fallback_gets_original_value c sys fx prev v v' n p :
  render_resolved c sys fx prev v = CallFallback v' n p -> v' = v /\ n = fallback_of c /\ p = prev.
Proof. exact (fallback_gets_original_value c sys fx prev v v' n p). Qed.
Print Assumptions C15_fallback_gets_original_value.

(* a style without `extends` : render_value's first activation is render_resolved on its own descriptors *)
Theorem C15_render_step_plain S n c v :
  lookup n S = Some c -> plain c ->
  render_step S v (CName n) None = render_resolved c (snd (fst (sys_of c))) (snd (sys_of c)) [CName n] v.
Proof. exact (render_step_plain S n c v). Qed.
Print Assumptions C15_render_step_plain.

(* extends, as repaired (F61, F62): a style extending an undefined style is decimal completed by... its own
   descriptors completed by those of decimal; resolving a name adds only that name to the fallback list *)
Theorem C15_extends_unknown_is_extends_decimal S n c t fx d :
  lookup n S = Some c -> c_system c = Some (mkSys true t fx) -> lookup t S = None ->
  lookup "decimal" S = Some d -> fst (fst (sys_of d)) = false ->
  resolve S (CName n) None = (ResSome (merge (set_system c (c_system d)) d), None).
Proof. exact (extends_unknown_is_extends_decimal S n c t fx d). Qed.
Print Assumptions C15_extends_unknown_is_extends_decimal.

Theorem C15_resolve_adds_only_the_name S cn l r p :
  resolve S cn (Some l) = (r, p) -> p = Some l \/ p = Some (l ++ [cn]).
Proof. exact (resolve_adds_only_the_name S cn l r p). Qed.
Print Assumptions C15_resolve_adds_only_the_name.

(* negative values: |v| represented, padded, between the two negative symbols *)
Theorem C15_negative_wrapping c sys fx prev v t :
  check_ranges (ranges_of c sys) v = RgIn -> v < 0 -> uses_negative sys = true ->
  represent c sys fx (- v) = RpInitial t ->
  let '(np, ns) := neg_of c in
  let '(pn, ps) := pad_of c in
  render_resolved c sys fx prev v =
    Done (ROk (np ++ rep_text (Z.to_nat (pn - zlen t - (zlen np + zlen ns))) ps ++ t ++ ns)).
Proof. exact (negative_wrapping c sys fx prev v t). Qed.
Print Assumptions C15_negative_wrapping.

(* pad: with a one-character pad symbol the result has max(pad, natural length) characters, signs included *)
Theorem C15_pad_length (c : cstyle) (use_neg : bool) (t : text) :
  let '(np, ns) := neg_of c in
  let '(pn, ps) := pad_of c in
  zlen ps = 1 ->
  zlen (finish c use_neg t) = Z.max pn (zlen t + (if use_neg then zlen np + zlen ns else 0)).
Proof. exact (pad_length c use_neg t). Qed.
Print Assumptions C15_pad_length.

(* -------------------------------------------------------------------------------------- totality *)
(* every well-formed dictionary (boolean predicate wf_styles), every counter name, every integer: a string is
   returned - no exception value, no fuel exhaustion; the model's fuel is sufficient and more fuel changes nothing *)
Theorem C15_render_total S v cn :
  wf_styles S = true -> wf_cname cn = true -> exists t, render_value S v cn = ROk t.
Proof. exact (render_total S v cn). Qed.
Print Assumptions C15_render_total.

Theorem C15_render_fuel_sufficient S v cn fuel :
  wf_styles S = true -> wf_cname cn = true -> (render_fuel S <= fuel)%nat ->
  render fuel S v cn None = render_value S v cn /\ render_value S v cn <> RFuel /\ render_value S v cn <> RExc.
Proof. exact (render_fuel_sufficient S v cn fuel). Qed.
Print Assumptions C15_render_fuel_sufficient.

(* ------------------------------------------------------------------------------- counter scoping *)
(* the state machine of update_counters / element_to_box never raises and every generated box observes the
   counter stacks the CSS reference interpreter defines, for every DOM tree in which list items with an explicit
   counter-increment name list-item (ok_tree), from any pair of related states *)
Theorem C15_counters_refine_spec nd : ok_tree nd -> forall st lv, R st lv ->
  exists st' o, run_node st nd = Some (st', o) /\ R st' (fst (ref_node lv nd)) /\
                obs_eq o (snd (ref_node lv nd)) /\ List.length (fst (ref_node lv nd)) = List.length lv.
Proof. exact (counters_refine_spec nd). Qed.
Print Assumptions C15_counters_refine_spec.

Theorem C15_document_refines_spec nd : ok_tree nd ->
  exists st' o, run_node init_state nd = Some (st', o) /\ obs_eq o (snd (ref_node init_levels nd)).
Proof. exact (document_refines_spec nd). Qed.
Print Assumptions C15_document_refines_spec.

(* outside ok_tree the code leaves CSS Lists 3 (open finding): witness <ol><li><li style="counter-increment:x"><li> *)
Theorem C15_implicit_list_item_refuted :
  exists nd st o, run_node init_state nd = Some (st, o) /\
                  map (fun ob => ob "list-item"%string) o = [[0]; [1]; [1]; [2]] /\
                  map (fun ob => ob "list-item"%string) (snd (ref_node init_levels nd)) = [[0]; [1]; [2]; [3]].
Proof. exact implicit_list_item_refuted. Qed.
Print Assumptions C15_implicit_list_item_refuted.

(* content parsed again later (pending targets, page-based counters): the re-parse prints the element counters of
   the FIRST parse, whatever the builder's counter state has become, and page counters only for names that were
   not element counters there *)
Theorem C15_reparse_keeps_first_parse_value st live mixin n :
  values st n <> [] -> parse_again (first_parse st) live mixin n = values st n.
Proof. exact (reparse_keeps_first_parse_value st live mixin n). Qed.
Print Assumptions C15_reparse_keeps_first_parse_value.

Theorem C15_reparse_mixes_in_page_counters st live mixin n :
  values st n = [] -> parse_again (first_parse st) live mixin n = lookup_counter mixin n.
Proof. exact (reparse_mixes_in_page_counters st live mixin n). Qed.
Print Assumptions C15_reparse_mixes_in_page_counters.

Theorem C15_document_reparse nd : ok_tree nd ->
  exists st' o, run_node init_state nd = Some (st', o) /\
    Forall2 (fun ob r => forall live mixin n, r n <> [] -> parse_again (mkBox ob) live mixin n = r n)
            o (snd (ref_node init_levels nd)).
Proof. exact (document_reparse nd). Qed.
Print Assumptions C15_document_reparse.

(* nested ol / li (user-agent rules: ol resets list-item, li increments it implicitly): the model of build.py
   gives every list item the 1-based positions of the items along its path, for every nesting *)
Theorem C15_nested_list_numbering t :
  exists st o, run_node init_state (to_node true t) = Some (st, o) /\ obs_li o = expect true [] t.
Proof. exact (nested_list_numbering t). Qed.
Print Assumptions C15_nested_list_numbering.

(* --------------------------------------------------------------------------------- re-layout loop *)
Theorem C15_exit_before_max_is_fixpoint relayout max_loops n0 n :
  relayout_loop relayout max_loops n0 = (n, true) -> relayout n = n.
Proof. exact (exit_before_max_is_fixpoint relayout max_loops n0 n). Qed.
Print Assumptions C15_exit_before_max_is_fixpoint.

Theorem C15_convergence_refuted :
  exists relayout n0 n, relayout_loop relayout 8 n0 = (n, false) /\ relayout n <> n.
Proof. exact convergence_refuted. Qed.
Print Assumptions C15_convergence_refuted.

(* ------------------------------------------ source: weasyprint/css/counters.py regenerated on every run *)
(* tools/py2coq.py prints, from /repo's working tree, the function `symbol` and the bodies of the branches
   `system == 'cyclic' / 'fixed' / 'alphabetic' / 'numeric'` of CounterStyle.render_value (step 3: gen/GenCounters.v;
   the free variables self, counter, counter_value, fixed_number, previous_types are the parameters).  Their
   meaning is the interpreter base/Py.v (len, x[i], %, //, abs, ''.join(reversed(..)) are its primitives
   [prim_apply]: floor semantics with Python's sign convention); `symbol(..)` is answered by running
   its own regenerated body (base/PyLink.v); the recursive call self.render_value(..) for the decimal / fallback
   style is an oracle [render], whatever it answers.  For EVERY tuple of symbols (B.psym: ('string', s) or
   ('url', u), or None), every integer counter value, every other content of `self` and `counter`, each branch
   does what [represent] of model/C15Style.v says: GN.agrees when it ends (RpInitial t: it falls off its end with
   `initial` bound to the string of t; RpDecimal / RpFallback: it returns the value of that call), GN.raises when
   it raises (RpExc: TypeError / IndexError; RpFuel: the loop does not end, whatever the fuel; an error of the
   oracle).  [fuel] bounds the iterations of a `while` in the interpreter: digit_fuel v + 1 is enough.
   So the theorems above about [represent] (C15_numeric_representation, C15_alphabetic_representation,
   C15_cyclic_index, C15_fixed_range, ...) speak about the source text. *)
Require WV.base.Py WV.base.PyLink WV.gen.GenCounters WV.model.C15Builtins.
Require WV.proofs.C15_gen_numeric WV.proofs.C15_gen_alphabetic WV.proofs.C15_gen_counters.
Module B := WV.model.C15Builtins.
Module GN := WV.proofs.C15_gen_numeric.
Module G := WV.proofs.C15_gen_counters.

Theorem C15_source_symbol O p :
  Py.run O GenCounters.symbol_body [("string_or_url"%string, B.vsym p)]
    (fun _ r => r = Some (Py.VStr (B.psym_str p))) (fun _ => False).
Proof. exact (G.gen_symbol O p). Qed.
Print Assumptions C15_source_symbol.

Theorem C15_source_numeric_branch render n fuel sf fb rest osyms c v :
  c_symbols c = B.msyms osyms -> (digit_fuel v < fuel)%nat ->
  Py.run (G.c15_ops render (S n) fuel) GenCounters.rv_numeric_body
    [("self"%string, Py.VObj sf); ("counter"%string, B.vcounter osyms fb rest); ("counter_value"%string, Py.vint v)]
    (GN.agrees (G.c15_ops render (S n) fuel) (B.rv_args (Py.VObj sf) v "decimal" Py.VNone) []
               (represent c "numeric" None v))
    (GN.raises (G.c15_ops render (S n) fuel) (B.rv_args (Py.VObj sf) v "decimal" Py.VNone) []
               (represent c "numeric" None v)).
Proof. exact (G.gen_numeric_linked render n fuel sf fb rest osyms c v). Qed.
Print Assumptions C15_source_numeric_branch.

Theorem C15_source_alphabetic_branch render n fuel sf fb rest osyms c v :
  c_symbols c = B.msyms osyms -> (digit_fuel v < fuel)%nat ->
  Py.run (G.c15_ops render (S n) fuel) GenCounters.rv_alphabetic_body
    [("self"%string, Py.VObj sf); ("counter"%string, B.vcounter osyms fb rest); ("counter_value"%string, Py.vint v)]
    (GN.agrees (G.c15_ops render (S n) fuel) (B.rv_args (Py.VObj sf) v "decimal" Py.VNone) []
               (represent c "alphabetic" None v))
    (GN.raises (G.c15_ops render (S n) fuel) (B.rv_args (Py.VObj sf) v "decimal" Py.VNone) []
               (represent c "alphabetic" None v)).
Proof. exact (G.gen_alphabetic_linked render n fuel sf fb rest osyms c v). Qed.
Print Assumptions C15_source_alphabetic_branch.

Theorem C15_source_cyclic_branch render n fuel sf fb rest osyms c fx v :
  c_symbols c = B.msyms osyms ->
  Py.run (G.c15_ops render (S n) fuel) GenCounters.rv_cyclic_body
    [("self"%string, Py.VObj sf); ("counter"%string, B.vcounter osyms fb rest); ("counter_value"%string, Py.vint v)]
    (GN.agrees (G.c15_ops render (S n) fuel) (B.rv_args (Py.VObj sf) v "decimal" Py.VNone) []
               (represent c "cyclic" fx v))
    (GN.raises (G.c15_ops render (S n) fuel) (B.rv_args (Py.VObj sf) v "decimal" Py.VNone) []
               (represent c "cyclic" fx v)).
Proof. exact (G.gen_cyclic_linked render n fuel sf fb rest osyms c fx v). Qed.
Print Assumptions C15_source_cyclic_branch.

(* the fixed branch: out of the range of the symbols it returns the call of the FALLBACK style with the counter
   value it was given and the list previous_types *)
Theorem C15_source_fixed_branch render n fuel sf fb rest osyms c fx v pl :
  c_symbols c = B.msyms osyms -> c_fallback c = fb -> fb <> Some ""%string ->
  Py.run (G.c15_ops render (S n) fuel) GenCounters.rv_fixed_body
    [("self"%string, Py.VObj sf); ("counter"%string, B.vcounter osyms fb rest); ("counter_value"%string, Py.vint v);
     ("fixed_number"%string, G.vfx fx); ("previous_types"%string, Py.VList pl)]
    (GN.agrees (G.c15_ops render (S n) fuel) (B.rv_args (Py.VObj sf) v "decimal" Py.VNone)
               (B.rv_args (Py.VObj sf) v (fallback_of c) (Py.VList pl)) (represent c "fixed" fx v))
    (GN.raises (G.c15_ops render (S n) fuel) (B.rv_args (Py.VObj sf) v "decimal" Py.VNone)
               (B.rv_args (Py.VObj sf) v (fallback_of c) (Py.VList pl)) (represent c "fixed" fx v)).
Proof. exact (G.gen_fixed_linked render n fuel sf fb rest osyms c fx v pl). Qed.
Print Assumptions C15_source_fixed_branch.

(* the property text about the source itself: with at least two symbols the numeric branch binds `initial` to the
   positional notation of the value in base len(symbols) - digits index the symbols, most significant first, no
   leading zero - and the alphabetic branch to its bijective numeration; neither raises nor returns early *)
Theorem C15_source_numeric_positional render n fuel sf fb rest (l : list B.psym) v :
  2 <= Z.of_nat (List.length l) -> 0 < v -> (digit_fuel v < fuel)%nat ->
  Py.run (G.c15_ops render (S n) fuel) GenCounters.rv_numeric_body
    [("self"%string, Py.VObj sf); ("counter"%string, B.vcounter (Some l) fb rest); ("counter_value"%string, Py.vint v)]
    (fun rho r => r = None /\ exists ds,
       Py.lookup "initial" rho = Py.VStr (B.enc (join_idx (map B.msym l) ds)) /\
       decode (Z.of_nat (List.length l)) ds = v /\ valid_digits (Z.of_nat (List.length l)) ds /\
       no_leading_zero ds)
    (fun _ => False).
Proof. exact (G.gen_numeric_positional render n fuel sf fb rest l v). Qed.
Print Assumptions C15_source_numeric_positional.

Theorem C15_source_alphabetic_bijective render n fuel sf fb rest (l : list B.psym) v :
  2 <= Z.of_nat (List.length l) -> 0 <= v -> (digit_fuel v < fuel)%nat ->
  Py.run (G.c15_ops render (S n) fuel) GenCounters.rv_alphabetic_body
    [("self"%string, Py.VObj sf); ("counter"%string, B.vcounter (Some l) fb rest); ("counter_value"%string, Py.vint v)]
    (fun rho r => r = None /\ exists ds,
       Py.lookup "initial" rho = Py.VStr (B.enc (join_idx (map B.msym l) ds)) /\
       decode_bij (Z.of_nat (List.length l)) ds = v /\ valid_digits (Z.of_nat (List.length l)) ds)
    (fun _ => False).
Proof. exact (G.gen_alphabetic_bijective render n fuel sf fb rest l v). Qed.
Print Assumptions C15_source_alphabetic_bijective.

(* ---------------------------- source, second pass: the rest of render_value after the `extends` resolution *)
(* gen/GenCounters.v also holds, regenerated on every run, the branches `system == 'symbolic'` (rv_symbolic_body) and
   `system == 'additive'` (rv_additive_body: both loops - the second one `for .. break`, printed with the flag "%brk"
   of tools/py2coq.py for_with_break - and the closing `if initial is None: .. return self.render_value(.. fallback ..)`)
   and the statements after the chain on `system` (rv_finish_body: the assertion, the pad descriptor, the negative
   prefix / suffix, `return initial`) and before it: step 2 (rv_range_body) and, from `initial = None` on, the head of
   step 3 (rv_neg_body): with the first pass, every statement of render_value after the `while extends:` loop.  `str * int`, `[s] * n`, `str + str`, len of a string are the primitives
   PSeqMul / PSeqAdd / PSeqLen of base/Py.v.  For EVERY tuple of symbols / of (weight, symbol) pairs (or None), every
   integer value, both flags, every pad descriptor and pair of negative symbols they compute [represent] / [finish]
   of model/C15Style.v, so C15_symbolic_repeat, C15_additive_sums_to_value, C15_additive_total_with_unit,
   C15_additive_representation, C15_negative_wrapping, C15_pad_length above speak about the source text. *)
Require WV.proofs.C15_gen_symbolic WV.proofs.C15_gen_additive WV.proofs.C15_gen_finish WV.proofs.C15_gen_rest.
Module GA := WV.proofs.C15_gen_additive.
Module GF := WV.proofs.C15_gen_finish.
Module GR := WV.proofs.C15_gen_rest.
Require WV.proofs.C15_gen_neg.
Module GNg := WV.proofs.C15_gen_neg.

Theorem C15_source_symbolic_branch render n fuel sf fb rest osyms c fx v :
  c_symbols c = B.msyms osyms ->
  Py.run (G.c15_ops render (S n) fuel) GenCounters.rv_symbolic_body
    [("self"%string, Py.VObj sf); ("counter"%string, B.vcounter osyms fb rest); ("counter_value"%string, Py.vint v)]
    (GN.agrees (G.c15_ops render (S n) fuel) (B.rv_args (Py.VObj sf) v "decimal" Py.VNone) []
               (represent c "symbolic" fx v))
    (GN.raises (G.c15_ops render (S n) fuel) (B.rv_args (Py.VObj sf) v "decimal" Py.VNone) []
               (represent c "symbolic" fx v)).
Proof. exact (GR.gen_symbolic_linked render n fuel sf fb rest osyms c fx v). Qed.
Print Assumptions C15_source_symbolic_branch.

(* the additive branch; GA.base: self, counter = {'symbols': sy, 'fallback': fb, 'additive_symbols': oadd, ..rest},
   counter_value = v, initial = None, is_negative = neg, previous_types = pl.  Without a representation it returns the
   call of the FALLBACK style with the list previous_types and the counter value negated back (the number 0 - v)
   when is_negative (GA.fb_args_of) *)
Theorem C15_source_additive_branch render n fuel sf sy fb rest pl oadd c fx v neg :
  c_additive c = GA.madd oadd -> c_fallback c = fb -> fb <> Some ""%string ->
  Py.run (G.c15_ops render (S n) fuel) GenCounters.rv_additive_body (GA.base sf sy fb rest pl oadd v neg Py.VNone)
    (GN.agrees (G.c15_ops render (S n) fuel) (B.rv_args (Py.VObj sf) v "decimal" Py.VNone)
               (GA.fb_args_of sf pl c v neg) (represent c "additive" fx v))
    (GN.raises (G.c15_ops render (S n) fuel) (B.rv_args (Py.VObj sf) v "decimal" Py.VNone)
               (GA.fb_args_of sf pl c v neg) (represent c "additive" fx v)).
Proof. exact (GR.gen_additive_linked render n fuel sf sy fb rest pl oadd c fx v neg). Qed.
Print Assumptions C15_source_additive_branch.

(* steps 4 to 6; GF.finenv: counter (any dict whose 'pad' entry is opad), initial = the string of t, is_negative, and -
   bound only when is_negative - use_negative, negative_prefix, negative_suffix.  It returns the string of
   [finish c (is_negative && use_negative) t] and raises nothing *)
Theorem C15_source_finish render n fuel cf opad pn ps t neg un c :
  Py.lookup "pad" cf = GF.vpad opad -> c_pad c = GF.mpad opad ->
  orelse (c_negative c) default_negative = (B.msym pn, B.msym ps) ->
  Py.run (G.c15_ops render (S n) fuel) GenCounters.rv_finish_body
    (GF.finenv cf (B.enc t) neg un (B.psym_str pn) (B.psym_str ps))
    (fun _ r => r = Some (Py.VStr (B.enc (finish c (neg && un) t)))) (fun _ => False).
Proof. exact (GR.gen_finish_linked render n fuel cf opad pn ps t neg un c). Qed.
Print Assumptions C15_source_finish.

(* step 2, the range test (rv_range_body: from the statement that binds counter_ranges up to `initial = None`).
   GRg.renv0: self, counter (a dict whose 'range' entry is orange: None or a tuple of 'auto' / (low, high) pairs, an
   infinite bound being the number M or its opposite; 'fallback' = fb), counter_value = v, system = sys,
   previous_types = pl, and inf = M: the module-level name `inf` is an input of the slice, any number above |v|.
   The slice does what [check_ranges (ranges_of c sys) v] says: in range (RgIn) it falls off its end with
   counter_value, counter, system, self, previous_types unchanged (GRg.range_post); out of range (RgOut) the
   `else:` clause of the loop returns the call of the FALLBACK style with the same value and previous_types; it
   raises only what that call raises.  (The anonymous styles' range, the string 'auto' itself, is outside: `in` on a
   string is not in the embedding.) *)
Require WV.proofs.C15_gen_range.
Module GRg := WV.proofs.C15_gen_range.
Theorem C15_source_range_test render n fuel sf sy ad pd ng fb rest pl M v orange c sys :
  (QArith_base.Qlt (QArith_base.inject_Z (Z.abs v)) M) -> c_range c = GRg.mrange orange -> c_fallback c = fb ->
  fb <> Some ""%string ->
  Py.run (G.c15_ops render (S n) fuel) GenCounters.rv_range_body (GRg.renv0 sf sy ad pd ng fb rest pl M v orange sys)
    (GRg.range_obs (G.c15_ops render (S n) fuel) sf sy ad pd ng fb rest pl M v orange
       (B.rv_args (Py.VObj sf) v (fallback_of c) (Py.VList pl)) (check_ranges (ranges_of c sys) v) sys)
    (GRg.range_err (G.c15_ops render (S n) fuel)
       (B.rv_args (Py.VObj sf) v (fallback_of c) (Py.VList pl)) (check_ranges (ranges_of c sys) v)).
Proof. exact (GR.gen_range_linked render n fuel sf sy ad pd ng fb rest pl M v orange c sys). Qed.
Print Assumptions C15_source_range_test.

(* the model's range check never meets the `auto` keyword inside the list it iterates: the third case of
   GRg.range_obs / range_err (False) is never the one in force *)
Theorem C15_source_range_never_raises v c sys : check_ranges (ranges_of c sys) v <> RgExc.
Proof. exact (GRg.ranges_of_never_raises v c sys). Qed.
Print Assumptions C15_source_range_never_raises.

(* the head of step 3, from `initial = None` up to the chain on `system` (rv_neg_body); GNg.nenv0: counter (a dict whose
   'negative' entry is oneg: a pair of symbols or None), counter_value = v, system = sys.  It ends with
   GNg.neg_post: initial = None, is_negative = (v < 0), counter_value = |v| exactly when v < 0 and the system uses a
   negative sign, and - when v < 0 - use_negative = uses_negative sys, negative_prefix / negative_suffix = the strings
   of the symbols of oneg, '-' and '' for None (GNg.neg_syms_model: those of `orelse (c_negative c) default_negative`,
   the pair [finish] wraps with) *)
Theorem C15_source_negative_head render n fuel sy fbv ad pd oneg rest v sys :
  Py.run (G.c15_ops render (S n) fuel) GenCounters.rv_neg_body (GNg.nenv0 sy fbv ad pd oneg rest v sys)
    (fun rho r => r = None /\ GNg.neg_post sy fbv ad pd oneg rest v sys rho) (fun _ => False).
Proof. exact (GR.gen_neg_linked render n fuel sy fbv ad pd oneg rest v sys). Qed.
Print Assumptions C15_source_negative_head.

(* ... and [finish] is steps 4-5 of the specification (model/C15StyleSpec.v, written from CSS Counter Styles 3) *)
Theorem C15_source_finish_is_spec c use t : finish c use t = spec_finish c use t.
Proof. exact (GR.finish_is_spec c use t). Qed.
Print Assumptions C15_source_finish_is_spec.
