(* C18 - Navigation and metadata: property theorems only (models: model/C18*.v, proofs: proofs/C18_*.v). *)
From Coq Require Import ZArith List Bool String.
Require Import WV.model.C18Bookmarks WV.model.C18Outline WV.model.C18Links WV.model.C18Date WV.model.C18Aabb WV.model.C18Href WV.model.C18Names.
Require Import WV.proofs.C18_bookmarks WV.proofs.C18_outline WV.proofs.C18_links WV.proofs.C18_date WV.proofs.C18_aabb WV.proofs.C18_href WV.proofs.C18_names.
From Coq Require Import Sorted Permutation.
From Coq Require Import QArith.
Import ListNotations.
Open Scope Z_scope.

(* ---- 1. bookmark tree: Document.make_bookmark_tree / make_page_bookmark_tree, all level sequences ----
   pages : per page the list of (bookmark-level, payload); doc_level pages i = level of the i-th bookmark of the
   document; flat_forest 1 None f lists the tree in preorder as (position, (page, payload), parent position, depth). *)

(* neither assert can fire, skipped_levels.pop() and last_by_depth[depth - 1] stay in range *)
Theorem C18_bookmark_tree_total (B : Type) (pages : list (list (Z * B))) :
  Forall (Forall (fun b => 1 <= fst b)) pages -> exists f, doc_tree pages = inr f.
Proof. exact (bookmark_tree_total pages). Qed.
Print Assumptions C18_bookmark_tree_total.

(* the invariant behind it: previous_level = sum(skipped_levels) + len(skipped_levels), entries >= 0,
   len(last_by_depth) = len(skipped_levels) + 1, after any number of pages *)
Theorem C18_bookmark_state_invariant (B : Type) (pages : list (list (Z * B))) :
  Forall (Forall (fun b => 1 <= fst b)) pages ->
  exists s, run_pages init 0 pages = inr s /\
            prev s = sumZ (skipped s) + Z.of_nat (List.length (skipped s)) /\
            Forall (fun x => 0 <= x) (skipped s) /\
            S (List.length (opens s)) = S (List.length (skipped s)).
Proof. exact (bookmark_state_invariant pages). Qed.
Print Assumptions C18_bookmark_state_invariant.

(* one entry per bookmark, in document order across pages, payload and page number unchanged *)
Theorem C18_bookmark_preorder (B : Type) (pages : list (list (Z * B))) f :
  Forall (Forall (fun b => 1 <= fst b)) pages -> doc_tree pages = inr f ->
  map e_pos (flat_forest 1 None f) = seq 0 (List.length (doc_items 0 pages)) /\
  map e_payload (flat_forest 1 None f) = map snd (doc_items 0 pages).
Proof. exact (bookmark_preorder pages f). Qed.
Print Assumptions C18_bookmark_preorder.

(* the parent of an entry is the nearest earlier entry of strictly lower level (top level if there is none) *)
Theorem C18_bookmark_parent (B : Type) (pages : list (list (Z * B))) f :
  Forall (Forall (fun b => 1 <= fst b)) pages -> doc_tree pages = inr f ->
  forall i a par d, In (i, a, par, d) (flat_forest 1 None f) ->
  match par with
  | Some j => (j < i)%nat /\ doc_level pages j < doc_level pages i /\
              forall k, (j < k < i)%nat -> doc_level pages i <= doc_level pages k
  | None => forall k, (k < i)%nat -> doc_level pages i <= doc_level pages k
  end.
Proof. exact (bookmark_parent pages f). Qed.
Print Assumptions C18_bookmark_parent.

(* skipped levels are closed up: depth between 1 and the level; from one entry to the next the depth grows by
   at most 1, by exactly 1 when the level grows (however much), and stays when the level stays *)
Theorem C18_skipped_levels_closed_up (B : Type) (pages : list (list (Z * B))) f :
  Forall (Forall (fun b => 1 <= fst b)) pages -> doc_tree pages = inr f ->
  (forall i a par d, In (i, a, par, d) (flat_forest 1 None f) ->
     (1 <= d)%nat /\ Z.of_nat d <= doc_level pages i) /\
  (forall i a par d a' par' d',
     In (i, a, par, d) (flat_forest 1 None f) -> In (S i, a', par', d') (flat_forest 1 None f) ->
     (d' <= S d)%nat /\
     (doc_level pages i < doc_level pages (S i) -> d' = S d) /\
     (doc_level pages (S i) = doc_level pages i -> d' = d)).
Proof. exact (bookmark_depths pages f). Qed.
Print Assumptions C18_skipped_levels_closed_up.

(* ---- 2. outline objects: add_outlines ----
   number n0 f = the forest with the object numbers pdf.add_object hands out; forest_ok L parent prev nf says that
   for every item of nf the object L(ref) has Parent = its parent's object (the outlines dictionary rn at top
   level), Prev/Next = the neighbouring siblings' objects, First/Last = its first/last child's object (absent
   without children) and Count = +/- the number of visible descendants (negative when closed). *)
Theorem C18_outline_links_consistent pages n0 f objs root :
  add_outlines_model pages n0 f = Some (objs, root) ->
  let nf := fst (number n0 f) in
  map strip nf = f /\
  match root with
  | None => f = [] /\ objs = []
  | Some (rn, rc, rf, rl) =>
      map o_num objs = zrange n0 rn /\ NoDup (map o_num objs) /\ ~ In rn (map o_num objs) /\
      forest_ok (lookup objs) rn None nf /\
      rf = hd_ref nf /\ rl = last_ref nf /\ rf = Some n0 /\
      rc = visible_total nf
  end.
Proof. exact (outline_links_consistent pages n0 f objs root). Qed.
Print Assumptions C18_outline_links_consistent.

(* the same on the written objects alone: Next/Prev are inverse and stay under one parent, First/Last point to
   children without Prev/Next, present together; the outlines dictionary likewise *)
Theorem C18_outline_pointers_consistent pages n0 f objs root :
  add_outlines_model pages n0 f = Some (objs, root) ->
  let L := lookup objs in
  Forall (fun o =>
    (forall m, o_next o = Some m -> exists o', L m = Some o' /\ o_prev o' = Some (o_num o) /\ o_parent o' = o_parent o) /\
    (forall m, o_prev o = Some m -> exists o', L m = Some o' /\ o_next o' = Some (o_num o) /\ o_parent o' = o_parent o) /\
    (forall m, o_first o = Some m -> exists o', L m = Some o' /\ o_parent o' = Some (o_num o) /\ o_prev o' = None) /\
    (forall m, o_last o = Some m -> exists o', L m = Some o' /\ o_parent o' = Some (o_num o) /\ o_next o' = None) /\
    (o_first o = None <-> o_last o = None)) objs /\
  match root with
  | Some (rn, rc, rf, rl) =>
      (forall m, rf = Some m -> exists o, L m = Some o /\ o_parent o = Some rn /\ o_prev o = None) /\
      (forall m, rl = Some m -> exists o, L m = Some o /\ o_parent o = Some rn /\ o_next o = None) /\
      (rf = None <-> rl = None)
  | None => True
  end.
Proof. exact (outline_pointers_consistent pages n0 f objs root). Qed.
Print Assumptions C18_outline_pointers_consistent.

(* the Count arithmetic of add_outlines is ISO 32000-1 Table 153: number of descendants with only open items
   between them and the item *)
Theorem C18_outline_count_is_visible_descendants (t : ntree) :
  ncount_tree t = Z.of_nat (List.length (filter (forallb negb) (between_flags t))).
Proof. exact (count_visible_tree t). Qed.
Print Assumptions C18_outline_count_is_visible_descendants.

(* ---- 3. links: gather_anchors (Page.anchors / Page.links) + resolve_links, all page box trees ----
   doc_links boxes = (per page (links, destinations), logged missing targets); occs / hrefs = the anchor- and
   link-carrying boxes of a page in document order; assoc n l = first item of l named n. *)
Theorem C18_no_dangling_internal_link (boxes : list box) :
  let '(out, errs) := doc_links boxes in
  forall o l, In o out -> In l (fst o) -> l_type l = Internal ->
  exists o' p, In o' out /\ In (l_target l, p) (snd o') /\ assoc (l_target l) (flat_map occs boxes) = Some p.
Proof. exact (no_dangling_internal_link boxes). Qed.
Print Assumptions C18_no_dangling_internal_link.

Theorem C18_first_anchor_wins (boxes : list box) :
  let '(out, errs) := doc_links boxes in
  (forall o n p, In o out -> In (n, p) (snd o) -> assoc n (flat_map occs boxes) = Some p) /\
  Forall2 (fun b o => incl (snd o) (occs b)) boxes out /\
  NoDup (map fst (flat_map snd out)) /\
  (forall n, occurs n (flat_map occs boxes) = true -> exists o p, In o out /\ In (n, p) (snd o)).
Proof. exact (first_anchor_wins boxes). Qed.
Print Assumptions C18_first_anchor_wins.

Theorem C18_external_links_kept (boxes : list box) :
  let '(out, errs) := doc_links boxes in
  Forall2 (fun b o => filter (fun l => negb (is_internal l)) (fst o) =
                      filter (fun l => negb (is_internal l)) (hrefs b)) boxes out.
Proof. exact (external_links_kept boxes). Qed.
Print Assumptions C18_external_links_kept.

Theorem C18_missing_anchor_dropped_and_logged (boxes : list box) :
  let '(out, errs) := doc_links boxes in
  Forall2 (fun b o => forall l, In l (hrefs b) -> is_internal l = true ->
                      (In l (fst o) <-> occurs (l_target l) (flat_map occs boxes) = true)) boxes out /\
  errs = flat_map (fun b => map l_target
            (filter (fun l => is_internal l && negb (occurs (l_target l) (flat_map occs boxes))) (hrefs b))) boxes.
Proof. exact (missing_anchor_dropped_and_logged boxes). Qed.
Print Assumptions C18_missing_anchor_dropped_and_logged.

(* ---- 4. dates: _w3c_date_to_pdf on the groups of the six W3C formats ----
   a PDF reader (parse_pdf_date, ISO 32000-1 7.9.4) gets back year..minute unchanged, seconds (00 when absent),
   and the zone as Z or the same signed offset; truncated dates stay truncated. *)
Theorem C18_date_fields_preserved (g : groups) :
  wf g -> exists s, w3c_date_to_pdf g = inr s /\ parse_pdf_date s = Some (expected g).
Proof. exact (date_fields_preserved g). Qed.
Print Assumptions C18_date_fields_preserved.

(* ---- 5. link / anchor rectangles under a transform: anchors.rectangle_aabb with Matrix.transform_point ----
   in_rect (x1, y1, x2, y2) p :  x1 <= fst p <= x2 /\ y1 <= snd p <= y2 *)
(* the rectangle written for a link covers the image of every point of the link's box ... *)
Theorem C18_link_rectangle_covers_transformed_box (m : matrix) (x y w h s t : Q) :
  (0 <= s <= 1 -> 0 <= t <= 1 ->
   in_rect (rectangle_aabb (Some m) x y w h) (transform_point m (x + s * w) (y + t * h)))%Q.
Proof. exact (aabb_contains m x y w h s t). Qed.
Print Assumptions C18_link_rectangle_covers_transformed_box.

(* ... and is the smallest axis-aligned rectangle that does *)
Theorem C18_link_rectangle_is_smallest (m : matrix) (x y w h bx1 by1 bx2 by2 : Q) :
  ((forall s t, 0 <= s <= 1 -> 0 <= t <= 1 ->
      in_rect (bx1, by1, bx2, by2) (transform_point m (x + s * w) (y + t * h))) ->
   let '(x1, y1, x2, y2) := rectangle_aabb (Some m) x y w h in
   bx1 <= x1 /\ by1 <= y1 /\ x2 <= bx2 /\ y2 <= by2)%Q.
Proof. exact (aabb_smallest m x y w h bx1 by1 bx2 by2). Qed.
Print Assumptions C18_link_rectangle_is_smallest.

Theorem C18_link_rectangle_without_transform (x y w h s t : Q) :
  (0 <= w -> 0 <= h -> 0 <= s <= 1 -> 0 <= t <= 1 ->
   in_rect (rectangle_aabb None x y w h) (x + s * w, y + t * h) /\
   rectangle_aabb None x y w h = (x, y, x + w, y + h))%Q.
Proof. exact (aabb_no_transform x y w h s t). Qed.
Print Assumptions C18_link_rectangle_without_transform.

(* ---- 6. which links are internal: urls.get_link_attribute (+ iri_to_uri, urllib unquote), on bytes ----
   spell bs hs = the fragment bs with each byte written raw or as %XX (upper/lower case digits, per hs);
   spelling_ok: bytes in 0..255, '%' itself never raw.  AUrl doc f = a URL reference whose document part (scheme,
   host, path, query after url_join) is doc; base = the document part of the document's own URL. *)
Theorem C18_every_spelling_of_an_anchor_is_internal (bs : list Z) (hs : list how) :
  (spelling_ok bs hs -> bs <> [] ->
   (forall base, get_link_attribute base (ABare (spell bs hs)) = LInternal bs) /\
   (forall doc, get_link_attribute (Some doc) (AUrl doc (spell bs hs)) = LInternal bs))%Z.
Proof. exact (every_spelling_is_internal bs hs). Qed.
Print Assumptions C18_every_spelling_of_an_anchor_is_internal.

(* escaping done by iri_to_uri is invisible after unquote: raw and escaped characters name the same anchor *)
Theorem C18_unquote_after_iri_to_uri (l : list Z) :
  (Forall (fun b => 0 <= b < 256) l -> unquote (iri_to_uri l) = unquote l)%Z.
Proof. exact (unquote_iri l). Qed.
Print Assumptions C18_unquote_after_iri_to_uri.

Theorem C18_other_references_are_external (base : option Z) (doc : Z) (f : list Z) :
  (base = None \/ f = [] \/ (exists b, base = Some b /\ doc <> b) ->
   get_link_attribute base (AUrl doc f) = LExternal doc (iri_to_uri f) /\ get_link_attribute base AEmpty = LNone)%Z.
Proof. exact (other_references_are_external base doc f). Qed.
Print Assumptions C18_other_references_are_external.

(* ---- 7. the /Dests name tree: pdf_names.sort(key=(not isascii, utf-16-be)) of generate_pdf (after 484a69a) ----
   a name = its UTF-16 code units; written n = the key bytes a reader sees: the ASCII characters, or FE FF + UTF-16BE;
   lex_leb = <= on byte strings. *)
Theorem C18_dests_sort_key_is_byte_order (a b : name) :
  key_leb (key a) (key b) = lex_leb (written a) (written b).
Proof. exact (key_order_is_byte_order a b). Qed.
Print Assumptions C18_dests_sort_key_is_byte_order.

(* the names are written in an order that is sorted bytewise (ISO 32000-1 7.9.6), none lost or added *)
Theorem C18_dests_names_sorted_bytewise (l : list name) :
  Permutation (sort_names l) l /\
  Sorted (fun a b => lex_leb (written a) (written b) = true) (sort_names l).
Proof. exact (dests_names_sorted_bytewise l). Qed.
Print Assumptions C18_dests_names_sorted_bytewise.

(* ---- 8. source: the functions below are REGENERATED from /repo's working tree on every run (tools/py2coq.py ->
   gen/GenAnchors.v, gen/GenMatrix.v, gen/GenPdfPage.v) and run by the interpreter base/Py.v; calls are linked to the
   callee's own regenerated body (PyLink.linked table depth).  GA.T = GenAnchors_table ++ GenMatrix_table;
   GA.vmat a b p c d q e f r = the 3x3 matrix [[a,b,p],[c,d,q],[e,f,r]] as a value (Matrix(a,b,c,d,e,f) has p q r =
   0 0 1); GA.vrect = a 4-tuple of numbers as a value; GA.rect_eq = componentwise ==.
   So sections 5's theorems are theorems about weasyprint/anchors.py + weasyprint/matrix.py, and the placement of
   links on the page (CSS px -> PDF points, independent of the bleed) is proved of weasyprint/pdf/__init__.py. *)
From Coq Require Import String.
Require WV.base.Py WV.base.PyLink WV.gen.GenAnchors WV.gen.GenMatrix WV.gen.GenPdfPage.
Require WV.model.C18PageMatrix WV.proofs.C18_gen_aabb WV.proofs.C18_gen_page_matrix.
Module GA := WV.proofs.C18_gen_aabb.
Module GP := WV.proofs.C18_gen_page_matrix.
Module PM := WV.model.C18PageMatrix.
Open Scope Q_scope.

(* Matrix.transform_point (through Matrix(matrix=[[x, y, 1]]) @ self, i.e. __matmul__ and the constructor): the
   model's transform_point, for every 3x3 matrix of numbers *)
Theorem C18_source_transform_point n a b p c d q e f r x y :
  exists u v, Py.ocall (PyLink.linked GA.T (S (S (S n)))) ".transform_point"%string
                [GA.vmat a b p c d q e f r; Py.VNum x; Py.VNum y] = Py.VList [Py.VNum u; Py.VNum v] /\
              u == fst (transform_point (a, b, c, d, e, f) x y) /\ v == snd (transform_point (a, b, c, d, e, f) x y).
Proof. exact (GA.gen_transform_point n a b p c d q e f r x y). Qed.
Print Assumptions C18_source_transform_point.

(* rectangle_aabb with a matrix: the model's rectangle_aabb (numbers up to ==), never raising *)
Theorem C18_source_rectangle_aabb n a b p c d q e f r x y w h :
  Py.run (PyLink.linked GA.T (S (S (S (S n))))) GenAnchors.rectangle_aabb_body
      [("matrix"%string, GA.vmat a b p c d q e f r); ("pos_x"%string, Py.VNum x); ("pos_y"%string, Py.VNum y);
       ("width"%string, Py.VNum w); ("height"%string, Py.VNum h)]
      (fun _ res => exists o, res = Some (GA.vrect o) /\ GA.rect_eq o (rectangle_aabb (Some (a, b, c, d, e, f)) x y w h))
      (fun _ => False).
Proof. exact (GA.gen_rectangle_aabb_linked n a b p c d q e f r x y w h). Qed.
Print Assumptions C18_source_rectangle_aabb.

(* rectangle_aabb without a matrix (None, or an empty one: `if not matrix`): the rectangle itself *)
Theorem C18_source_rectangle_aabb_no_matrix n (mv : Py.val) x y w h :
  mv = Py.VNone \/ mv = Py.VList nil ->
  Py.run (PyLink.linked GA.T n) GenAnchors.rectangle_aabb_body
      [("matrix"%string, mv); ("pos_x"%string, Py.VNum x); ("pos_y"%string, Py.VNum y);
       ("width"%string, Py.VNum w); ("height"%string, Py.VNum h)]
      (fun _ res => res = Some (GA.vrect (rectangle_aabb None x y w h))) (fun _ => False).
Proof. exact (GA.gen_rectangle_aabb_no_matrix n mv x y w h). Qed.
Print Assumptions C18_source_rectangle_aabb_no_matrix.

(* the rectangle computed by the source covers the image of every point of the link's box ... *)
Theorem C18_source_link_rectangle_covers_transformed_box n a b p c d q e f r x y w h :
  Py.run (PyLink.linked GA.T (S (S (S (S n))))) GenAnchors.rectangle_aabb_body
      [("matrix"%string, GA.vmat a b p c d q e f r); ("pos_x"%string, Py.VNum x); ("pos_y"%string, Py.VNum y);
       ("width"%string, Py.VNum w); ("height"%string, Py.VNum h)]
      (fun _ res => exists o, res = Some (GA.vrect o) /\
         forall s t, 0 <= s <= 1 -> 0 <= t <= 1 ->
           in_rect o (transform_point (a, b, c, d, e, f) (x + s * w) (y + t * h)))
      (fun _ => False).
Proof. exact (GA.source_rectangle_covers n a b p c d q e f r x y w h). Qed.
Print Assumptions C18_source_link_rectangle_covers_transformed_box.

(* ... and is the smallest axis-aligned rectangle that does *)
Theorem C18_source_link_rectangle_is_smallest n a b p c d q e f r x y w h bx1 by1 bx2 by2 :
  (forall s t, 0 <= s <= 1 -> 0 <= t <= 1 ->
     in_rect (bx1, by1, bx2, by2) (transform_point (a, b, c, d, e, f) (x + s * w) (y + t * h))) ->
  Py.run (PyLink.linked GA.T (S (S (S (S n))))) GenAnchors.rectangle_aabb_body
      [("matrix"%string, GA.vmat a b p c d q e f r); ("pos_x"%string, Py.VNum x); ("pos_y"%string, Py.VNum y);
       ("width"%string, Py.VNum w); ("height"%string, Py.VNum h)]
      (fun _ res => exists o1 o2 o3 o4, res = Some (GA.vrect (o1, o2, o3, o4)) /\
         bx1 <= o1 /\ by1 <= o2 /\ o3 <= bx2 /\ o4 <= by2)
      (fun _ => False).
Proof. exact (GA.source_rectangle_smallest n a b p c d q e f r x y w h bx1 by1 bx2 by2). Qed.
Print Assumptions C18_source_link_rectangle_is_smallest.

(* generate_pdf, per page: `matrix = Matrix(scale, 0, 0, -scale, 0, page.height * scale)` ... `page_rectangle = ...`.
   GP.vpage pw ph bl bt br bb rest = a page of width pw, height ph, bleed {left: bl, top: bt, right: br, bottom: bb};
   GP.vpage_matrix s ph = GA.vmat s 0 0 0 (0 - s) 0 0 (ph * s) 1.  For every scale, page and bleed the statements
   bind matrix to that value (the local page_height, which includes the bleed, is not in it), left / top / right /
   bottom to the model's MediaBox and page_rectangle to the model's; they raise only for scale = 0 *)
Theorem C18_source_page_geometry n s pw ph bl bt br bb rest :
  Py.run (PyLink.linked GA.T (S n)) GenPdfPage.page_geometry_body
      [("scale"%string, Py.VNum s); ("page"%string, GP.vpage pw ph bl bt br bb rest)]
      (fun rho res =>
         res = None /\
         Py.lookup "matrix" rho = GP.vpage_matrix s ph /\
         exists l t r b,
           Py.lookup "left" rho = Py.VNum l /\ Py.lookup "top" rho = Py.VNum t /\ Py.lookup "right" rho = Py.VNum r /\
           Py.lookup "bottom" rho = Py.VNum b /\ GA.rect_eq (l, t, r, b) (PM.media_box s pw ph bl bt br bb) /\
           exists pr, Py.lookup "page_rectangle" rho = GA.vrect pr /\
                      GA.rect_eq pr (PM.page_rectangle s pw ph bl bt br bb))
      (fun m => m = "ZeroDivisionError"%string /\ s == 0).
Proof. exact (GP.gen_page_geometry n s pw ph bl bt br bb rest). Qed.
Print Assumptions C18_source_page_geometry.

(* a CSS point (x, y) of the page box goes, through the regenerated transform_point applied to the matrix of the
   page, to (x * scale, (page.height - y) * scale): independent of the bleed *)
Theorem C18_source_page_point_to_pdf n s ph x y :
  exists u v, Py.ocall (PyLink.linked GA.T (S (S (S n)))) ".transform_point"%string
                [GP.vpage_matrix s ph; Py.VNum x; Py.VNum y] = Py.VList [Py.VNum u; Py.VNum v] /\
              u == x * s /\ v == (ph - y) * s.
Proof. exact (GP.source_page_point n s ph x y). Qed.
Print Assumptions C18_source_page_point_to_pdf.

(* a link box (x, y, w, h) of the page goes, through the regenerated rectangle_aabb with the matrix of the page, to
   the rectangle spanned by the images of its corners *)
Theorem C18_source_page_link_rectangle n s ph x y w h :
  0 <= s -> 0 <= w -> 0 <= h ->
  Py.run (PyLink.linked GA.T (S (S (S (S n))))) GenAnchors.rectangle_aabb_body
      [("matrix"%string, GP.vpage_matrix s ph); ("pos_x"%string, Py.VNum x); ("pos_y"%string, Py.VNum y);
       ("width"%string, Py.VNum w); ("height"%string, Py.VNum h)]
      (fun _ res => exists o, res = Some (GA.vrect o) /\
                    GA.rect_eq o (x * s, (ph - (y + h)) * s, (x + w) * s, (ph - y) * s))
      (fun _ => False).
Proof. exact (GP.source_page_link_rectangle n s ph x y w h). Qed.
Print Assumptions C18_source_page_link_rectangle.

(* the TrimBox statements `trim_left = left + bleed['left']` ... : the MediaBox inset by the bleed dict *)
Theorem C18_source_trim_box_is_media_box_inset_by_bleed O (HO : Py.ops_ok O) L Tp R B l t r b :
  Py.run O GenPdfPage.page_trim_body
      [("left"%string, Py.VNum L); ("top"%string, Py.VNum Tp); ("right"%string, Py.VNum R); ("bottom"%string, Py.VNum B);
       ("bleed"%string, GP.vbleed l t r b)]
      (fun rho res => res = None /\
         Py.VList [Py.lookup "trim_left" rho; Py.lookup "trim_top" rho; Py.lookup "trim_right" rho;
                   Py.lookup "trim_bottom" rho] = GA.vrect (PM.trim_box (L, Tp, R, B) l t r b))
      (fun _ => False).
Proof. exact (GP.gen_page_trim O HO L Tp R B l t r b). Qed.
Print Assumptions C18_source_trim_box_is_media_box_inset_by_bleed.

(* on the model: the MediaBox is the page box grown by the bleed, the TrimBox (bleed at scale) is the page box, and
   the corners of the page box go to the corners of the TrimBox *)
Theorem C18_media_box_is_page_plus_bleed s pw ph bl bt br bb :
  GA.rect_eq (PM.media_box s pw ph bl bt br bb) (- (bl * s), - (bt * s), (pw + br) * s, (ph + bb) * s).
Proof. exact (GP.media_box_is_page_plus_bleed s pw ph bl bt br bb). Qed.
Print Assumptions C18_media_box_is_page_plus_bleed.

Theorem C18_trim_box_is_page_box s pw ph bl bt br bb :
  GA.rect_eq (PM.trim_box (PM.media_box s pw ph bl bt br bb) (bl * s) (bt * s) (br * s) (bb * s)) (0, 0, pw * s, ph * s).
Proof. exact (GP.trim_box_is_page_box s pw ph bl bt br bb). Qed.
Print Assumptions C18_trim_box_is_page_box.

Theorem C18_page_corners_go_to_trim_box s pw ph bl bt br bb :
  let '(t1, t2, t3, t4) := PM.trim_box (PM.media_box s pw ph bl bt br bb) (bl * s) (bt * s) (br * s) (bb * s) in
  fst (PM.css_to_pdf s ph 0 ph) == t1 /\ snd (PM.css_to_pdf s ph 0 ph) == t2 /\
  fst (PM.css_to_pdf s ph pw 0) == t3 /\ snd (PM.css_to_pdf s ph pw 0) == t4.
Proof. exact (GP.page_corners_go_to_trim_box s pw ph bl bt br bb). Qed.
Print Assumptions C18_page_corners_go_to_trim_box.

(* ---- 9. source: the level stack of make_page_bookmark_tree (weasyprint/anchors.py), REGENERATED on every run
   (gen/GenAnchors.v, bookmark_stack_step_body: the head of the loop body, `if level > previous_level: ..` through
   `assert depth >= 1`, with `skipped_levels.pop()` hoisted out of the expression by the printer).
   GB.qz q z : the number q is the integer z (q == inject_Z z); GB.qzs l zs : pointwise.  The model's stack has its top
   first: the Python list skipped_levels is `rev lrev`.  GB.stack_step level sk prev = [adjust] (section 1's level
   bookkeeping) followed by depth = level - sum and the two asserts: the head of [step], GB.step_is_stack_step. *)
Require WV.proofs.C18_gen_bookmarks.
Module GB := WV.proofs.C18_gen_bookmarks.
Open Scope Z_scope.

(* the model's step is the translated head followed by the placement of the node at the computed depth *)
Theorem C18_source_step_is_stack_step (A : Type) (s : state A) (level : Z) (a : A) :
  step s level a =
  match GB.stack_step level (skipped s) (prev s) with
  | inl e => inl e
  | inr (sk, depth) =>
      if negb (depth - 1 <? Z.of_nat (S (List.length (opens s)))) then inl EIndex
      else let '(rk, ops) := close_n (List.length (opens s) - (Z.to_nat depth - 1)) (rootk s) (opens s) in
           inr (mkst sk level rk ((npos s, a, nil) :: ops) (S (npos s)))
  end.
Proof. exact (GB.step_is_stack_step s level a). Qed.
Print Assumptions C18_source_step_is_stack_step.

(* every integer level, previous level and stack of integers (shorter than the fuel of the `while`): the regenerated
   statements end with skipped_levels = the model's new stack, previous_level = level, depth = the model's depth
   exactly when the model's head of step succeeds; they raise IndexError exactly when the model says EPopEmpty
   (skipped_levels.pop() on an empty list) and AssertionError exactly when it says EAssertDepthLen / EAssertDepthGe1 *)
Theorem C18_source_bookmark_stack_step O (HO : Py.ops_ok O) level prev sk ql qp lrev :
  GB.qz ql level -> GB.qz qp prev -> GB.qzs lrev sk -> (List.length sk < Py.wfuel O)%nat ->
  Py.run O GenAnchors.bookmark_stack_step_body
      [("level"%string, Py.VNum ql); ("previous_level"%string, Py.VNum qp);
       ("skipped_levels"%string, Py.VList (map Py.VNum (rev lrev)))]
      (fun rho r =>
         match GB.stack_step level sk prev with
         | inr (sk', d) =>
             r = None /\
             exists lrev' qd, Py.lookup "skipped_levels" rho = Py.VList (map Py.VNum (rev lrev')) /\ GB.qzs lrev' sk' /\
                              Py.lookup "previous_level" rho = Py.VNum ql /\
                              Py.lookup "depth" rho = Py.VNum qd /\ GB.qz qd d
         | inl _ => False
         end)
      (fun m => match GB.stack_step level sk prev with inl e => m = GB.err_name e | inr _ => False end).
Proof. exact (GB.gen_bookmark_stack_step O HO level prev sk ql qp lrev). Qed.
Print Assumptions C18_source_bookmark_stack_step.

(* no bound on the stack: with the real operations and fuel len(stack) + 1 *)
Theorem C18_source_bookmark_stack_step_any level prev sk ql qp lrev :
  GB.qz ql level -> GB.qz qp prev -> GB.qzs lrev sk ->
  Py.run (Py.with_fuel Py.real_ops (S (List.length sk))) GenAnchors.bookmark_stack_step_body
      [("level"%string, Py.VNum ql); ("previous_level"%string, Py.VNum qp);
       ("skipped_levels"%string, Py.VList (map Py.VNum (rev lrev)))]
      (GB.stack_post ql level sk prev) (GB.stack_raises level sk prev).
Proof. exact (GB.gen_bookmark_stack_step_any level prev sk ql qp lrev). Qed.
Print Assumptions C18_source_bookmark_stack_step_any.

(* under the invariant of section 1 (previous_level = sum + len of the stack, entries >= 0) a bookmark level >= 1
   makes the regenerated statements end normally - pop() in range, neither assert fires - with the stack [adjust]
   computes, depth = len(skipped_levels) >= 1 (skipped levels are closed up: depth grows by at most one per entry)
   and the invariant again (level = sum + len of the new stack) *)
Theorem C18_source_bookmark_stack_step_never_raises level sk ql qp lrev :
  Forall (fun s => 0 <= s) sk -> 1 <= level -> GB.qz ql level -> GB.qz qp (sumlen sk) -> GB.qzs lrev sk ->
  Py.run (Py.with_fuel Py.real_ops (S (List.length sk))) GenAnchors.bookmark_stack_step_body
      [("level"%string, Py.VNum ql); ("previous_level"%string, Py.VNum qp);
       ("skipped_levels"%string, Py.VList (map Py.VNum (rev lrev)))]
      (fun rho r =>
         r = None /\
         exists lrev' sk' qd,
           Py.lookup "skipped_levels" rho = Py.VList (map Py.VNum (rev lrev')) /\ GB.qzs lrev' sk' /\
           Py.lookup "previous_level" rho = Py.VNum ql /\ Py.lookup "depth" rho = Py.VNum qd /\
           GB.qz qd (Z.of_nat (List.length sk')) /\ (1 <= List.length sk')%nat /\
           Forall (fun s => 0 <= s) sk' /\ level = sumlen sk' /\ adjust level sk (sumlen sk) = inr sk')
      (fun _ => False).
Proof. exact (GB.gen_bookmark_stack_step_never_raises level sk ql qp lrev). Qed.
Print Assumptions C18_source_bookmark_stack_step_never_raises.

(* ---- 10. source: the Count bookkeeping of add_outlines (weasyprint/pdf/anchors.py), REGENERATED on every run
   (gen/GenPdfAnchors.v, outline_count_step_body: `outline['Count'] = children_count` and the `if state == 'closed':
   outline['Count'] *= -1  else: count += children_count` statement of the loop over the bookmarks, right after the
   recursive call; the recursion, the pydyf objects and the Prev / Next / First / Last / Parent entries are not
   translated).  GO.closedb s = (s = "closed"); GO.qz q z : the number q is the integer z. *)
Require WV.gen.GenPdfAnchors WV.proofs.C18_gen_outline_count WV.proofs.PyNatural.
Module GO := WV.proofs.C18_gen_outline_count.

(* every dictionary (entries f), children_count c, state string s and count n: Count becomes c, times -1 exactly when
   the state is 'closed'; count grows by c exactly when it is not; nothing else changes, nothing raises *)
Theorem C18_source_outline_count_step O (HO : Py.ops_ok O) f c s n :
  PyNatural.run_out O GenPdfAnchors.outline_count_step_body
    [("outline"%string, Py.VObj f); ("children_count"%string, Py.VNum c); ("state"%string, Py.VStr s);
     ("count"%string, Py.VNum n)] =
  PyNatural.ONorm
    [("outline"%string, Py.VObj (Py.update "Count" (Py.VNum (if GO.closedb s then (c * (0 - (1 # 1)))%Q else c)) f));
     ("children_count"%string, Py.VNum c); ("state"%string, Py.VStr s);
     ("count"%string, Py.VNum (if GO.closedb s then n else (n + c)%Q))] None.
Proof. exact (GO.gen_outline_count_step O HO f c s n). Qed.
Print Assumptions C18_source_outline_count_step.

(* an item t whose children's count is the model's (what the recursive call returns): its Count is count_spec t - the
   number of its visible descendants, negated when it is closed (section 2) - and the enclosing list's count grows by
   that number exactly when the item is open *)
Theorem C18_source_outline_count_of_item O (HO : Py.ops_ok O) f s qc qn zn (t : ntree) :
  GO.qz qc (ncount_tree t) -> GO.qz qn zn -> GO.closedb s = nclosed t ->
  exists qo qn',
    PyNatural.run_out O GenPdfAnchors.outline_count_step_body
      [("outline"%string, Py.VObj f); ("children_count"%string, Py.VNum qc); ("state"%string, Py.VStr s);
       ("count"%string, Py.VNum qn)] =
    PyNatural.ONorm [("outline"%string, Py.VObj (Py.update "Count" (Py.VNum qo) f)); ("children_count"%string, Py.VNum qc);
                     ("state"%string, Py.VStr s); ("count"%string, Py.VNum qn')] None /\
    GO.qz qo (count_spec t) /\ GO.qz qn' (if nclosed t then zn else zn + visible_desc t).
Proof. exact (GO.gen_outline_count_of_item O HO f s qc qn zn t). Qed.
Print Assumptions C18_source_outline_count_of_item.

(* the regenerated statements iterated over the siblings ks from count = len(bookmarks) (GO.run_count_loop: each item
   with its children's count and its state): the count returned for the list is the number of visible items at all
   levels below it (the Count of the outlines dictionary, and of an open parent) *)
Theorem C18_source_outline_count_is_visible_total O (HO : Py.ops_ok O) (ks : list ntree) :
  exists q, GO.run_count_loop O ks (inject_Z (Z.of_nat (List.length ks))) = Some q /\ GO.qz q (visible_total ks).
Proof. exact (GO.gen_outline_count_is_visible_total O HO ks). Qed.
Print Assumptions C18_source_outline_count_is_visible_total.
