(* C13 - shared definitions and tactics of the proofs about the regenerated gen/GenReplacedBox.v
   (replaced_box_width / _height, min_max_auto_replaced, replacedbox_layout of weasyprint/layout/replaced.py). *)
From Coq Require Import QArith Qminmax List Bool String.
Require Import WV.base.Py WV.proofs.PyTac WV.model.C13Replaced WV.proofs.C13_gen_sizing.
Import ListNotations.
Open Scope string_scope.
Open Scope list_scope.
Open Scope Q_scope.

(* what image.get_intrinsic_size returns: (width, height, ratio), each a number or None *)
Definition vintr (i : intr) : val := VList [voq (iw i); voq (ih i); voq (ir i)].
(* a used length: a number or the keyword 'auto' *)
Definition vauto (x : oq) : val := match x with Some q => VNum q | None => VStr "auto" end.

(* the oracle: box.replacement.get_intrinsic_size(box.style['image_resolution'], box.style['font_size']) is called
   with exactly these three values and answers i *)
Definition intr_oracle (O : qops) (imgf : list (string * val)) (rs fs : Q) (i : intr) : Prop :=
  ocall O ".get_intrinsic_size" [VObj imgf; VNum rs; VNum fs] = vintr i.

(* evaluate up to the next call (weak head reduction only: the continuation, i.e. the rest of the function, is left
   alone - normalising it under the stuck call would be exponential) and normalise the arguments of that call *)
Ltac to_call O :=
  hnf;
  match goal with
  | |- context [ocall O ?f ?a] =>
      let a' := eval lazy -[Py.qadd Py.qsub Py.qmul Py.qdiv Py.qmax Py.qmin Py.qleb Py.qeqb] in a in
      change (ocall O f a) with (ocall O f a')
  end.
(* the decision tree of the CPS interpreter: split at the head test, remember the outcome *)
Ltac paths :=
  repeat match goal with |- (if ?c then _ else _) => let E := fresh "E" in destruct c eqn:E end.
(* make the model follow the same path *)
Ltac use_paths :=
  repeat match goal with
         | H : _ = true |- _ => rewrite H
         | H : _ = false |- _ => rewrite H
         end.
Ltac follow := repeat (progress (use_paths; cbn [negb]; cbv beta iota zeta)).

(* a block split in two (no extensionality needed: naturality of the interpreter at the identity) *)
Require Import WV.proofs.PyNatural.
Lemma exec_block_app O A kret kerr l1 l2 : forall rho k, flowing rho = false ->
  exec_block O A kret kerr (l1 ++ l2) rho k
  = exec_block O A kret kerr l1 rho (fun rho' => if flowing rho' then k rho' else exec_block O A kret kerr l2 rho' k).
Proof.
  induction l1 as [|s l1 IH]; intros rho k Hf; simpl.
  - rewrite Hf. reflexivity.
  - apply (exec_nat O A A (fun x => x) kerr kerr (fun _ => eq_refl) kret kret (fun _ _ => eq_refl) s rho).
    intros rho'. destruct (flowing rho') eqn:E; [reflexivity|]. apply IH, E.
Qed.
