(* C06 - tab_size of weasyprint/css/computed_values.py (tab-size) as REGENERATED from the source on every run
   (gen/GenComputedGap.v), whole: an int (a number of spaces) is kept as it is; anything else goes through length()
   with pixels_only=False - the regenerated body of length (proofs/C06_gen_length.v), i.e. the hand model
   C06Values.length.  Operations lops3 of proofs/C06_gen_border_width.v ("%isinstance" with the marker "%int"). *)
From Coq Require Import QArith Lqa List String Bool Ascii.
Require Import WV.base.Py WV.base.PyLink WV.proofs.PyNatural WV.proofs.PyTac WV.gen.GenComputed WV.gen.GenComputedGap.
Require Import WV.model.C06Values WV.proofs.C06_values WV.proofs.C06_gen_length WV.proofs.C06_gen_border_width.
Import ListNotations.
Open Scope string_scope.
Open Scope list_scope.
Open Scope Q_scope.

Definition tab_size_fn : fn := (tab_size_args, tab_size_body).

Opaque getitem str_replace call_body as_int.

(* an int is kept *)
Lemma ts_run_int O xr cr (HC : calls3_ok O xr cr) own rootfs (root : bool) more n q z :
  as_int q = Some z ->
  run O tab_size_body [("style", style_val own rootfs root more); ("name", VStr n); ("value", VNum q)]
    (bw_post (VNum q)) (fun _ => False).
Proof.
  intros Hq. hnf; rewrite HC;
    match goal with
    | |- context [lcall3 ?xr ?cr "%isinstance" ?a] =>
        replace (lcall3 xr cr "%isinstance" a) with (VBool (isint (VNum q))) by reflexivity
    end; unfold isint; rewrite Hq; hnf; reflexivity.
Qed.

(* a length / keyword: length() with pixels_only=False *)
Lemma ts_run_length O xr cr (HC : calls3_ok O xr cr) own rootfs (root : bool) more n k v :
  run O tab_size_body [("style", style_val own rootfs root more); ("name", VStr n); ("value", lval_val k v)]
    (length_post false (lval_val k v)
       (length (env_of xr cr own rootfs root more) (String.eqb n "font_size") None v)) (fun _ => False).
Proof.
  destruct (gen_length_call (lops xr cr) (lops_ok xr cr) xr cr (lops_calls xr cr) own rootfs root more n k v None false)
    as [res [Hres Hok]].
  remember (length (env_of xr cr own rootfs root more) (String.eqb n "font_size") None v) as r eqn:Er. clear Er.
  (destruct v as [|q u]; [destruct k|]); hnf; callstep HC; rewrite HC;
    match goal with
    | |- context [lcall3 ?xr ?cr "length" ?a] =>
        replace (lcall3 xr cr "length" a) with res by (symmetry; exact Hres)
    end;
    (destruct r as [|px]; simpl in Hok;
     [rewrite Hok; hnf; reflexivity
     |destruct Hok as [q' [Hq ->]]; hnf; exists q'; split; [exact Hq|reflexivity]]).
Qed.

Transparent getitem str_replace call_body as_int.

Ltac by_run5 H :=
  unfold call_body;
  cbn [fst snd PyLink.bind tab_size_fn tab_size_args];
  rewrite run_natural in H; rewrite run_natural;
  destruct (run_out _ _ _) as [rho' [x'|]|m]; try contradiction; try discriminate H; try exact H.

(* the regenerated tab_size under the concrete operations, for EVERY property name, style and value *)
Theorem gen_tab_size xr cr own rootfs (root : bool) more n :
  let call value := call_body (lops3 xr cr) tab_size_fn [style_val own rootfs root more; VStr n; value] in
  (forall q z, as_int q = Some z -> call (VNum q) = VNum q) /\
  (forall k v, res_ok false (lval_val k v)
                 (length (env_of xr cr own rootfs root more) (String.eqb n "font_size") None v)
                 (call (lval_val k v))).
Proof.
  intros call. unfold call. split.
  - intros q z Hq.
    pose proof (ts_run_int (lops3 xr cr) xr cr (lops3_calls xr cr) own rootfs root more n q z Hq) as H.
    unfold bw_post in H. by_run5 H. congruence.
  - intros k v.
    pose proof (ts_run_length (lops3 xr cr) xr cr (lops3_calls xr cr) own rootfs root more n k v) as H.
    by_run5 H.
Qed.

(* the clauses of CSS Text 3 7.2 about the source: a number of spaces stays the number; a length in an absolute unit
   is the fixed multiple of the pixel (a Dimension in px), never negative for a non-negative specified length *)
Theorem gen_tab_size_absolute xr cr own rootfs (root : bool) more n v u f :
  to_pixels u = Some f ->
  exists q, q == v * f /\ (0 <= v -> 0 <= q) /\
    call_body (lops3 xr cr) tab_size_fn
      [style_val own rootfs root more; VStr n; dim v (VStr (unit_str u))] = dim q (VStr "px").
Proof.
  intros Hu.
  pose proof (proj2 (gen_tab_size xr cr own rootfs root more n) KAuto (LDim v u)) as H.
  pose proof (absolute_units (env_of xr cr own rootfs root more) (String.eqb n "font_size") None v u f Hu) as P.
  pose proof (C06_gen_border_width.to_pixels_pos u f Hu) as Hf.
  cbn [lval_val] in H. destruct (length _ _ None (LDim v u)); [contradiction|]. destruct H as [q' [Hq ->]].
  simpl in P. exists q'. split; [rewrite Hq; exact P|split; [|reflexivity]].
  intros Hv. rewrite Hq, P. apply Qmult_le_0_compat; [exact Hv|apply Qlt_le_weak, Hf].
Qed.

Example gen_tab_size_ex :
  let st := style_val 10 16 false [] in
  call_body (lops3 (fun _ => 1 # 2) (fun _ => 1 # 2)) tab_size_fn [st; VStr "tab_size"; VNum 8] = VNum 8 /\
  call_body (lops3 (fun _ => 1 # 2) (fun _ => 1 # 2)) tab_size_fn [st; VStr "tab_size"; dim 2 (VStr "em")]
    = dim (2 * 10) (VStr "px").
Proof. vm_compute. repeat split. Qed.
