(* C11 - absolute_height and absolute_width (without the min/max decorator) of weasyprint/layout/absolute.py as
   REGENERATED from the source on every run (gen/GenAbsolute.v) compute the hand models abs_height / abs_width of
   model/C11Abs.v (on which the CSS 2.1 10.3.7 / 10.6.4 theorems rest), for every auto pattern: the mutated box
   and the returned translation agree field by field (numbers up to ==).  shrink_to_fit stays an oracle. *)
From Coq Require Import QArith Qminmax Lqa List String Bool.
Require Import WV.base.Py WV.gen.GenAbsolute WV.proofs.PyTac WV.model.C11Abs.
Import ListNotations.
Open Scope string_scope.
Open Scope list_scope.
Open Scope Q_scope.

Definition vo (o : oq) : val := match o with Some q => VNum q | None => VStr "auto" end.
(* value v represents o (numbers up to ==) *)
Definition rep (v : val) (o : oq) : Prop :=
  match v, o with
  | VNum x, Some y => x == y
  | VStr s, None => s = "auto"
  | _, _ => False
  end.
Definition repq (v : val) (q : Q) : Prop := match v with VNum x => x == q | _ => False end.

(* ------------------------------------------------------------------ vertical axis *)
Definition vaxis (t bo h mt mb : oq) (pt pbo bt bbo pos : Q) : axis :=
  mk_axis t bo h mt mb (pt + pbo + bt + bbo) pos.
Definition vbox (t bo h mt mb : oq) (pt pbo bt bbo pos : Q) : val :=
  VObj [("top", vo t); ("bottom", vo bo); ("height", vo h); ("margin_top", vo mt); ("margin_bottom", vo mb);
        ("padding_top", VNum pt); ("padding_bottom", VNum pbo); ("border_top_width", VNum bt);
        ("border_bottom_width", VNum bbo); ("position_y", VNum pos)].
Definition vbox_rep (v : val) (b : axis) : Prop :=
  rep (fieldv v "top") (a_start b) /\ rep (fieldv v "bottom") (a_end b) /\ rep (fieldv v "height") (a_size b) /\
  rep (fieldv v "margin_top") (a_ms b) /\ rep (fieldv v "margin_bottom") (a_me b) /\
  repq (fieldv v "position_y") (a_pos b).

Definition height_post (r : ares) (rho : env) (res : option val) : Prop :=
  vbox_rep (lookup "box" rho) (fst r) /\
  exists tb ty, res = Some (VList [VBool tb; VNum ty]) /\ tb = fst (snd r) /\ ty == snd (snd r).

Ltac solve_reps :=
  unfold height_post, vbox_rep, rep, repq, fieldv; cbn;
  repeat split; try reflexivity; try (eexists; eexists; repeat split; try reflexivity); try ring; try field.

Lemma gen_absolute_height O (HO : ops_ok O) t bo h mt mb pt pbo bt bbo pos ctx cbx cby cbw cbh :
  run O absolute_height_body
    [("box", vbox t bo h mt mb pt pbo bt bbo pos); ("context", ctx); ("cb_x", cbx); ("cb_y", VNum cby);
     ("cb_width", cbw); ("cb_height", VNum cbh)]
    (height_post (abs_height cby cbh (vaxis t bo h mt mb pt pbo bt bbo pos))) (fun _ => False).
Proof.
  unfold run, absolute_height_body, vbox, vaxis, abs_height.
  destruct t as [t|], bo as [bo|], h as [h|], mt as [mt|], mb as [mb|];
    lazy -[qadd qsub qmul qdiv qmax qmin qleb qeqb height_post Qplus Qminus Qmult Qdiv Qeq_bool Qle_bool];
    split_paths O; unseal HO;
    try (change (Qeq_bool 2 0) with false; cbv iota);
    try (match goal with H : Qeq_bool 2 0 = true |- _ => vm_compute in H; discriminate H end);
    solve_reps.
Qed.


(* ------------------------------------------------------------------ horizontal axis
   box.style.parent_style: None for the root element, else a style whose direction is ltr or rtl;
   shrink_to_fit(context, box, available) is an oracle: some function stf of the available width *)
Definition haxis (l r w ml mr : oq) (pl pr bl br pos : Q) : axis :=
  mk_axis l r w ml mr (pl + pr + bl + br) pos.
Definition parent_style (root ltr : bool) : val :=
  if root then VNone else VObj [("direction", VStr (if ltr then "ltr" else "rtl"))].
Definition hbox (root ltr : bool) (l r w ml mr : oq) (pl pr bl br pos : Q) : val :=
  VObj [("style", VObj [("parent_style", parent_style root ltr)]);
        ("left", vo l); ("right", vo r); ("width", vo w); ("margin_left", vo ml); ("margin_right", vo mr);
        ("padding_left", VNum pl); ("padding_right", VNum pr); ("border_left_width", VNum bl);
        ("border_right_width", VNum br); ("position_x", VNum pos)].
Definition hbox_rep (v : val) (b : axis) : Prop :=
  rep (fieldv v "left") (a_start b) /\ rep (fieldv v "right") (a_end b) /\ rep (fieldv v "width") (a_size b) /\
  rep (fieldv v "margin_left") (a_ms b) /\ rep (fieldv v "margin_right") (a_me b) /\
  repq (fieldv v "position_x") (a_pos b).
Definition width_post (r : ares) (rho : env) (res : option val) : Prop :=
  hbox_rep (lookup "box" rho) (fst r) /\
  exists tb tx, res = Some (VList [VBool tb; VNum tx]) /\ tb = fst (snd r) /\ tx == snd (snd r).
Definition stf_call (stf : Q -> Q) (f : string) (args : list val) : val :=
  if String.eqb f "shrink_to_fit" then match args with [_; _; VNum a] => VNum (stf a) | _ => VErr "TypeError" end
  else VErr "NameError".


Definition stf_oracle (O : qops) (stf : Q -> Q) : Prop :=
  (forall ctx bx a, ocall O "shrink_to_fit" [ctx; bx; VNum a] = VNum (stf a)) /\
  (forall a a', a == a' -> stf a == stf a').

Ltac fin Hp :=
  match goal with
  | |- _ == _ => first [reflexivity | apply Hp; ring | ring | field]
  | |- _ => reflexivity
  end.
Ltac solve_hreps Hp :=
  unfold width_post, hbox_rep, rep, repq, fieldv;
  cbn [a_pos a_pad a_ms a_me a_start a_end a_size zero_auto_margins set_size set_ms set_me set_margins num0 fst snd
       lookup String.eqb Ascii.eqb Bool.eqb];
  repeat split; try (eexists; eexists; repeat split); fin Hp.
Ltac ev :=
  lazy -[qadd qsub qmul qdiv qmax qmin qleb qeqb ocall width_post Qplus Qminus Qmult Qdiv Qeq_bool Qle_bool
         a_pos a_pad a_ms a_me a_start a_end a_size zero_auto_margins set_size set_ms set_me set_margins num0].

Lemma gen_absolute_width O (HO : ops_ok O) stf (HS : stf_oracle O stf)
      (root ltr : bool) l r w ml mr pl pr bl br pos cbx cby cbw cbh :
  run O absolute_width_body
    [("box", hbox root ltr l r w ml mr pl pr bl br pos); ("context", VObj []); ("cb_x", VNum cbx); ("cb_y", cby);
     ("cb_width", VNum cbw); ("cb_height", cbh)]
    (width_post (abs_width (root || ltr) stf cbx cbw (haxis l r w ml mr pl pr bl br pos))) (fun _ => False).
Proof.
  destruct HS as [Hc Hp].
  unfold run, absolute_width_body, hbox, haxis, abs_width, parent_style.
  (destruct root, ltr, l as [l|], r as [r|], w as [w|], ml as [ml|], mr as [mr|];
    ev; try (rewrite Hc; ev)).
  all: unseal HO.
  all: cbn [a_pos a_pad a_ms a_me a_start a_end a_size zero_auto_margins set_size set_ms set_me set_margins num0].
  all: repeat match goal with
            | |- context [Qle_bool ?a ?b] => destruct (Qle_bool a b) eqn:?
            | |- context [Qeq_bool ?a ?b] => destruct (Qeq_bool a b) eqn:?
            end.
  all: try (match goal with H : Qeq_bool 2 0 = true |- _ => vm_compute in H; discriminate H end).
  all: solve_hreps Hp.
Qed.
