(* C14 - page_width_or_height and compute_fixed_dimension (rules 2-6) of weasyprint/layout/page.py as REGENERATED from
   the source on every run (gen/GenPage.v) compute the hand models of model/C14Box.v (on which the page-box and
   margin-box theorems rest) for every auto pattern: the mutated OrientedBox adapter agrees field by field
   (numbers up to ==).  restore_box_attributes (copying the three attributes back to the real box) is an oracle. *)
From Coq Require Import QArith Qminmax Lqa List String Bool.
Require Import WV.base.Py WV.gen.GenPage WV.proofs.PyTac.
Require WV.model.C14Box.
Import ListNotations.
Open Scope string_scope.
Open Scope list_scope.
Open Scope Q_scope.

Module M := WV.model.C14Box.
Notation oq := (option Q).

Definition vo (o : oq) : val := match o with Some q => VNum q | None => VStr "auto" end.
Definition rep (v : val) (o : oq) : Prop :=
  match v, o with
  | VNum x, Some y => x == y
  | VStr s, None => s = "auto"
  | _, _ => False
  end.
(* the adapter object: margin_a / inner / margin_b are numbers or 'auto', padding_plus_border a number *)
Definition obox (ma inner mb : oq) (pb : Q) : val :=
  VObj [("margin_a", vo ma); ("inner", vo inner); ("margin_b", vo mb); ("padding_plus_border", VNum pb)].
Definition trip_rep (v : val) (t : oq * oq * oq) : Prop :=
  rep (fieldv v "margin_a") (fst (fst t)) /\ rep (fieldv v "inner") (snd (fst t)) /\ rep (fieldv v "margin_b") (snd t).

Definition restore_oracle (O : qops) : Prop := forall b, ocall O ".restore_box_attributes" [b] = VNone.

Definition pwh_post (t : oq * oq * oq) (rho : env) (res : option val) : Prop :=
  res = None /\ trip_rep (lookup "box" rho) t.

Ltac ev post :=
  lazy -[qadd qsub qmul qdiv qmax qmin qleb qeqb ocall post Qplus Qminus Qmult Qdiv Qeq_bool Qle_bool].
Ltac solve_trip post :=
  unfold post, trip_rep, rep, fieldv; cbn; repeat split; try reflexivity; try ring; try field.

Lemma gen_page_width_or_height O (HO : ops_ok O) (HR : restore_oracle O) ma inner mb pb cb :
  run O page_width_or_height_body
    [("box", obox ma inner mb pb); ("containing_block_size", VNum cb)]
    (pwh_post (M.page_width_or_height cb pb ma inner mb)) (fun _ => False).
Proof.
  unfold run, page_width_or_height_body, obox, M.page_width_or_height.
  destruct ma as [ma|], inner as [inner|], mb as [mb|];
    ev pwh_post; rewrite ?HR; ev pwh_post;
    split_paths O; unseal HO;
    try (match goal with H : Qeq_bool 2 0 = true |- _ => vm_compute in H; discriminate H end);
    solve_trip pwh_post.
Qed.

(* ------------------------------------------------------------------ compute_fixed_dimension, rules 2-6 *)
Definition cfd_post (r : M.result (Q * Q * Q)) (rho : env) (res : option val) : Prop :=
  res = None /\
  match r with
  | M.Ok (a, i, b) => trip_rep (lookup "box" rho) (Some a, Some i, Some b)
  | _ => False
  end.
Definition cfd_err (r : M.result (Q * Q * Q)) (m : string) : Prop := m = "AssertionError" /\ r = M.ErrAssert.

Lemma gen_compute_fixed_dimension O (HO : ops_ok O) (HR : restore_oracle O) ma inner mb pb outer (tl : bool) :
  run O compute_fixed_dimension_body
    [("box", obox ma inner mb pb); ("outer", VNum outer); ("top_or_left", VBool tl)]
    (cfd_post (M.compute_fixed_dimension outer pb ma inner mb tl))
    (cfd_err (M.compute_fixed_dimension outer pb ma inner mb tl)).
Proof.
  unfold run, compute_fixed_dimension_body, obox, M.compute_fixed_dimension, M.qgt, M.oval, M.count_auto, M.is_auto.
  destruct tl, ma as [ma|], inner as [inner|], mb as [mb|];
    ev cfd_post; rewrite ?HR; ev cfd_post;
    split_paths O; unseal HO.
  all: try (match goal with H : Qeq_bool 2 0 = true |- _ => vm_compute in H; discriminate H end).
  all: try (match goal with H : Qeq_bool 1 0 = true |- _ => vm_compute in H; discriminate H end).
  all: repeat match goal with
            | |- context [Qle_bool ?a ?b] => destruct (Qle_bool a b) eqn:?
            end.
  all: cbn.
  all: to_props.
  all: try (exfalso; lra).
  all: solve_trip cfd_post.
Qed.

(* ------------------------------------------------------------------ consequences for the source *)
Require Import WV.proofs.PyNatural WV.proofs.C14_box.

Lemma run_consequence O body rho (P P' : env -> option val -> Prop) (E E' : string -> Prop) :
  (forall r v, P r v -> P' r v) -> (forall m, E m -> E' m) -> run O body rho P E -> run O body rho P' E'.
Proof.
  intros HP HE. rewrite !run_natural. destruct (run_out O body rho) as [rho' r|m]; [apply HP|apply HE].
Qed.

(* the three attributes of the adapter after the call are numbers *)
Definition box_nums (rho : env) (a i b : Q) : Prop :=
  exists a' i' b', fieldv (lookup "box" rho) "margin_a" = VNum a' /\ fieldv (lookup "box" rho) "inner" = VNum i' /\
                   fieldv (lookup "box" rho) "margin_b" = VNum b' /\ a' == a /\ i' == i /\ b' == b.

Lemma trip_rep_nums rho a i b : trip_rep (lookup "box" rho) (Some a, Some i, Some b) -> box_nums rho a i b.
Proof.
  unfold trip_rep, box_nums, rep. cbn [fst snd]. intros (Ha & Hi & Hb).
  destruct (fieldv (lookup "box" rho) "margin_a") as [a'| | | | | |]; try contradiction.
  destruct (fieldv (lookup "box" rho) "inner") as [i'| | | | | |]; try contradiction.
  destruct (fieldv (lookup "box" rho) "margin_b") as [b'| | | | | |]; try contradiction.
  exists a', i', b'. repeat split; assumption.
Qed.

(* compute_fixed_dimension of the source never fails its assertion and leaves margin + padding/border + inner +
   margin = the target outer size, keeping a specified inner size *)
Theorem source_fixed_dimension_sum O (HO : ops_ok O) (HR : restore_oracle O) ma inner mb pb outer (tl : bool) :
  run O compute_fixed_dimension_body
    [("box", obox ma inner mb pb); ("outer", VNum outer); ("top_or_left", VBool tl)]
    (fun rho res => res = None /\ exists a i b, box_nums rho a i b /\ a + pb + i + b == outer /\
                    (forall w, inner = Some w -> i = w) /\ (inner = None -> 0 <= i))
    (fun _ => False).
Proof.
  eapply run_consequence; [| |exact (gen_compute_fixed_dimension O HO HR ma inner mb pb outer tl)].
  - intros rho res [Hres Hm].
    destruct (margin_box_fixed_sum outer pb ma inner mb tl) as (a & i & b & Heq & Hsum & Hin & Hpos & _).
    rewrite Heq in Hm. split; [exact Hres|]. exists a, i, b.
    split; [apply trip_rep_nums; exact Hm|]. repeat split; assumption.
  - intros m [_ Hm].
    destruct (margin_box_fixed_sum outer pb ma inner mb tl) as (a & i & b & Heq & _).
    rewrite Heq in Hm. discriminate Hm.
Qed.

(* page_width_or_height of the source: content area = what the margins, borders and paddings leave *)
Theorem source_page_content_area O (HO : ops_ok O) (HR : restore_oracle O) ma inner mb pb cb :
  run O page_width_or_height_body
    [("box", obox ma inner mb pb); ("containing_block_size", VNum cb)]
    (fun rho res => res = None /\ exists a i b, box_nums rho a i b /\
                    (forall v, ma = Some v -> a = v) /\ (forall v, inner = Some v -> i = v) /\
                    (forall v, mb = Some v -> b = v) /\
                    (M.count_auto ma inner mb <> 0%nat -> a + pb + i + b == cb))
    (fun _ => False).
Proof.
  eapply run_consequence; [| |exact (gen_page_width_or_height O HO HR ma inner mb pb cb)].
  - intros rho res [Hres Hm].
    destruct (page_content_area_is_the_rest cb pb ma inner mb) as (a & i & b & Heq & Ha & Hi & Hb & Hsum & _).
    rewrite Heq in Hm. split; [exact Hres|]. exists a, i, b.
    split; [apply trip_rep_nums; exact Hm|]. repeat split; assumption.
  - intros m [].
Qed.
