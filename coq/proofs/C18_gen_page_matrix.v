(* C18 - the per-page geometry statements of generate_pdf (weasyprint/pdf/__init__.py) as REGENERATED from the source
   on every run (gen/GenPdfPage.v: `matrix = Matrix(...)` ... `page_rectangle = ...` and `trim_left = ...` ...
   `trim_bottom = ...` of the page loop) compute the hand model of model/C18PageMatrix.v; the Matrix(...) call runs
   the regenerated constructor of weasyprint/matrix.py.  Consequences about the source: a CSS point of the page box
   goes to (x*scale, (page.height - y)*scale) through the regenerated transform_point, independent of the bleed; a link
   box goes to the rectangle with these corners through the regenerated rectangle_aabb; the MediaBox is the page
   box grown by the bleed and the TrimBox is the MediaBox inset by the bleed, i.e. the page box. *)
From Coq Require Import QArith Qminmax Lqa List String Bool.
Require Import WV.base.Py WV.base.PyLink WV.gen.GenAnchors WV.gen.GenMatrix WV.gen.GenPdfPage WV.proofs.PyTac
               WV.proofs.PyNatural WV.proofs.C18_gen_aabb.
Require WV.model.C18Aabb WV.model.C18PageMatrix WV.model.C14Pdf.
Import ListNotations.
Open Scope string_scope.
Open Scope list_scope.
Open Scope Q_scope.

Module M := WV.model.C18Aabb.
Module G := WV.model.C18PageMatrix.

(* a Page: width, height, bleed dict (any other attributes after them) *)
Definition vbleed (bl bt br bb : Q) : val :=
  VObj [("left", VNum bl); ("top", VNum bt); ("right", VNum br); ("bottom", VNum bb)].
Definition vpage (pw ph bl bt br bb : Q) (rest : list (string * val)) : val :=
  VObj ([("width", VNum pw); ("height", VNum ph); ("bleed", vbleed bl bt br bb)] ++ rest).

(* the matrix value that the statement `matrix = Matrix(scale, 0, 0, -scale, 0, page.height * scale)` binds
   (-scale is printed as 0 - scale) *)
Definition vpage_matrix (s ph : Q) : val := vmat s 0 0 0 (0 - s) 0 0 (ph * s) 1.

Definition geometry_post (s pw ph bl bt br bb : Q) (rho : env) (res : option val) : Prop :=
  res = None /\
  lookup "matrix" rho = vpage_matrix s ph /\
  exists l t r b,
    lookup "left" rho = VNum l /\ lookup "top" rho = VNum t /\ lookup "right" rho = VNum r /\
    lookup "bottom" rho = VNum b /\ rect_eq (l, t, r, b) (G.media_box s pw ph bl bt br bb) /\
    exists pr, lookup "page_rectangle" rho = vrect pr /\ rect_eq pr (G.page_rectangle s pw ph bl bt br bb).

(* every scale, page size and bleed: the statements end normally with these bindings; only scale = 0 (zoom 0) raises,
   at the divisions of page_rectangle *)
Theorem gen_page_geometry n s pw ph bl bt br bb rest :
  run (linked T (S n)) page_geometry_body [("scale", VNum s); ("page", vpage pw ph bl bt br bb rest)]
      (geometry_post s pw ph bl bt br bb) (fun m => m = "ZeroDivisionError" /\ s == 0).
Proof.
  unfold run, page_geometry_body, vpage, vbleed.
  lazy -[Qplus Qminus Qmult Qdiv Qeq_bool Qeq geometry_post].
  destruct (Qeq_bool s 0) eqn:E.
  - split; [reflexivity|]. apply Qeq_bool_iff; exact E.
  - assert (Hs : ~ s == 0) by (intro X; apply Qeq_bool_iff in X; congruence).
    unfold geometry_post. split; [reflexivity|]. split; [reflexivity|].
    lazy -[Qplus Qminus Qmult Qdiv Qeq_bool Qeq Qopp].
    do 4 eexists. repeat (split; [reflexivity|]). split.
    + repeat split; ring.
    + eexists (_, _, _, _). split; [reflexivity|]. cbn [rect_eq]. repeat split; field; exact Hs.
Qed.

Lemma page_matrix_tp s ph x y :
  fst (M.transform_point (s, 0, 0, 0 - s, 0, ph * s) x y) == fst (G.css_to_pdf s ph x y) /\
  snd (M.transform_point (s, 0, 0, 0 - s, 0, ph * s) x y) == snd (G.css_to_pdf s ph x y).
Proof. cbn. split; ring. Qed.

(* a point of the page box, through the regenerated transform_point applied to the matrix of the page: independent
   of the bleed and of the page width *)
Theorem source_page_point n s ph x y :
  exists u v, ocall (linked T (S (S (S n)))) ".transform_point" [vpage_matrix s ph; VNum x; VNum y] = VList [VNum u; VNum v] /\
              u == x * s /\ v == (ph - y) * s.
Proof.
  eexists; eexists; split; [apply tp_value|]. split; ring.
Qed.

(* the model's matrix does what the property demands *)
Theorem page_matrix_point s ph x y :
  fst (M.transform_point (G.page_matrix s ph) x y) == fst (G.css_to_pdf s ph x y) /\
  snd (M.transform_point (G.page_matrix s ph) x y) == snd (G.css_to_pdf s ph x y).
Proof. cbn. split; ring. Qed.

(* the matrix of the page is the model's *)
Lemma page_matrix_model s ph :
  let '(a, b, c, d, e, f) := G.page_matrix s ph in
  a == s /\ b == 0 /\ c == 0 /\ d == 0 - s /\ e == 0 /\ f == ph * s.
Proof. cbn. repeat split; ring. Qed.

Lemma min4_eq a b c d v :
  v <= a /\ v <= b /\ v <= c /\ v <= d -> v == a \/ v == b \/ v == c \/ v == d -> M.min4 a b c d == v.
Proof.
  intros (? & ? & ? & ?) Hc. destruct (WV.proofs.C18_aabb.min4_le a b c d) as (? & ? & ? & ?).
  destruct (WV.proofs.C18_aabb.min4_cases a b c d) as [E|[E|[E|E]]], Hc as [F|[F|[F|F]]]; lra.
Qed.
Lemma max4_eq a b c d v :
  a <= v /\ b <= v /\ c <= v /\ d <= v -> v == a \/ v == b \/ v == c \/ v == d -> M.max4 a b c d == v.
Proof.
  intros (? & ? & ? & ?) Hc. destruct (WV.proofs.C18_aabb.max4_ge a b c d) as (? & ? & ? & ?).
  destruct (WV.proofs.C18_aabb.max4_cases a b c d) as [E|[E|[E|E]]], Hc as [F|[F|[F|F]]]; lra.
Qed.

(* a link box (x, y, w, h) of the page, through the regenerated rectangle_aabb with the matrix of the page: the
   rectangle between the images of its bottom-left and top-right corners *)
Theorem source_page_link_rectangle n s ph x y w h :
  0 <= s -> 0 <= w -> 0 <= h ->
  run (linked T (S (S (S (S n))))) rectangle_aabb_body
      [("matrix", vpage_matrix s ph); ("pos_x", VNum x); ("pos_y", VNum y); ("width", VNum w); ("height", VNum h)]
      (aabb_post (x * s, (ph - (y + h)) * s, (x + w) * s, (ph - y) * s)) (fun _ => False).
Proof.
  intros Hs Hw Hh.
  eapply run_consequence; [| |exact (gen_rectangle_aabb_linked n s 0 0 0 (0 - s) 0 0 (ph * s) 1 x y w h)].
  - intros rho res (o & -> & Ho). exists o. split; [reflexivity|].
    destruct o as [[[o1 o2] o3] o4]. cbn [M.rectangle_aabb M.transform_point rect_eq] in *.
    destruct Ho as (E1 & E2 & E3 & E4). rewrite E1, E2, E3, E4. clear E1 E2 E3 E4.
    assert (0 <= w * s) by nra. assert (0 <= h * s) by nra.
    repeat split.
    + apply min4_eq; [repeat split; lra|left; lra].
    + apply min4_eq; [repeat split; lra|right; right; left; lra].
    + apply max4_eq; [repeat split; lra|right; left; lra].
    + apply max4_eq; [repeat split; lra|left; lra].
  - intros ? [].
Qed.

(* MediaBox = the page box grown by the bleed, in points; C14's model of the same numbers agrees *)
Theorem media_box_is_page_plus_bleed s pw ph bl bt br bb :
  rect_eq (G.media_box s pw ph bl bt br bb) (- (bl * s), - (bt * s), (pw + br) * s, (ph + bb) * s).
Proof. cbn. repeat split; ring. Qed.
Theorem media_box_is_C14_model zoom pw ph bl bt br bb :
  rect_eq (G.media_box (zoom * (3 # 4)) pw ph bl bt br bb) (fst (fst (WV.model.C14Pdf.pdf_boxes pw ph bl bt br bb zoom))).
Proof. cbn. repeat split; ring. Qed.
Theorem page_rectangle_is_css_bleed_box s pw ph bl bt br bb :
  ~ s == 0 -> rect_eq (G.page_rectangle s pw ph bl bt br bb) (- bl, - bt, pw + bl + br, ph + bt + bb).
Proof. intros Hs. cbn. repeat split; field; exact Hs. Qed.

(* ---- TrimBox statements: trim = MediaBox inset by the bleed dict (at scale) ---- *)
Theorem gen_page_trim O (HO : ops_ok O) L Tp R B l t r b :
  run O page_trim_body
      [("left", VNum L); ("top", VNum Tp); ("right", VNum R); ("bottom", VNum B); ("bleed", vbleed l t r b)]
      (fun rho res => res = None /\
         VList [lookup "trim_left" rho; lookup "trim_top" rho; lookup "trim_right" rho; lookup "trim_bottom" rho] =
         vrect (G.trim_box (L, Tp, R, B) l t r b))
      (fun _ => False).
Proof.
  unfold run, page_trim_body, vbleed.
  lazy -[qadd qsub qmul qdiv qmax qmin qleb qeqb ocall Qplus Qminus Qmult Qdiv].
  unseal HO. split; reflexivity.
Qed.

(* with the MediaBox of the page and the bleed at scale ({key: value * scale}), the TrimBox is the page box *)
Theorem trim_box_is_page_box s pw ph bl bt br bb :
  rect_eq (G.trim_box (G.media_box s pw ph bl bt br bb) (bl * s) (bt * s) (br * s) (bb * s)) (0, 0, pw * s, ph * s).
Proof. cbn. repeat split; ring. Qed.

(* the origin of PDF space is the bottom-left corner of the TrimBox and the images of the corners of the page box
   are the corners of the TrimBox: links are placed relative to the page box, not to the bleed box *)
Theorem page_corners_go_to_trim_box s pw ph bl bt br bb :
  let '(t1, t2, t3, t4) := G.trim_box (G.media_box s pw ph bl bt br bb) (bl * s) (bt * s) (br * s) (bb * s) in
  fst (G.css_to_pdf s ph 0 ph) == t1 /\ snd (G.css_to_pdf s ph 0 ph) == t2 /\
  fst (G.css_to_pdf s ph pw 0) == t3 /\ snd (G.css_to_pdf s ph pw 0) == t4.
Proof. cbn. repeat split; ring. Qed.

Example page_geometry_example :
  run (linked T 1) page_geometry_body [("scale", VNum (3#4)); ("page", vpage 400 600 8 12 16 20 [])]
      (fun rho _ => match lookup "matrix" rho, lookup "left" rho, lookup "bottom" rho with
                    | VList [_; _; VList [_; VNum f; _]], VNum l, VNum b =>
                        Qeq_bool f 450 && Qeq_bool l (-6) && Qeq_bool b 465 = true
                    | _, _, _ => False end) (fun _ => False).
Proof. vm_compute. reflexivity. Qed.
