(* C07 - proofs about resolve_var (model/C07Var.v): what it returns is the substitution; fuel suffices on acyclic
   definitions; and the inputs on which the implementation departs from substitution. *)
From Coq Require Import ZArith QArith List Bool String Ascii Lia PeanoNat.
Require Import WV.model.C07Tok WV.model.C07Var.
Import ListNotations.
Open Scope string_scope.

(* ---- structural induction on component values *)
Section TokInd.
  Variable P : tok -> Prop.
  Hypothesis Hident : forall v lv, P (TIdent v lv).
  Hypothesis Hlit : forall v, P (TLit v).
  Hypothesis Hws : P TWs.
  Hypothesis Hcomment : P TComment.
  Hypothesis Hnum : forall v iv, P (TNum v iv).
  Hypothesis Hatom : forall i, P (TAtom i).
  Hypothesis Hfunc : forall n ln args, Forall P args -> P (TFunc n ln args).
  Hypothesis Hblock : forall k c, Forall P c -> P (TBlock k c).

  Fixpoint tok_induction (t : tok) : P t :=
    match t with
    | TIdent v lv => Hident v lv
    | TLit v => Hlit v
    | TWs => Hws
    | TComment => Hcomment
    | TNum v iv => Hnum v iv
    | TAtom i => Hatom i
    | TFunc n ln args =>
        Hfunc n ln args ((fix go (l : list tok) : Forall P l :=
                            match l with
                            | [] => Forall_nil P
                            | x :: r => Forall_cons x (tok_induction x) (go r)
                            end) args)
    | TBlock k c =>
        Hblock k c ((fix go (l : list tok) : Forall P l :=
                       match l with
                       | [] => Forall_nil P
                       | x :: r => Forall_cons x (tok_induction x) (go r)
                       end) c)
    end.
End TokInd.

Lemma has_var_nonfunc t : is_func t = false -> has_var t = false.
Proof. destruct t; simpl; auto; discriminate. Qed.

(* has_var of a function, unfolded once *)
Lemma has_var_func n ln args :
  has_var (TFunc n ln args) =
  let a := remove_whitespace args in
  if String.eqb ln "var" && negb (match a with [] => true | _ => false end) then
    match a with
    | TIdent v _ :: rest => prefix "--" v && match rest with [] => true | second :: _ => is_comma second end
    | _ => false
    end
  else existsb has_var args.
Proof. reflexivity. Qed.

Lemma has_var_func_varfree n ln args :
  String.eqb ln "var" = false -> Forall (fun x => has_var x = false) args -> has_var (TFunc n ln args) = false.
Proof.
  intros Hln Hall. rewrite has_var_func. cbv zeta. rewrite Hln. cbn [andb].
  induction Hall as [|a r Ha _ IH]; simpl; auto. now rewrite Ha, IH.
Qed.

Lemma ws_has_no_var args : remove_whitespace args = [] -> existsb has_var args = false.
Proof.
  unfold remove_whitespace. induction args as [|a args IH]; intro H; auto.
  cbn [filter] in H. destruct (is_ws a) eqn:W; cbn [negb] in H; [|discriminate].
  cbn [existsb]. rewrite (IH H). destruct a; try discriminate; reflexivity.
Qed.

(* a var() that counts has a first argument *)
Lemma has_var_var_ws n ln args :
  String.eqb ln "var" = true -> has_var (TFunc n ln args) = true ->
  exists first rest, remove_whitespace args = first :: rest.
Proof.
  intros Hln Hv. rewrite has_var_func in Hv. cbv zeta in Hv. rewrite Hln in Hv.
  destruct (remove_whitespace args) as [|first rest] eqn:Ea; [|eauto].
  cbn [andb negb] in Hv. rewrite (ws_has_no_var _ Ea) in Hv. discriminate.
Qed.

Definition sres_varfree (o : sres) : Prop :=
  match o with SOk r => Forall (fun x => has_var x = false) r | SInvalid => True end.

Section VarProofs.
  Variable env : string -> list tok.
  Notation resolve_var := (resolve_var env).
  Notation Subst := (Subst env impl_key impl_fallback impl_has_fallback impl_var_name).
  Notation SubstL := (SubstL env impl_key impl_fallback impl_has_fallback impl_var_name).

  Scheme Subst_mut := Minimality for C07Var.Subst Sort Prop
    with SubstL_mut := Minimality for C07Var.SubstL Sort Prop.

  (* ---- what substitution returns has no var() left *)
  Lemma subst_varfree :
    (forall ps t o, Subst ps t o -> sres_varfree o) /\
    (forall ps l o, SubstL ps l o -> sres_varfree o).
  Proof.
    assert (W : forall n ln o, String.eqb ln "var" = false -> sres_varfree o -> sres_varfree (wrap n ln o)).
    { intros n ln [a|] Hln H; simpl in *; auto. constructor; auto. now apply has_var_func_varfree. }
    assert (G : forall a o, Forall (fun x => has_var x = false) a -> sres_varfree o -> sres_varfree (glue a o)).
    { intros a [b|] Ha H; simpl in *; auto. apply Forall_app. now split. }
    split.
    - intros ps t o H.
      induction H using Subst_mut with (P0 := fun ps l o => sres_varfree o); simpl; auto.
    - intros ps l o H.
      induction H using SubstL_mut with (P := fun ps t o => sres_varfree o); simpl; auto.
  Qed.

  Lemma resolve_varfree fuel ps t x : has_var t = false -> resolve_var fuel ps t = Some x -> x = RNone.
  Proof.
    intros H. destruct fuel; simpl; [discriminate|]. rewrite H. simpl. congruence.
  Qed.

  Lemma lift_not_none o : lift o <> Some RNone.
  Proof. destruct o as [[|]|]; discriminate. Qed.

  Lemma resolve_has_var fuel ps t : resolve_var fuel ps t = Some RNone -> has_var t = false.
  Proof.
    destruct fuel; [discriminate|]. cbn [C07Var.resolve_var].
    destruct (has_var t) eqn:E; cbn [negb]; auto.
    destruct t; try discriminate.
    destruct (String.eqb ln "var") eqn:Hln; cbn [negb].
    - destruct (has_var_var_ws _ _ _ Hln E) as (first & rest & Ea). rewrite Ea.
      destruct (str_in (var_key (tok_value first)) ps); [discriminate|].
      destruct (env (var_key (tok_value first))) as [|e0 er].
      + intro H. exfalso. eapply lift_not_none; eauto.
      + destruct (subst_each _ (e0 :: er)) as [[|]|]; try discriminate.
        destruct rest; [discriminate|]. intro H. exfalso. eapply lift_not_none; eauto.
    - destruct (rebuild (resolve_var fuel ps) args) as [[arguments|]|]; try discriminate.
      destruct (resolve_var fuel ps (TFunc n ln arguments)) as [[|[|]|]|]; discriminate.
  Qed.

  (* ---- soundness: whatever resolve_var returns is the substitution *)
  Definition agrees (ps : list string) (t : tok) (x : vres) : Prop :=
    match x with
    | RNone => has_var t = false
    | RToks r => Subst ps t (SOk r)
    | RInvalid => Subst ps t SInvalid
    end.

  Lemma subst_each_sound fuel ps vs o :
    (forall t x, resolve_var fuel ps t = Some x -> agrees ps t x) ->
    subst_each (resolve_var fuel ps) vs = Some o -> SubstL ps vs o.
  Proof.
    intro IH. revert o. induction vs as [|v vs IHv]; intros o H; simpl in H.
    - inversion H. constructor.
    - destruct (resolve_var fuel ps v) as [x|] eqn:E; try discriminate.
      pose proof (IH v x E) as A. destruct x as [|l|]; simpl in A.
      + destruct (subst_each (resolve_var fuel ps) vs) as [rest|] eqn:E2; try discriminate.
        assert (o = glue [v] rest) by (destruct rest; inversion H; reflexivity). subst.
        apply SL_ok; auto. now apply S_plain.
      + destruct (subst_each (resolve_var fuel ps) vs) as [rest|] eqn:E2; try discriminate.
        assert (o = glue l rest) by (destruct rest; inversion H; reflexivity). subst.
        apply SL_ok; auto.
      + inversion H. now apply SL_invalid.
  Qed.

  Lemma rebuild_sound fuel ps args o :
    (forall t x, resolve_var fuel ps t = Some x -> agrees ps t x) ->
    rebuild (resolve_var fuel ps) args = Some o -> SubstL ps args o.
  Proof.
    intro IH. revert o. induction args as [|a args IHa]; intros o H; simpl in H.
    - inversion H. constructor.
    - destruct (is_func a) eqn:Fa.
      + destruct (resolve_var fuel ps a) as [x|] eqn:E; try discriminate.
        pose proof (IH a x E) as A. destruct x as [|l|]; simpl in A.
        * destruct (rebuild (resolve_var fuel ps) args) as [rest|] eqn:E2; try discriminate.
          assert (o = glue [a] rest) by (destruct rest; inversion H; reflexivity). subst.
          apply SL_ok; auto. now apply S_plain.
        * destruct (rebuild (resolve_var fuel ps) args) as [rest|] eqn:E2; try discriminate.
          assert (o = glue l rest) by (destruct rest; inversion H; reflexivity). subst.
          apply SL_ok; auto.
        * inversion H. now apply SL_invalid.
      + destruct (rebuild (resolve_var fuel ps) args) as [rest|] eqn:E2; try discriminate.
        assert (o = glue [a] rest) by (destruct rest; inversion H; reflexivity). subst.
        apply SL_ok; auto. apply S_plain. now apply has_var_nonfunc.
  Qed.

  Lemma lift_sound ps vs o x : SubstL ps vs o -> lift (Some o) = Some x ->
    match x with RNone => False | RToks r => o = SOk r | RInvalid => o = SInvalid end.
  Proof. destruct o; simpl; intros _ H; inversion H; reflexivity. Qed.

  Theorem resolve_var_sound fuel ps t x : resolve_var fuel ps t = Some x -> agrees ps t x.
  Proof.
    revert ps t x. induction fuel as [|f IH]; intros ps t x H; [discriminate|]. cbn [C07Var.resolve_var] in H.
    destruct (has_var t) eqn:Hv; cbn [negb] in H; [|inversion H; exact Hv].
    destruct t; try discriminate.
    destruct (String.eqb ln "var") eqn:Hln; cbn [negb] in H.
    - destruct (has_var_var_ws _ _ _ Hln Hv) as (first & rest & Ea). rewrite Ea in H.
      assert (Hn : impl_var_name args = Some (tok_value first)) by (unfold impl_var_name; now rewrite Ea).
      assert (Hf : impl_fallback args = tl rest) by (unfold impl_fallback; now rewrite Ea).
      assert (Hh : impl_has_fallback args = match rest with [] => false | _ => true end)
        by (unfold impl_has_fallback; rewrite Ea; destruct rest; reflexivity).
      set (k := var_key (tok_value first)) in *.
      destruct (str_in k ps) eqn:Hc.
      { inversion H; subst. simpl. apply S_cycle with (x := tok_value first); auto. }
      assert (Ek : forall P : list tok -> Prop, P (env k) -> P (env (impl_key (tok_value first)))) by (intros P HP; exact HP).
      destruct (env k) as [|e0 erest] eqn:Ee.
      + destruct (subst_each (resolve_var f ps) (tl rest)) as [o|] eqn:Es; try discriminate.
        pose proof (subst_each_sound f ps _ o (IH ps) Es) as SL. rewrite <- Hf in SL.
        destruct o as [l|]; inversion H; subst; simpl;
          (apply S_undefined with (x := tok_value first); auto).
      + assert (Ne : env (impl_key (tok_value first)) <> []) by (change (env k <> []); rewrite Ee; discriminate).
        destruct (subst_each (resolve_var f (ps ++ [k])) (e0 :: erest)) as [[l|]|] eqn:Es; try discriminate.
        * inversion H; subst. simpl. apply S_defined with (x := tok_value first); auto.
          change (SubstL (ps ++ [k]) (env k) (SOk l)). rewrite Ee. eapply subst_each_sound; eauto.
        * assert (SLi : SubstL (ps ++ [impl_key (tok_value first)]) (env (impl_key (tok_value first))) SInvalid).
          { change (SubstL (ps ++ [k]) (env k) SInvalid). rewrite Ee. eapply subst_each_sound; eauto. }
          destruct rest as [|r0 rest'].
          { inversion H; subst. simpl. apply S_invalid_alone with (x := tok_value first); auto. }
          destruct (subst_each (resolve_var f ps) (tl (r0 :: rest'))) as [o|] eqn:Es2; try discriminate.
          pose proof (subst_each_sound f ps _ o (IH ps) Es2) as SL. rewrite <- Hf in SL.
          destruct o as [l|]; inversion H; subst; simpl;
            (apply S_invalid_fallback with (x := tok_value first); auto).
    - destruct (rebuild (resolve_var f ps) args) as [[arguments|]|] eqn:Er; try discriminate.
      + pose proof (rebuild_sound f ps args _ (IH ps) Er) as HL.
        assert (Hfree : has_var (TFunc n ln arguments) = false).
        { apply has_var_func_varfree; auto. exact (proj2 subst_varfree _ _ _ HL). }
        destruct (resolve_var f ps (TFunc n ln arguments)) as [y|] eqn:Et; try discriminate.
        rewrite (resolve_varfree _ _ _ _ Hfree Et) in H. inversion H; subst. simpl.
        exact (S_fun _ _ _ _ _ ps n ln args (SOk arguments) Hv Hln HL).
      + pose proof (rebuild_sound f ps args _ (IH ps) Er) as HL. inversion H; subst. simpl.
        exact (S_fun _ _ _ _ _ ps n ln args SInvalid Hv Hln HL).
  Qed.

  (* the tokens handed to Pending.solve are the substituted tokens of the declaration - or the declaration is
     invalid at computed-value time exactly when substitution says so *)
  Theorem solved_tokens_sound fuel tokens o :
    solved_tokens env fuel tokens = Some o -> SubstL [] tokens o.
  Proof.
    unfold solved_tokens. apply subst_each_sound. intros t x. apply resolve_var_sound.
  Qed.

  (* ---- every reference is substituted by itself *)
  Lemma subst_each_app rv a b :
    subst_each rv (a ++ b) =
    match subst_each rv a with
    | Some (SOk x) => match subst_each rv b with Some (SOk y) => Some (SOk (x ++ y)%list) | other => other end
    | other => other
    end.
  Proof.
    induction a as [|v a IH]; simpl.
    - destruct (subst_each rv b) as [[|]|]; reflexivity.
    - destruct (rv v) as [[|l|]|]; try reflexivity;
        rewrite IH; destruct (subst_each rv a) as [[x|]|]; try reflexivity;
        destruct (subst_each rv b) as [[y|]|]; try reflexivity; now rewrite app_assoc.
  Qed.

  Theorem references_are_independent fuel before t after r :
    solved_tokens env fuel (before ++ t :: after) = Some (SOk r) ->
    exists rb rt ra, r = (rb ++ rt ++ ra)%list /\
                     solved_tokens env fuel before = Some (SOk rb) /\ solved_tokens env fuel [t] = Some (SOk rt) /\
                     solved_tokens env fuel after = Some (SOk ra).
  Proof.
    unfold solved_tokens. rewrite subst_each_app.
    destruct (subst_each _ before) as [[rb|]|]; try discriminate.
    change (t :: after) with ([t] ++ after)%list. rewrite subst_each_app.
    destruct (subst_each _ [t]) as [[rt|]|]; try discriminate.
    destruct (subst_each _ after) as [[ra|]|]; try discriminate.
    intro H. inversion H. eauto 10.
  Qed.

  (* a reference to a property whose value substitutes well does not look at its fallback *)
  Theorem fallback_unused_when_defined fuel ps n ln v lv fb e0 erest l :
    env (var_key v) = e0 :: erest -> str_in (var_key v) ps = false ->
    subst_each (resolve_var fuel (ps ++ [var_key v])) (e0 :: erest) = Some (SOk l) ->
    has_var (TFunc n ln (TIdent v lv :: TLit "," :: fb)) = true -> String.eqb ln "var" = true ->
    resolve_var (S fuel) ps (TFunc n ln (TIdent v lv :: TLit "," :: fb)) = Some (RToks l).
  Proof.
    intros Hd Hc Hs H1 Hln. cbn [C07Var.resolve_var].
    rewrite H1, Hln. cbn [negb]. unfold remove_whitespace. cbn [filter is_ws negb tok_value].
    rewrite Hc, Hd, Hs. reflexivity.
  Qed.

  (* a reference to an undefined property is its own fallback: the textual remainder after the first comma *)
  Theorem fallback_used_when_undefined fuel ps n ln v lv fb :
    env (var_key v) = [] -> str_in (var_key v) ps = false ->
    has_var (TFunc n ln (TIdent v lv :: TLit "," :: fb)) = true -> String.eqb ln "var" = true ->
    resolve_var (S fuel) ps (TFunc n ln (TIdent v lv :: TLit "," :: fb)) =
    lift (subst_each (resolve_var fuel ps) (remove_whitespace fb)).
  Proof.
    intros Hu Hc H1 Hln. cbn [C07Var.resolve_var]. rewrite H1, Hln. cbn [negb].
    unfold remove_whitespace. cbn [filter is_ws negb tok_value tl]. rewrite Hc, Hu. reflexivity.
  Qed.

  (* a reference to a property that is invalid (a cycle) is its own fallback too *)
  Theorem fallback_used_when_invalid fuel ps n ln v lv fb e0 erest :
    env (var_key v) = e0 :: erest -> str_in (var_key v) ps = false ->
    subst_each (resolve_var fuel (ps ++ [var_key v])) (e0 :: erest) = Some SInvalid ->
    has_var (TFunc n ln (TIdent v lv :: TLit "," :: fb)) = true -> String.eqb ln "var" = true ->
    resolve_var (S fuel) ps (TFunc n ln (TIdent v lv :: TLit "," :: fb)) =
    lift (subst_each (resolve_var fuel ps) (remove_whitespace fb)).
  Proof.
    intros Hd Hc Hs H1 Hln. cbn [C07Var.resolve_var]. rewrite H1, Hln. cbn [negb].
    unfold remove_whitespace. cbn [filter is_ws negb tok_value tl]. rewrite Hc, Hd, Hs. reflexivity.
  Qed.

  (* ---- fuel suffices when the definitions are acyclic *)
  Variable rk : string -> nat.
  Hypothesis Hranked : ranked env rk.

  Lemma subst_each_total F ps vs :
    (forall v, In v vs -> forall f, (F <= f)%nat -> exists x, resolve_var f ps v = Some x) ->
    forall f, (F <= f)%nat -> exists r, subst_each (resolve_var f ps) vs = Some r.
  Proof.
    induction vs as [|v vs IH]; intros H f Hf; simpl.
    - eauto.
    - destruct (H v (or_introl eq_refl) f Hf) as [x Hx]. rewrite Hx.
      destruct (IH (fun u Hu => H u (or_intror Hu)) f Hf) as [rest Hrest]. rewrite Hrest.
      destruct x; destruct rest; eauto.
  Qed.

  Lemma rebuild_total F ps args :
    (forall a, In a args -> forall f, (F <= f)%nat -> exists x, resolve_var f ps a = Some x) ->
    forall f, (F <= f)%nat -> exists r, rebuild (resolve_var f ps) args = Some r.
  Proof.
    induction args as [|a args IH]; intros H f Hf; simpl.
    - eauto.
    - destruct (IH (fun u Hu => H u (or_intror Hu)) f Hf) as [rest Hrest]. rewrite Hrest.
      destruct (is_func a) eqn:Fa; [|destruct rest; eauto].
      destruct (H a (or_introl eq_refl) f Hf) as [[|l|] Hl]; rewrite Hl; destruct rest; eauto.
  Qed.

  Lemma forallb_fix (g : tok -> bool) args :
    (fix all (l : list tok) : bool := match l with [] => true | a :: r => g a && all r end) args = forallb g args.
  Proof. reflexivity. Qed.

  Lemma common_bound {A} (Q : A -> nat -> Prop) (l : list A) :
    Forall (fun a => exists F, forall f, (F <= f)%nat -> Q a f) l ->
    exists F, forall a, In a l -> forall f, (F <= f)%nat -> Q a f.
  Proof.
    induction 1 as [|a l [Fa Ha] _ [Fl Hl]].
    - exists 0%nat. intros a [].
    - exists (Nat.max Fa Fl). intros b [<-|Hb] f Hf.
      + apply Ha. lia.
      + apply Hl; auto. lia.
  Qed.

  Lemma lift_total o : exists x, lift (Some o) = Some x.
  Proof. destruct o; simpl; eauto. Qed.

  Theorem resolve_var_fuel_sufficient n t :
    refs_lt rk n t = true ->
    forall ps, exists F, forall f, (F <= f)%nat -> exists x, resolve_var f ps t = Some x.
  Proof.
    revert t. induction n as [n IHn] using lt_wf_ind.
    assert (Plain : forall t, has_var t = false ->
              forall ps, exists F, forall f, (F <= f)%nat -> exists x, resolve_var f ps t = Some x).
    { intros t Hv ps. exists 1%nat. intros f Hf. destruct f as [|f]; [lia|]. cbn [C07Var.resolve_var]. rewrite Hv.
      simpl. eauto. }
    induction t as [| | | | | |nm ln args IHargs|] using tok_induction; intros Hrefs ps;
      try (apply Plain; reflexivity).
    destruct (has_var (TFunc nm ln args)) eqn:Hv; [|now apply Plain].
    cbn [refs_lt] in Hrefs. rewrite Hv, forallb_fix in Hrefs.
    apply andb_true_iff in Hrefs. destruct Hrefs as [Hname Hrefs].
    rewrite forallb_forall in Hrefs.
    assert (Bargs : forall ps', exists F, forall a, In a args -> forall f, (F <= f)%nat ->
                                        exists x, resolve_var f ps' a = Some x).
    { intro ps'. apply (common_bound (fun a f => exists x, resolve_var f ps' a = Some x)).
      rewrite Forall_forall in *. intros a Ha. apply IHargs; auto. }
    destruct (String.eqb ln "var") eqn:Hln.
    - destruct (has_var_var_ws _ _ _ Hln Hv) as (first & rest & Ea).
      rewrite Ea in Hname. apply Nat.ltb_lt in Hname.
      set (k := var_key (tok_value first)) in *.
      assert (Dflt : forall u, In u (tl rest) -> In u args).
      { intros u Hu.
        assert (In u (remove_whitespace args)).
        { rewrite Ea. right. destruct rest; [destruct Hu|now right]. }
        unfold remove_whitespace in H. apply filter_In in H. tauto. }
      destruct (Bargs ps) as [Fa HFa].
      destruct (str_in k ps) eqn:Hc.
      { exists 1%nat. intros f Hf. destruct f as [|f]; [lia|].
        cbn [C07Var.resolve_var]. rewrite Hv, Hln, Ea. fold k. rewrite Hc. simpl. eauto. }
      destruct (env k) as [|e0 erest] eqn:Ee.
      + exists (S Fa). intros f Hf. destruct f as [|f]; [lia|].
        cbn [C07Var.resolve_var]. rewrite Hv, Hln, Ea. fold k. rewrite Hc, Ee. cbn [negb].
        destruct (subst_each_total Fa ps (tl rest)) with (f := f) as [r Hr]; [|lia|].
        * intros u Hu. apply HFa. now apply Dflt.
        * rewrite Hr. apply lift_total.
      + assert (Benv : exists F, forall u, In u (e0 :: erest) -> forall f, (F <= f)%nat ->
                         exists x, resolve_var f (ps ++ [k]) u = Some x).
        { apply (common_bound (fun u f => exists x, resolve_var f (ps ++ [k]) u = Some x)).
          pose proof (Hranked k) as Hk. rewrite Ee in Hk. rewrite Forall_forall in *.
          intros u Hu. apply (IHn _ Hname u (Hk u Hu)). }
        destruct Benv as [Fe HFe].
        exists (S (Nat.max Fe Fa)). intros f Hf. destruct f as [|f]; [lia|].
        cbn [C07Var.resolve_var]. rewrite Hv, Hln, Ea. fold k. rewrite Hc, Ee. cbn [negb].
        destruct (subst_each_total Fe (ps ++ [k]) (e0 :: erest) HFe f) as [r Hr]; [lia|].
        rewrite Hr. destruct r as [l|]; [eauto|].
        destruct rest as [|r0 rest']; [eauto|].
        destruct (subst_each_total Fa ps (tl (r0 :: rest'))) with (f := f) as [r2 Hr2]; [|lia|].
        * intros u Hu. apply HFa. now apply Dflt.
        * rewrite Hr2. apply lift_total.
    - destruct (Bargs ps) as [Fa HFa].
      exists (S (S Fa)). intros f Hf. destruct f as [|f]; [lia|].
      cbn [C07Var.resolve_var]. rewrite Hv, Hln. cbn [negb].
      destruct (rebuild_total Fa ps args HFa f) as [r Hr]; [lia|]. rewrite Hr.
      destruct r as [r|]; [|eauto].
      assert (Hfree : has_var (TFunc nm ln r) = false).
      { apply has_var_func_varfree; auto.
        apply (proj2 subst_varfree ps args (SOk r)). eapply rebuild_sound; eauto.
        intros t0 x0. apply resolve_var_sound. }
      destruct f as [|f]; [lia|]. cbn [C07Var.resolve_var]. rewrite Hfree. simpl. eauto.
  Qed.

  Theorem solved_tokens_fuel_sufficient n tokens :
    Forall (fun t => refs_lt rk n t = true) tokens ->
    exists F, forall f, (F <= f)%nat -> exists o, solved_tokens env f tokens = Some o /\ SubstL [] tokens o.
  Proof.
    intro H.
    destruct (common_bound (fun t f => exists x, resolve_var f [] t = Some x) tokens) as [F HF].
    { rewrite Forall_forall in *. intros t Ht. exact (resolve_var_fuel_sufficient n t (H t Ht) []). }
    exists F. intros f Hf. destruct (subst_each_total F [] tokens HF f Hf) as [r Hr].
    exists r. split; auto. now apply (solved_tokens_sound f).
  Qed.
End VarProofs.

(* ------------------------------------------------------------------ cycles, fallbacks, names *)
Definition VAR (name : string) (rest : list tok) := TFunc "var" "var" (TIdent name name :: rest).

(* a property that refers to itself is invalid at computed-value time: var(--x, 7) is 7, var(--x) alone makes the
   declaration invalid (it used to erase the reference and never use the fallback: finding F180, repaired) *)
Theorem cycle_uses_fallback :
  let env := fun k => if String.eqb k "__x" then [TAtom 1; VAR "--x" []] else [] in
  solved_tokens env 5 [VAR "--x" [TLit ","; TAtom 7]] = Some (SOk [TAtom 7]) /\
  solved_tokens env 5 [VAR "--x" []; TAtom 2] = Some SInvalid /\
  (let env2 := fun k => if String.eqb k "__x" then [VAR "--y" []] else
                        if String.eqb k "__y" then [VAR "--x" []] else [] in
   solved_tokens env2 6 [VAR "--x" [TLit ","; TAtom 7]; VAR "--y" [TLit ","; TAtom 8]] = Some (SOk [TAtom 7; TAtom 8])).
Proof. repeat split; reflexivity. Qed.

(* the fallback is the textual remainder after the first comma, commas included: what the grammar
   var( <custom-property-name> [, <declaration-value>]? ) says (css_fallback) *)
Lemma all_ws_filtered (w : list tok) (l : list tok) :
  Forall (fun t => is_ws t = true) w -> remove_whitespace (w ++ l) = remove_whitespace l.
Proof.
  induction 1 as [|t w Ht _ IH]; [reflexivity|]. unfold remove_whitespace in *. cbn [app filter]. now rewrite Ht.
Qed.

Lemma after_first_comma_ws (w : list tok) (l : list tok) :
  Forall (fun t => is_ws t = true) w -> after_first_comma (w ++ l) = after_first_comma l.
Proof.
  induction 1 as [|t w Ht _ IH]; [reflexivity|]. cbn [app after_first_comma].
  destruct t; try discriminate; exact IH.
Qed.

Theorem fallback_is_textual_remainder w1 name w2 rest :
  Forall (fun t => is_ws t = true) w1 -> Forall (fun t => is_ws t = true) w2 ->
  is_ws name = false -> is_comma name = false ->
  impl_fallback (w1 ++ name :: w2 ++ TLit "," :: rest) = css_fallback (w1 ++ name :: w2 ++ TLit "," :: rest) /\
  impl_fallback (w1 ++ name :: w2 ++ TLit "," :: rest) = remove_whitespace rest.
Proof.
  intros H1 H2 Hn Hc. unfold impl_fallback, css_fallback.
  rewrite (all_ws_filtered w1), (after_first_comma_ws w1) by assumption.
  assert (A : remove_whitespace (name :: w2 ++ TLit "," :: rest) = name :: TLit "," :: remove_whitespace rest).
  { change (name :: w2 ++ TLit "," :: rest) with ([name] ++ (w2 ++ TLit "," :: rest))%list.
    unfold remove_whitespace at 1. rewrite filter_app. cbn [filter]. rewrite Hn. cbn [negb app].
    f_equal. fold (remove_whitespace (w2 ++ TLit "," :: rest)). now rewrite (all_ws_filtered w2). }
  rewrite A. cbn [tl after_first_comma]. rewrite Hc.
  rewrite (after_first_comma_ws w2) by assumption. cbn [after_first_comma is_comma is_lit String.eqb].
  rewrite ?String.eqb_refl. split; reflexivity.
Qed.

Example fallback_commas_kept :
  let env := fun _ : string => @nil tok in
  let args := [TIdent "--u" "--u"; TLit ","; TWs; TIdent "a" "a"; TLit ","; TWs; TIdent "b" "b"] in
  resolve_var env 2 [] (TFunc "var" "var" args) = Some (RToks [TIdent "a" "a"; TLit ","; TIdent "b" "b"]).
Proof. reflexivity. Qed.

(* distinct names are distinct properties: the key keeps the exact name *)
Theorem distinct_names_distinct_properties x y :
  prefix "--" x = true -> prefix "--" y = true -> impl_key x = impl_key y -> x = y.
Proof.
  intros Hx Hy H.
  assert (D : forall n, prefix "--" n = true -> n = String "-" (String "-" (drop 2 n))).
  { intros n Hn. destruct n as [|c1 [|c2 r]]; try discriminate Hn.
    - change (prefix "--" (String c1 "")) with (if ascii_dec "-" c1 then false else false) in Hn.
      destruct (ascii_dec "-" c1); discriminate.
    - change (prefix "--" (String c1 (String c2 r)))
        with (if ascii_dec "-" c1 then (if ascii_dec "-" c2 then prefix "" r else false) else false) in Hn.
      destruct (ascii_dec "-" c1); [|discriminate]. destruct (ascii_dec "-" c2); [|discriminate]. subst. reflexivity. }
  unfold impl_key, var_key in H.
  assert (E : drop 2 x = drop 2 y).
  { change ("__" ++ drop 2 x)%string with (String "_" (String "_" (drop 2 x))) in H.
    change ("__" ++ drop 2 y)%string with (String "_" (String "_" (drop 2 y))) in H. now inversion H. }
  rewrite (D x Hx), (D y Hy), E. reflexivity.
Qed.

Example dash_underscore_distinct : impl_key "--a-b" <> impl_key "--a_b".
Proof. discriminate. Qed.

(* 2. an undefined custom property without fallback is not "invalid at computed-value time": the var() is erased
   and the rest of the declaration is validated - padding: var(--p) 2px computes as padding: 2px (finding
   var:undefined-dropped; only a value made of the var() alone ends with no tokens, which solve() refuses) *)
Theorem undefined_var_is_erased :
  let env := fun _ : string => @nil tok in
  solved_tokens env 2 [VAR "--p" []; TWs; TAtom 2] = Some (SOk [TWs; TAtom 2]) /\
  solved_tokens env 2 [VAR "--p" []] = Some (SOk []).
Proof. split; reflexivity. Qed.

(* a var()-free function next to a var() inside a function is kept (it used to raise) *)
Example plain_function_argument_kept :
  let env := fun k => if String.eqb k "__a" then [TAtom 5] else [] in
  solved_tokens env 4 [TFunc "calc" "calc" [VAR "--a" []; TFunc "max" "max" [TAtom 1]]] =
  Some (SOk [TFunc "calc" "calc" [TAtom 5; TFunc "max" "max" [TAtom 1]]]).
Proof. reflexivity. Qed.

(* the hypotheses of the sufficiency theorem are satisfiable: --a: var(--b) 1 ; --b: 2 *)
Example ranked_example :
  let env := fun k => if String.eqb k "__a" then [VAR "--b" []; TAtom 1]
                      else if String.eqb k "__b" then [TAtom 2] else [] in
  let rk := fun k => if String.eqb k "__a" then 1%nat else 0%nat in
  ranked env rk /\
  solved_tokens env 6 [TFunc "calc" "calc" [VAR "--a" []; TWs; VAR "--u" [TLit ","; TAtom 7]]] =
  Some (SOk [TFunc "calc" "calc" [TAtom 2; TAtom 1; TWs; TAtom 7]]).
Proof.
  intros env rk. split; [|reflexivity].
  intro k. unfold env, rk.
  destruct (String.eqb k "__a"); [repeat constructor|].
  destruct (String.eqb k "__b"); repeat constructor.
Qed.
