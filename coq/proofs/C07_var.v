(* C07 - proofs about resolve_var (model/C07Var.v): what it returns is the substitution; fuel suffices on acyclic
   definitions; and the inputs on which the implementation departs from substitution. *)
From Coq Require Import ZArith QArith List Bool String Ascii Lia PeanoNat.
Require Import WV.model.C07Tok WV.model.C07Var.
Import ListNotations.
Open Scope string_scope.

(* ---- structural induction on component values *)
Section TokInd.
  Variable P : tok -> Prop.
  Hypothesis Hident : forall v lv, P (TIdent v lv).
  Hypothesis Hlit : forall v, P (TLit v).
  Hypothesis Hws : P TWs.
  Hypothesis Hcomment : P TComment.
  Hypothesis Hnum : forall v iv, P (TNum v iv).
  Hypothesis Hatom : forall i, P (TAtom i).
  Hypothesis Hfunc : forall n ln args, Forall P args -> P (TFunc n ln args).
  Hypothesis Hblock : forall k c, Forall P c -> P (TBlock k c).

  Fixpoint tok_induction (t : tok) : P t :=
    match t with
    | TIdent v lv => Hident v lv
    | TLit v => Hlit v
    | TWs => Hws
    | TComment => Hcomment
    | TNum v iv => Hnum v iv
    | TAtom i => Hatom i
    | TFunc n ln args =>
        Hfunc n ln args ((fix go (l : list tok) : Forall P l :=
                            match l with
                            | [] => Forall_nil P
                            | x :: r => Forall_cons x (tok_induction x) (go r)
                            end) args)
    | TBlock k c =>
        Hblock k c ((fix go (l : list tok) : Forall P l :=
                       match l with
                       | [] => Forall_nil P
                       | x :: r => Forall_cons x (tok_induction x) (go r)
                       end) c)
    end.
End TokInd.

Lemma has_var_nonfunc t : is_func t = false -> has_var t = false.
Proof. destruct t; simpl; auto; discriminate. Qed.

(* has_var of a function, unfolded once *)
Lemma has_var_func n ln args :
  has_var (TFunc n ln args) =
  if fn_ok (TFunc n ln args) then
    if String.eqb ln "var" && negb (match fn_args args with [] => true | _ => false end) then
      match fn_args args with TIdent v _ :: _ => prefix "--" v | _ => false end
    else existsb has_var args
  else false.
Proof.
  reflexivity.
Qed.

Lemma has_var_func_varfree n ln args :
  String.eqb ln "var" = false -> Forall (fun x => has_var x = false) args -> has_var (TFunc n ln args) = false.
Proof.
  intros Hln Hall. rewrite has_var_func. destruct (fn_ok _); auto. rewrite Hln. simpl.
  induction Hall as [|a r Ha _ IH]; simpl; auto. now rewrite Ha, IH.
Qed.

Lemma fn_args_nil args : fn_args args = [] -> existsb has_var args = false.
Proof.
  induction args as [|a args IH]; intro H; auto.
  unfold fn_args in H. simpl in H.
  destruct (negb (is_ws a) && negb (is_comma a)) eqn:E; [discriminate|].
  simpl. rewrite (IH H). destruct a; simpl in *; auto; discriminate.
Qed.

(* a var() that counts names its custom property first *)
Lemma has_var_var n ln args :
  String.eqb ln "var" = true -> has_var (TFunc n ln args) = true ->
  exists v lv default, fn_args args = TIdent v lv :: default.
Proof.
  intros Hln Hv. rewrite has_var_func, Hln in Hv.
  destruct (fn_ok _); [|discriminate].
  destruct (fn_args args) as [|a default] eqn:Ea.
  - simpl in Hv. rewrite (fn_args_nil _ Ea) in Hv. discriminate.
  - simpl in Hv. destruct a; try discriminate. eauto.
Qed.

Lemma fn_args_remove_ws args t d : fn_args args = t :: d -> remove_whitespace args <> [].
Proof.
  unfold fn_args, remove_whitespace. induction args as [|a args IH]; [discriminate|].
  cbn [filter]. destruct (negb (is_ws a)); [discriminate|]. cbn [andb]. exact IH.
Qed.

Lemma has_var_var_ws n ln args :
  String.eqb ln "var" = true -> has_var (TFunc n ln args) = true ->
  exists first rest, remove_whitespace args = first :: rest.
Proof.
  intros Hln Hv. destruct (has_var_var _ _ _ Hln Hv) as (v & lv & d & Ea).
  pose proof (fn_args_remove_ws _ _ _ Ea) as N.
  destruct (remove_whitespace args) as [|first rest]; [congruence|eauto].
Qed.

Section VarProofs.
  Variable env : string -> list tok.
  Notation resolve_var := (resolve_var env).
  Notation Subst := (Subst env impl_key impl_fallback impl_var_name).
  Notation SubstL := (SubstL env impl_key impl_fallback impl_var_name).

  Scheme Subst_mut := Minimality for C07Var.Subst Sort Prop
    with SubstL_mut := Minimality for C07Var.SubstL Sort Prop.

  (* ---- what substitution returns has no var() left *)
  Lemma subst_varfree :
    (forall ps t r, Subst ps t r -> Forall (fun x => has_var x = false) r) /\
    (forall ps l r, SubstL ps l r -> Forall (fun x => has_var x = false) r).
  Proof.
    split.
    - intros ps t r H.
      induction H using Subst_mut with
        (P0 := fun ps l r => Forall (fun x => has_var x = false) r); auto.
      + constructor; auto. apply has_var_func_varfree; auto.
      + apply Forall_app. split; assumption.
    - intros ps l r H.
      induction H using SubstL_mut with
        (P := fun ps t r => Forall (fun x => has_var x = false) r); auto.
      + constructor; auto. apply has_var_func_varfree; auto.
      + apply Forall_app. split; assumption.
  Qed.

  Lemma resolve_varfree fuel ps t x : has_var t = false -> resolve_var fuel ps t = Some x -> x = RNone.
  Proof.
    intros H. destruct fuel; simpl; [discriminate|]. rewrite H. simpl. congruence.
  Qed.

  Lemma resolve_has_var fuel ps t : resolve_var fuel ps t = Some RNone -> has_var t = false.
  Proof.
    destruct fuel; simpl; [discriminate|].
    destruct (has_var t) eqn:E; simpl; auto.
    destruct t; try discriminate.
    destruct (String.eqb ln "var") eqn:Hln; simpl.
    - destruct (has_var_var_ws _ _ _ Hln E) as (first & rest & Ea). rewrite Ea.
      destruct (str_in (var_key (tok_value first)) ps); [discriminate|].
      destruct (subst_each _ _); discriminate.
    - destruct (rebuild (resolve_var fuel ps) args) as [arguments|]; try discriminate.
      destruct (resolve_var fuel ps (TFunc n ln arguments)) as [[|[|]]|]; discriminate.
  Qed.

  (* ---- soundness: whatever resolve_var returns is the substitution *)
  Lemma subst_each_sound fuel ps vs r :
    (forall t x, resolve_var fuel ps t = Some (RToks x) -> Subst ps t x) ->
    subst_each (resolve_var fuel ps) vs = Some r -> SubstL ps vs r.
  Proof.
    intro IH. revert r. induction vs as [|v vs IHv]; intros r H; simpl in H.
    - inversion H. constructor.
    - destruct (resolve_var fuel ps v) as [x|] eqn:E; try discriminate.
      destruct (subst_each (resolve_var fuel ps) vs) as [rest|] eqn:E2; try discriminate.
      inversion H; subst. destruct x as [|l].
      + change (v :: rest) with ([v] ++ rest)%list. constructor; auto.
        apply S_plain. eapply resolve_has_var; eauto.
      + constructor; auto.
  Qed.

  Lemma rebuild_sound fuel ps args r :
    (forall t x, resolve_var fuel ps t = Some (RToks x) -> Subst ps t x) ->
    rebuild (resolve_var fuel ps) args = Some r -> SubstL ps args r.
  Proof.
    intro IH. revert r. induction args as [|a args IHa]; intros r H; simpl in H.
    - inversion H. constructor.
    - destruct (is_func a) eqn:Fa.
      + destruct (resolve_var fuel ps a) as [[|l]|] eqn:E; try discriminate;
          destruct (rebuild (resolve_var fuel ps) args) as [rest|] eqn:E2; try discriminate;
          inversion H; subst.
        * change (a :: rest) with ([a] ++ rest)%list. constructor; auto.
          apply S_plain. eapply resolve_has_var; eauto.
        * constructor; auto.
      + destruct (rebuild (resolve_var fuel ps) args) as [rest|] eqn:E2; try discriminate.
        inversion H; subst. change (a :: rest) with ([a] ++ rest)%list.
        constructor; auto. apply S_plain. now apply has_var_nonfunc.
  Qed.

  Theorem resolve_var_sound fuel ps t r : resolve_var fuel ps t = Some (RToks r) -> Subst ps t r.
  Proof.
    revert ps t r. induction fuel as [|f IH]; intros ps t r H; simpl in H; [discriminate|].
    destruct (has_var t) eqn:Hv; simpl in H; [|discriminate].
    destruct t; try discriminate.
    destruct (String.eqb ln "var") eqn:Hln; simpl in H.
    - destruct (has_var_var_ws _ _ _ Hln Hv) as (first & rest & Ea). rewrite Ea in H.
      destruct (str_in (var_key (tok_value first)) ps) eqn:Hc.
      + inversion H; subst. apply S_cycle with (x := tok_value first); auto. unfold impl_var_name. now rewrite Ea.
      + destruct (subst_each _ _) as [l|] eqn:Es; try discriminate. inversion H; subst.
        apply S_var with (x := tok_value first); auto.
        * unfold impl_var_name. now rewrite Ea.
        * unfold impl_key, impl_fallback. rewrite Ea. cbn [tl].
          destruct (env (var_key (tok_value first))); eapply subst_each_sound; eauto.
    - destruct (rebuild (resolve_var f ps) args) as [arguments|] eqn:Er; try discriminate.
      pose proof (rebuild_sound f ps args arguments (IH ps) Er) as HL.
      assert (Hfree : has_var (TFunc n ln arguments) = false).
      { apply has_var_func_varfree; auto. now apply (proj2 subst_varfree) in HL. }
      destruct (resolve_var f ps (TFunc n ln arguments)) as [x|] eqn:Et; try discriminate.
      rewrite (resolve_varfree _ _ _ _ Hfree Et) in H. inversion H; subst.
      apply S_fun; auto.
  Qed.

  (* the tokens handed to Pending.solve are the substituted tokens of the declaration *)
  Theorem solved_tokens_sound fuel tokens r :
    solved_tokens env fuel tokens = Some r -> SubstL [] tokens r.
  Proof.
    unfold solved_tokens. apply subst_each_sound. intros t x. apply resolve_var_sound.
  Qed.

  (* ---- every reference is substituted by itself: the tokens of a declaration are resolved one by one, and what
     one token gives does not depend on the tokens around it (their names, their fallbacks) *)
  Lemma subst_each_app rv a b :
    subst_each rv (a ++ b) =
    match subst_each rv a, subst_each rv b with
    | Some x, Some y => Some (x ++ y)%list
    | _, _ => None
    end.
  Proof.
    induction a as [|v a IH]; simpl.
    - destruct (subst_each rv b); reflexivity.
    - destruct (rv v) as [res|]; [|reflexivity].
      rewrite IH. destruct (subst_each rv a), (subst_each rv b); try reflexivity.
      now rewrite app_assoc.
  Qed.

  Theorem references_are_independent fuel before t after r :
    solved_tokens env fuel (before ++ t :: after) = Some r ->
    exists rb rt ra, r = (rb ++ rt ++ ra)%list /\
                     solved_tokens env fuel before = Some rb /\ solved_tokens env fuel [t] = Some rt /\
                     solved_tokens env fuel after = Some ra.
  Proof.
    unfold solved_tokens. rewrite subst_each_app.
    destruct (subst_each _ before) as [rb|]; [|discriminate].
    change (t :: after) with ([t] ++ after)%list. rewrite subst_each_app.
    destruct (subst_each _ [t]) as [rt|]; [|discriminate].
    destruct (subst_each _ after) as [ra|]; [|discriminate].
    intro H. inversion H. eauto 10.
  Qed.

  (* a reference to a defined property ignores its fallback; a reference to an undefined one is its own fallback *)
  Theorem fallback_unused_when_defined fuel ps n ln v lv fb1 fb2 :
    env (var_key v) <> [] ->
    has_var (TFunc n ln (TIdent v lv :: TLit "," :: fb1)) = true ->
    has_var (TFunc n ln (TIdent v lv :: TLit "," :: fb2)) = true -> String.eqb ln "var" = true ->
    resolve_var fuel ps (TFunc n ln (TIdent v lv :: TLit "," :: fb1)) =
    resolve_var fuel ps (TFunc n ln (TIdent v lv :: TLit "," :: fb2)).
  Proof.
    intros Hd H1 H2 Hln. destruct fuel; [reflexivity|]. cbn [C07Var.resolve_var].
    rewrite H1, H2, Hln. cbn [negb]. unfold remove_whitespace. cbn [filter is_ws negb tok_value].
    destruct (str_in (var_key v) ps); [reflexivity|].
    destruct (env (var_key v)); [congruence|reflexivity].
  Qed.

  (* a reference to an undefined property is its own fallback: the textual remainder after the first comma *)
  Theorem fallback_used_when_undefined fuel ps n ln v lv fb :
    env (var_key v) = [] -> str_in (var_key v) ps = false ->
    has_var (TFunc n ln (TIdent v lv :: TLit "," :: fb)) = true -> String.eqb ln "var" = true ->
    resolve_var (S fuel) ps (TFunc n ln (TIdent v lv :: TLit "," :: fb)) =
    match subst_each (resolve_var fuel ps) (remove_whitespace fb) with Some l => Some (RToks l) | None => None end.
  Proof.
    intros Hu Hc H1 Hln. cbn [C07Var.resolve_var]. rewrite H1, Hln. cbn [negb].
    unfold remove_whitespace. cbn [filter is_ws negb tok_value tl]. rewrite Hc, Hu. reflexivity.
  Qed.

  (* ---- fuel suffices when the definitions are acyclic *)
  Variable rk : string -> nat.
  Hypothesis Hranked : ranked env rk.

  Lemma subst_each_total F ps vs :
    (forall v, In v vs -> forall f, (F <= f)%nat -> exists x, resolve_var f ps v = Some x) ->
    forall f, (F <= f)%nat -> exists r, subst_each (resolve_var f ps) vs = Some r.
  Proof.
    induction vs as [|v vs IH]; intros H f Hf; simpl.
    - eauto.
    - destruct (H v (or_introl eq_refl) f Hf) as [x Hx]. rewrite Hx.
      destruct (IH (fun u Hu => H u (or_intror Hu)) f Hf) as [rest Hrest]. rewrite Hrest. eauto.
  Qed.

  Lemma rebuild_total F ps args :
    (forall a, In a args -> forall f, (F <= f)%nat -> exists x, resolve_var f ps a = Some x) ->
    forall f, (F <= f)%nat -> exists r, rebuild (resolve_var f ps) args = Some r.
  Proof.
    induction args as [|a args IH]; intros H f Hf; simpl.
    - eauto.
    - destruct (IH (fun u Hu => H u (or_intror Hu)) f Hf) as [rest Hrest]. rewrite Hrest.
      destruct (is_func a) eqn:Fa; [|eauto].
      destruct (H a (or_introl eq_refl) f Hf) as [[|l] Hl]; rewrite Hl; eauto.
  Qed.

  Lemma forallb_fix (g : tok -> bool) args :
    (fix all (l : list tok) : bool := match l with [] => true | a :: r => g a && all r end) args = forallb g args.
  Proof. reflexivity. Qed.

  Lemma common_bound {A} (Q : A -> nat -> Prop) (l : list A) :
    Forall (fun a => exists F, forall f, (F <= f)%nat -> Q a f) l ->
    exists F, forall a, In a l -> forall f, (F <= f)%nat -> Q a f.
  Proof.
    induction 1 as [|a l [Fa Ha] _ [Fl Hl]].
    - exists 0%nat. intros a [].
    - exists (Nat.max Fa Fl). intros b [<-|Hb] f Hf.
      + apply Ha. lia.
      + apply Hl; auto. lia.
  Qed.

  Lemma in_fn_args a args : In a (fn_args args) -> In a args.
  Proof. unfold fn_args. intro H. apply filter_In in H. tauto. Qed.

  Theorem resolve_var_fuel_sufficient n t :
    refs_lt rk n t = true ->
    forall ps, exists F, forall f, (F <= f)%nat -> exists x, resolve_var f ps t = Some x.
  Proof.
    revert t. induction n as [n IHn] using lt_wf_ind.
    assert (Plain : forall t, has_var t = false ->
              forall ps, exists F, forall f, (F <= f)%nat -> exists x, resolve_var f ps t = Some x).
    { intros t Hv ps. exists 1%nat. intros f Hf. destruct f as [|f]; [lia|]. cbn [C07Var.resolve_var]. rewrite Hv.
      simpl. eauto. }
    induction t as [| | | | | |nm ln args IHargs|] using tok_induction; intros Hrefs ps;
      try (apply Plain; reflexivity).
    destruct (has_var (TFunc nm ln args)) eqn:Hv; [|now apply Plain].
    cbn [refs_lt] in Hrefs. rewrite Hv, forallb_fix in Hrefs.
    apply andb_true_iff in Hrefs. destruct Hrefs as [Hname Hrefs].
    rewrite forallb_forall in Hrefs.
    assert (Bargs : forall ps', exists F, forall a, In a args -> forall f, (F <= f)%nat ->
                                        exists x, resolve_var f ps' a = Some x).
    { intro ps'. apply (common_bound (fun a f => exists x, resolve_var f ps' a = Some x)).
      rewrite Forall_forall in *. intros a Ha. apply IHargs; auto. }
    destruct (String.eqb ln "var") eqn:Hln.
    - destruct (has_var_var_ws _ _ _ Hln Hv) as (first & rest & Ea).
      rewrite Ea in Hname. apply Nat.ltb_lt in Hname.
      set (k := var_key (tok_value first)) in *.
      destruct (str_in k ps) eqn:Hc.
      { exists 1%nat. intros f Hf. destruct f as [|f]; [lia|].
        cbn [C07Var.resolve_var]. rewrite Hv, Hln, Ea. fold k. rewrite Hc. simpl. eauto. }
      destruct (env k) as [|e0 erest] eqn:Ee.
      + destruct (Bargs ps) as [Fa HFa].
        exists (S Fa). intros f Hf. destruct f as [|f]; [lia|].
        cbn [C07Var.resolve_var]. rewrite Hv, Hln, Ea. fold k. rewrite Hc, Ee. cbn [negb].
        destruct (subst_each_total Fa ps (tl rest)) with (f := f) as [r Hr]; [|lia|].
        * intros u Hu. apply HFa.
          assert (In u (remove_whitespace args)).
          { rewrite Ea. right. destruct rest; [destruct Hu|now right]. }
          unfold remove_whitespace in H. apply filter_In in H. tauto.
        * rewrite Hr. eauto.
      + assert (Benv : exists F, forall u, In u (e0 :: erest) -> forall f, (F <= f)%nat ->
                         exists x, resolve_var f (ps ++ [k]) u = Some x).
        { apply (common_bound (fun u f => exists x, resolve_var f (ps ++ [k]) u = Some x)).
          pose proof (Hranked k) as Hk. rewrite Ee in Hk. rewrite Forall_forall in *.
          intros u Hu. apply (IHn _ Hname u (Hk u Hu)). }
        destruct Benv as [Fe HFe].
        exists (S Fe). intros f Hf. destruct f as [|f]; [lia|].
        cbn [C07Var.resolve_var]. rewrite Hv, Hln, Ea. fold k. rewrite Hc, Ee. cbn [negb].
        destruct (subst_each_total Fe (ps ++ [k]) (e0 :: erest) HFe f) as [r Hr]; [lia|].
        rewrite Hr. eauto.
    - destruct (Bargs ps) as [Fa HFa].
      exists (S (S Fa)). intros f Hf. destruct f as [|f]; [lia|].
      cbn [C07Var.resolve_var]. rewrite Hv, Hln. cbn [negb].
      destruct (rebuild_total Fa ps args HFa f) as [r Hr]; [lia|]. rewrite Hr.
      assert (Hfree : has_var (TFunc nm ln r) = false).
      { apply has_var_func_varfree; auto.
        apply (proj2 subst_varfree ps args). eapply rebuild_sound; eauto.
        intros t0 x0. apply resolve_var_sound. }
      destruct f as [|f]; [lia|]. cbn [C07Var.resolve_var]. rewrite Hfree. simpl. eauto.
  Qed.

  Theorem solved_tokens_fuel_sufficient n tokens :
    Forall (fun t => refs_lt rk n t = true) tokens ->
    exists F, forall f, (F <= f)%nat -> exists r, solved_tokens env f tokens = Some r /\ SubstL [] tokens r.
  Proof.
    intro H.
    destruct (common_bound (fun t f => exists x, resolve_var f [] t = Some x) tokens) as [F HF].
    { rewrite Forall_forall in *. intros t Ht. exact (resolve_var_fuel_sufficient n t (H t Ht) []). }
    exists F. intros f Hf. destruct (subst_each_total F [] tokens HF f Hf) as [r Hr].
    exists r. split; auto. now apply (solved_tokens_sound f).
  Qed.
End VarProofs.

(* ------------------------------------------------------------------ where it is not substitution *)
Definition VAR (name : string) (rest : list tok) := TFunc "var" "var" (TIdent name name :: rest).

(* 1. a reference back into a cycle is erased, the fallback of the outer reference is never used:
   --x: 1 var(--x) ; var(--x, 7) gives 1 where CSS makes --x invalid and takes the fallback 7 *)
Theorem cycle_is_erased :
  let env := fun k => if String.eqb k "__x" then [TAtom 1; VAR "--x" []] else [] in
  solved_tokens env 5 [VAR "--x" [TLit ","; TAtom 7]] = Some [TAtom 1].
Proof. reflexivity. Qed.

(* the fallback is the textual remainder after the first comma, commas included: what the grammar
   var( <custom-property-name> [, <declaration-value>]? ) says (css_fallback) *)
Lemma all_ws_filtered (w : list tok) (l : list tok) :
  Forall (fun t => is_ws t = true) w -> remove_whitespace (w ++ l) = remove_whitespace l.
Proof.
  induction 1 as [|t w Ht _ IH]; [reflexivity|]. unfold remove_whitespace in *. cbn [app filter]. now rewrite Ht.
Qed.

Lemma after_first_comma_ws (w : list tok) (l : list tok) :
  Forall (fun t => is_ws t = true) w -> after_first_comma (w ++ l) = after_first_comma l.
Proof.
  induction 1 as [|t w Ht _ IH]; [reflexivity|]. cbn [app after_first_comma].
  destruct t; try discriminate; exact IH.
Qed.

Theorem fallback_is_textual_remainder w1 name w2 rest :
  Forall (fun t => is_ws t = true) w1 -> Forall (fun t => is_ws t = true) w2 ->
  is_ws name = false -> is_comma name = false ->
  impl_fallback (w1 ++ name :: w2 ++ TLit "," :: rest) = css_fallback (w1 ++ name :: w2 ++ TLit "," :: rest) /\
  impl_fallback (w1 ++ name :: w2 ++ TLit "," :: rest) = remove_whitespace rest.
Proof.
  intros H1 H2 Hn Hc. unfold impl_fallback, css_fallback.
  rewrite (all_ws_filtered w1), (after_first_comma_ws w1) by assumption.
  assert (A : remove_whitespace (name :: w2 ++ TLit "," :: rest) = name :: TLit "," :: remove_whitespace rest).
  { change (name :: w2 ++ TLit "," :: rest) with ([name] ++ (w2 ++ TLit "," :: rest))%list.
    unfold remove_whitespace at 1. rewrite filter_app. cbn [filter]. rewrite Hn. cbn [negb app].
    f_equal. fold (remove_whitespace (w2 ++ TLit "," :: rest)). now rewrite (all_ws_filtered w2). }
  rewrite A. cbn [tl after_first_comma]. rewrite Hc.
  rewrite (after_first_comma_ws w2) by assumption. cbn [after_first_comma is_comma is_lit String.eqb].
  rewrite ?String.eqb_refl. split; reflexivity.
Qed.

Example fallback_commas_kept :
  let env := fun _ : string => @nil tok in
  let args := [TIdent "--u" "--u"; TLit ","; TWs; TIdent "a" "a"; TLit ","; TWs; TIdent "b" "b"] in
  resolve_var env 2 [] (TFunc "var" "var" args) = Some (RToks [TIdent "a" "a"; TLit ","; TIdent "b" "b"]).
Proof. reflexivity. Qed.

(* distinct names are distinct properties: the key keeps the exact name *)
Theorem distinct_names_distinct_properties x y :
  prefix "--" x = true -> prefix "--" y = true -> impl_key x = impl_key y -> x = y.
Proof.
  intros Hx Hy H.
  assert (D : forall n, prefix "--" n = true -> n = String "-" (String "-" (drop 2 n))).
  { intros n Hn. destruct n as [|c1 [|c2 r]]; try discriminate Hn.
    - change (prefix "--" (String c1 "")) with (if ascii_dec "-" c1 then false else false) in Hn.
      destruct (ascii_dec "-" c1); discriminate.
    - change (prefix "--" (String c1 (String c2 r)))
        with (if ascii_dec "-" c1 then (if ascii_dec "-" c2 then prefix "" r else false) else false) in Hn.
      destruct (ascii_dec "-" c1); [|discriminate]. destruct (ascii_dec "-" c2); [|discriminate]. subst. reflexivity. }
  unfold impl_key, var_key in H.
  assert (E : drop 2 x = drop 2 y).
  { change ("__" ++ drop 2 x)%string with (String "_" (String "_" (drop 2 x))) in H.
    change ("__" ++ drop 2 y)%string with (String "_" (String "_" (drop 2 y))) in H. now inversion H. }
  rewrite (D x Hx), (D y Hy), E. reflexivity.
Qed.

Example dash_underscore_distinct : impl_key "--a-b" <> impl_key "--a_b".
Proof. discriminate. Qed.

(* 2. an undefined custom property without fallback is not "invalid at computed-value time": the var() is erased
   and the rest of the declaration is validated - padding: var(--p) 2px computes as padding: 2px (finding
   var:undefined-dropped; only a value made of the var() alone ends with no tokens, which solve() refuses) *)
Theorem undefined_var_is_erased :
  let env := fun _ : string => @nil tok in
  solved_tokens env 2 [VAR "--p" []; TWs; TAtom 2] = Some [TWs; TAtom 2] /\
  solved_tokens env 2 [VAR "--p" []] = Some [].
Proof. split; reflexivity. Qed.

Theorem var_refuted :
  let env := fun k => if String.eqb k "__x" then [TAtom 1; VAR "--x" []] else [] in
  solved_tokens env 5 [VAR "--x" [TLit ","; TAtom 7]] = Some [TAtom 1].
Proof. exact cycle_is_erased. Qed.

(* a var()-free function next to a var() inside a function is kept (it used to raise) *)
Example plain_function_argument_kept :
  let env := fun k => if String.eqb k "__a" then [TAtom 5] else [] in
  solved_tokens env 4 [TFunc "calc" "calc" [VAR "--a" []; TFunc "max" "max" [TAtom 1]]] =
  Some [TFunc "calc" "calc" [TAtom 5; TFunc "max" "max" [TAtom 1]]].
Proof. reflexivity. Qed.

(* the hypotheses of the sufficiency theorem are satisfiable: --a: var(--b) 1 ; --b: 2 *)
Example ranked_example :
  let env := fun k => if String.eqb k "__a" then [VAR "--b" []; TAtom 1]
                      else if String.eqb k "__b" then [TAtom 2] else [] in
  let rk := fun k => if String.eqb k "__a" then 1%nat else 0%nat in
  ranked env rk /\
  solved_tokens env 6 [TFunc "calc" "calc" [VAR "--a" []; TWs; VAR "--u" [TLit ","; TAtom 7]]] =
  Some [TFunc "calc" "calc" [TAtom 2; TAtom 1; TWs; TAtom 7]].
Proof.
  intros env rk. split; [|reflexivity].
  intro k. unfold env, rk.
  destruct (String.eqb k "__a"); [repeat constructor|].
  destruct (String.eqb k "__b"); repeat constructor.
Qed.
