(* C07 - proofs about resolve_var (model/C07Var.v): what it returns is the substitution; fuel suffices on acyclic
   definitions; and the inputs on which the implementation departs from substitution. *)
From Coq Require Import ZArith QArith List Bool String Ascii Lia PeanoNat.
Require Import WV.model.C07Tok WV.model.C07Var.
Import ListNotations.
Open Scope string_scope.

(* ---- structural induction on component values *)
Section TokInd.
  Variable P : tok -> Prop.
  Hypothesis Hident : forall v lv, P (TIdent v lv).
  Hypothesis Hlit : forall v, P (TLit v).
  Hypothesis Hws : P TWs.
  Hypothesis Hcomment : P TComment.
  Hypothesis Hnum : forall v iv, P (TNum v iv).
  Hypothesis Hatom : forall i, P (TAtom i).
  Hypothesis Hfunc : forall n ln args, Forall P args -> P (TFunc n ln args).
  Hypothesis Hblock : forall k c, Forall P c -> P (TBlock k c).

  Fixpoint tok_induction (t : tok) : P t :=
    match t with
    | TIdent v lv => Hident v lv
    | TLit v => Hlit v
    | TWs => Hws
    | TComment => Hcomment
    | TNum v iv => Hnum v iv
    | TAtom i => Hatom i
    | TFunc n ln args =>
        Hfunc n ln args ((fix go (l : list tok) : Forall P l :=
                            match l with
                            | [] => Forall_nil P
                            | x :: r => Forall_cons x (tok_induction x) (go r)
                            end) args)
    | TBlock k c =>
        Hblock k c ((fix go (l : list tok) : Forall P l :=
                       match l with
                       | [] => Forall_nil P
                       | x :: r => Forall_cons x (tok_induction x) (go r)
                       end) c)
    end.
End TokInd.

Lemma has_var_nonfunc t : is_func t = false -> has_var t = false.
Proof. destruct t; simpl; auto; discriminate. Qed.

(* has_var of a function, unfolded once *)
Lemma has_var_func n ln args :
  has_var (TFunc n ln args) =
  if fn_ok (TFunc n ln args) then
    if String.eqb ln "var" && negb (match fn_args args with [] => true | _ => false end) then
      match fn_args args with TIdent v _ :: _ => prefix "--" v | _ => false end
    else existsb has_var args
  else false.
Proof.
  reflexivity.
Qed.

Lemma has_var_func_varfree n ln args :
  String.eqb ln "var" = false -> Forall (fun x => has_var x = false) args -> has_var (TFunc n ln args) = false.
Proof.
  intros Hln Hall. rewrite has_var_func. destruct (fn_ok _); auto. rewrite Hln. simpl.
  induction Hall as [|a r Ha _ IH]; simpl; auto. now rewrite Ha, IH.
Qed.

Lemma subst_each_not_none rv vs : subst_each rv vs <> Some RNone.
Proof.
  induction vs as [|v vs IH]; simpl; try discriminate.
  destruct (rv v) as [[| |]|]; try discriminate;
    destruct (subst_each rv vs) as [[| |]|]; try discriminate; congruence.
Qed.

Lemma rebuild_not_none rv args : rebuild rv args <> Some RNone.
Proof.
  induction args as [|a args IH]; simpl; try discriminate.
  destruct (is_func a).
  - destruct (rv a) as [[| |]|]; try discriminate;
      destruct (rebuild rv args) as [[| |]|]; try discriminate; congruence.
  - destruct (rebuild rv args) as [[| |]|]; try discriminate; congruence.
Qed.

Section VarProofs.
  Variable env : string -> list tok.
  Notation resolve_var := (resolve_var env).
  Notation Subst := (Subst env impl_key impl_fallback impl_var_name).
  Notation SubstL := (SubstL env impl_key impl_fallback impl_var_name).

  Scheme Subst_mut := Minimality for C07Var.Subst Sort Prop
    with SubstL_mut := Minimality for C07Var.SubstL Sort Prop.

  (* ---- what substitution returns has no var() left *)
  Lemma subst_varfree :
    (forall t r, Subst t r -> Forall (fun x => has_var x = false) r) /\
    (forall l r, SubstL l r -> Forall (fun x => has_var x = false) r).
  Proof.
    split.
    - intros t r H.
      induction H using Subst_mut with
        (P0 := fun l r => Forall (fun x => has_var x = false) r); auto.
      + constructor; auto. apply has_var_func_varfree; auto.
      + apply Forall_app. split; assumption.
    - intros l r H.
      induction H using SubstL_mut with
        (P := fun t r => Forall (fun x => has_var x = false) r); auto.
      + constructor; auto. apply has_var_func_varfree; auto.
      + apply Forall_app. split; assumption.
  Qed.

  Lemma resolve_varfree fuel t x : has_var t = false -> resolve_var fuel t = Some x -> x = RNone.
  Proof.
    intros H. destruct fuel; simpl; [discriminate|]. rewrite H. simpl. congruence.
  Qed.

  Lemma resolve_has_var fuel t : resolve_var fuel t = Some RNone -> has_var t = false.
  Proof.
    destruct fuel; simpl; [discriminate|].
    destruct (has_var t) eqn:E; simpl; auto.
    destruct t; try discriminate.
    destruct (negb (String.eqb ln "var")).
    - pose proof (rebuild_not_none (resolve_var fuel) args) as NN.
      destruct (rebuild (resolve_var fuel) args) as [[|arguments|]|]; try discriminate; try congruence.
      destruct (resolve_var fuel (TFunc n ln arguments)) as [[|[|]|]|]; discriminate.
    - destruct (fn_args args) as [|[] default]; try discriminate.
      intro H. exfalso. eapply subst_each_not_none; eauto.
  Qed.

  (* ---- soundness: whatever resolve_var returns is the substitution *)
  Lemma subst_each_sound fuel vs r :
    (forall t x, resolve_var fuel t = Some (RToks x) -> Subst t x) ->
    subst_each (resolve_var fuel) vs = Some (RToks r) -> SubstL vs r.
  Proof.
    intro IH. revert r. induction vs as [|v vs IHv]; intros r H; simpl in H.
    - inversion H. constructor.
    - destruct (resolve_var fuel v) as [x|] eqn:E; try discriminate.
      destruct x as [|l|]; try discriminate.
      + destruct (subst_each (resolve_var fuel) vs) as [[|rest|]|] eqn:E2; try discriminate.
        inversion H; subst. change (v :: rest) with ([v] ++ rest)%list.
        constructor; auto. apply S_plain. eapply resolve_has_var; eauto.
      + destruct (subst_each (resolve_var fuel) vs) as [[|rest|]|] eqn:E2; try discriminate.
        inversion H; subst. constructor; auto.
  Qed.

  Lemma rebuild_sound fuel args r :
    (forall t x, resolve_var fuel t = Some (RToks x) -> Subst t x) ->
    rebuild (resolve_var fuel) args = Some (RToks r) -> SubstL args r.
  Proof.
    intro IH. revert r. induction args as [|a args IHa]; intros r H; simpl in H.
    - inversion H. constructor.
    - destruct (is_func a) eqn:Fa.
      + destruct (resolve_var fuel a) as [[|l|]|] eqn:E; try discriminate.
        destruct (rebuild (resolve_var fuel) args) as [[|rest|]|] eqn:E2; try discriminate.
        inversion H; subst. constructor; auto.
      + destruct (rebuild (resolve_var fuel) args) as [[|rest|]|] eqn:E2; try discriminate.
        inversion H; subst. change (a :: rest) with ([a] ++ rest)%list.
        constructor; auto. apply S_plain. now apply has_var_nonfunc.
  Qed.

  Theorem resolve_var_sound fuel t r : resolve_var fuel t = Some (RToks r) -> Subst t r.
  Proof.
    revert t r. induction fuel as [|f IH]; intros t r H; simpl in H; [discriminate|].
    destruct (has_var t) eqn:Hv; simpl in H; [|discriminate].
    destruct t; try discriminate.
    destruct (String.eqb ln "var") eqn:Hln; simpl in H.
    - pose proof Hv as Hv'. rewrite has_var_func in Hv'.
      destruct (fn_args args) as [|[v lv| | | | | | |] default] eqn:Ea; try discriminate;
        try (destruct (fn_ok _); simpl in Hv'; rewrite ?Hln in Hv'; simpl in Hv'; discriminate).
      apply S_var with (x := v); auto.
      + unfold impl_var_name. now rewrite Ea.
      + unfold impl_key, impl_fallback. rewrite Ea. simpl tl.
        eapply subst_each_sound; eauto.
        destruct (env (underscore v)); exact H.
    - destruct (rebuild (resolve_var f) args) as [[|arguments|]|] eqn:Er; try discriminate.
      pose proof (rebuild_sound f args arguments IH Er) as HL.
      assert (Hfree : has_var (TFunc n ln arguments) = false).
      { apply has_var_func_varfree; auto. now apply (proj2 subst_varfree) in HL. }
      destruct (resolve_var f (TFunc n ln arguments)) as [x|] eqn:Et; try discriminate.
      rewrite (resolve_varfree _ _ _ Hfree Et) in H. inversion H; subst.
      apply S_fun; auto.
  Qed.

  (* the tokens handed to Pending.solve are the substituted tokens of the declaration *)
  Theorem solved_tokens_sound fuel tokens r :
    solved_tokens env fuel tokens = Some (RToks r) -> SubstL tokens r.
  Proof.
    unfold solved_tokens. apply subst_each_sound. intros t x. apply resolve_var_sound.
  Qed.

  (* ---- substitution is a function *)
  Lemma subst_deterministic :
    (forall t r, Subst t r -> forall r', Subst t r' -> r = r') /\
    (forall l r, SubstL l r -> forall r', SubstL l r' -> r = r').
  Proof.
    assert (A : forall t r, Subst t r -> forall r', Subst t r' -> r = r').
    { intros t r H.
      induction H using Subst_mut with (P0 := fun l r => forall r', SubstL l r' -> r = r').
      - intros r' H'. inversion H'; subst; auto; congruence.
      - intros r' H'. inversion H'; subst; try congruence.
        assert (x0 = x) by congruence. subst. auto.
      - intros r' H'. inversion H'; subst; try congruence.
        f_equal. f_equal. auto.
      - intros r' H'. inversion H'. reflexivity.
      - intros r' H'. inversion H'; subst. f_equal; auto. }
    split; auto.
    intros l r H. induction H; intros r' H'; inversion H'; subst; auto.
    f_equal; eauto.
  Qed.

  (* ---- fuel suffices when the definitions are acyclic *)
  Variable rk : string -> nat.
  Hypothesis Hranked : ranked env rk.

  Definition fine (x : vres) : Prop := x <> RTypeError.

  Lemma subst_each_fine F vs :
    (forall v, In v vs -> forall f, F <= f -> exists x, resolve_var f v = Some x /\ fine x) ->
    forall f, F <= f -> exists r, subst_each (resolve_var f) vs = Some (RToks r).
  Proof.
    induction vs as [|v vs IH]; intros H f Hf; simpl.
    - eauto.
    - destruct (H v (or_introl eq_refl) f Hf) as [x [Hx Hfine]]. rewrite Hx.
      destruct (IH (fun u Hu => H u (or_intror Hu)) f Hf) as [rest Hrest]. rewrite Hrest.
      destruct x; [eauto|eauto|]. exfalso. now apply Hfine.
  Qed.

  Lemma regular_func n ln args a :
    has_var (TFunc n ln args) = true -> regular (TFunc n ln args) = true -> In a args ->
    regular a = true /\ (is_func a = true -> String.eqb ln "var" = false -> has_var a = true).
  Proof.
    intros Hv Hr Hin. cbn [regular] in Hr. rewrite Hv in Hr.
    induction args as [|b args IH]; [destruct Hin|].
    apply andb_true_iff in Hr. destruct Hr as [Hb Hrest].
    destruct Hin as [->|Hin].
    - destruct (is_func a) eqn:Fa.
      + apply andb_true_iff in Hb. destruct Hb as [H1 H2]. split; auto.
        intros _ Hln. rewrite Hln in H1. exact H1.
      + split; [|discriminate]. destruct a; try reflexivity; discriminate.
    - apply IH; auto.
      (* has_var of the shorter function is not needed: restate on the list *)
  Abort.
End VarProofs.
