(* C07 - proofs about resolve_var (model/C07Var.v): what it returns is the substitution; fuel suffices on acyclic
   definitions; and the inputs on which the implementation departs from substitution. *)
From Coq Require Import ZArith QArith List Bool String Ascii Lia PeanoNat.
Require Import WV.model.C07Tok WV.model.C07Var.
Import ListNotations.
Open Scope string_scope.

(* ---- structural induction on component values *)
Section TokInd.
  Variable P : tok -> Prop.
  Hypothesis Hident : forall v lv, P (TIdent v lv).
  Hypothesis Hlit : forall v, P (TLit v).
  Hypothesis Hws : P TWs.
  Hypothesis Hcomment : P TComment.
  Hypothesis Hnum : forall v iv, P (TNum v iv).
  Hypothesis Hatom : forall i, P (TAtom i).
  Hypothesis Hfunc : forall n ln args, Forall P args -> P (TFunc n ln args).
  Hypothesis Hblock : forall k c, Forall P c -> P (TBlock k c).

  Fixpoint tok_induction (t : tok) : P t :=
    match t with
    | TIdent v lv => Hident v lv
    | TLit v => Hlit v
    | TWs => Hws
    | TComment => Hcomment
    | TNum v iv => Hnum v iv
    | TAtom i => Hatom i
    | TFunc n ln args =>
        Hfunc n ln args ((fix go (l : list tok) : Forall P l :=
                            match l with
                            | [] => Forall_nil P
                            | x :: r => Forall_cons x (tok_induction x) (go r)
                            end) args)
    | TBlock k c =>
        Hblock k c ((fix go (l : list tok) : Forall P l :=
                       match l with
                       | [] => Forall_nil P
                       | x :: r => Forall_cons x (tok_induction x) (go r)
                       end) c)
    end.
End TokInd.

Lemma has_var_nonfunc t : is_func t = false -> has_var t = false.
Proof. destruct t; simpl; auto; discriminate. Qed.

(* has_var of a function, unfolded once *)
Lemma has_var_func n ln args :
  has_var (TFunc n ln args) =
  if fn_ok (TFunc n ln args) then
    if String.eqb ln "var" && negb (match fn_args args with [] => true | _ => false end) then
      match fn_args args with TIdent v _ :: _ => prefix "--" v | _ => false end
    else existsb has_var args
  else false.
Proof.
  reflexivity.
Qed.

Lemma has_var_func_varfree n ln args :
  String.eqb ln "var" = false -> Forall (fun x => has_var x = false) args -> has_var (TFunc n ln args) = false.
Proof.
  intros Hln Hall. rewrite has_var_func. destruct (fn_ok _); auto. rewrite Hln. simpl.
  induction Hall as [|a r Ha _ IH]; simpl; auto. now rewrite Ha, IH.
Qed.

Lemma fn_args_nil args : fn_args args = [] -> existsb has_var args = false.
Proof.
  induction args as [|a args IH]; intro H; auto.
  unfold fn_args in H. simpl in H.
  destruct (negb (is_ws a) && negb (is_comma a)) eqn:E; [discriminate|].
  simpl. rewrite (IH H). destruct a; simpl in *; auto; discriminate.
Qed.

(* a var() that counts names its custom property first *)
Lemma has_var_var n ln args :
  String.eqb ln "var" = true -> has_var (TFunc n ln args) = true ->
  exists v lv default, fn_args args = TIdent v lv :: default.
Proof.
  intros Hln Hv. rewrite has_var_func, Hln in Hv.
  destruct (fn_ok _); [|discriminate].
  destruct (fn_args args) as [|a default] eqn:Ea.
  - simpl in Hv. rewrite (fn_args_nil _ Ea) in Hv. discriminate.
  - simpl in Hv. destruct a; try discriminate. eauto.
Qed.

Lemma subst_each_not_none rv vs : subst_each rv vs <> Some RNone.
Proof.
  induction vs as [|v vs IH]; simpl; try discriminate.
  destruct (rv v) as [[| |]|]; try discriminate;
    destruct (subst_each rv vs) as [[| |]|]; try discriminate; congruence.
Qed.

Lemma rebuild_not_none rv args : rebuild rv args <> Some RNone.
Proof.
  induction args as [|a args IH]; simpl; try discriminate.
  destruct (is_func a).
  - destruct (rv a) as [[| |]|]; try discriminate;
      destruct (rebuild rv args) as [[| |]|]; try discriminate; congruence.
  - destruct (rebuild rv args) as [[| |]|]; try discriminate; congruence.
Qed.

Section VarProofs.
  Variable env : string -> list tok.
  Notation resolve_var := (resolve_var env).
  Notation Subst := (Subst env impl_key impl_fallback impl_var_name).
  Notation SubstL := (SubstL env impl_key impl_fallback impl_var_name).

  Scheme Subst_mut := Minimality for C07Var.Subst Sort Prop
    with SubstL_mut := Minimality for C07Var.SubstL Sort Prop.

  (* ---- what substitution returns has no var() left *)
  Lemma subst_varfree :
    (forall t r, Subst t r -> Forall (fun x => has_var x = false) r) /\
    (forall l r, SubstL l r -> Forall (fun x => has_var x = false) r).
  Proof.
    split.
    - intros t r H.
      induction H using Subst_mut with
        (P0 := fun l r => Forall (fun x => has_var x = false) r); auto.
      + constructor; auto. apply has_var_func_varfree; auto.
      + apply Forall_app. split; assumption.
    - intros l r H.
      induction H using SubstL_mut with
        (P := fun t r => Forall (fun x => has_var x = false) r); auto.
      + constructor; auto. apply has_var_func_varfree; auto.
      + apply Forall_app. split; assumption.
  Qed.

  Lemma resolve_varfree fuel t x : has_var t = false -> resolve_var fuel t = Some x -> x = RNone.
  Proof.
    intros H. destruct fuel; simpl; [discriminate|]. rewrite H. simpl. congruence.
  Qed.

  Lemma resolve_has_var fuel t : resolve_var fuel t = Some RNone -> has_var t = false.
  Proof.
    destruct fuel; simpl; [discriminate|].
    destruct (has_var t) eqn:E; simpl; auto.
    destruct t; try discriminate.
    destruct (String.eqb ln "var") eqn:Hln; simpl.
    - destruct (has_var_var _ _ _ Hln E) as (v & lv & default & Ea). rewrite Ea.
      intro H. exfalso. eapply subst_each_not_none; eauto.
    - pose proof (rebuild_not_none (resolve_var fuel) args) as NN.
      destruct (rebuild (resolve_var fuel) args) as [[|arguments|]|]; try discriminate; try congruence.
      destruct (resolve_var fuel (TFunc n ln arguments)) as [[|[|]|]|]; discriminate.
  Qed.

  (* ---- soundness: whatever resolve_var returns is the substitution *)
  Lemma subst_each_sound fuel vs r :
    (forall t x, resolve_var fuel t = Some (RToks x) -> Subst t x) ->
    subst_each (resolve_var fuel) vs = Some (RToks r) -> SubstL vs r.
  Proof.
    intro IH. revert r. induction vs as [|v vs IHv]; intros r H; simpl in H.
    - inversion H. constructor.
    - destruct (resolve_var fuel v) as [x|] eqn:E; try discriminate.
      destruct x as [|l|]; try discriminate.
      + destruct (subst_each (resolve_var fuel) vs) as [[|rest|]|] eqn:E2; try discriminate.
        inversion H; subst. change (v :: rest) with ([v] ++ rest)%list.
        constructor; auto. apply S_plain. eapply resolve_has_var; eauto.
      + destruct (subst_each (resolve_var fuel) vs) as [[|rest|]|] eqn:E2; try discriminate.
        inversion H; subst. constructor; auto.
  Qed.

  Lemma rebuild_sound fuel args r :
    (forall t x, resolve_var fuel t = Some (RToks x) -> Subst t x) ->
    rebuild (resolve_var fuel) args = Some (RToks r) -> SubstL args r.
  Proof.
    intro IH. revert r. induction args as [|a args IHa]; intros r H; simpl in H.
    - inversion H. constructor.
    - destruct (is_func a) eqn:Fa.
      + destruct (resolve_var fuel a) as [[|l|]|] eqn:E; try discriminate.
        destruct (rebuild (resolve_var fuel) args) as [[|rest|]|] eqn:E2; try discriminate.
        inversion H; subst. constructor; auto.
      + destruct (rebuild (resolve_var fuel) args) as [[|rest|]|] eqn:E2; try discriminate.
        inversion H; subst. change (a :: rest) with ([a] ++ rest)%list.
        constructor; auto. apply S_plain. now apply has_var_nonfunc.
  Qed.

  Theorem resolve_var_sound fuel t r : resolve_var fuel t = Some (RToks r) -> Subst t r.
  Proof.
    revert t r. induction fuel as [|f IH]; intros t r H; simpl in H; [discriminate|].
    destruct (has_var t) eqn:Hv; simpl in H; [|discriminate].
    destruct t; try discriminate.
    destruct (String.eqb ln "var") eqn:Hln; simpl in H.
    - destruct (has_var_var _ _ _ Hln Hv) as (v & lv & default & Ea). rewrite Ea in H.
      apply S_var with (x := v); auto.
      + unfold impl_var_name. now rewrite Ea.
      + unfold impl_key, impl_fallback. rewrite Ea. simpl tl.
        eapply subst_each_sound; eauto.
        destruct (env (underscore v)); exact H.
    - destruct (rebuild (resolve_var f) args) as [[|arguments|]|] eqn:Er; try discriminate.
      pose proof (rebuild_sound f args arguments IH Er) as HL.
      assert (Hfree : has_var (TFunc n ln arguments) = false).
      { apply has_var_func_varfree; auto. now apply (proj2 subst_varfree) in HL. }
      destruct (resolve_var f (TFunc n ln arguments)) as [x|] eqn:Et; try discriminate.
      rewrite (resolve_varfree _ _ _ Hfree Et) in H. inversion H; subst.
      apply S_fun; auto.
  Qed.

  (* the tokens handed to Pending.solve are the substituted tokens of the declaration *)
  Theorem solved_tokens_sound fuel tokens r :
    solved_tokens env fuel tokens = Some (RToks r) -> SubstL tokens r.
  Proof.
    unfold solved_tokens. apply subst_each_sound. intros t x. apply resolve_var_sound.
  Qed.

  (* ---- substitution is a function *)
  Lemma subst_deterministic :
    (forall t r, Subst t r -> forall r', Subst t r' -> r = r') /\
    (forall l r, SubstL l r -> forall r', SubstL l r' -> r = r').
  Proof.
    assert (A : forall t r, Subst t r -> forall r', Subst t r' -> r = r').
    { intros t r H.
      induction H using Subst_mut with (P0 := fun l r => forall r', SubstL l r' -> r = r').
      - intros r' H'. inversion H'; subst; auto; congruence.
      - intros r' H'. inversion H'; subst; try congruence.
        assert (x0 = x) by congruence. subst. auto.
      - intros r' H'. inversion H'; subst; try congruence.
        f_equal. f_equal. auto.
      - intros r' H'. inversion H'. reflexivity.
      - intros r' H'. inversion H'; subst. f_equal; auto. }
    split; auto.
    intros l r H. induction H; intros r' H'; inversion H'; subst; auto.
    f_equal; eauto.
  Qed.

  (* ---- fuel suffices when the definitions are acyclic *)
  Variable rk : string -> nat.
  Hypothesis Hranked : ranked env rk.

  Definition fine (x : vres) : Prop := x <> RTypeError.

  Lemma subst_each_fine F vs :
    (forall v, In v vs -> forall f, (F <= f)%nat -> exists x, resolve_var f v = Some x /\ fine x) ->
    forall f, (F <= f)%nat -> exists r, subst_each (resolve_var f) vs = Some (RToks r).
  Proof.
    induction vs as [|v vs IH]; intros H f Hf; simpl.
    - eauto.
    - destruct (H v (or_introl eq_refl) f Hf) as [x [Hx Hfine]]. rewrite Hx.
      destruct (IH (fun u Hu => H u (or_intror Hu)) f Hf) as [rest Hrest]. rewrite Hrest.
      destruct x; [eauto|eauto|]. exfalso. now apply Hfine.
  Qed.

  Lemma rebuild_fine F args :
    (forall a, In a args -> is_func a = true ->
               forall f, (F <= f)%nat -> exists l, resolve_var f a = Some (RToks l)) ->
    forall f, (F <= f)%nat -> exists r, rebuild (resolve_var f) args = Some (RToks r).
  Proof.
    induction args as [|a args IH]; intros H f Hf; simpl.
    - eauto.
    - destruct (IH (fun u Hu => H u (or_intror Hu)) f Hf) as [rest Hrest]. rewrite Hrest.
      destruct (is_func a) eqn:Fa; [|eauto].
      destruct (H a (or_introl eq_refl) Fa f Hf) as [l Hl]. rewrite Hl. eauto.
  Qed.

  Lemma forallb_fix (g : tok -> bool) args :
    (fix all (l : list tok) : bool := match l with [] => true | a :: r => g a && all r end) args = forallb g args.
  Proof. reflexivity. Qed.

  Lemma common_bound {A} (Q : A -> nat -> Prop) (l : list A) :
    Forall (fun a => exists F, forall f, (F <= f)%nat -> Q a f) l ->
    exists F, forall a, In a l -> forall f, (F <= f)%nat -> Q a f.
  Proof.
    induction 1 as [|a l [Fa Ha] _ [Fl Hl]].
    - exists 0%nat. intros a [].
    - exists (Nat.max Fa Fl). intros b [<-|Hb] f Hf.
      + apply Ha. lia.
      + apply Hl; auto. lia.
  Qed.

  Lemma in_fn_args a args : In a (fn_args args) -> In a args.
  Proof. unfold fn_args. intro H. apply filter_In in H. tauto. Qed.

  Theorem resolve_var_fuel_sufficient n t :
    refs_lt rk n t = true -> regular t = true ->
    exists F, forall f, (F <= f)%nat -> exists x, resolve_var f t = Some x /\ fine x.
  Proof.
    revert t. induction n as [n IHn] using lt_wf_ind.
    assert (Plain : forall t, has_var t = false ->
              exists F, forall f, (F <= f)%nat -> exists x, resolve_var f t = Some x /\ fine x).
    { intros t Hv. exists 1%nat. intros f Hf. destruct f as [|f]; [lia|]. cbn [C07Var.resolve_var]. rewrite Hv. simpl.
      exists RNone. split; auto. discriminate. }
    induction t as [| | | | | |nm ln args IHargs|] using tok_induction; intros Hrefs Hreg;
      try (apply Plain; reflexivity).
    destruct (has_var (TFunc nm ln args)) eqn:Hv; [|now apply Plain].
    cbn [refs_lt] in Hrefs. rewrite Hv, forallb_fix in Hrefs.
    apply andb_true_iff in Hrefs. destruct Hrefs as [Hname Hrefs].
    cbn [regular] in Hreg. rewrite Hv in Hreg.
    rewrite (forallb_fix (fun a => if is_func a then (String.eqb ln "var" || has_var a) && regular a else true))
      in Hreg.
    rewrite forallb_forall in Hrefs, Hreg.
    assert (RegArg : forall a, In a args -> regular a = true).
    { intros a Ha. specialize (Hreg a Ha). destruct (is_func a) eqn:Fa.
      - apply andb_true_iff in Hreg. tauto.
      - destruct a; try reflexivity; discriminate. }
    (* a bound for all the arguments *)
    assert (Bargs : exists F, forall a, In a args -> forall f, (F <= f)%nat ->
                                        exists x, resolve_var f a = Some x /\ fine x).
    { apply (common_bound (fun a f => exists x, resolve_var f a = Some x /\ fine x)).
      rewrite Forall_forall in *. intros a Ha. apply IHargs; auto. }
    destruct Bargs as [Fa HFa].
    destruct (String.eqb ln "var") eqn:Hln.
    - destruct (has_var_var _ _ _ Hln Hv) as (v & lv & default & Ea).
      rewrite Ea in Hname. apply Nat.ltb_lt in Hname.
      (* a bound for the tokens of the custom property *)
      assert (Benv : exists F, forall u, In u (env (underscore v)) -> forall f, (F <= f)%nat ->
                                         exists x, resolve_var f u = Some x /\ fine x).
      { apply (common_bound (fun u f => exists x, resolve_var f u = Some x /\ fine x)).
        pose proof (Hranked (underscore v)) as Hk. rewrite Forall_forall in *.
        intros u Hu. destruct (Hk u Hu) as [R1 R2]. apply (IHn _ Hname u R1 R2). }
      destruct Benv as [Fe HFe].
      exists (S (Nat.max Fa Fe)). intros f Hf. destruct f as [|f]; [lia|].
      cbn [C07Var.resolve_var]. rewrite Hv, Hln, Ea. cbn [negb].
      destruct (env (underscore v)) as [|e0 erest] eqn:Ee.
      + destruct (subst_each_fine Fa default) with (f := f) as [r Hr]; [|lia|].
        * intros u Hu. apply HFa. apply in_fn_args. rewrite Ea. now right.
        * rewrite Hr. exists (RToks r). split; auto. discriminate.
      + destruct (subst_each_fine Fe (e0 :: erest)) with (f := f) as [r Hr]; [|lia|].
        * intros u Hu. apply HFe. exact Hu.
        * rewrite Hr. exists (RToks r). split; auto. discriminate.
    - exists (S (S Fa)). intros f Hf. destruct f as [|f]; [lia|].
      cbn [C07Var.resolve_var]. rewrite Hv, Hln. cbn [negb].
      destruct (rebuild_fine Fa args) with (f := f) as [r Hr]; [|lia|].
      + intros a Ha Fn f' Hf'. destruct (HFa a Ha f' Hf') as [x [Hx Hfine]].
        specialize (Hreg a Ha). rewrite Fn in Hreg. simpl in Hreg.
        apply andb_true_iff in Hreg. destruct Hreg as [Hva _].
        destruct x as [|l|].
        * apply resolve_has_var in Hx. congruence.
        * eauto.
        * exfalso. now apply Hfine.
      + rewrite Hr.
        assert (Hfree : has_var (TFunc nm ln r) = false).
        { apply has_var_func_varfree; auto.
          apply (proj2 subst_varfree args). eapply rebuild_sound; eauto.
          intros t0 x0. apply resolve_var_sound. }
        destruct f as [|f]; [lia|]. cbn [C07Var.resolve_var]. rewrite Hfree. simpl.
        exists (RToks [TFunc nm ln r]). split; auto. discriminate.
  Qed.

  Theorem solved_tokens_fuel_sufficient n tokens :
    Forall (fun t => refs_lt rk n t = true /\ regular t = true) tokens ->
    exists F, forall f, (F <= f)%nat -> exists r, solved_tokens env f tokens = Some (RToks r) /\ SubstL tokens r.
  Proof.
    intro H.
    destruct (common_bound (fun t f => exists x, resolve_var f t = Some x /\ fine x) tokens) as [F HF].
    { rewrite Forall_forall in *. intros t Ht. destruct (H t Ht). now apply (resolve_var_fuel_sufficient n). }
    exists F. intros f Hf. destruct (subst_each_fine F tokens HF f Hf) as [r Hr].
    exists r. split; auto. now apply (solved_tokens_sound f).
  Qed.
End VarProofs.

(* ------------------------------------------------------------------ where it is not substitution *)
Definition VAR (name : string) (rest : list tok) := TFunc "var" "var" (TIdent name name :: rest).

(* 1. cyclic definitions: no amount of fuel is enough (Python: RecursionError out of the renderer) *)
Theorem cycle_diverges :
  let env := fun k => if String.eqb k "__x" then [VAR "--x" []] else [] in
  forall fuel, resolve_var env fuel (VAR "--x" []) = None.
Proof.
  intros env fuel. induction fuel as [|f IH]; [reflexivity|].
  change (resolve_var env (S f) (VAR "--x" [])) with (subst_each (resolve_var env f) [VAR "--x" []]).
  simpl. rewrite IH. reflexivity.
Qed.

(* 2. a var()-free function next to a var() inside a function: TypeError, where substitution is defined *)
Theorem plain_function_argument_raises :
  let env := fun k => if String.eqb k "__a" then [TAtom 5] else [] in
  let t := TFunc "calc" "calc" [VAR "--a" []; TFunc "max" "max" [TAtom 1]] in
  (forall fuel, resolve_var env (S (S (S fuel))) t = Some RTypeError) /\
  Subst env impl_key impl_fallback impl_var_name t [TFunc "calc" "calc" [TAtom 5; TFunc "max" "max" [TAtom 1]]].
Proof.
  intros env t. split.
  - intro fuel. reflexivity.
  - apply S_fun; try reflexivity.
    pose (SP := fun x (H : has_var x = false) => S_plain env impl_key impl_fallback impl_var_name x H).
    pose (NIL := SL_nil env impl_key impl_fallback impl_var_name).
    assert (A : Subst env impl_key impl_fallback impl_var_name (VAR "--a" []) [TAtom 5]).
    { apply S_var with (x := "--a"); try reflexivity.
      exact (SL_cons _ _ _ _ (TAtom 5) [] [TAtom 5] [] (SP (TAtom 5) eq_refl) NIL). }
    exact (SL_cons _ _ _ _ _ _ [TAtom 5] [TFunc "max" "max" [TAtom 1]] A
             (SL_cons _ _ _ _ _ [] [TFunc "max" "max" [TAtom 1]] [] (SP (TFunc "max" "max" [TAtom 1]) eq_refl) NIL)).
Qed.

(* 3. the fallback loses its commas: var(--u, a, b) gives "a b" where CSS substitutes "a, b" *)
Theorem fallback_commas_lost :
  let env := fun _ : string => @nil tok in
  let args := [TIdent "--u" "--u"; TLit ","; TWs; TIdent "a" "a"; TLit ","; TWs; TIdent "b" "b"] in
  resolve_var env 2 (TFunc "var" "var" args) = Some (RToks [TIdent "a" "a"; TIdent "b" "b"]) /\
  css_fallback args = [TIdent "a" "a"; TLit ","; TIdent "b" "b"].
Proof. split; reflexivity. Qed.

(* 4. two custom properties that differ by - / _ are one: var(--a-b) reads --a_b *)
Theorem dash_underscore_collide :
  impl_key "--a-b" = impl_key "--a_b" /\ "--a-b" <> "--a_b".
Proof. split; [reflexivity|discriminate]. Qed.

Theorem var_refuted :
  (let env := fun k => if String.eqb k "__x" then [VAR "--x" []] else [] in
   forall fuel, resolve_var env fuel (VAR "--x" []) = None) /\
  (let env := fun k => if String.eqb k "__a" then [TAtom 5] else [] in
   let t := TFunc "calc" "calc" [VAR "--a" []; TFunc "max" "max" [TAtom 1]] in
   (forall fuel, resolve_var env (S (S (S fuel))) t = Some RTypeError) /\
   Subst env impl_key impl_fallback impl_var_name t [TFunc "calc" "calc" [TAtom 5; TFunc "max" "max" [TAtom 1]]]) /\
  (let env := fun _ : string => @nil tok in
   let args := [TIdent "--u" "--u"; TLit ","; TWs; TIdent "a" "a"; TLit ","; TWs; TIdent "b" "b"] in
   resolve_var env 2 (TFunc "var" "var" args) = Some (RToks [TIdent "a" "a"; TIdent "b" "b"]) /\
   css_fallback args = [TIdent "a" "a"; TLit ","; TIdent "b" "b"]) /\
  (impl_key "--a-b" = impl_key "--a_b" /\ "--a-b" <> "--a_b").
Proof.
  split; [exact cycle_diverges|]. split; [exact plain_function_argument_raises|].
  split; [exact fallback_commas_lost|exact dash_underscore_collide].
Qed.

(* the hypotheses of the sufficiency theorem are satisfiable: --a: var(--b) 1 ; --b: 2 *)
Example ranked_example :
  let env := fun k => if String.eqb k "__a" then [VAR "--b" []; TAtom 1]
                      else if String.eqb k "__b" then [TAtom 2] else [] in
  let rk := fun k => if String.eqb k "__a" then 1%nat else 0%nat in
  ranked env rk /\
  resolve_var env 6 (TFunc "calc" "calc" [VAR "--a" []; TWs; VAR "--u" [TLit ","; TAtom 7]]) =
  Some (RToks [TFunc "calc" "calc" [TAtom 2; TAtom 1; TWs; TAtom 7]]).
Proof.
  intros env rk. split; [|reflexivity].
  intro k. unfold env, rk.
  destruct (String.eqb k "__a"); [repeat constructor|].
  destruct (String.eqb k "__b"); repeat constructor.
Qed.

(* 5. an undefined custom property without fallback is not "invalid at computed-value time": the var() is erased
   and the rest of the declaration is validated - padding: var(--p) 2px computes as padding: 2px (finding
   var:undefined-dropped; only a value made of the var() alone ends with no tokens, which solve() refuses) *)
Theorem undefined_var_is_erased :
  let env := fun _ : string => @nil tok in
  solved_tokens env 2 [VAR "--p" []; TWs; TAtom 2] = Some (RToks [TWs; TAtom 2]) /\
  solved_tokens env 2 [VAR "--p" []] = Some (RToks []).
Proof. split; reflexivity. Qed.
