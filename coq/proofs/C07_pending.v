(* C07 - proofs about the shared Pending object (model/C07Pending.v): what a call returns does not depend on the
   calls before it; the only thing that does is whether the warning is logged, and it is logged once. *)
From Coq Require Import ZArith List Bool String Ascii Lia.
Require Import WV.model.C07Tok WV.model.C07Decl WV.model.C07Expand WV.model.C07Pending.
Import ListNotations.
Open Scope string_scope.

Section PendingProofs.
  Variable V : Type.
  Notation run := (run V).
  Notation alone := (alone V).
  Notation solve := (solve V).

  Lemma solve_result_stateless reported reported' empty outcome :
    fst (fst (solve reported empty outcome)) = fst (fst (solve reported' empty outcome)).
  Proof. unfold C07Pending.solve. destruct empty; [reflexivity|]. destruct outcome; reflexivity. Qed.

  (* ---- history independence: the results of a sequence of calls are the results of the calls taken alone *)
  Theorem results_are_pointwise reported calls : map fst (run reported calls) = map alone calls.
  Proof.
    revert reported. induction calls as [|[empty outcome] rest IH]; intro reported; [reflexivity|].
    cbn [C07Pending.run].
    destruct (solve reported empty outcome) as [[r reported'] logged] eqn:E. cbn [map fst].
    rewrite IH. f_equal. unfold C07Pending.alone. cbn [fst snd].
    rewrite (solve_result_stateless false reported), E. reflexivity.
  Qed.

  Lemma kth_result_is_alone reported before c after :
    nth (List.length before) (map fst (run reported (before ++ c :: after))) Crash = alone c.
  Proof.
    rewrite results_are_pointwise, map_app. cbn [map].
    rewrite <- (map_length alone before). now rewrite nth_middle.
  Qed.

  (* the k-th result is the same whatever came before it, whatever comes after, whatever the flag was *)
  Theorem history_independent reported reported' before before' c after after' :
    nth (List.length before) (map fst (run reported (before ++ c :: after))) Crash =
    nth (List.length before') (map fst (run reported' (before' ++ c :: after'))) Crash.
  Proof. now rewrite !kth_result_is_alone. Qed.

  (* ---- the warning: once, at the first call that fails *)
  Definition fails (c : bool * res V) : bool := match alone c with Invalid => true | _ => false end.

  Lemma run_after_report calls : Forall (fun rl => snd rl = false) (run true calls).
  Proof.
    induction calls as [|[empty outcome] rest IH]; [constructor|].
    cbn [C07Pending.run]. unfold C07Pending.solve.
    destruct (if empty then Invalid else outcome); constructor; auto.
  Qed.

  Theorem warned_at_most_once reported calls :
    (List.length (filter (fun rl => snd rl) (run reported calls)) <= 1)%nat.
  Proof.
    revert reported. induction calls as [|[empty outcome] rest IH]; intro reported; [simpl; lia|].
    cbn [C07Pending.run]. unfold C07Pending.solve.
    destruct (if empty then Invalid else outcome); cbn [filter snd]; try apply IH.
    assert (Z : filter (fun rl : res V * bool => snd rl) (run true rest) = []).
    { pose proof (run_after_report rest) as F. induction F as [|x l Hx _ IHF]; [reflexivity|].
      cbn [filter]. rewrite Hx. exact IHF. }
    destruct (negb reported); rewrite Z; simpl; lia.
  Qed.

  Lemma run_true_logs calls : map snd (run true calls) = map (fun _ => false) calls.
  Proof.
    induction calls as [|[empty outcome] rest IH]; [reflexivity|].
    cbn [C07Pending.run]. unfold C07Pending.solve.
    destruct (if empty then Invalid else outcome); cbn [map snd]; now rewrite IH.
  Qed.

  Theorem warned_at_first_failure before c after :
    Forall (fun x => fails x = false) before -> fails c = true ->
    map snd (run false (before ++ c :: after)) =
    (map (fun _ => false) before ++ true :: map (fun _ => false) after)%list.
  Proof.
    intros Hb Hc. induction Hb as [|[empty outcome] rest Hx _ IH].
    - destruct c as [empty outcome]. cbn [app C07Pending.run].
      unfold fails, C07Pending.alone, C07Pending.solve in Hc. cbn [fst snd] in Hc.
      unfold C07Pending.solve.
      destruct (if empty then Invalid else outcome); try discriminate.
      cbn [map snd negb app]. now rewrite run_true_logs.
    - cbn [app C07Pending.run].
      unfold fails, C07Pending.alone, C07Pending.solve in Hx. cbn [fst snd] in Hx.
      unfold C07Pending.solve.
      destruct (if empty then Invalid else outcome); try discriminate; cbn [map snd app]; now rewrite IH.
  Qed.

  Theorem never_warned_without_failure reported calls :
    Forall (fun x => fails x = false) calls -> map snd (run reported calls) = map (fun _ => false) calls.
  Proof.
    intro H. revert reported. induction H as [|[empty outcome] rest Hx _ IH]; intro reported; [reflexivity|].
    cbn [C07Pending.run].
    unfold fails, C07Pending.alone, C07Pending.solve in Hx. cbn [fst snd] in Hx.
    unfold C07Pending.solve.
    destruct (if empty then Invalid else outcome); try discriminate; cbn [map snd]; now rewrite IH.
  Qed.

  (* ---- one rule, several elements: element by element, longhand by longhand, the computed value is what
     the declaration gives for that element alone.  validate = the object's validate(), solved e = the tokens
     of the declaration with element e's custom properties substituted, order = any order in which the
     (element, longhand) pairs are computed *)
  Theorem shared_rule_is_per_element (E T : Type) (validate : T -> string -> res V) (solved : E -> T)
          (is_empty : T -> bool) (order : list (E * string)) reported :
    map (fun rl => computed_of V (fst rl))
        (run reported (map (fun ek => (is_empty (solved (fst ek)), validate (solved (fst ek)) (snd ek))) order)) =
    map (fun ek => computed_of V (if is_empty (solved (fst ek)) then Invalid
                                  else validate (solved (fst ek)) (snd ek))) order.
  Proof.
    rewrite <- (map_map fst (computed_of V)), results_are_pointwise, !map_map.
    apply map_ext. intros [e k]. unfold C07Pending.alone, C07Pending.solve. cbn [fst snd].
    destruct (is_empty (solved e)); [reflexivity|]. destruct (validate (solved e) k); reflexivity.
  Qed.
End PendingProofs.

(* ------------------------------------------------------------------ the lazy expander *)
Section LazyProofs.
  Variable V0 : Type.
  Variable known supported : string -> bool.
  Variable prop_validator : string -> list tok -> option V0.
  Notation validate_each := (validate_each V0 known supported prop_validator).
  Notation validate_each_gen := (validate_each_gen V0 known supported prop_validator).

  Lemma validate_each_gen_agrees l : validate_each l = gen_result (validate_each_gen l).
  Proof.
    induction l as [|[n ts] r IH]; [reflexivity|].
    cbn [C07Expand.validate_each C07Pending.validate_each_gen]. unfold bind.
    destruct (vns1 V0 known supported prop_validator ts n); try reflexivity.
    rewrite IH. destruct (validate_each_gen r) as [items e]. unfold gen_result. cbn [fst snd].
    destruct e; reflexivity.
  Qed.

  (* list() of the generator is the eager model the expander theorems are about *)
  Theorem four_sides_gen_agrees tokens name :
    expand_four_sides V0 known supported prop_validator tokens name =
    gen_result (four_sides_gen V0 known supported prop_validator tokens name).
  Proof.
    unfold expand_four_sides, four_sides_gen. destruct (any_var tokens); [reflexivity|].
    destruct (four_tokens_checked tokens); [|reflexivity]. apply validate_each_gen_agrees.
  Qed.
End LazyProofs.

(* a shorthand that is invalid after substitution gives no longhand a value: validate() consumes the whole
   generator before it picks the wanted longhand (it used to return at the first match: finding F161, repaired) *)
Theorem pending_shorthand_all_or_nothing V (shorthand : string) (g : gen (string * V)) (keys : list string) :
  all_or_nothing shorthand g keys = true.
Proof.
  unfold all_or_nothing, expander_validate. destruct (snd g); auto.
  induction keys as [|k keys IH]; auto.
Qed.

Theorem expander_validate_is_eager V (shorthand : string) (g : gen (string * V)) (wanted : string) :
  expander_validate V shorthand g wanted =
  match gen_result g with
  | Ok items => match find_key V shorthand items wanted with Some v => Ok v | None => Crash end
  | Invalid => Invalid
  | Crash => Crash
  end.
Proof. unfold expander_validate, gen_result. destruct (snd g); reflexivity. Qed.

Example padding_partial_is_invalid :
  let pv := fun (n : string) (ts : list tok) => match ts with [TAtom k] => Some k | _ => None end in
  let tokens := [TAtom 2; TIdent "solid" "solid"] in
  let g := four_sides_gen Z (fun _ => true) (fun _ => true) pv tokens "padding" in
  expander_validate (value Z) "padding" g "padding-top" = Invalid /\
  expander_validate (value Z) "padding" g "padding-right" = Invalid.
Proof. split; reflexivity. Qed.

(* the hypotheses are satisfiable: three elements, the first invalid *)
Example run_example :
  run Z false [(false, Invalid); (false, Ok 7%Z); (true, Ok 1%Z); (false, Ok 9%Z)] =
  [(Invalid, true); (Ok 7%Z, false); (Invalid, false); (Ok 9%Z, false)].
Proof. reflexivity. Qed.
