(* C19 - proofs about the image cache state machine (model/C19Cache.v). *)
From Coq Require Import List Bool Arith Lia ZArith.
Require Import WV.model.C19Cache.
Import ListNotations.

Section CacheProofs.
  Variables Url Key Mime Bytes Data Ratio : Type.
  Variable url_eqb : Url -> Url -> bool.
  Hypothesis url_eqb_eq : forall a b, url_eqb a b = true <-> a = b.
  Variable key_eqb : Key -> Key -> bool.
  Hypothesis key_eqb_eq : forall a b, key_eqb a b = true <-> a = b.
  Variable is_one : Ratio -> bool.
  Variable fetch : Url -> option Bytes.
  Variable decode : Url -> Bytes -> Key -> Mime -> option Data.
  Variable resample : Data -> Ratio -> Data.

  Notation state := (state Url Key Data).
  Notation op := (op Url Key Mime Ratio).
  Notation ckey := (ckey Url Key).
  Notation ckey_eqb := (ckey_eqb Url Key url_eqb key_eqb).
  Notation step := (step Url Key Mime Bytes Data Ratio url_eqb key_eqb is_one fetch decode resample).
  Notation run := (run Url Key Mime Bytes Data Ratio url_eqb key_eqb is_one fetch decode resample).
  Notation cold := (cold Url Key Mime Bytes Data fetch decode).
  Notation lookup := (lookup Url Key url_eqb key_eqb).
  Notation mime_of := (mime_of Url Key Mime Ratio url_eqb key_eqb).
  Notation embed := (embed Data Ratio is_one resample).

  (* every dictionary key - URL, orientation, dpi, optimize_images, jpeg_quality - is requested with one forced mime
     type, the only argument of a load that is not part of the key *)
  Definition one_mime_per_key (h : list op) : Prop :=
    forall u k m m', In (Get u k m) h -> In (Get u k m') h -> m = m'.

  (* what the proofs need: two requests of one key would load the same thing *)
  Definition consistent_per_key (h : list op) : Prop :=
    forall u k m m', In (Get u k m) h -> In (Get u k m') h -> cold u k m = cold u k m'.

  Definition value_of (x : obs Data) : option Data :=
    match x with OGet y => option_map snd y | OEmit y => y end.

  (* the reference: the operation executed with no cache at all (cold load of what is asked for; for Emit, of the key
     with the mime type it was loaded with, embedded with the ratio) *)
  Definition ref_obs (pre : list op) (o : op) : option Data :=
    match o with
    | Get u k m => cold u k m
    | Emit u k r => match mime_of (u, k) pre with Some m => option_map (fun d => embed d r) (cold u k m) | None => None end
    end.
  Fixpoint spec_run (pre h : list op) : list (option Data) :=
    match h with [] => [] | o :: r => ref_obs pre o :: spec_run (pre ++ [o]) r end.

  Lemma ckey_eqb_eq (a b : ckey) : ckey_eqb a b = true <-> a = b.
  Proof.
    destruct a as [u k], b as [u' k']. unfold C19Cache.ckey_eqb. simpl. rewrite andb_true_iff, url_eqb_eq, key_eqb_eq.
    split; [intros [-> ->]; reflexivity|intros E; inversion E; auto].
  Qed.
  Lemma ckey_eqb_refl q : ckey_eqb q q = true.
  Proof. apply ckey_eqb_eq; reflexivity. Qed.

  Lemma mime_of_app_get q pre u k m :
    mime_of q (pre ++ [Get u k m]) =
    match mime_of q pre with Some x => Some x | None => if ckey_eqb q (u, k) then Some m else None end.
  Proof.
    induction pre as [|o pre IH]; simpl; [reflexivity|].
    destruct o as [u0 k0 m0|u0 k0 r0]; [destruct (ckey_eqb q (u0, k0)); [reflexivity|]|]; exact IH.
  Qed.
  Lemma mime_of_app_emit q pre u k r : mime_of q (pre ++ [Emit u k r]) = mime_of q pre.
  Proof.
    induction pre as [|o pre IH]; simpl; [reflexivity|].
    destruct o as [u0 k0 m0|u0 k0 r0]; [destruct (ckey_eqb q (u0, k0)); [reflexivity|]|]; exact IH.
  Qed.
  Lemma mime_of_in u k pre m : mime_of (u, k) pre = Some m -> In (Get u k m) pre.
  Proof.
    induction pre as [|o pre IH]; simpl; [discriminate|].
    destruct o as [u0 k0 m0|u0 k0 r0].
    - destruct (ckey_eqb (u, k) (u0, k0)) eqn:E.
      + intros H; inversion H; subst. apply ckey_eqb_eq in E; inversion E; subst. left; reflexivity.
      + intros H; right; exact (IH H).
    - intros H; right; exact (IH H).
  Qed.
  Lemma mime_of_none_not_in u k pre m : mime_of (u, k) pre = None -> ~ In (Get u k m) pre.
  Proof.
    induction pre as [|o pre IH]; simpl; [tauto|].
    destruct o as [u0 k0 m0|u0 k0 r0].
    - destruct (ckey_eqb (u, k) (u0, k0)) eqn:E; [discriminate|].
      intros H [K|K]; [inversion K; subst; rewrite ckey_eqb_refl in E; discriminate|exact (IH H K)].
    - intros H [K|K]; [discriminate|exact (IH H K)].
  Qed.

  Lemma lookup_app_other q c q' x : ckey_eqb q q' = false -> lookup q (c ++ [(q', x)]) = lookup q c.
  Proof.
    intros E. induction c as [|[q0 x0] c IH]; simpl.
    - rewrite E; reflexivity.
    - destruct (ckey_eqb q q0); [reflexivity|exact IH].
  Qed.
  Lemma lookup_app_new q c x : lookup q c = None -> lookup q (c ++ [(q, x)]) = Some x.
  Proof.
    induction c as [|[q0 x0] c IH]; simpl.
    - rewrite ckey_eqb_refl; reflexivity.
    - destruct (ckey_eqb q q0); [discriminate|exact IH].
  Qed.
  Lemma lookup_app_found q c e y : lookup q c = Some y -> lookup q (c ++ e) = Some y.
  Proof.
    induction c as [|[q0 x0] c IH]; simpl; [discriminate|].
    destruct (ckey_eqb q q0); [tauto|exact IH].
  Qed.

  (* the invariant: the dictionary holds, for every key requested so far, exactly what a cold load with the mime type
     it was first requested with gives *)
  Definition inv (pre : list op) (s : state) : Prop :=
    forall q,
      match mime_of q pre with
      | None => lookup q (cache s) = None
      | Some m =>
          match cold (fst q) (snd q) m with
          | None => lookup q (cache s) = Some None
          | Some d => exists cell, lookup q (cache s) = Some (Some cell) /\ nth_error (heap s) cell = Some d
          end
      end.

  Lemma inv_empty : inv [] empty.
  Proof. intros q; reflexivity. Qed.

  Lemma step_ok pre s o :
    inv pre s -> consistent_per_key (pre ++ [o]) ->
    let '(s', x) := step s o in inv (pre ++ [o]) s' /\ value_of x = ref_obs pre o.
  Proof.
    intros I SV. destruct o as [u k m|u k r]; simpl.
    - (* Get *)
      pose proof (I (u, k)) as Iu. simpl in Iu.
      destruct (mime_of (u, k) pre) as [m0|] eqn:EV.
      + assert (cold u k m = cold u k m0) as ->.
        { apply (SV u k); apply in_or_app; [right; left; reflexivity|left; exact (mime_of_in _ _ _ _ EV)]. }
        assert (inv (pre ++ [Get u k m]) s) as I'.
        { intros w. rewrite mime_of_app_get. pose proof (I w) as Iw.
          destruct (mime_of w pre) eqn:EW; [exact Iw|].
          destruct (ckey_eqb w (u, k)) eqn:E; [|exact Iw].
          apply ckey_eqb_eq in E; subst. rewrite EV in EW; discriminate. }
        destruct (cold u k m0) as [d|] eqn:EC.
        * destruct Iu as [cell [L N]]. rewrite L, N. split; [exact I'|reflexivity].
        * rewrite Iu. split; [exact I'|reflexivity].
      + rewrite Iu. unfold C19Cache.cold.
        assert (forall x hp,
                  (match cold u k m with
                   | None => x = None
                   | Some d => exists cell, x = Some cell /\ nth_error hp cell = Some d
                   end) ->
                  (forall cell d, nth_error (heap s) cell = Some d -> nth_error hp cell = Some d) ->
                  inv (pre ++ [Get u k m]) (mk (cache s ++ [((u, k), x)]) hp (fetched s ++ [(u, k)]))) as K.
        { intros x hp Hx Hh w. rewrite mime_of_app_get. pose proof (I w) as Iw. simpl.
          destruct (mime_of w pre) as [mw|] eqn:EW.
          - destruct (cold (fst w) (snd w) mw) as [dw|].
            + destruct Iw as [cell [L N]]. exists cell. split; [exact (lookup_app_found _ _ _ _ L)|exact (Hh _ _ N)].
            + exact (lookup_app_found _ _ _ _ Iw).
          - destruct (ckey_eqb w (u, k)) eqn:E.
            + apply ckey_eqb_eq in E; subst w. simpl.
              destruct (cold u k m) as [d|].
              * destruct Hx as [cell [-> N]]. exists cell. split; [exact (lookup_app_new _ _ _ Iw)|exact N].
              * subst x. exact (lookup_app_new _ _ _ Iw).
            + rewrite (lookup_app_other _ _ _ _ E). exact Iw. }
        unfold C19Cache.cold in K.
        destruct (fetch u) as [b|].
        * destruct (decode u b k m) as [d|].
          -- split; [|reflexivity].
             apply K.
             ++ exists (length (heap s)). split; [reflexivity|].
                rewrite nth_error_app2 by lia. rewrite Nat.sub_diag. reflexivity.
             ++ intros cell d0 N. rewrite nth_error_app1; [exact N|]. apply nth_error_Some. rewrite N; discriminate.
          -- split; [|reflexivity]. apply K; auto.
        * split; [|reflexivity]. apply K; auto.
    - (* Emit: the state does not change *)
      assert (inv (pre ++ [Emit u k r]) s) as I'.
      { intros w. rewrite mime_of_app_emit. exact (I w). }
      pose proof (I (u, k)) as Iu. simpl in Iu.
      destruct (mime_of (u, k) pre) as [m0|].
      + destruct (cold u k m0) as [d|].
        * destruct Iu as [cell [L N]]. rewrite L, N. split; [exact I'|reflexivity].
        * rewrite Iu. split; [exact I'|reflexivity].
      + rewrite Iu. split; [exact I'|reflexivity].
  Qed.

  Lemma run_ok h : forall pre s,
    inv pre s -> consistent_per_key (pre ++ h) ->
    map value_of (snd (run s h)) = spec_run pre h.
  Proof.
    induction h as [|o h IH]; intros pre s I SV; simpl; [reflexivity|].
    pose proof (step_ok pre s o I) as S.
    destruct (step s o) as [s1 x] eqn:E1.
    destruct S as [I1 V1].
    - intros u k m m' A B. apply (SV u k); apply in_app_or in A; apply in_app_or in B; apply in_or_app.
      + destruct A as [A|[A|[]]]; [left; exact A|right; left; exact A].
      + destruct B as [B|[B|[]]]; [left; exact B|right; left; exact B].
    - specialize (IH (pre ++ [o]) s1 I1).
      destruct (run s1 h) as [s2 xs] eqn:E2. simpl in *.
      rewrite V1. f_equal. apply IH. rewrite <- app_assoc. exact SV.
  Qed.

  (* ---- cache_is_transparent: every observation equals the cold, cache-less value ---- *)
  Lemma transparent_if_consistent (h : list op) :
    consistent_per_key h -> map value_of (snd (run empty h)) = spec_run [] h.
  Proof. intros SV. exact (run_ok h [] empty inv_empty SV). Qed.

  Lemma one_mime_consistent h : one_mime_per_key h -> consistent_per_key h.
  Proof. intros O u k m m' A B. rewrite (O u k m m' A B). reflexivity. Qed.

  Theorem cache_is_transparent (h : list op) :
    one_mime_per_key h -> map value_of (snd (run empty h)) = spec_run [] h.
  Proof. intros SV. exact (transparent_if_consistent h (one_mime_consistent h SV)). Qed.

  (* when the decoders do not tell forced mime types apart (what the correspondence stream measures on the
     implementation at every run), there is no proviso at all: every history, every variant, every dpi ratio *)
  Theorem cache_is_transparent_when_mime_is_ignored (h : list op) :
    (forall u b k m m', decode u b k m = decode u b k m') ->
    map value_of (snd (run empty h)) = spec_run [] h.
  Proof.
    intros D. apply transparent_if_consistent. intros u k m m' _ _. unfold C19Cache.cold.
    destruct (fetch u) as [b|]; [apply D|reflexivity].
  Qed.

  (* warm = cold: after ANY earlier history `pre` on the same dictionary (other renders sharing the cache), a history
     that loads what it embeds observes what it observes on an empty dictionary *)
  Definition self_contained (h : list op) : Prop :=
    forall h1 u k r h2, h = h1 ++ Emit u k r :: h2 -> exists m, In (Get u k m) h1.

  Lemma app_same_length_tail {A} (l1 l2 a b : list A) :
    l1 ++ a = l2 ++ b -> length l1 = length l2 -> a = b.
  Proof.
    revert l2. induction l1 as [|x l1 IH]; intros [|y l2] E L; simpl in *; try discriminate.
    - exact E.
    - inversion E. inversion L. eapply IH; eassumption.
  Qed.

  Lemma run_app s h1 h2 :
    run s (h1 ++ h2) = let '(s1, x1) := run s h1 in let '(s2, x2) := run s1 h2 in (s2, x1 ++ x2).
  Proof.
    revert s. induction h1 as [|o h1 IH]; intros s; simpl.
    - destruct (run s h2); reflexivity.
    - destruct (step s o) as [s1 x]. rewrite IH.
      destruct (run s1 h1) as [s2 x1]. destruct (run s2 h2) as [s3 x2]. reflexivity.
  Qed.

  Lemma spec_run_shift pre h : forall done,
    consistent_per_key (pre ++ done ++ h) ->
    (forall h1 u k r h2, h = h1 ++ Emit u k r :: h2 -> exists m, In (Get u k m) (done ++ h1)) ->
    spec_run (pre ++ done) h = spec_run done h.
  Proof.
    induction h as [|o h IH]; intros dn SV SC; simpl; [reflexivity|].
    f_equal.
    - destruct o as [u k m|u k r]; simpl; [reflexivity|].
      destruct (SC [] u k r h eq_refl) as [m Hm]. rewrite app_nil_r in Hm.
      destruct (mime_of (u, k) dn) as [m1|] eqn:E1.
      + assert (In (Get u k m1) (pre ++ dn)) as A by (apply in_or_app; right; exact (mime_of_in _ _ _ _ E1)).
        destruct (mime_of (u, k) (pre ++ dn)) as [m2|] eqn:E2.
        * assert (cold u k m2 = cold u k m1) as ->; [|reflexivity].
          apply (SV u k); rewrite app_assoc; apply in_or_app; left; [exact (mime_of_in _ _ _ _ E2)|exact A].
        * exfalso. exact (mime_of_none_not_in _ _ _ _ E2 A).
      + exfalso. exact (mime_of_none_not_in _ _ _ _ E1 Hm).
    - rewrite <- app_assoc. apply IH.
      + rewrite <- app_assoc. simpl. exact SV.
      + intros h1 u k r h2 E. destruct (SC (o :: h1) u k r h2) as [m Hm]; [simpl; rewrite E; reflexivity|].
        exists m. rewrite <- app_assoc. exact Hm.
  Qed.

  Lemma warm_equals_cold_if_consistent (pre h : list op) :
    consistent_per_key (pre ++ h) -> self_contained h ->
    map value_of (snd (run (fst (run empty pre)) h)) = map value_of (snd (run empty h)).
  Proof.
    intros SV SC.
    assert (consistent_per_key h) as SVh.
    { intros u k m m' A B. apply (SV u k); apply in_or_app; right; assumption. }
    rewrite (transparent_if_consistent h SVh).
    pose proof (transparent_if_consistent (pre ++ h) SV) as T.
    rewrite run_app in T.
    destruct (run empty pre) as [s1 x1] eqn:E1. simpl.
    destruct (run s1 h) as [s2 x2] eqn:E2. simpl in T. simpl.
    assert (forall p q, spec_run p (q ++ h) = spec_run p q ++ spec_run (p ++ q) h) as SA.
    { intros p q. revert p. induction q as [|o q IHq]; intros p; simpl.
      - rewrite app_nil_r. reflexivity.
      - rewrite IHq. rewrite <- app_assoc. reflexivity. }
    rewrite SA in T. rewrite map_app in T. simpl in T.
    assert (length (map value_of x1) = length (spec_run [] pre)) as L.
    { pose proof (transparent_if_consistent pre) as P. rewrite E1 in P. simpl in P. rewrite P; [reflexivity|].
      intros u k m m' A B. apply (SV u k); apply in_or_app; left; assumption. }
    apply app_same_length_tail in T; [|exact L].
    rewrite T.
    pose proof (spec_run_shift pre h []) as SH. rewrite app_nil_r in SH. apply SH.
    - simpl. exact SV.
    - intros h1 u k r h2 E. simpl. exact (SC h1 u k r h2 E).
  Qed.

  Theorem warm_cache_equals_cold_cache (pre h : list op) :
    one_mime_per_key (pre ++ h) -> self_contained h ->
    map value_of (snd (run (fst (run empty pre)) h)) = map value_of (snd (run empty h)).
  Proof. intros SV. exact (warm_equals_cold_if_consistent pre h (one_mime_consistent _ SV)). Qed.

  (* ---- embedding an image (any dpi ratio) leaves the dictionary and the cached objects as they are ---- *)
  Theorem embedding_leaves_the_cache_unchanged (s : state) (u : Url) (k : Key) (r : Ratio) :
    fst (step s (Emit u k r)) = s.
  Proof.
    simpl. destruct (lookup (u, k) (cache s)) as [[cell|]|]; [|reflexivity|reflexivity].
    destruct (nth_error (heap s) cell); reflexivity.
  Qed.

  (* ---- failures are cached: the code stores None under the key ---- *)
  Theorem failed_load_is_cached (s : state) (u : Url) (k : Key) (m : Mime) :
    lookup (u, k) (cache s) = None -> cold u k m = None ->
    let '(s', x) := step s (Get u k m) in
    x = OGet None /\ lookup (u, k) (cache s') = Some None /\
    forall m', step s' (Get u k m') = (s', OGet None).      (* no second fetch for this key *)
  Proof.
    intros L C. destruct (step s (Get u k m)) as [s' x] eqn:E.
    assert (x = OGet None /\ lookup (u, k) (cache s') = Some None) as [A B].
    { simpl in E. rewrite L in E. unfold C19Cache.cold in C.
      destruct (fetch u) as [b|]; [rewrite C in E|]; inversion E; subst; simpl;
        (split; [reflexivity|exact (lookup_app_new _ _ _ L)]). }
    split; [exact A|split; [exact B|]].
    intros m'. simpl. rewrite B. reflexivity.
  Qed.

  (* ---- the fetcher is called at most once per key and dictionary, whatever the history ---- *)
  Definition keys_inv (s : state) : Prop :=
    fetched s = map fst (cache s) /\ NoDup (fetched s) /\ forall q, lookup q (cache s) = None -> ~ In q (fetched s).

  Lemma NoDup_app_one {A} (l : list A) (x : A) : NoDup l -> ~ In x l -> NoDup (l ++ [x]).
  Proof.
    induction l as [|y l IH]; intros N I; simpl.
    - constructor; [intros []|constructor].
    - inversion N; subst. constructor.
      + intros K. apply in_app_or in K. destruct K as [K|[K|[]]]; [contradiction|].
        subst. apply I. left; reflexivity.
      + apply IH; [assumption|]. intros K. apply I. right; exact K.
  Qed.

  Lemma lookup_none_app q c q' x : lookup q (c ++ [(q', x)]) = None -> lookup q c = None /\ ckey_eqb q q' = false.
  Proof.
    induction c as [|[q0 x0] c IH]; simpl.
    - destruct (ckey_eqb q q'); [discriminate|auto].
    - destruct (ckey_eqb q q0); [discriminate|exact IH].
  Qed.

  Lemma keys_step s o : keys_inv s -> keys_inv (fst (step s o)).
  Proof.
    intros [F [N L]].
    assert (forall q x hp, lookup q (cache s) = None ->
              keys_inv (mk (cache s ++ [(q, x)]) hp (fetched s ++ [q]))) as K1.
    { intros q x hp Lq. split; [|split]; simpl.
      - rewrite map_app, F. reflexivity.
      - apply NoDup_app_one; [exact N|exact (L q Lq)].
      - intros w Lw A. apply lookup_none_app in Lw. destruct Lw as [Lw E].
        apply in_app_or in A. destruct A as [A|[A|[]]]; [exact (L w Lw A)|].
        subst. rewrite ckey_eqb_refl in E. discriminate. }
    assert (keys_inv s) as K0 by (split; [exact F|split; [exact N|exact L]]).
    destruct o as [u k m|u k r]; simpl.
    - destruct (lookup (u, k) (cache s)) as [[cell|]|] eqn:Lu; simpl; [exact K0|exact K0|].
      destruct (fetch u) as [b|]; [destruct (decode u b k m) as [d|]|]; simpl; apply K1; exact Lu.
    - destruct (lookup (u, k) (cache s)) as [[cell|]|]; simpl; try exact K0.
      destruct (nth_error (heap s) cell); simpl; exact K0.
  Qed.

  Theorem each_key_fetched_at_most_once (h : list op) : NoDup (fetched (fst (run empty h))).
  Proof.
    assert (forall s, keys_inv s -> keys_inv (fst (run s h))) as K.
    { induction h as [|o h IH]; intros s I; simpl; [exact I|].
      pose proof (keys_step s o I) as I1. destruct (step s o) as [s1 x]. simpl in I1.
      specialize (IH s1 I1). destruct (run s1 h) as [s2 xs]. exact IH. }
    apply K. split; [reflexivity|split; [constructor|intros q _ []]].
  Qed.
End CacheProofs.

(* ---- the two ways the dictionary leaked one render into another before images.py was repaired (2960b4c, 6683f8f and
   the image-orientation fix before them), now positive statements about the instance used by the correspondence ---- *)
Open Scope Z_scope.

(* (1) two key parts of one URL (image-orientation none / 90deg, dpi unset / 96, ...): each request gets its own load *)
Definition two_variants : list (op Z Z Z Z) := [Get 7 0 0; Get 7 1 0; Get 7 0 0].

Theorem cache_separates_key_parts :
  map (value_of term) (snd (run_t [] [(7, 0, 0); (7, 1, 0)] empty two_variants)) =
    [Some (7, 0, 0, []); Some (7, 1, 0, []); Some (7, 0, 0, [])] /\
  length (fetched (fst (run_t [] [(7, 0, 0); (7, 1, 0)] empty two_variants))) = 2%nat.
Proof. split; reflexivity. Qed.

(* (2) the dpi option: render A embeds URL 7 with ratio 5 (a small box), render B shares the dictionary and embeds it
   with ratio 1: B gets the full image, and A's thumbnail is made from the full image each time *)
Definition resampled_then_reused : list (op Z Z Z Z) := [Get 7 0 0; Emit 7 0 5; Get 7 0 0; Emit 7 0 1; Emit 7 0 5].

Theorem resampling_is_not_remembered :
  map (value_of term) (snd (run_t [] [(7, 0, 0)] empty resampled_then_reused)) =
    [Some (7, 0, 0, []); Some (7, 0, 0, [5]); Some (7, 0, 0, []); Some (7, 0, 0, []); Some (7, 0, 0, [5])].
Proof. reflexivity. Qed.

(* what remains outside the key: the forced mime type.  If a decoder told two mime types apart, the second request of
   the key would get the first one's image (model-level witness; the correspondence stream checks at every run that
   the measured decoders do NOT tell them apart, see the obligation premise:decode-ignores-forced-mime) *)
Theorem cache_key_ignores_forced_mime_type :
  map (value_of term) (snd (run_t [] [(7, 0, 0); (7, 0, 1)] empty [Get 7 0 0; Get 7 0 1])) = [Some (7, 0, 0, []); Some (7, 0, 0, [])] /\
  spec_run Z Z Z unit term Z Z.eqb Z.eqb (fun r => r =? 1) (t_fetch []) (t_decode [(7, 0, 0); (7, 0, 1)]) t_resample [] [Get 7 0 0; Get 7 0 1] =
    [Some (7, 0, 0, []); Some (7, 0, 1, [])].
Proof. split; reflexivity. Qed.

(* the hypothesis of cache_is_transparent is satisfiable by a history that exercises hits, misses, a failing URL, two key
   parts of one URL, re-sampling and two renders sharing the dictionary *)
Definition example_history : list (op Z Z Z Z) :=
  [Get 1 0 0; Get 2 3 1; Get 9 0 0; Emit 1 0 4; Get 1 0 0; Get 1 2 0; Get 9 0 0; Emit 2 3 1; Emit 1 0 1; Emit 9 0 1; Emit 1 2 4].

Example cache_is_transparent_example :
  one_mime_per_key Z Z Z Z example_history /\
  map (value_of term) (snd (run_t [9] [(1, 0, 0); (2, 3, 1); (1, 2, 0)] empty example_history)) =
  [Some (1, 0, 0, []); Some (2, 3, 1, []); None; Some (1, 0, 0, [4]); Some (1, 0, 0, []); Some (1, 2, 0, []); None;
   Some (2, 3, 1, []); Some (1, 0, 0, []); None; Some (1, 2, 0, [4])].
Proof.
  split.
  - intros u k m m' A B. simpl in A, B.
    repeat (destruct A as [A|A]; [try discriminate; inversion A; subst; clear A|]); try contradiction;
    repeat (destruct B as [B|B]; [try discriminate; inversion B; subst; clear B|]); try contradiction; reflexivity.
  - reflexivity.
Qed.
