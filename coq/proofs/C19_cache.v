(* C19 - proofs about the image cache state machine (model/C19Cache.v). *)
From Coq Require Import List Bool Arith Lia ZArith.
Require Import WV.model.C19Cache.
Import ListNotations.

Section CacheProofs.
  Variables Url Variant Bytes Data Ratio : Type.
  Variable url_eqb : Url -> Url -> bool.
  Hypothesis url_eqb_eq : forall a b, url_eqb a b = true <-> a = b.
  Variable is_one : Ratio -> bool.
  Variable fetch : Url -> option Bytes.
  Variable decode : Url -> Bytes -> Variant -> option Data.
  Variable resample : Data -> Ratio -> Data.

  Notation state := (state Url Data).
  Notation op := (op Url Variant Ratio).
  Notation step := (step Url Variant Bytes Data Ratio url_eqb is_one fetch decode resample).
  Notation run := (run Url Variant Bytes Data Ratio url_eqb is_one fetch decode resample).
  Notation cold := (cold Url Variant Bytes Data fetch decode).
  Notation lookup := (lookup Url url_eqb).
  Notation variant_of := (variant_of Url Variant Ratio url_eqb).

  (* every URL is requested with one variant (orientation, mime type, dpi / optimize_images / jpeg_quality) *)
  Definition one_variant_per_url (h : list op) : Prop :=
    forall u v v', In (Get u v) h -> In (Get u v') h -> v = v'.
  (* no dpi down-sampling at write time *)
  Definition no_resampling_p (h : list op) : Prop :=
    forall u r, In (Emit u r) h -> is_one r = true.

  Definition value_of (x : obs Data) : option Data :=
    match x with OGet y => option_map snd y | OEmit y => y end.

  (* the reference: the operation executed with no cache at all (cold load of the variant asked for; for Emit, of the
     variant the URL was loaded with) *)
  Definition ref_obs (pre : list op) (o : op) : option Data :=
    match o with
    | Get u v => cold u v
    | Emit u _ => match variant_of u pre with Some v => cold u v | None => None end
    end.
  Fixpoint spec_run (pre h : list op) : list (option Data) :=
    match h with [] => [] | o :: r => ref_obs pre o :: spec_run (pre ++ [o]) r end.

  Lemma url_eqb_refl u : url_eqb u u = true.
  Proof. apply url_eqb_eq; reflexivity. Qed.

  Lemma variant_of_app_get u pre u' v :
    variant_of u (pre ++ [Get u' v]) =
    match variant_of u pre with Some x => Some x | None => if url_eqb u u' then Some v else None end.
  Proof.
    unfold C19Cache.variant_of. induction pre as [|o pre IH]; simpl.
    - reflexivity.
    - destruct o as [u0 v0|u0 r0]; [destruct (url_eqb u u0); [reflexivity|]|]; exact IH.
  Qed.
  Lemma variant_of_app_emit u pre u' r : variant_of u (pre ++ [Emit u' r]) = variant_of u pre.
  Proof.
    unfold C19Cache.variant_of. induction pre as [|o pre IH]; simpl.
    - reflexivity.
    - destruct o as [u0 v0|u0 r0]; [destruct (url_eqb u u0); [reflexivity|]|]; exact IH.
  Qed.
  Lemma variant_of_in u pre v : variant_of u pre = Some v -> In (Get u v) pre.
  Proof.
    unfold C19Cache.variant_of. induction pre as [|o pre IH]; simpl; [discriminate|].
    destruct o as [u0 v0|u0 r0].
    - destruct (url_eqb u u0) eqn:E.
      + intros H; inversion H; subst. apply url_eqb_eq in E; subst. left; reflexivity.
      + intros H; right; exact (IH H).
    - intros H; right; exact (IH H).
  Qed.
  Lemma variant_of_none_not_in u pre v : variant_of u pre = None -> ~ In (Get u v) pre.
  Proof.
    unfold C19Cache.variant_of. induction pre as [|o pre IH]; simpl; [tauto|].
    destruct o as [u0 v0|u0 r0].
    - destruct (url_eqb u u0) eqn:E; [discriminate|].
      intros H [K|K]; [inversion K; subst; rewrite url_eqb_refl in E; discriminate|exact (IH H K)].
    - intros H [K|K]; [discriminate|exact (IH H K)].
  Qed.

  Lemma lookup_app_other u c u' x : url_eqb u u' = false -> lookup u (c ++ [(u', x)]) = lookup u c.
  Proof.
    intros E. induction c as [|[u0 x0] c IH]; simpl.
    - rewrite E; reflexivity.
    - destruct (url_eqb u u0); [reflexivity|exact IH].
  Qed.
  Lemma lookup_app_new u c x : lookup u c = None -> lookup u (c ++ [(u, x)]) = Some x.
  Proof.
    induction c as [|[u0 x0] c IH]; simpl.
    - rewrite url_eqb_refl; reflexivity.
    - destruct (url_eqb u u0); [discriminate|exact IH].
  Qed.
  Lemma lookup_app_found u c e y : lookup u c = Some y -> lookup u (c ++ e) = Some y.
  Proof.
    induction c as [|[u0 x0] c IH]; simpl; [discriminate|].
    destruct (url_eqb u u0); [tauto|exact IH].
  Qed.

  (* the invariant: the dictionary holds, for every URL requested so far, exactly what a cold load of the variant it
     was first requested with gives *)
  Definition inv (pre : list op) (s : state) : Prop :=
    forall u,
      match variant_of u pre with
      | None => lookup u (cache s) = None
      | Some v =>
          match cold u v with
          | None => lookup u (cache s) = Some None
          | Some d => exists cell, lookup u (cache s) = Some (Some cell) /\ nth_error (heap s) cell = Some d
          end
      end.

  Lemma inv_empty : inv [] empty.
  Proof. intros u; reflexivity. Qed.

  Lemma step_ok pre s o :
    inv pre s -> one_variant_per_url (pre ++ [o]) -> no_resampling_p [o] ->
    let '(s', x) := step s o in inv (pre ++ [o]) s' /\ value_of x = ref_obs pre o.
  Proof.
    intros I SV NR. destruct o as [u v|u r]; simpl.
    - (* Get *)
      pose proof (I u) as Iu.
      destruct (variant_of u pre) as [v0|] eqn:EV.
      + (* seen before: v = v0 *)
        assert (v = v0) as ->.
        { apply (SV u); apply in_or_app; [right; left; reflexivity|left; exact (variant_of_in _ _ _ EV)]. }
        assert (inv (pre ++ [Get u v0]) s) as I'.
        { intros w. rewrite variant_of_app_get. pose proof (I w) as Iw.
          destruct (variant_of w pre) eqn:EW; [exact Iw|].
          destruct (url_eqb w u) eqn:E; [|exact Iw].
          apply url_eqb_eq in E; subst. rewrite EV in EW; discriminate. }
        destruct (cold u v0) as [d|] eqn:EC.
        * destruct Iu as [cell [L N]]. rewrite L, N. split; [exact I'|reflexivity].
        * rewrite Iu. split; [exact I'|reflexivity].
      + (* first request *)
        rewrite Iu. unfold C19Cache.cold.
        assert (forall x hp, (forall w, url_eqb w u = false -> True) ->
                  (match cold u v with
                   | None => x = None
                   | Some d => exists cell, x = Some cell /\ nth_error hp cell = Some d
                   end) ->
                  (forall cell d, nth_error (heap s) cell = Some d -> nth_error hp cell = Some d) ->
                  inv (pre ++ [Get u v]) (mk (cache s ++ [(u, x)]) hp (fetched s ++ [u]))) as K.
        { intros x hp _ Hx Hh w. rewrite variant_of_app_get. pose proof (I w) as Iw. simpl.
          destruct (variant_of w pre) as [vw|] eqn:EW.
          - destruct (cold w vw) as [dw|].
            + destruct Iw as [cell [L N]]. exists cell. split; [exact (lookup_app_found _ _ _ _ L)|exact (Hh _ _ N)].
            + exact (lookup_app_found _ _ _ _ Iw).
          - destruct (url_eqb w u) eqn:E.
            + apply url_eqb_eq in E; subst w.
              destruct (cold u v) as [d|].
              * destruct Hx as [cell [-> N]]. exists cell. split; [exact (lookup_app_new _ _ _ Iw)|exact N].
              * subst x. exact (lookup_app_new _ _ _ Iw).
            + rewrite (lookup_app_other _ _ _ _ E). exact Iw. }
        unfold C19Cache.cold in K.
        destruct (fetch u) as [b|].
        * destruct (decode u b v) as [d|].
          -- split; [|reflexivity].
             apply K; [auto| |].
             ++ exists (length (heap s)). split; [reflexivity|].
                rewrite nth_error_app2 by lia. rewrite Nat.sub_diag. reflexivity.
             ++ intros cell d0 N. rewrite nth_error_app1; [exact N|]. apply nth_error_Some. rewrite N; discriminate.
          -- split; [|reflexivity]. apply K; auto.
        * split; [|reflexivity]. apply K; auto.
    - (* Emit with ratio 1 *)
      assert (is_one r = true) as R by (apply (NR u); left; reflexivity).
      assert (inv (pre ++ [Emit u r]) s) as I'.
      { intros w. rewrite variant_of_app_emit. exact (I w). }
      pose proof (I u) as Iu.
      destruct (variant_of u pre) as [v0|].
      + destruct (cold u v0) as [d|].
        * destruct Iu as [cell [L N]]. rewrite L, N, R. split; [exact I'|reflexivity].
        * rewrite Iu. split; [exact I'|reflexivity].
      + rewrite Iu. split; [exact I'|reflexivity].
  Qed.

  Lemma run_ok h : forall pre s,
    inv pre s -> one_variant_per_url (pre ++ h) -> no_resampling_p h ->
    map value_of (snd (run s h)) = spec_run pre h.
  Proof.
    induction h as [|o h IH]; intros pre s I SV NR; simpl; [reflexivity|].
    pose proof (step_ok pre s o I) as S.
    destruct (step s o) as [s1 x] eqn:E1.
    destruct S as [I1 V1].
    - intros u v v' A B. apply (SV u); apply in_app_or in A; apply in_app_or in B; apply in_or_app.
      + destruct A as [A|[A|[]]]; [left; exact A|right; left; exact A].
      + destruct B as [B|[B|[]]]; [left; exact B|right; left; exact B].
    - intros u r [A|[]]. apply (NR u). left; exact A.
    - specialize (IH (pre ++ [o]) s1 I1).
      destruct (run s1 h) as [s2 xs] eqn:E2. simpl in *.
      rewrite V1. f_equal. apply IH.
      + rewrite <- app_assoc. exact SV.
      + intros u r A. apply (NR u). right; exact A.
  Qed.

  (* ---- cache_is_transparent: every observation equals the cold, cache-less value ---- *)
  Theorem cache_is_transparent (h : list op) :
    one_variant_per_url h -> no_resampling_p h ->
    map value_of (snd (run empty h)) = spec_run [] h.
  Proof. intros SV NR. exact (run_ok h [] empty inv_empty SV NR). Qed.

  (* warm = cold: after ANY earlier history `pre` on the same dictionary (other renders sharing the cache), a history
     that loads what it embeds observes what it observes on an empty dictionary *)
  Definition self_contained (h : list op) : Prop :=
    forall h1 u r h2, h = h1 ++ Emit u r :: h2 -> exists v, In (Get u v) h1.

  Lemma app_same_length_tail {A} (l1 l2 a b : list A) :
    l1 ++ a = l2 ++ b -> length l1 = length l2 -> a = b.
  Proof.
    revert l2. induction l1 as [|x l1 IH]; intros [|y l2] E L; simpl in *; try discriminate.
    - exact E.
    - inversion E. inversion L. eapply IH; eassumption.
  Qed.

  Lemma run_app s h1 h2 :
    run s (h1 ++ h2) = let '(s1, x1) := run s h1 in let '(s2, x2) := run s1 h2 in (s2, x1 ++ x2).
  Proof.
    revert s. induction h1 as [|o h1 IH]; intros s; simpl.
    - destruct (run s h2); reflexivity.
    - destruct (step s o) as [s1 x]. rewrite IH.
      destruct (run s1 h1) as [s2 x1]. destruct (run s2 h2) as [s3 x2]. reflexivity.
  Qed.

  Lemma spec_run_shift pre h : forall done,
    one_variant_per_url (pre ++ done ++ h) ->
    (forall h1 u r h2, h = h1 ++ Emit u r :: h2 -> exists v, In (Get u v) (done ++ h1)) ->
    spec_run (pre ++ done) h = spec_run done h.
  Proof.
    induction h as [|o h IH]; intros dn SV SC; simpl; [reflexivity|].
    f_equal.
    - destruct o as [u v|u r]; simpl; [reflexivity|].
      destruct (SC [] u r h eq_refl) as [v Hv]. rewrite app_nil_r in Hv.
      destruct (variant_of u dn) as [v1|] eqn:E1.
      + assert (In (Get u v1) (pre ++ dn)) as A by (apply in_or_app; right; exact (variant_of_in _ _ _ E1)).
        destruct (variant_of u (pre ++ dn)) as [v2|] eqn:E2.
        * assert (v2 = v1) as ->; [|reflexivity].
          apply (SV u); rewrite app_assoc; apply in_or_app; left; [exact (variant_of_in _ _ _ E2)|exact A].
        * exfalso. exact (variant_of_none_not_in _ _ _ E2 A).
      + exfalso. exact (variant_of_none_not_in _ _ _ E1 Hv).
    - rewrite <- app_assoc. apply IH.
      + rewrite <- app_assoc. simpl. exact SV.
      + intros h1 u r h2 E. destruct (SC (o :: h1) u r h2) as [v Hv]; [simpl; rewrite E; reflexivity|].
        exists v. rewrite <- app_assoc. exact Hv.
  Qed.

  Theorem warm_cache_equals_cold_cache (pre h : list op) :
    one_variant_per_url (pre ++ h) -> no_resampling_p (pre ++ h) -> self_contained h ->
    map value_of (snd (run (fst (run empty pre)) h)) = map value_of (snd (run empty h)).
  Proof.
    intros SV NR SC.
    assert (one_variant_per_url h) as SVh.
    { intros u v v' A B. apply (SV u); apply in_or_app; right; assumption. }
    assert (no_resampling_p h) as NRh.
    { intros u r A. apply (NR u). apply in_or_app; right; exact A. }
    rewrite (cache_is_transparent h SVh NRh).
    pose proof (cache_is_transparent (pre ++ h) SV NR) as T.
    rewrite run_app in T.
    destruct (run empty pre) as [s1 x1] eqn:E1. simpl.
    destruct (run s1 h) as [s2 x2] eqn:E2. simpl in T. simpl.
    (* observations of h after pre are the tail of T *)
    assert (forall p q, spec_run p (q ++ h) = spec_run p q ++ spec_run (p ++ q) h) as SA.
    { intros p q. revert p. induction q as [|o q IHq]; intros p; simpl.
      - rewrite app_nil_r. reflexivity.
      - rewrite IHq. rewrite <- app_assoc. reflexivity. }
    rewrite SA in T. rewrite map_app in T. simpl in T.
    assert (length (map value_of x1) = length (spec_run [] pre)) as L.
    { pose proof (cache_is_transparent pre) as P. rewrite E1 in P. simpl in P. rewrite P; [reflexivity| |].
      - intros u v v' A B. apply (SV u); apply in_or_app; left; assumption.
      - intros u r A. apply (NR u). apply in_or_app; left; exact A. }
    apply app_same_length_tail in T; [|exact L].
    rewrite T.
    pose proof (spec_run_shift pre h []) as SH. rewrite app_nil_r in SH. apply SH.
    - simpl. exact SV.
    - intros h1 u r h2 E. simpl. exact (SC h1 u r h2 E).
  Qed.

  (* ---- failures are cached: the code stores None under the URL ---- *)
  Theorem failed_load_is_cached (s : state) (u : Url) (v : Variant) :
    lookup u (cache s) = None -> cold u v = None ->
    let '(s', x) := step s (Get u v) in
    x = OGet None /\ lookup u (cache s') = Some None /\
    forall v', step s' (Get u v') = (s', OGet None).      (* no second fetch, whatever the variant *)
  Proof.
    intros L C. destruct (step s (Get u v)) as [s' x] eqn:E.
    assert (x = OGet None /\ lookup u (cache s') = Some None) as [A B].
    { simpl in E. rewrite L in E. unfold C19Cache.cold in C.
      destruct (fetch u) as [b|]; [rewrite C in E|]; inversion E; subst; simpl;
        (split; [reflexivity|exact (lookup_app_new _ _ _ L)]). }
    split; [exact A|split; [exact B|]].
    intros v'. simpl. rewrite B. reflexivity.
  Qed.

  (* ---- every URL is fetched at most once per dictionary, whatever the history ---- *)
  Definition keys_inv (s : state) : Prop :=
    fetched s = map fst (cache s) /\ NoDup (fetched s) /\ forall u, lookup u (cache s) = None -> ~ In u (fetched s).

  Lemma NoDup_app_one {A} (l : list A) (x : A) : NoDup l -> ~ In x l -> NoDup (l ++ [x]).
  Proof.
    induction l as [|y l IH]; intros N I; simpl.
    - constructor; [intros []|constructor].
    - inversion N; subst. constructor.
      + intros K. apply in_app_or in K. destruct K as [K|[K|[]]]; [contradiction|].
        subst. apply I. left; reflexivity.
      + apply IH; [assumption|]. intros K. apply I. right; exact K.
  Qed.

  Lemma lookup_none_app u c u' x : lookup u (c ++ [(u', x)]) = None -> lookup u c = None /\ url_eqb u u' = false.
  Proof.
    induction c as [|[u0 x0] c IH]; simpl.
    - destruct (url_eqb u u'); [discriminate|auto].
    - destruct (url_eqb u u0); [discriminate|exact IH].
  Qed.

  Lemma keys_step s o : keys_inv s -> keys_inv (fst (step s o)).
  Proof.
    intros [F [N L]].
    assert (forall u x, lookup u (cache s) = None ->
              keys_inv (mk (cache s ++ [(u, x)]) (heap s) (fetched s ++ [u]))) as K1.
    { intros u x Lu. split; [|split]; simpl.
      - rewrite map_app, F. reflexivity.
      - apply NoDup_app_one; [exact N|exact (L u Lu)].
      - intros w Lw A. apply lookup_none_app in Lw. destruct Lw as [Lw E].
        apply in_app_or in A. destruct A as [A|[A|[]]]; [exact (L w Lw A)|].
        subst. rewrite url_eqb_refl in E. discriminate. }
    assert (forall u x d, lookup u (cache s) = None ->
              keys_inv (mk (cache s ++ [(u, x)]) (heap s ++ [d]) (fetched s ++ [u]))) as K2.
    { intros u x d Lu. destruct (K1 u x Lu) as [A [B C]]. split; [exact A|split; [exact B|exact C]]. }
    assert (keys_inv s) as K0 by (split; [exact F|split; [exact N|exact L]]).
    assert (forall hp, keys_inv (mk (cache s) hp (fetched s))) as K3
      by (intros hp; split; [exact F|split; [exact N|exact L]]).
    destruct o as [u v|u r]; simpl.
    - destruct (lookup u (cache s)) as [[cell|]|] eqn:Lu; simpl; [exact K0|exact K0|].
      destruct (fetch u) as [b|]; [destruct (decode u b v) as [d|]|]; simpl.
      + apply K2; exact Lu.
      + apply K1; exact Lu.
      + apply K1; exact Lu.
    - destruct (lookup u (cache s)) as [[cell|]|]; simpl; try exact K0.
      destruct (nth_error (heap s) cell); simpl; try exact K0.
      destruct (is_one r); simpl; [exact K0|apply K3].
  Qed.

  Theorem each_url_fetched_at_most_once (h : list op) : NoDup (fetched (fst (run empty h))).
  Proof.
    assert (forall s, keys_inv s -> keys_inv (fst (run s h))) as K.
    { induction h as [|o h IH]; intros s I; simpl; [exact I|].
      pose proof (keys_step s o I) as I1. destruct (step s o) as [s1 x]. simpl in I1.
      specialize (IH s1 I1). destruct (run s1 h) as [s2 xs]. exact IH. }
    apply K. split; [reflexivity|split; [constructor|intros u _ []]].
  Qed.
End CacheProofs.

(* ---- where transparency stops: the two ways the dictionary leaks one render into another ---- *)
Open Scope Z_scope.

(* (1) the key is the URL alone.  Variants 0 and 1 of URL 7 (say image-orientation none / 90deg, or dpi unset / 96):
   the second request gets the object built for the first.  [listed finding c13:image-cache-ignores-orientation for the
   orientation; the same holds for dpi, optimize_images, jpeg_quality and the forced mime type] *)
Definition two_variants : list (op Z Z Z) := [Get 7 0; Get 7 1].

Theorem cache_not_transparent_across_variants :
  let run := run Z Z unit term Z Z.eqb (fun r => r =? 1) (t_fetch []) (t_decode [(7, 0); (7, 1)]) t_resample in
  map (value_of term) (snd (run empty two_variants)) = [Some (7, 0, []); Some (7, 0, [])] /\
  spec_run Z Z unit term Z Z.eqb (t_fetch []) (t_decode [(7, 0); (7, 1)]) [] two_variants = [Some (7, 0, []); Some (7, 1, [])].
Proof. split; reflexivity. Qed.

(* (2) the dpi option: get_x_object stores the down-sampled data in the cached object.  Render A embeds URL 7 with
   ratio 5 (a small box), render B shares the dictionary and embeds it with ratio 1: B gets A's thumbnail. *)
Definition resampled_then_reused : list (op Z Z Z) := [Get 7 0; Emit 7 5; Get 7 0; Emit 7 1].

Theorem cache_not_transparent_after_resampling :
  let run := run Z Z unit term Z Z.eqb (fun r => r =? 1) (t_fetch []) (t_decode [(7, 0)]) t_resample in
  map (value_of term) (snd (run empty resampled_then_reused)) =
    [Some (7, 0, []); Some (7, 0, [5]); Some (7, 0, [5]); Some (7, 0, [5])] /\
  map (value_of term) (snd (run empty [Get 7 0; Emit 7 1])) = [Some (7, 0, []); Some (7, 0, [])].
Proof. split; reflexivity. Qed.

(* the hypotheses of cache_is_transparent are satisfiable by a history that exercises hits, misses, a failing URL and
   two renders sharing the dictionary *)
Definition example_history : list (op Z Z Z) :=
  [Get 1 0; Get 2 3; Get 9 0; Emit 1 1; Get 1 0; Get 9 0; Emit 2 1; Emit 1 1; Emit 9 1].

Example cache_is_transparent_example :
  one_variant_per_url Z Z Z example_history /\ no_resampling_p Z Z Z (fun r => r =? 1) example_history /\
  map (value_of term) (snd (run Z Z unit term Z Z.eqb (fun r => r =? 1) (t_fetch [9]) (t_decode [(1, 0); (2, 3)]) t_resample
                             empty example_history)) =
  [Some (1, 0, []); Some (2, 3, []); None; Some (1, 0, []); Some (1, 0, []); None; Some (2, 3, []); Some (1, 0, []); None].
Proof.
  split; [|split].
  - intros u v v' A B. simpl in A, B.
    repeat (destruct A as [A|A]; [try discriminate; inversion A; subst; clear A|]); try contradiction;
    repeat (destruct B as [B|B]; [try discriminate; inversion B; subst; clear B|]); try contradiction; reflexivity.
  - intros u r A. simpl in A.
    repeat (destruct A as [A|A]; [try discriminate; inversion A; subst; reflexivity|]). contradiction.
  - reflexivity.
Qed.
