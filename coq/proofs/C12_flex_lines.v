(* C12 - flex: order, line collection (step 5) and main-axis placement (step 12): proofs. *)
From Coq Require Import QArith Qminmax Qabs List Bool ZArith Lia Lqa Permutation Sorted.
Require Import WV.model.C12Flex WV.model.C12FlexLines WV.proofs.C12_flex_base.
Import ListNotations.
Open Scope Q_scope.

(* ================================================================= order *)
Section Order.
  Context {A : Type} (key : A -> Z).

  Lemma insert_perm x l : Permutation (insert_ord key x l) (x :: l).
  Proof.
    induction l as [|y t IH]; simpl; [apply Permutation_refl|].
    destruct (key x <=? key y)%Z; [apply Permutation_refl|].
    eapply Permutation_trans; [apply perm_skip, IH | apply perm_swap].
  Qed.

  Lemma sort_perm l : Permutation (sort_ord key l) l.
  Proof.
    induction l as [|x t IH]; simpl; [constructor|].
    eapply Permutation_trans; [apply insert_perm | now apply perm_skip].
  Qed.

  Definition kle (a b : A) : Prop := (key a <= key b)%Z.

  Lemma insert_sorted x l : Sorted kle l -> Sorted kle (insert_ord key x l).
  Proof.
    induction l as [|y t IH]; simpl; intros H; [repeat constructor|].
    destruct (key x <=? key y)%Z eqn:E.
    - constructor; [assumption | constructor; unfold kle; lia].
    - inversion H as [|? ? Ht Hy]; subst. constructor; [now apply IH|].
      destruct t as [|z t']; simpl; [constructor; unfold kle; lia|].
      destruct (key x <=? key z)%Z; constructor; unfold kle; [lia | inversion Hy; assumption].
  Qed.

  Lemma sort_sorted l : Sorted kle (sort_ord key l).
  Proof. induction l; simpl; [constructor | now apply insert_sorted]. Qed.

  (* stability: items with the same `order` keep their document order *)
  Lemma insert_filter k x l : Sorted kle l ->
    filter (fun a => Z.eqb (key a) k) (insert_ord key x l) = filter (fun a => Z.eqb (key a) k) (x :: l).
  Proof.
    induction l as [|y t IH]; intros Hs; simpl; [reflexivity|].
    destruct (key x <=? key y)%Z eqn:E; [reflexivity|]. simpl.
    inversion Hs as [|? ? Ht Hy]; subst. rewrite (IH Ht). simpl.
    destruct (Z.eqb (key x) k) eqn:Ex, (Z.eqb (key y) k) eqn:Ey; try reflexivity. lia.
  Qed.

  Lemma sort_stable k l :
    filter (fun a => Z.eqb (key a) k) (sort_ord key l) = filter (fun a => Z.eqb (key a) k) l.
  Proof.
    induction l as [|x t IH]; simpl; [reflexivity|].
    rewrite insert_filter by apply sort_sorted. simpl. now rewrite IH.
  Qed.
End Order.

(* ================================================================= line collection *)
Section Collect.
  Context {A : Type} (sz : A -> Q).

  Lemma line_outer_nil gap : line_outer sz gap [] == 0.
  Proof. unfold line_outer, gaps_enum. cbn [sumQ]. ring. Qed.
  Lemma line_outer_single gap c : line_outer sz gap [c] == sz c.
  Proof. unfold line_outer, gaps_enum, nQ. cbn [sumQ length Z.of_nat]. change (inject_Z 0) with 0. ring. Qed.

  Lemma line_outer_snoc gap (line : list A) c :
    line_outer sz gap (line ++ [c]) == line_outer sz gap line + sz c + (match line with [] => 0 | _ => gap end).
  Proof.
    unfold line_outer. destruct line as [|x t]; simpl; [unfold nQ; simpl; ring|].
    assert (E : sumQ sz (t ++ [c]) == sumQ sz t + sz c) by (induction t; simpl; [ring | rewrite IHt; ring]).
    rewrite E, app_length. simpl length. unfold nQ. rewrite Nat2Z.inj_add, inject_Z_plus. simpl (inject_Z (Z.of_nat 1)). ring.
  Qed.

  Lemma collect_aux_concat wrap main gap line ls l : concat (collect_aux sz wrap main gap line ls l) = line ++ l.
  Proof.
    revert line ls. induction l as [|c t IH]; intros line ls; simpl.
    - destruct line; simpl; rewrite ?app_nil_r; reflexivity.
    - destruct (wrap && _).
      + destruct line; simpl; rewrite IH; simpl; rewrite ?app_nil_r; reflexivity.
      + rewrite IH, <- app_assoc. reflexivity.
  Qed.

  Lemma collect_aux_nonempty wrap main gap line ls l :
    Forall (fun ln => ln <> []) (collect_aux sz wrap main gap line ls l).
  Proof.
    revert line ls. induction l as [|c t IH]; intros line ls; simpl.
    - destruct line; constructor; [discriminate | constructor].
    - destruct (wrap && _).
      + destruct line; constructor; try discriminate; apply IH.
      + apply IH.
  Qed.

  (* every line of two or more items fits *)
  Definition fits (main gap : Q) (ln : list A) : Prop := (2 <= length ln)%nat -> line_outer sz gap ln <= main.

  Lemma collect_aux_fits main gap line ls l : ls == line_outer sz gap line -> fits main gap line ->
    Forall (fits main gap) (collect_aux sz true main gap line ls l).
  Proof.
    revert line ls. induction l as [|c t IH]; intros line ls Hls Hfit; simpl.
    - destruct line; constructor; [assumption | constructor].
    - destruct (Qlt_le_dec main _) as [Hov|Hok]; simpl.
      + destruct line as [|x t'].
        * constructor; [intros H; simpl in H; lia|]. apply IH; [rewrite line_outer_nil; lra | intros H; simpl in H; lia].
        * constructor; [assumption|]. apply IH; [rewrite line_outer_single; lra | intros H; simpl in H; lia].
      + apply IH.
        * rewrite line_outer_snoc, <- Hls. reflexivity.
        * intros _. rewrite line_outer_snoc, <- Hls. assumption.
  Qed.

  (* the code's loop is the greedy algorithm of css-flexbox 9.3 (when outer sizes + gap are not negative) *)
  Lemma collect_greedy_aux main gap l : (forall d, In d l -> 0 <= sz d + gap) ->
    (forall line ls, ls == line_outer sz gap line -> (line = [] \/ line_outer sz gap line <= main) ->
       collect_aux sz true main gap line ls l = collect_css_aux sz main gap line l) /\
    (forall c, main < sz c -> collect_aux sz true main gap [c] (sz c) l = [c] :: collect_css_aux sz main gap [] l).
  Proof.
    induction l as [|d t IH]; intros Hnn.
    - split; [intros line ls _ _; destruct line; reflexivity | intros c _; reflexivity].
    - destruct IH as (IHA & IHB); [intros; apply Hnn; now right|].
      pose proof (Hnn d (or_introl eq_refl)) as Hd.
      assert (START : forall (tail : list (list A)),
                (if Qlt_le_dec main (sz d) then [d] :: collect_aux sz true main gap [] 0 t
                 else collect_aux sz true main gap [d] (sz d) t) =
                (if Qlt_le_dec main (sz d) then [d] :: collect_css_aux sz main gap [] t
                 else collect_css_aux sz main gap [d] t)).
      { intros _. destruct (Qlt_le_dec main (sz d)).
        - f_equal. apply IHA; [rewrite line_outer_nil; lra | now left].
        - apply IHA; [rewrite line_outer_single; lra | right; rewrite line_outer_single; lra]. }
      split.
      + intros line ls Hls Hline. simpl. destruct line as [|x t'].
        * assert (E0 : ls == 0) by (rewrite Hls; apply line_outer_nil).
          destruct (Qlt_le_dec main (ls + sz d + 0)) as [H1|H1]; destruct (Qlt_le_dec main (sz d)) as [H2|H2]; simpl; try lra.
          -- f_equal. apply IHA; [rewrite line_outer_nil; lra | now left].
          -- apply IHA; [rewrite line_outer_single; lra|].
             right. rewrite line_outer_single. lra.
        * assert (E1 : ls + sz d + gap == line_outer sz gap ((x :: t') ++ [d])) by (rewrite line_outer_snoc, <- Hls; reflexivity).
          destruct (Qlt_le_dec main (ls + sz d + gap)) as [H1|H1];
            destruct (Qlt_le_dec main (line_outer sz gap ((x :: t') ++ [d]))) as [H2|H2]; simpl; try lra.
          -- f_equal. destruct (Qlt_le_dec main (sz d)) as [H3|H3].
             ++ now apply IHB.
             ++ apply IHA; [rewrite line_outer_single; lra | right; rewrite line_outer_single; lra].
          -- apply IHA; [symmetry in E1; rewrite E1; reflexivity | right; assumption].
      + intros c Hc. simpl.
        destruct (Qlt_le_dec main (sz c + sz d + gap)) as [H1|H1]; [|lra]. simpl. f_equal.
        destruct (Qlt_le_dec main (sz d)) as [H3|H3].
        * now apply IHB.
        * apply IHA; [rewrite line_outer_single; lra | right; rewrite line_outer_single; lra].
  Qed.
End Collect.

Theorem lines_partition_in_order {A} (key : A -> Z) (sz : A -> Q) (wrap : bool) (main gap : Q) (items : list A) :
  let sorted := sort_ord key items in
  let lines := collect sz wrap main gap sorted in
  concat lines = sorted /\ Permutation sorted items /\ Sorted (kle key) sorted /\
  (forall k, filter (fun a => Z.eqb (key a) k) sorted = filter (fun a => Z.eqb (key a) k) items) /\
  Forall (fun ln => ln <> []) lines /\
  (wrap = true -> Forall (fits sz main gap) lines).
Proof.
  intros sorted lines. repeat split.
  - unfold lines, collect. now rewrite collect_aux_concat.
  - apply sort_perm.
  - apply sort_sorted.
  - intros k. apply sort_stable.
  - apply collect_aux_nonempty.
  - intros ->. apply collect_aux_fits; [rewrite line_outer_nil; lra | intros H; simpl in H; lia].
Qed.

Theorem collect_is_greedy {A} (sz : A -> Q) (main gap : Q) (l : list A) :
  (forall d, In d l -> 0 <= sz d + gap) -> collect sz true main gap l = collect_css sz true main gap l.
Proof.
  intros H. unfold collect, collect_css. destruct (collect_greedy_aux sz main gap l H) as (HA & _).
  apply HA; [rewrite line_outer_nil; lra | now left].
Qed.

(* ================================================================= step 12 *)
Definition mwj (x : jitem) : Q := oz (jml x) + jw x + jpb x + oz (jmr x).

Fixpoint chain (R : placed -> placed -> Prop) (l : list placed) : Prop :=
  match l with
  | a :: ((b :: _) as t) => R a b /\ chain R t
  | _ => True
  end.

Lemma chain_impl (R R' : placed -> placed -> Prop) l : (forall a b, R a b -> R' a b) -> chain R l -> chain R' l.
Proof.
  intros H. induction l as [|a t IH]; [trivial|]. destruct t as [|b t']; [trivial|].
  intros (A & B). split; [now apply H | now apply IH].
Qed.

Fixpoint last_edge (ps : list placed) : Q :=
  match ps with
  | [] => 0
  | [p] => px p + pmw p
  | _ :: t => last_edge t
  end.

Lemma place_loop_spec gap sp line : forall first pos,
  let ps := place_loop gap sp first pos line in
  map pid ps = map jid line /\ map pw ps = map jw line /\ map pmw ps = map mwj line /\
  chain (fun a b => px b == px a + pmw a + sp + gap) ps /\
  (forall x t, line = x :: t ->
     (exists p ps', ps = p :: ps' /\ px p == (if first then pos else pos + gap)) /\
     last_edge ps == (if first then pos else pos + gap) + sumQ mwj line + nQ (length t) * (sp + gap)).
Proof.
  induction line as [|x t IH]; intros first pos; simpl.
  - repeat split; intros; discriminate.
  - set (pos1 := if first then pos else pos + gap).
    set (mw := oz (jml x) + jw x + jpb x + oz (jmr x)).
    destruct (IH false (pos1 + mw + sp)) as (I1 & I2 & I3 & I4 & I5).
    split; [simpl; now rewrite I1|]. split; [simpl; now rewrite I2|]. split; [simpl; rewrite I3; reflexivity|].
    split.
    { destruct t as [|y t']; [exact I|]. simpl in *. split; [|exact I4]. simpl. unfold pos1, mw. ring. }
    intros xx tt E. injection E as <- <-. split.
    { eexists _, _. split; [reflexivity | simpl; reflexivity]. }
    destruct t as [|y t'].
    + simpl. unfold mwj, nQ. simpl. fold mw pos1. ring.
    + destruct (I5 y t' eq_refl) as ((q & qs & Eq & _) & L).
      change (place_loop gap sp first pos (x :: y :: t'))
        with (mkP (jid x) pos1 (jw x) mw :: place_loop gap sp false (pos1 + mw + sp) (y :: t')).
      rewrite Eq in *. change (last_edge (mkP (jid x) pos1 (jw x) mw :: q :: qs)) with (last_edge (q :: qs)).
      rewrite L. simpl length. unfold nQ. rewrite Nat2Z.inj_succ. unfold Z.succ. rewrite inject_Z_plus.
      change (inject_Z 1) with 1. cbn [sumQ]. change (mwj x) with mw. ring.
Qed.

Lemma sum_mwj_fill share line :
  sumQ mwj (map (fill_auto share) line) == sumQ mwj line + inject_Z (nautos line) * share.
Proof.
  induction line as [|x t IH]; simpl; [ring|]. rewrite IH, inject_Z_plus. unfold mwj at 1 3, fill_auto, nauto. simpl.
  destruct (jml x), (jmr x); simpl; ring.
Qed.

Lemma nautos_nonneg line : (0 <= nautos line)%Z.
Proof. induction line as [|x t IH]; simpl; [lia|]. unfold nauto. destruct (jml x), (jmr x); lia. Qed.

(* items + margins + gaps + what is left = container, after 12.1 *)
Lemma margins_line_conserve W gap line line1 free : margins_line (jfree W gap line) line = (line1, free) ->
  length line1 = length line /\ map jid line1 = map jid line /\ map jw line1 = map jw line /\
  sumQ mwj line1 + gaps_len line gap + free == W /\
  ((0 < nautos line)%Z -> free <= 0 /\ (0 <= jfree W gap line -> free == 0)).
Proof.
  unfold margins_line. set (f0 := jfree W gap line).
  assert (E0 : sumQ mwj line + gaps_len line gap + f0 == W).
  { unfold f0, jfree. assert (E : sumQ (fun x => border_w x + oz (jml x) + oz (jmr x)) line == sumQ mwj line).
    { apply sumQ_ext. intros x _. unfold border_w, mwj. ring. } rewrite E. ring. }
  destruct (0 <? nautos line)%Z eqn:K; intros H; injection H as <- <-.
  - apply Z.ltb_lt in K. rewrite map_length, !map_map. simpl. repeat split; try reflexivity.
    + rewrite sum_mwj_fill.
      assert (inject_Z (nautos line) * (Qmax f0 0 / inject_Z (nautos line)) == Qmax f0 0).
      { field. intros Z0. assert (0 < inject_Z (nautos line)) by (rewrite <- (Zlt_Qlt 0); assumption). lra. }
      rewrite H. destruct (Q.max_spec f0 0) as [(A & ->)|(A & ->)]; destruct (Q.min_spec f0 0) as [(B & ->)|(B & ->)]; lra.
    + apply Q.le_min_r.
    + intros Hf. apply Q.min_r. assumption.
  - apply Z.ltb_ge in K. repeat split; try reflexivity; try assumption; intros; exfalso; lia.
Qed.

Definition trail (j : justify) (free : Q) (n : nat) : Q := free - lead j free n - (nQ n - 1) * between j free n.

(* main-axis placement of one line: first offset, equal spacing, and the right edge *)
Theorem justify_positions (reverse : bool) (j : justify) (origin W gap : Q) (line : list jitem) x t : line = x :: t ->
  let ps := justify_line reverse j origin W gap line in
  let n := length line in
  exists free j',
    (snd (margins_line (jfree W gap line) line) = free /\ j' = fallback (if reverse then JEnd else JStart) free j) /\
    map pid ps = map jid line /\ map pw ps = map jw line /\
    (exists p ps', ps = p :: ps' /\ px p == origin + lead j' free n) /\
    chain (fun a b => px b == px a + pmw a + gap + between j' free n) ps /\
    last_edge ps + trail j' free n == origin + W /\
    sumQ pmw ps + gaps_len line gap + free == W /\
    ((0 < nautos line)%Z -> 0 <= jfree W gap line -> free == 0).
Proof.
  intros E ps n. unfold ps, n, justify_line. clear ps n.
  destruct (margins_line (jfree W gap line) line) as (line1, free) eqn:M.
  destruct (margins_line_conserve W gap line line1 free M) as (L1 & L2 & L3 & L4 & L5).
  exists free, (fallback (if reverse then JEnd else JStart) free j). split; [split; reflexivity|].
  set (j' := fallback (if reverse then JEnd else JStart) free j).
  assert (E1 : exists x1 t1, line1 = x1 :: t1 /\ length t1 = length t).
  { destruct line1 as [|x1 t1]; [rewrite E in L1; discriminate|]. exists x1, t1. split; [reflexivity|].
    rewrite E in L1. simpl in L1. lia. }
  destruct E1 as (x1 & t1 & E1 & Lt).
  destruct (place_loop_spec gap (between j' free (length line)) line1 true (origin + lead j' free (length line)))
    as (P1 & P2 & P3 & P4 & P5).
  destruct (P5 x1 t1 E1) as (P6 & P7).
  repeat split.
  - now rewrite P1.
  - now rewrite P2.
  - exact P6.
  - revert P4. apply chain_impl. intros a b A. rewrite A. ring.
  - rewrite P7. unfold trail. rewrite Lt.
    assert (En : nQ (length line) == nQ (length t) + 1).
    { rewrite E. simpl length. unfold nQ. rewrite Nat2Z.inj_succ. unfold Z.succ. rewrite inject_Z_plus. reflexivity. }
    rewrite En. unfold gaps_len in L4. rewrite En in L4. setoid_replace (nQ (length t) + 1 - 1) with (nQ (length t)) by ring.
    assert (L4' : sumQ mwj line1 == W - free - nQ (length t) * gap) by (rewrite <- L4; ring).
    rewrite L4'. ring.
  - assert (Es : sumQ pmw (place_loop gap (between j' free (length line)) true (origin + lead j' free (length line)) line1)
                 == sumQ mwj line1).
    { rewrite <- (sumQ_map (fun q => q) pmw), P3, sumQ_map. reflexivity. }
    rewrite Es. exact L4.
  - intros K F. now apply L5.
Qed.

(* the offsets per keyword *)
Lemma nQ_pos n : (0 < n)%nat -> 0 < nQ n.
Proof. intros H. unfold nQ. rewrite <- (Zlt_Qlt 0). lia. Qed.

Theorem justify_keywords (free : Q) (n : nat) : (0 < n)%nat ->
  (lead JStart free n == 0 /\ between JStart free n == 0 /\ trail JStart free n == free) /\
  (lead JEnd free n == free /\ between JEnd free n == 0 /\ trail JEnd free n == 0) /\
  (lead JCenter free n == free / 2 /\ between JCenter free n == 0 /\ trail JCenter free n == free / 2) /\
  ((2 <= n)%nat -> lead JBetween free n == 0 /\ trail JBetween free n == 0 /\
                   between JBetween free n * (nQ n - 1) == free) /\
  (lead JAround free n == trail JAround free n /\ between JAround free n == 2 * lead JAround free n /\
   between JAround free n * nQ n == free) /\
  (lead JEvenly free n == trail JEvenly free n /\ between JEvenly free n == lead JEvenly free n /\
   between JEvenly free n * (nQ n + 1) == free).
Proof.
  intros Hn. pose proof (nQ_pos n Hn) as Hp. unfold trail, lead, between.
  repeat split; try ring; try (field; lra).
  - destruct (1 <? Z.of_nat n)%Z eqn:E; [|apply Z.ltb_ge in E; lia].
    assert (1 < nQ n) by (unfold nQ; rewrite <- (Zlt_Qlt 1); lia). field. lra.
  - destruct (1 <? Z.of_nat n)%Z eqn:E; [|apply Z.ltb_ge in E; lia].
    assert (1 < nQ n) by (unfold nQ; rewrite <- (Zlt_Qlt 1); lia). field. lra.
Qed.

(* ---- examples *)
Example ex_lines :
  collect (fun q : Q => q) true 100 10 [150; 45; 45; 30; 80] = [[150]; [45; 45]; [30]; [80]].
Proof. vm_compute. reflexivity. Qed.

Example ex_justify :
  map (fun p => (pid p, Qred (px p))) (justify_line false JBetween 5 300 10
      [mkJ 1 50 0 (Some 0) (Some 0); mkJ 2 50 4 (Some 3) (Some 0); mkJ 3 60 0 (Some 0) (Some 0)])
  = [(1%Z, 5); (2%Z, 243 # 2); (3%Z, 245)].
Proof. vm_compute. reflexivity. Qed.
