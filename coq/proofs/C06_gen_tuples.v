(* C06 - the tuple computers of weasyprint/css/computed_values.py as REGENERATED from the source on every run:
   length_or_percentage_tuple (transform-origin) and length_tuple (border-spacing, size, clip) map length() over
   the tuple of values - `tuple(length(..) for value in values)` is printed as the list comprehension -; for EVERY
   tuple of values, each element of the result is the hand model's answer for that value (pixels_only false / true);
   the call of `length` runs the regenerated body of length (proofs/C06_gen_length.v). *)
From Coq Require Import QArith Lqa List String Bool.
Require Import WV.base.Py WV.base.PyLink WV.proofs.PyNatural WV.proofs.PyTac WV.gen.GenComputed.
Require Import WV.model.C06Values WV.proofs.C06_values WV.proofs.C06_gen_length.
Import ListNotations.
Open Scope string_scope.
Open Scope list_scope.
Open Scope Q_scope.

(* a tuple of specified values: for each, the keyword it is if it is one, and the model's view *)
Definition vals (ps : list (lkw * lval)) : list val := map (fun p => lval_val (fst p) (snd p)) ps.
Definition each_ok (po : bool) (e : C06Values.env) (b : bool) (ps : list (lkw * lval)) (rs : list val) : Prop :=
  Forall2 (fun p r => res_ok po (lval_val (fst p) (snd p)) (length e b None (snd p)) r) ps rs.

Lemma res_ok_not_err po k v r res : res_ok po (lval_val k v) r res -> forall m, res <> VErr m.
Proof.
  intros H m ->. destruct r; simpl in H.
  - destruct v; discriminate H.
  - destruct H as [q' [_ H]]. destruct po; discriminate H.
Qed.

Section Tuple.
Variables (O : qops) (xr cr : val -> Q) (HC : calls2_ok O xr cr).
Variables (own rootfs : Q) (root : bool) (more : list (string * val)) (n : string) (po : bool).
Let st := style_val own rootfs root more.
Let e := env_of xr cr own rootfs root more.

(* one step of the comprehension: the element function of gen_collect, as the interpreter builds it *)
Definition elt_fn (R : Type) (err : string -> R) (rho : Py.env) (v : val) (kk : option val -> R) : R :=
  eval O R err (update "value" v rho)
    (ECall "length" [EVar "style"; EVar "name"; EVar "value"; EConst VNone; EConst (VBool po)])
    (fun ve => kk (Some ve)).

Lemma collect_tuple (vl : val) (ps : list (lkw * lval)) :
  forall (acc : list val) (k : list val -> Prop),
  (forall rs, each_ok po e (String.eqb n "font_size") ps rs -> k (rev acc ++ rs)) ->
  gen_collect (elt_fn Prop (fun _ => False) [("style", st); ("name", VStr n); ("values", vl)]) (vals ps) acc k.
Proof.
  induction ps as [|[kw v] ps IH]; intros acc k Hk.
  - simpl. rewrite <- (app_nil_r (rev acc)). apply Hk. constructor.
  - destruct (gen_length_call (lops xr cr) (lops_ok xr cr) xr cr (lops_calls xr cr) own rootfs root more n kw v None po)
      as [res [Hres Hok]].
    pose proof (res_ok_not_err _ _ _ _ _ Hok) as Hne.
    change (vals ((kw, v) :: ps)) with (lval_val kw v :: vals ps).
    cbn [gen_collect]. unfold elt_fn at 1.
    cbn [eval update lookup String.eqb Ascii.eqb Bool.eqb rev app].
    unfold st at 1 2, style_val at 1 2. change (style_val own rootfs root more) with st in Hres. cbv iota.
    destruct v as [|q u]; cbn [lval_val dim oq_val] in *; cbv iota;
      rewrite HC; unfold lcall2; cbn [String.eqb Ascii.eqb Bool.eqb]; rewrite Hres;
      (destruct res; try (exfalso; eapply Hne; reflexivity));
      (apply IH; intros rs Hrs; cbn [rev]; rewrite <- app_assoc; apply Hk; constructor; [exact Hok|exact Hrs]).
Qed.
End Tuple.

Definition length_tuple_fn : fn := (length_tuple_args, length_tuple_body).
Definition length_or_percentage_tuple_fn : fn := (length_or_percentage_tuple_args, length_or_percentage_tuple_body).

Lemma gen_tuples_run O xr cr (HC : calls2_ok O xr cr) own rootfs (root : bool) more n (ps : list (lkw * lval)) :
  run O length_tuple_body
    [("style", style_val own rootfs root more); ("name", VStr n); ("values", VList (vals ps))]
    (fun _ res => exists rs, res = Some (VList rs) /\
                  each_ok true (env_of xr cr own rootfs root more) (String.eqb n "font_size") ps rs)
    (fun _ => False) /\
  run O length_or_percentage_tuple_body
    [("style", style_val own rootfs root more); ("name", VStr n); ("values", VList (vals ps))]
    (fun _ res => exists rs, res = Some (VList rs) /\
                  each_ok false (env_of xr cr own rootfs root more) (String.eqb n "font_size") ps rs)
    (fun _ => False).
Proof.
  split.
  - change (gen_collect
              (elt_fn O true Prop (fun _ => False)
                 [("style", style_val own rootfs root more); ("name", VStr n); ("values", VList (vals ps))])
              (vals ps) []
              (fun vs => exists rs, Some (VList vs) = Some (VList rs) /\
                         each_ok true (env_of xr cr own rootfs root more) (String.eqb n "font_size") ps rs)).
    apply (collect_tuple O xr cr HC own rootfs root more n true (VList (vals ps)) ps [] _).
    intros rs Hrs. exists rs. split; [reflexivity|exact Hrs].
  - change (gen_collect
              (elt_fn O false Prop (fun _ => False)
                 [("style", style_val own rootfs root more); ("name", VStr n); ("values", VList (vals ps))])
              (vals ps) []
              (fun vs => exists rs, Some (VList vs) = Some (VList rs) /\
                         each_ok false (env_of xr cr own rootfs root more) (String.eqb n "font_size") ps rs)).
    apply (collect_tuple O xr cr HC own rootfs root more n false (VList (vals ps)) ps [] _).
    intros rs Hrs. exists rs. split; [reflexivity|exact Hrs].
Qed.

(* the values of the calls under the concrete operations: for every tuple of values, the tuple of the model's
   answers, element by element (length_tuple: bare pixels; length_or_percentage_tuple: Dimension(q, 'px')) *)
Theorem gen_tuples xr cr own rootfs (root : bool) more n (ps : list (lkw * lval)) :
  (exists rs, call_body (lops2 xr cr) length_tuple_fn [style_val own rootfs root more; VStr n; VList (vals ps)] =
              VList rs /\
              each_ok true (env_of xr cr own rootfs root more) (String.eqb n "font_size") ps rs) /\
  (exists rs, call_body (lops2 xr cr) length_or_percentage_tuple_fn
                [style_val own rootfs root more; VStr n; VList (vals ps)] = VList rs /\
              each_ok false (env_of xr cr own rootfs root more) (String.eqb n "font_size") ps rs).
Proof.
  destruct (gen_tuples_run (lops2 xr cr) xr cr (lops2_calls xr cr) own rootfs root more n ps) as [H1 H2].
  split.
  - unfold call_body. cbn [fst snd PyLink.bind length_tuple_fn length_tuple_args].
    rewrite run_natural in H1. rewrite run_natural.
    destruct (run_out _ _ _) as [rho' r|m]; [|contradiction]. destruct H1 as [rs [-> Hrs]]. eauto.
  - unfold call_body. cbn [fst snd PyLink.bind length_or_percentage_tuple_fn length_or_percentage_tuple_args].
    rewrite run_natural in H2. rewrite run_natural.
    destruct (run_out _ _ _) as [rho' r|m]; [|contradiction]. destruct H2 as [rs [-> Hrs]]. eauto.
Qed.

Example gen_tuples_ex :
  call_body (lops2 (fun _ => 1 # 2) (fun _ => 1 # 2)) length_or_percentage_tuple_fn
    [style_val 10 16 false []; VStr "transform_origin"; VList [dim 50 (VStr "%"); dim 2 (VStr "em"); dim 0 (VStr "pt")]] =
  VList [dim 50 (VStr "%"); dim (2 * 10) (VStr "px"); dim 0 (VStr "px")].
Proof. vm_compute. reflexivity. Qed.
