(* C14 - consequences of proofs/C14_gen_variable.v (the regenerated compute_variable_dimension = the hand model) for
   the source: what it raises and when, and the geometric theorems of proofs/C14_box.v restated about the attributes
   of the three adapters after the run. *)
From Coq Require Import QArith Qminmax Lqa List String Bool.
Require Import WV.base.Py WV.base.PyLink WV.gen.GenPage WV.proofs.PyTac WV.proofs.PyNatural WV.proofs.C14_gen_variable.
Require WV.model.C14Box.
Import ListNotations.
Open Scope string_scope.
Open Scope list_scope.
Open Scope Q_scope.

Require Import WV.proofs.C14_box.

Lemma run_consequence O body rho (P P' : env -> option val -> Prop) (E E' : string -> Prop) :
  (forall r v, P r v -> P' r v) -> (forall m, E m -> E' m) -> run O body rho P E -> run O body rho P' E'.
Proof.
  intros HP HE. rewrite !run_natural. destruct (run_out O body rho) as [rho' r|m]; [apply HP|apply HE].
Qed.

(* the outer size of an adapter, read from its attributes (margin_width() / margin_height() of the real box after
   restore_box_attributes) *)
Definition bag_outer (v : val) : Q :=
  numof (fieldv v "padding_plus_border") + numof (fieldv v "margin_a") + numof (fieldv v "margin_b") +
  numof (fieldv v "inner").
Lemma rep_numof v o : rep v o -> numof v == M.oval o.
Proof. destruct v, o; cbn; intros H; try contradiction; [exact H|reflexivity]. Qed.
Lemma box_rep_outer v x : box_rep v x -> bag_outer v == M.outer_of x.
Proof.
  intros (Ha & Hb & Hi & Hp & _). unfold bag_outer, M.outer_of, M.sugar.
  rewrite (rep_numof _ _ Ha), (rep_numof _ _ Hb), (rep_numof _ _ Hi), Hp. reflexivity.
Qed.

(* the three attributes are numbers *)
Definition bag_resolved (v : val) : Prop :=
  exists m1 m2 i, fieldv v "margin_a" = VNum m1 /\ fieldv v "margin_b" = VNum m2 /\ fieldv v "inner" = VNum i.
Definition resolved (x : M.mbox) : Prop := exists m1 m2 i, M.m_a x = Some m1 /\ M.m_b x = Some m2 /\ M.m_inner x = Some i.
Lemma rep_some v o q : rep v o -> o = Some q -> exists q', v = VNum q'.
Proof. intros H ->. destruct v; try contradiction. eexists. reflexivity. Qed.
Lemma box_rep_resolved v x : box_rep v x -> resolved x -> bag_resolved v.
Proof.
  intros (Ha & Hb & Hi & _) (m1 & m2 & i & E1 & E2 & E3).
  destruct (rep_some _ _ _ Ha E1) as [q1 Q1]. destruct (rep_some _ _ _ Hb E2) as [q2 Q2].
  destruct (rep_some _ _ _ Hi E3) as [q3 Q3]. exists q1, q2, q3. repeat split; assumption.
Qed.

(* the model is total except for its first assertion: with a generated centre box, or an empty one (inner == 0),
   it returns three resolved boxes; otherwise it fails that assertion *)
Ltac paths_in :=
  repeat match goal with
         | |- context [Qeq_bool (if Qeq_bool ?a ?b then _ else _) _] =>
             let E := fresh "E" in destruct (Qeq_bool a b) eqn:E
         | |- context [Qle_bool ?a ?b] => let E := fresh "E" in destruct (Qle_bool a b) eqn:E
         | |- context [Qeq_bool ?a ?b] => let E := fresh "E" in destruct (Qeq_bool a b) eqn:E
         end.
Ltac evm := lazy -[resolved Qeq Qplus Qminus Qmult Qdiv Qeq_bool Qle_bool Qmax Qmin].
Lemma tail_total avail a1 a2 ai apb ami ama b1 b2 bi bpb bmi bma c1 c2 ci cpb cmi cma g :
  (g = true \/ exists z, bi = Some z /\ Qeq_bool z 0 = true) ->
  exists a' b' c',
    tail_model avail (nb a1 a2 ai apb ami ama) (nb b1 b2 bi bpb bmi bma) (nb c1 c2 ci cpb cmi cma) g = M.Ok (a', b', c') /\
    resolved a' /\ resolved b' /\ resolved c'.
Proof.
  intros H.
  assert (H' : match g, bi with true, _ => True | false, Some z => Qeq_bool z 0 = true | false, None => False end).
  { destruct H as [->|(z & -> & Hz)]; [exact I|]. destruct g; [exact I|exact Hz]. }
  clear H. unfold nb.
  destruct g, ai as [ai|], bi as [bi|], ci as [ci|]; try contradiction;
    try (revert H'); evm; try (intros H'; rewrite H'); paths_in; intros;
    first [ congruence | absurd_const
          | do 3 eexists; split; [reflexivity|]; unfold resolved; cbn; repeat split; do 3 eexists; repeat split ].
Qed.

Lemma cvd_total avail a b c g :
  (g = true \/ exists z, M.m_inner b = Some z /\ z == 0) ->
  exists a' b' c', M.compute_variable_dimension avail a b c g = M.Ok (a', b', c') /\
                   resolved a' /\ resolved b' /\ resolved c'.
Proof.
  intros H. rewrite model_split.
  apply (tail_total avail (M.oval (M.m_a a)) (M.oval (M.m_b a)) (M.m_inner a) (M.m_pb a) (M.m_min a) (M.m_max a)
           (M.oval (M.m_a b)) (M.oval (M.m_b b)) (M.m_inner b) (M.m_pb b) (M.m_min b) (M.m_max b)
           (M.oval (M.m_a c)) (M.oval (M.m_b c)) (M.m_inner c) (M.m_pb c) (M.m_min c) (M.m_max c) g).
  destruct H as [H|(z & E & Hz)]; [left; exact H|right]. exists z. split; [exact E|]. apply Qeq_bool_iff. exact Hz.
Qed.

Lemma cvd_assert avail a b c :
  ~ (exists z, M.m_inner b = Some z /\ z == 0) -> M.compute_variable_dimension avail a b c false = M.ErrAssert.
Proof.
  intros H. unfold M.compute_variable_dimension. cbn [negb M.zero_margins M.m_inner].
  destruct (M.m_inner b) as [z|]; [|reflexivity].
  destruct (Qeq_bool z 0) eqn:E; [|reflexivity].
  exfalso. apply H. exists z. split; [reflexivity|]. apply Qeq_bool_iff. exact E.
Qed.

Section Source.
Variables (O : qops) (HO : ops_ok O) (HR : restore_oracle O) (n : nat).
Variables (avail : Q) (a b c : M.mbox) (ga gb gc : bool).
Let LOn := glinked O GenPage_table (S (S n)).
Let rho0 := cvd_env avail a b c ga gb gc.

(* what the source raises, and when: only the AssertionError of `assert box_b.inner == 0`, exactly when the centre
   box is not generated and its inner size is not 0; otherwise it ends normally and the margins and the inner size
   of the three adapters are numbers *)
Theorem source_cvd_total :
  run LOn compute_variable_dimension_body rho0
    (fun rho res => res = None /\ (gb = true \/ exists z, M.m_inner b = Some z /\ z == 0) /\
                    bag_resolved (lookup "box_a" rho) /\ bag_resolved (lookup "box_b" rho) /\
                    bag_resolved (lookup "box_c" rho))
    (fun m => m = "AssertionError" /\ gb = false /\ ~ (exists z, M.m_inner b = Some z /\ z == 0)).
Proof.
  eapply run_consequence; [| |exact (gen_compute_variable_dimension O HO HR n avail a b c ga gb gc)].
  - intros rho res [Hres Hm].
    assert (D : (gb = true \/ exists z, M.m_inner b = Some z /\ z == 0) \/
                (gb = false /\ ~ (exists z, M.m_inner b = Some z /\ z == 0))).
    { destruct gb; [left; left; reflexivity|].
      destruct (M.m_inner b) as [z|]; [|right; split; [reflexivity|]; intros (z & E & _); discriminate E].
      destruct (Qeq_bool z 0) eqn:E.
      - left; right. exists z. split; [reflexivity|]. apply Qeq_bool_iff. exact E.
      - right. split; [reflexivity|]. intros (z' & E' & Hz). inversion E'; subst z'.
        apply Qeq_bool_iff in Hz. congruence. }
    destruct D as [D|[G D]].
    + destruct (cvd_total avail a b c gb D) as (a' & b' & c' & E & Ra & Rb & Rc). rewrite E in Hm.
      destruct Hm as (Ha & Hb & Hc). split; [exact Hres|]. split; [exact D|].
      repeat split; eapply box_rep_resolved; eassumption.
    + subst gb. rewrite (cvd_assert avail a b c D) in Hm. contradiction.
  - intros m [[Hm E]|[[Hm E]|[Hm E]]].
    + split; [exact Hm|]. destruct gb.
      * destruct (cvd_total avail a b c true (or_introl eq_refl)) as (a' & b' & c' & E' & _). congruence.
      * split; [reflexivity|]. intros D.
        destruct (cvd_total avail a b c false (or_intror D)) as (a' & b' & c' & E' & _). congruence.
    + exfalso. exact (no_division_by_zero avail a b c gb E).
    + exfalso. destruct gb.
      * destruct (cvd_total avail a b c true (or_introl eq_refl)) as (a' & b' & c' & E' & _). congruence.
      * destruct (M.m_inner b) as [z|] eqn:Ib.
        -- destruct (Qeq_bool z 0) eqn:Ez.
           ++ assert (D : exists z0, M.m_inner b = Some z0 /\ z0 == 0)
                by (exists z; split; [exact Ib|apply Qeq_bool_iff; exact Ez]).
              destruct (cvd_total avail a b c false (or_intror D)) as (a' & b' & c' & E' & _). congruence.
           ++ rewrite cvd_assert in E; [discriminate E|]. intros (z' & E' & Hz). rewrite Ib in E'. inversion E'; subst z'.
              apply Qeq_bool_iff in Hz. congruence.
        -- rewrite cvd_assert in E; [discriminate E|]. intros (z' & E' & _). rewrite Ib in E'. discriminate E'.
Qed.

(* no ZeroDivisionError, whatever the inputs (the `if flex_factor_sum == 0: flex_factor_sum = 1` guards) *)
Theorem source_no_division_by_zero :
  run LOn compute_variable_dimension_body rho0 (fun _ _ => True) (fun m => m <> "ZeroDivisionError").
Proof.
  eapply run_consequence; [| |exact source_cvd_total].
  - intros; exact I.
  - intros m [-> _]. discriminate.
Qed.

(* css-page-3 5.3.2: when the outer min-content sizes (explicit sizes) fit, the source ends normally and the outer
   sizes read from the three adapters fit: with a centre box, A and C each fit in the half left beside it;
   without, A and C fit in the side *)
Theorem source_three_boxes_fit :
  M.content_ok a -> M.content_ok b -> M.content_ok c ->
  (gb = false -> exists z, M.m_inner b = Some z /\ z == 0) ->
  M.fits_possible avail a b c gb ->
  run LOn compute_variable_dimension_body rho0
    (fun rho res => res = None /\
       let oa := bag_outer (lookup "box_a" rho) in let ob := bag_outer (lookup "box_b" rho) in
       let oc := bag_outer (lookup "box_c" rho) in
       if gb then oa <= (1 # 2) * (avail - ob) /\ oc <= (1 # 2) * (avail - ob) else oa + oc <= avail)
    (fun _ => False).
Proof.
  intros Ca Cb Cc Hb Hfit.
  destruct (three_boxes_fit_when_possible avail a b c gb Ca Cb Cc Hb Hfit) as (a' & b' & c' & E & H).
  eapply run_consequence; [| |exact (gen_compute_variable_dimension O HO HR n avail a b c ga gb gc)].
  - intros rho res [Hres Hm]. rewrite E in Hm. destruct Hm as (Ha & Hb' & Hc). split; [exact Hres|].
    cbv zeta. pose proof (box_rep_outer _ _ Ha) as Oa. pose proof (box_rep_outer _ _ Hb') as Ob.
    pose proof (box_rep_outer _ _ Hc) as Oc.
    destruct gb; [destruct H as [H1 H2]; split; lra|lra].
  - intros m Hm. rewrite E in Hm. destruct Hm as [[_ Hm]|[[_ Hm]|[_ Hm]]]; discriminate Hm.
Qed.

(* and placed as make_margin_boxes places them (A at the start of the side, B centred, C at its end) the three
   rectangles do not overlap and C ends inside the side *)
Theorem source_side_boxes_do_not_overlap :
  M.content_ok a -> M.content_ok b -> M.content_ok c ->
  (gb = false -> exists z, M.m_inner b = Some z /\ z == 0) ->
  M.fits_possible avail a b c gb ->
  run LOn compute_variable_dimension_body rho0
    (fun rho res => res = None /\
       let oa := bag_outer (lookup "box_a" rho) in let ob := bag_outer (lookup "box_b" rho) in
       let oc := bag_outer (lookup "box_c" rho) in
       let pa := 0 in let pb := (1 # 2) * (avail - ob) in let pc := avail - oc in
       pb + ob / 2 == avail / 2 /\
       (gb = true -> pa + oa <= pb /\ pb + ob <= pc) /\ (gb = false -> pa + oa <= pc) /\
       (0 <= oa -> 0 <= ob -> 0 <= oc ->
          pa + oa <= avail /\ 0 <= pc /\ (gb = true -> 0 <= pb /\ pb + ob <= avail)))
    (fun _ => False).
Proof.
  intros Ca Cb Cc Hb Hfit.
  eapply run_consequence; [| |exact (source_three_boxes_fit Ca Cb Cc Hb Hfit)].
  - intros rho res [Hres H]. split; [exact Hres|]. cbv zeta in *.
    set (oa := bag_outer (lookup "box_a" rho)) in *. set (ob := bag_outer (lookup "box_b" rho)) in *.
    set (oc := bag_outer (lookup "box_c" rho)) in *.
    split; [field|]. destruct gb.
    + destruct H as [H1 H2]. split; [intros _; split; lra|]. split; [intros; discriminate|].
      intros Pa Pb Pc. split; [lra|]. split; [lra|]. intros _. split; lra.
    + split; [intros; discriminate|]. split; [intros _; lra|].
      intros Pa Pb Pc. split; [lra|]. split; [lra|]. intros; discriminate.
  - intros m [].
Qed.
End Source.

(* the hypotheses are satisfiable: exact rational arithmetic with an oracle that answers None, and boxes that fit
   (two auto boxes of 20 + [30, 70] around an empty centre box in a side of 200) *)
Definition oracle_ops : qops := with_calls real_ops (fun _ _ => VNone).
Lemma oracle_ops_ok : ops_ok oracle_ops /\ restore_oracle oracle_ops.
Proof. split; [apply with_calls_ok, real_ok|intros b; reflexivity]. Qed.

Example source_three_boxes_fit_example :
  let a := M.mkB None (Some 0) None 20 30 70 in
  let z := M.mkB (Some 0) (Some 0) (Some 0) 0 0 0 in
  run (glinked oracle_ops GenPage_table 2) compute_variable_dimension_body (cvd_env 200 a z a true false true)
    (fun rho res => res = None /\ bag_outer (lookup "box_a" rho) + bag_outer (lookup "box_c" rho) <= 200)
    (fun _ => False).
Proof.
  intros a z.
  refine (source_three_boxes_fit oracle_ops (proj1 oracle_ops_ok) (proj2 oracle_ops_ok) 0 200 a z a true false true
            _ _ _ _ _).
  - vm_compute. discriminate.
  - vm_compute. discriminate.
  - vm_compute. discriminate.
  - intros _. exists 0. split; reflexivity.
  - vm_compute. discriminate.
Qed.
