(* C06 - three more computers of weasyprint/css/computed_values.py as REGENERATED from the source on every run
   (gen/GenComputedGap.v): gap (column-gap, row-gap: 'normal' stays, else length()), word_spacing ('normal' is 0,
   else length() with pixels_only=True), border_radius (the four corner properties: length() over the pair of
   radii).  For EVERY value the regenerated body answers what the hand model C06Values.length answers; the call of
   `length` runs the regenerated body of length (proofs/C06_gen_length.v). *)
From Coq Require Import QArith Lqa List String Bool.
Require Import WV.base.Py WV.base.PyLink WV.proofs.PyNatural WV.proofs.PyTac WV.gen.GenComputed WV.gen.GenComputedGap.
Require Import WV.model.C06Values WV.proofs.C06_values WV.proofs.C06_gen_length WV.proofs.C06_gen_tuples.
Import ListNotations.
Open Scope string_scope.
Open Scope list_scope.
Open Scope Q_scope.

Definition gap_fn : fn := (gap_args, gap_body).
Definition word_spacing_fn : fn := (word_spacing_args, word_spacing_body).
Definition border_radius_fn : fn := (border_radius_args, border_radius_body).

Ltac use_length Hres Hok :=
  ev2; match goal with HC : calls2_ok _ _ _ |- _ => rewrite HC end; ev2; ev2h Hres; rewrite Hres;
  (destruct (length _ _ None _);
   [rewrite Hok; exact eq_refl | destruct Hok as [q' [Hq ->]]; exists q'; split; [exact Hq|reflexivity]]).

Lemma gen_gap_run O (HO : ops_ok O) xr cr (HC : calls2_ok O xr cr) own rootfs (root : bool) more n k v :
  run O gap_body
    [("style", style_val own rootfs root more); ("name", VStr n); ("value", lval_val k v)]
    (length_post false (lval_val k v)
       (length (env_of xr cr own rootfs root more) (String.eqb n "font_size") None v)) (fun _ => False) /\
  run O gap_body
    [("style", style_val own rootfs root more); ("name", VStr n); ("value", VStr "normal")]
    (fun _ res => res = Some (VStr "normal")) (fun _ => False).
Proof.
  destruct (gen_length_call (lops xr cr) (lops_ok xr cr) xr cr (lops_calls xr cr) own rootfs root more n k v None false)
    as [res [Hres Hok]].
  remember (String.eqb n "font_size") as b eqn:Hb. clear Hb.
  split; [| ev2; reflexivity].
  destruct v as [|q u]; [destruct k|]; use_length Hres Hok.
Qed.

Lemma gen_word_spacing_run O (HO : ops_ok O) xr cr (HC : calls2_ok O xr cr) own rootfs (root : bool) more n k v :
  run O word_spacing_body
    [("style", style_val own rootfs root more); ("name", VStr n); ("value", lval_val k v)]
    (length_post true (lval_val k v)
       (length (env_of xr cr own rootfs root more) (String.eqb n "font_size") None v)) (fun _ => False) /\
  run O word_spacing_body
    [("style", style_val own rootfs root more); ("name", VStr n); ("value", VStr "normal")]
    (fun _ res => res = Some (VNum 0)) (fun _ => False).
Proof.
  destruct (gen_length_call (lops xr cr) (lops_ok xr cr) xr cr (lops_calls xr cr) own rootfs root more n k v None true)
    as [res [Hres Hok]].
  remember (String.eqb n "font_size") as b eqn:Hb. clear Hb.
  split; [| ev2; reflexivity].
  destruct v as [|q u]; [destruct k|]; use_length Hres Hok.
Qed.

Ltac by_run3 H :=
  unfold call_body;
  cbn [fst snd PyLink.bind gap_fn word_spacing_fn border_radius_fn gap_args word_spacing_args border_radius_args];
  rewrite run_natural in H; rewrite run_natural;
  destruct (run_out _ _ _) as [rho' [x|]|m]; try contradiction; try discriminate H; try exact H.

(* column-gap / row-gap: the keyword 'normal' is kept; any other value is what length() makes of it (a Dimension in
   px, or the value itself for a percentage) *)
Theorem gen_gap xr cr own rootfs (root : bool) more n k v :
  res_ok false (lval_val k v) (length (env_of xr cr own rootfs root more) (String.eqb n "font_size") None v)
    (call_body (lops2 xr cr) gap_fn [style_val own rootfs root more; VStr n; lval_val k v]) /\
  call_body (lops2 xr cr) gap_fn [style_val own rootfs root more; VStr n; VStr "normal"] = VStr "normal".
Proof.
  destruct (gen_gap_run (lops2 xr cr) (lops2_ok xr cr) xr cr (lops2_calls xr cr) own rootfs root more n k v)
    as [H1 H2].
  split.
  - by_run3 H1.
  - by_run3 H2. congruence.
Qed.

(* word-spacing: 'normal' computes to the number 0; any other value to what length() makes of it, bare pixels *)
Theorem gen_word_spacing xr cr own rootfs (root : bool) more n k v :
  res_ok true (lval_val k v) (length (env_of xr cr own rootfs root more) (String.eqb n "font_size") None v)
    (call_body (lops2 xr cr) word_spacing_fn [style_val own rootfs root more; VStr n; lval_val k v]) /\
  call_body (lops2 xr cr) word_spacing_fn [style_val own rootfs root more; VStr n; VStr "normal"] = VNum 0.
Proof.
  destruct (gen_word_spacing_run (lops2 xr cr) (lops2_ok xr cr) xr cr (lops2_calls xr cr) own rootfs root more n k v)
    as [H1 H2].
  split.
  - by_run3 H1.
  - by_run3 H2. congruence.
Qed.

(* the clauses: a length in an absolute unit is the fixed multiple of the pixel (a Dimension in px for the gaps,
   bare pixels for word-spacing), so it is never negative for a non-negative specified length; a percentage gap
   stays the percentage *)
Lemma to_pixels_pos u f : to_pixels u = Some f -> 0 < f.
Proof. destruct u; simpl; intros H; inversion H; reflexivity. Qed.

Theorem gen_gap_clauses xr cr own rootfs (root : bool) more n v u f :
  (to_pixels u = Some f ->
   exists q, q == v * f /\ (0 <= v -> 0 <= q) /\
     call_body (lops2 xr cr) gap_fn [style_val own rootfs root more; VStr n; dim v (VStr (unit_str u))] =
     dim q (VStr "px")) /\
  call_body (lops2 xr cr) gap_fn [style_val own rootfs root more; VStr n; dim v (VStr "%")] = dim v (VStr "%").
Proof.
  split.
  - intros Hu. pose proof (proj1 (gen_gap xr cr own rootfs root more n KAuto (LDim v u))) as H.
    pose proof (absolute_units (env_of xr cr own rootfs root more) (String.eqb n "font_size") None v u f Hu) as P.
    pose proof (to_pixels_pos u f Hu) as Hf.
    cbn [lval_val] in H. destruct (length _ _ None (LDim v u)); [contradiction|]. destruct H as [q' [Hq ->]].
    simpl in P. exists q'. split; [rewrite Hq; exact P|split; [|reflexivity]].
    intros Hv. rewrite Hq, P. apply Qmult_le_0_compat; [exact Hv|apply Qlt_le_weak, Hf].
  - pose proof (proj1 (gen_gap xr cr own rootfs root more n KAuto (LDim v Pct))) as H.
    rewrite (proj2 (percent_and_keywords_unchanged _ _ None v)) in H. exact H.
Qed.

Theorem gen_word_spacing_clauses xr cr own rootfs (root : bool) more n v u f :
  to_pixels u = Some f ->
  exists q, q == v * f /\ (0 <= v -> 0 <= q) /\
    call_body (lops2 xr cr) word_spacing_fn [style_val own rootfs root more; VStr n; dim v (VStr (unit_str u))] =
    VNum q.
Proof.
  intros Hu. pose proof (proj1 (gen_word_spacing xr cr own rootfs root more n KAuto (LDim v u))) as H.
  pose proof (absolute_units (env_of xr cr own rootfs root more) (String.eqb n "font_size") None v u f Hu) as P.
  pose proof (to_pixels_pos u f Hu) as Hf.
  cbn [lval_val] in H. destruct (length _ _ None (LDim v u)); [contradiction|]. destruct H as [q' [Hq ->]].
  simpl in P. exists q'. split; [rewrite Hq; exact P|split; [|reflexivity]].
  intros Hv. rewrite Hq, P. apply Qmult_le_0_compat; [exact Hv|apply Qlt_le_weak, Hf].
Qed.

(* border-*-radius: for every tuple of radii, the tuple of the model's answers, element by element, each a
   Dimension in px or the percentage itself *)
Lemma gen_border_radius_run O xr cr (HC : calls2_ok O xr cr) own rootfs (root : bool) more n (ps : list (lkw * lval)) :
  run O border_radius_body
    [("style", style_val own rootfs root more); ("name", VStr n); ("values", VList (vals ps))]
    (fun _ res => exists rs, res = Some (VList rs) /\
                  each_ok false (env_of xr cr own rootfs root more) (String.eqb n "font_size") ps rs)
    (fun _ => False).
Proof.
  change (gen_collect
            (elt_fn O false Prop (fun _ => False)
               [("style", style_val own rootfs root more); ("name", VStr n); ("values", VList (vals ps))])
            (vals ps) []
            (fun vs => exists rs, Some (VList vs) = Some (VList rs) /\
                       each_ok false (env_of xr cr own rootfs root more) (String.eqb n "font_size") ps rs)).
  apply (collect_tuple O xr cr HC own rootfs root more n false (VList (vals ps)) ps [] _).
  intros rs Hrs. exists rs. split; [reflexivity|exact Hrs].
Qed.

Theorem gen_border_radius xr cr own rootfs (root : bool) more n (ps : list (lkw * lval)) :
  exists rs, call_body (lops2 xr cr) border_radius_fn [style_val own rootfs root more; VStr n; VList (vals ps)] =
             VList rs /\
             each_ok false (env_of xr cr own rootfs root more) (String.eqb n "font_size") ps rs.
Proof.
  pose proof (gen_border_radius_run (lops2 xr cr) xr cr (lops2_calls xr cr) own rootfs root more n ps) as H1.
  unfold call_body. cbn [fst snd PyLink.bind border_radius_fn border_radius_args].
  rewrite run_natural in H1. rewrite run_natural.
  destruct (run_out _ _ _) as [rho' r|m]; [|contradiction]. destruct H1 as [rs [-> Hrs]]. eauto.
Qed.

Example gen_gap_ex :
  call_body (lops2 (fun _ => 1 # 2) (fun _ => 1 # 2)) gap_fn
    [style_val 10 16 false []; VStr "column_gap"; dim 2 (VStr "em")] = dim (2 * 10) (VStr "px") /\
  call_body (lops2 (fun _ => 1 # 2) (fun _ => 1 # 2)) word_spacing_fn
    [style_val 10 16 false []; VStr "word_spacing"; dim 2 (VStr "em")] = VNum (2 * 10) /\
  call_body (lops2 (fun _ => 1 # 2) (fun _ => 1 # 2)) border_radius_fn
    [style_val 10 16 false []; VStr "border_top_left_radius"; VList [dim 50 (VStr "%"); dim 2 (VStr "em")]] =
  VList [dim 50 (VStr "%"); dim (2 * 10) (VStr "px")].
Proof. vm_compute. repeat split. Qed.
