(* C14: page box and margin box dimensions - proofs about model/C14Box.v *)
From Coq Require Import QArith Qminmax Qabs Lqa List Bool.
Require Import WV.model.C14Box.
Import ListNotations.
Open Scope Q_scope.

Lemma qgt_true x y : qgt x y = true -> y < x.
Proof.
  unfold qgt. intros H. apply negb_true_iff in H. apply Qnot_le_lt. intros L. apply Qle_bool_iff in L. congruence.
Qed.
Lemma qgt_false x y : qgt x y = false -> x <= y.
Proof. unfold qgt. intros H. apply negb_false_iff in H. now apply Qle_bool_iff. Qed.

(* ------------------------------------------------------------------------------ page_width_or_height *)
(* css-page-3 6.1 "page size / page box": the width (height) and horizontal (vertical) margins are computed as
   for a block in normal flow; the content area is exactly what remains of the page size. *)
Theorem page_content_area_is_the_rest (cb pb : Q) (ma inner mb : oq) :
  exists a i b, page_width_or_height cb pb ma inner mb = (Some a, Some i, Some b) /\
    (forall v, ma = Some v -> a = v) /\ (forall v, inner = Some v -> i = v) /\ (forall v, mb = Some v -> b = v) /\
    (count_auto ma inner mb <> 0%nat -> a + pb + i + b == cb) /\
    (inner = None -> ma = None -> a == 0) /\ (inner = None -> mb = None -> b == 0) /\
    (inner <> None -> ma = None -> mb = None -> a == b).
Proof.
  unfold page_width_or_height, count_auto.
  destruct ma as [a|], inner as [i|], mb as [b|]; simpl;
    do 3 eexists; (split; [reflexivity|]);
    repeat split; try (intros v E; inversion E; reflexivity); try (intros; discriminate);
    try (intros; congruence); intros; try lra; try field; try reflexivity.
Qed.

Example page_content_area_example :
  page_width_or_height 800 (14 + 84) (Some 100) None None = (Some 100, Some (800 - 98 - 100 - 0), Some 0).
Proof. reflexivity. Qed.

(* --------------------------------------------------------------------------- compute_fixed_dimension *)
Ltac cfd_case :=
  match goal with
  | |- context [qgt ?x ?y] =>
      let E := fresh "E" in destruct (qgt x y) eqn:E; [apply qgt_true in E|apply qgt_false in E]
  end.

(* css-page-3 5.3.2.4 margin-box fixed dimension: the function always succeeds (its final `assert` cannot fire)
   and margins + padding/border + inner = outer; a specified inner size is never changed; an auto inner size
   is never negative (it becomes 0 and a margin absorbs the excess); when nothing is auto, the margin on the
   page-edge side (top/left boxes: margin_a; bottom/right boxes: margin_b) absorbs the difference and the
   other two values are kept. *)
Theorem margin_box_fixed_sum (outer pb : Q) (ma inner mb : oq) (top_or_left : bool) :
  exists a i b, compute_fixed_dimension outer pb ma inner mb top_or_left = Ok (a, i, b) /\
    a + pb + i + b == outer /\
    (forall w, inner = Some w -> i = w) /\
    (inner = None -> 0 <= i) /\
    (forall x w y, ma = Some x -> inner = Some w -> mb = Some y ->
       if top_or_left then b = y else a = x) /\
    (forall w y, ma = None -> inner = Some w -> mb = Some y -> pb + w + y <= outer -> b = y) /\
    (forall x w, ma = Some x -> inner = Some w -> mb = None -> pb + x + w <= outer -> a = x) /\
    (forall w, ma = None -> inner = Some w -> mb = None -> pb + w <= outer -> a == b).
Proof.
  unfold compute_fixed_dimension.
  destruct ma as [a|], inner as [i|], mb as [b|], top_or_left; cbn [oval]; cfd_case;
    cbn -[Qplus Qminus Qmult Qdiv Qle Qeq Qlt];
    do 3 eexists; (split; [reflexivity|]);
    (split; [try field; try lra|]);
    repeat split; try (intros; discriminate);
    try (intros w E9; inversion E9; reflexivity);
    try (intros x w y E1 E2 E3; inversion E1; inversion E2; inversion E3; reflexivity);
    try (intros w y E1 E2 E3 L; inversion E2; inversion E3; subst; try reflexivity; exfalso; lra);
    try (intros x w E1 E2 E3 L; inversion E1; inversion E2; subst; try reflexivity; exfalso; lra);
    try (intros w E1 E2 E3 L; inversion E2; subst; try reflexivity; exfalso; lra);
    intros; try lra.
Qed.

Example margin_box_fixed_example :
  res3_eqb (compute_fixed_dimension 100 10 None (Some 50) None true) (Some (20, 50, 20)) = true /\
  res3_eqb (compute_fixed_dimension 100 10 (Some 30) (Some 80) (Some 5) true) (Some (5, 80, 5)) = true /\
  res3_eqb (compute_fixed_dimension 100 10 (Some 30) (Some 80) (Some 5) false) (Some (30, 80, -20)) = true /\
  res3_eqb (compute_fixed_dimension 100 10 None None (Some 200) false) (Some (0, 0, 90)) = true.
Proof. vm_compute. repeat split. Qed.

(* ------------------------------------------------------------------------ compute_variable_dimension *)
Lemma sugar_zero x : sugar (zero_margins x) = sugar x. Proof. reflexivity. Qed.
Lemma outer_min_zero x : outer_min (zero_margins x) = outer_min x. Proof. reflexivity. Qed.
Lemma outer_max_zero x : outer_max (zero_margins x) = outer_max x. Proof. reflexivity. Qed.
Lemma sugar_set_outer x v : sugar (set_outer x v) = sugar x. Proof. reflexivity. Qed.

Lemma outer_of_set_outer_le x v B :
  sugar x + m_min x <= B -> v <= B -> outer_of (set_outer x v) <= B.
Proof.
  intros H1 H2. unfold outer_of. rewrite sugar_set_outer. cbn [set_outer m_inner oval].
  pose proof (Q.le_min_l (Qmax (m_min x) (v - sugar x)) (m_max x)) as L1.
  assert (L2 : Qmax (m_min x) (v - sugar x) <= B - sugar x) by (apply Q.max_lub; lra).
  lra.
Qed.
Lemma outer_of_set_outer_le_max x v : outer_of (set_outer x v) <= sugar x + m_max x.
Proof.
  unfold outer_of. rewrite sugar_set_outer. cbn [set_outer m_inner oval].
  pose proof (Q.le_min_r (Qmax (m_min x) (v - sugar x)) (m_max x)). lra.
Qed.
Lemma set_outer_inner x v : exists i, m_inner (set_outer x v) = Some i /\
  (m_min x <= m_max x -> m_min x <= i <= m_max x).
Proof.
  eexists. split; [reflexivity|]. intros H. split.
  - apply Q.min_glb; [apply Q.le_max_l|exact H].
  - apply Q.le_min_r.
Qed.

(* the `flex_factor_sum == 0 -> 1` guard: the division never fails *)
Lemma share_ok flex f fs :
  exists v, share flex f fs = Ok v /\ v == flex * f / (if Qeq_bool fs 0 then 1 else fs) /\
            ~ (if Qeq_bool fs 0 then 1 else fs) == 0.
Proof.
  unfold share, qdivc. destruct (Qeq_bool fs 0) eqn:E.
  - change (Qeq_bool 1 0) with false. cbv iota. eexists. split; [reflexivity|]. split; [reflexivity|]. discriminate.
  - rewrite E. eexists. split; [reflexivity|]. split; [reflexivity|].
    intros H. apply Qeq_bool_iff in H. congruence.
Qed.

Lemma share_bounds flex f fs : 0 <= flex -> 0 <= f -> f <= fs ->
  exists v, share flex f fs = Ok v /\ 0 <= v /\ v <= flex.
Proof.
  intros Hflex Hf Hfs. destruct (share_ok flex f fs) as [v [E [Hv Hs]]]. exists v. split; [exact E|].
  destruct (Qeq_bool fs 0) eqn:Z.
  - apply Qeq_bool_iff in Z. assert (F0 : f == 0) by lra.
    assert (V0 : v == 0) by (rewrite Hv, F0; field). lra.
  - assert (Hpos : 0 < fs).
    { apply Qle_lteq in Hfs. assert (0 <= fs) by lra. apply Qle_lteq in H. destruct H as [H|H]; [exact H|].
      exfalso. apply Hs. now symmetry. }
    split.
    + rewrite Hv. apply Qle_shift_div_l; [exact Hpos|]. rewrite Qmult_0_l. now apply Qmult_le_0_compat.
    + rewrite Hv. apply Qle_shift_div_r; [exact Hpos|]. nra.
Qed.

Lemma share_sum flex fa fc : 0 <= flex -> 0 <= fa -> 0 <= fc ->
  exists va vc, share flex fa (fa + fc) = Ok va /\ share flex fc (fa + fc) = Ok vc /\
                0 <= va /\ 0 <= vc /\ va + vc <= flex.
Proof.
  intros Hflex Ha Hc.
  destruct (share_bounds flex fa (fa + fc)) as [va [Ea [La Ua]]]; try lra.
  destruct (share_bounds flex fc (fa + fc)) as [vc [Ec [Lc Uc]]]; try lra.
  exists va, vc. repeat split; try assumption.
  destruct (share_ok flex fa (fa + fc)) as [va' [Ea' [Hva Hs]]].
  destruct (share_ok flex fc (fa + fc)) as [vc' [Ec' [Hvc _]]].
  rewrite Ea in Ea'. rewrite Ec in Ec'. inversion Ea'; inversion Ec'; subst va' vc'.
  destruct (Qeq_bool (fa + fc) 0) eqn:Z.
  - apply Qeq_bool_iff in Z. assert (fa == 0) by lra. assert (fc == 0) by lra.
    assert (va == 0) by (rewrite Hva, H; field). assert (vc == 0) by (rewrite Hvc, H0; field). lra.
  - assert (va + vc == flex) by (rewrite Hva, Hvc; field; exact Hs). lra.
Qed.

Lemma share_zero_flex flex f fs : flex == 0 -> exists v, share flex f fs = Ok v /\ v == 0.
Proof.
  intros H. destruct (share_ok flex f fs) as [v [E [Hv Hs]]]. exists v. split; [exact E|].
  rewrite Hv, H. field. exact Hs.
Qed.

(* no ZeroDivisionError, whatever the inputs *)
Lemma bind_not_div {A B} (r : result A) (f : A -> result B) :
  r <> ErrDiv -> (forall v, f v <> ErrDiv) -> bind r f <> ErrDiv.
Proof. intros H1 H2. destruct r; simpl; try congruence; try apply H2. Qed.
Lemma share_not_div flex f fs : share flex f fs <> ErrDiv.
Proof. destruct (share_ok flex f fs) as [v [E _]]. congruence. Qed.
Lemma outer_not_div x : outer x <> ErrDiv.
Proof. unfold outer, oget. destruct (m_inner x); simpl; congruence. Qed.

Theorem no_division_by_zero avail a b c gen_b : compute_variable_dimension avail a b c gen_b <> ErrDiv.
Proof.
  unfold compute_variable_dimension.
  apply bind_not_div.
  - destruct gen_b; cbn [negb].
    + repeat (apply bind_not_div; [|intros]).
      * destruct (is_auto (m_inner (zero_margins b))); [|congruence].
        unfold cvd_middle_auto. repeat match goal with |- context [if ?c then _ else _] => destruct c end;
          (apply bind_not_div; [apply share_not_div|intros; congruence]).
      * destruct (is_auto _); [|congruence]. apply bind_not_div; [apply outer_not_div|intros; congruence].
      * destruct (is_auto _); [|congruence]. apply bind_not_div; [apply outer_not_div|intros; congruence].
      * congruence.
    + destruct (m_inner (zero_margins b)) as [i|]; [|congruence].
      destruct (Qeq_bool i 0); [|congruence].
      destruct (is_auto (m_inner (zero_margins a)) && is_auto (m_inner (zero_margins c))).
      * apply bind_not_div; [|intros; congruence].
        unfold cvd_two_auto. repeat match goal with |- context [if ?c then _ else _] => destruct c end;
          (apply bind_not_div; [apply share_not_div|intros; apply bind_not_div; [apply share_not_div|intros; congruence]]).
      * destruct (is_auto (m_inner (zero_margins a))).
        -- apply bind_not_div; [apply outer_not_div|intros; congruence].
        -- destruct (is_auto (m_inner (zero_margins c))); [|congruence].
           apply bind_not_div; [apply outer_not_div|intros; congruence].
  - intros [[a' b'] c']. destruct (_ || _); congruence.
Qed.

(* the two-box case (no centre box): A and C together fit *)
Lemma two_auto_fit avail a c :
  content_ok a -> content_ok c -> m_inner a = None -> m_inner c = None ->
  outer_min a + outer_min c <= avail ->
  exists a' c', cvd_two_auto avail a c = Ok (a', c') /\
    outer_of a' + outer_of c' <= avail /\
    (exists i, m_inner a' = Some i /\ m_min a <= i <= m_max a) /\
    (exists i, m_inner c' = Some i /\ m_min c <= i <= m_max c).
Proof.
  unfold content_ok. intros Ca Cc Ia Ic Hfit.
  assert (Ema : outer_max a == sugar a + m_max a) by (unfold outer_max; rewrite Ia; reflexivity).
  assert (Emc : outer_max c == sugar c + m_max c) by (unfold outer_max; rewrite Ic; reflexivity).
  assert (Emia : outer_min a == sugar a + m_min a) by (unfold outer_min; rewrite Ia; reflexivity).
  assert (Emic : outer_min c == sugar c + m_min c) by (unfold outer_min; rewrite Ic; reflexivity).
  unfold cvd_two_auto.
  destruct (qgt avail (outer_max a + outer_max c)) eqn:B1.
  - apply qgt_true in B1.
    destruct (share_ok (avail - outer_max a - outer_max c) (outer_max a) (outer_max a + outer_max c)) as [sa [Ea _]].
    destruct (share_ok (avail - outer_max a - outer_max c) (outer_max c) (outer_max a + outer_max c)) as [sc [Ec _]].
    rewrite Ea, Ec. cbn [bind]. do 2 eexists. split; [reflexivity|].
    pose proof (outer_of_set_outer_le_max a (outer_max a + sa)).
    pose proof (outer_of_set_outer_le_max c (outer_max c + sc)).
    split; [lra|]. split.
    + destruct (set_outer_inner a (outer_max a + sa)) as [i [E H']]. exists i. split; [exact E|now apply H'].
    + destruct (set_outer_inner c (outer_max c + sc)) as [i [E H']]. exists i. split; [exact E|now apply H'].
  - destruct (qgt avail (outer_min a + outer_min c)) eqn:B2.
    + apply qgt_true in B2.
      destruct (share_sum (avail - outer_min a - outer_min c) (m_max a - m_min a) (m_max c - m_min c))
        as [va [vc [Ea [Ec [La [Lc S]]]]]]; try lra.
      rewrite Ea, Ec. cbn [bind]. do 2 eexists. split; [reflexivity|].
      assert (outer_of (set_outer a (outer_min a + va)) <= outer_min a + va)
        by (apply outer_of_set_outer_le; lra).
      assert (outer_of (set_outer c (outer_min c + vc)) <= outer_min c + vc)
        by (apply outer_of_set_outer_le; lra).
      split; [lra|]. split.
      * destruct (set_outer_inner a (outer_min a + va)) as [i [E H']]. exists i. split; [exact E|now apply H'].
      * destruct (set_outer_inner c (outer_min c + vc)) as [i [E H']]. exists i. split; [exact E|now apply H'].
    + apply qgt_false in B2.
      assert (F0 : avail - outer_min a - outer_min c == 0) by lra.
      destruct (share_zero_flex _ (m_min a) (m_min a + m_min c) F0) as [va [Ea Za]].
      destruct (share_zero_flex _ (m_min c) (m_min a + m_min c) F0) as [vc [Ec Zc]].
      rewrite Ea, Ec. cbn [bind]. do 2 eexists. split; [reflexivity|].
      assert (outer_of (set_outer a (outer_min a + va)) <= outer_min a)
        by (apply outer_of_set_outer_le; lra).
      assert (outer_of (set_outer c (outer_min c + vc)) <= outer_min c)
        by (apply outer_of_set_outer_le; lra).
      split; [lra|]. split.
      * destruct (set_outer_inner a (outer_min a + va)) as [i [E H']]. exists i. split; [exact E|now apply H'].
      * destruct (set_outer_inner c (outer_min c + vc)) as [i [E H']]. exists i. split; [exact E|now apply H'].
Qed.

(* the centre box leaves, on each side of it, room for the larger of A and C *)
Lemma middle_auto_fit avail a b c :
  content_ok a -> content_ok b -> content_ok c -> m_inner b = None ->
  outer_min b + 2 * Qmax (outer_min a) (outer_min c) <= avail ->
  exists b', cvd_middle_auto avail a b c = Ok b' /\
    2 * Qmax (outer_min a) (outer_min c) <= avail - outer_of b' /\
    sugar b' = sugar b /\ (exists i, m_inner b' = Some i /\ m_min b <= i <= m_max b).
Proof.
  unfold content_ok. intros Ca Cb Cc Ib Hfit.
  assert (Emb : outer_max b == sugar b + m_max b) by (unfold outer_max; rewrite Ib; reflexivity).
  assert (Emib : outer_min b == sugar b + m_min b) by (unfold outer_min; rewrite Ib; reflexivity).
  assert (Ha : outer_min a <= outer_max a) by (unfold outer_min, outer_max; destruct (m_inner a); lra).
  assert (Hc : outer_min c <= outer_max c) by (unfold outer_min, outer_max; destruct (m_inner c); lra).
  assert (Hac : Qmax (outer_min a) (outer_min c) <= Qmax (outer_max a) (outer_max c)).
  { apply Q.max_lub.
    - eapply Qle_trans; [exact Ha|apply Q.le_max_l].
    - eapply Qle_trans; [exact Hc|apply Q.le_max_r]. }
  unfold cvd_middle_auto.
  destruct (qgt avail (outer_max b + 2 * Qmax (outer_max a) (outer_max c))) eqn:B1.
  - apply qgt_true in B1.
    destruct (share_ok (avail - outer_max b - 2 * Qmax (outer_max a) (outer_max c)) (outer_max b)
                (outer_max b + 2 * Qmax (outer_max a) (outer_max c))) as [sb [Eb _]].
    rewrite Eb. cbn [bind]. eexists. split; [reflexivity|].
    pose proof (outer_of_set_outer_le_max b (outer_max b + sb)).
    split; [lra|]. split; [reflexivity|].
    destruct (set_outer_inner b (outer_max b + sb)) as [i [E H']]. exists i. split; [exact E|now apply H'].
  - destruct (qgt avail (outer_min b + 2 * Qmax (outer_min a) (outer_min c))) eqn:B2.
    + apply qgt_true in B2.
      destruct (share_bounds (avail - outer_min b - 2 * Qmax (outer_min a) (outer_min c)) (m_max b - m_min b)
                  (m_max b - m_min b + (2 * Qmax (outer_max a) (outer_max c) - 2 * Qmax (outer_min a) (outer_min c))))
        as [sb [Eb [Lb Ub]]]; try lra.
      rewrite Eb. cbn [bind]. eexists. split; [reflexivity|].
      assert (outer_of (set_outer b (outer_min b + sb)) <= outer_min b + sb)
        by (apply outer_of_set_outer_le; lra).
      split; [lra|]. split; [reflexivity|].
      destruct (set_outer_inner b (outer_min b + sb)) as [i [E H']]. exists i. split; [exact E|now apply H'].
    + apply qgt_false in B2.
      assert (F0 : avail - outer_min b - 2 * Qmax (outer_min a) (outer_min c) == 0) by lra.
      destruct (share_zero_flex _ (m_min b) (m_min b + 2 * Qmax (outer_min a) (outer_min c)) F0) as [sb [Eb Zb]].
      rewrite Eb. cbn [bind]. eexists. split; [reflexivity|].
      assert (outer_of (set_outer b (outer_min b + sb)) <= outer_min b)
        by (apply outer_of_set_outer_le; lra).
      split; [lra|]. split; [reflexivity|].
      destruct (set_outer_inner b (outer_min b + sb)) as [i [E H']]. exists i. split; [exact E|now apply H'].
Qed.

Lemma fixed_outer x i : m_inner x = Some i -> outer x = Ok (outer_of x) /\ outer_of x = outer_min x.
Proof. intros E. unfold outer, outer_of, outer_min, oget. rewrite E. simpl. split; reflexivity. Qed.

(* css-page-3 5.3.2: when the outer min-content sizes (explicit sizes) fit, the function succeeds and the boxes
   of the side fit: with a centre box, A and C each fit in the half left beside it; without, A and C fit in the
   side. *)
Theorem three_boxes_fit_when_possible avail a b c gen_b :
  content_ok a -> content_ok b -> content_ok c ->
  (gen_b = false -> exists z, m_inner b = Some z /\ z == 0) ->
  fits_possible avail a b c gen_b ->
  exists a' b' c', compute_variable_dimension avail a b c gen_b = Ok (a', b', c') /\
    if gen_b
    then outer_of a' <= (1 # 2) * (avail - outer_of b') /\ outer_of c' <= (1 # 2) * (avail - outer_of b')
    else outer_of a' + outer_of c' <= avail.
Proof.
  intros Ca Cb Cc Hb Hfit. unfold fits_possible in Hfit. unfold compute_variable_dimension.
  remember (zero_margins a) as a0 eqn:Da. remember (zero_margins b) as b0 eqn:Db. remember (zero_margins c) as c0 eqn:Dc.
  assert (Ca0 : content_ok a0) by (subst a0; exact Ca). assert (Cb0 : content_ok b0) by (subst b0; exact Cb).
  assert (Cc0 : content_ok c0) by (subst c0; exact Cc).
  assert (Ib0 : m_inner b0 = m_inner b) by (subst b0; reflexivity).
  clear Da Db Dc.
  destruct gen_b; cbn [negb].
  - (* centre box generated *)
    assert (Hmid : exists b', (if is_auto (m_inner b0) then cvd_middle_auto avail a0 b0 c0 else Ok b0) = Ok b' /\
                     2 * Qmax (outer_min a0) (outer_min c0) <= avail - outer_of b' /\
                     exists i, m_inner b' = Some i).
    { destruct (m_inner b0) as [ib|] eqn:Ib; cbn [is_auto].
      - exists b0. split; [reflexivity|]. destruct (fixed_outer b0 ib Ib) as [_ E]. rewrite E.
        split; [lra|]. now exists ib.
      - destruct (middle_auto_fit avail a0 b0 c0 Ca0 Cb0 Cc0 Ib Hfit) as [b' [E [F [_ [i [Ei _]]]]]].
        exists b'. split; [exact E|]. split; [exact F|]. now exists i. }
    destruct Hmid as [b' [Eb [F [ib Eib]]]]. rewrite Eb. cbn [bind].
    destruct (fixed_outer b' ib Eib) as [Eob _]. rewrite Eob. cbn [bind].
    pose proof (Q.le_max_l (outer_min a0) (outer_min c0)) as MA.
    pose proof (Q.le_max_r (outer_min a0) (outer_min c0)) as MC.
    assert (Ha : exists a', (if is_auto (m_inner a0) then Ok (set_outer a0 ((avail - outer_of b') / 2)) else Ok a0) = Ok a'
                  /\ outer_of a' <= (1 # 2) * (avail - outer_of b') /\ is_auto (m_inner a') = false).
    { destruct (m_inner a0) as [ia|] eqn:Ia; cbn [is_auto bind].
      - exists a0. split; [reflexivity|]. destruct (fixed_outer a0 ia Ia) as [_ E]. rewrite E, Ia. split; [lra|reflexivity].
      - eexists. split; [reflexivity|]. split; [|reflexivity].
        apply outer_of_set_outer_le.
        + assert (Em : outer_min a0 == sugar a0 + m_min a0) by (unfold outer_min; rewrite Ia; reflexivity). lra.
        + apply Qle_shift_div_r; lra. }
    assert (Hc : exists c', (if is_auto (m_inner c0) then Ok (set_outer c0 ((avail - outer_of b') / 2)) else Ok c0) = Ok c'
                  /\ outer_of c' <= (1 # 2) * (avail - outer_of b') /\ is_auto (m_inner c') = false).
    { destruct (m_inner c0) as [ic|] eqn:Ic; cbn [is_auto bind].
      - exists c0. split; [reflexivity|]. destruct (fixed_outer c0 ic Ic) as [_ E]. rewrite E, Ic. split; [lra|reflexivity].
      - eexists. split; [reflexivity|]. split; [|reflexivity].
        apply outer_of_set_outer_le.
        + assert (Em : outer_min c0 == sugar c0 + m_min c0) by (unfold outer_min; rewrite Ic; reflexivity). lra.
        + apply Qle_shift_div_r; lra. }
    destruct Ha as [a' [Ea [La Aa]]]. destruct Hc as [c' [Ec [Lc Ac]]].
    rewrite Ea. cbn [bind]. rewrite ?Eob. rewrite Ec. cbn [bind].
    rewrite Aa, Ac, Eib. cbn [is_auto orb].
    exists a', b', c'. split; [reflexivity|]. now split.
  - (* no centre box *)
    destruct (Hb eq_refl) as [z [Ez Zz]]. rewrite <- Ib0 in Ez. rewrite Ez.
    apply Qeq_bool_iff in Zz. rewrite Zz.
    destruct (m_inner a0) as [ia|] eqn:Ia, (m_inner c0) as [ic|] eqn:Ic; cbn [is_auto andb].
    + cbn [bind]. rewrite Ia, Ic, Ez. cbn [is_auto orb]. exists a0, b0, c0. split; [reflexivity|].
      destruct (fixed_outer a0 ia Ia) as [_ E1]. destruct (fixed_outer c0 ic Ic) as [_ E2]. rewrite E1, E2. exact Hfit.
    + destruct (fixed_outer a0 ia Ia) as [E0 E1]. rewrite E0. cbn [bind set_outer m_inner]. rewrite Ia, Ez.
      cbn [is_auto orb]. do 3 eexists. split; [reflexivity|].
      assert (outer_of (set_outer c0 (avail - outer_of a0)) <= avail - outer_of a0).
      { assert (Em : outer_min c0 == sugar c0 + m_min c0) by (unfold outer_min; rewrite Ic; reflexivity).
        apply outer_of_set_outer_le; [|lra]. rewrite E1. lra. }
      lra.
    + destruct (fixed_outer c0 ic Ic) as [E0 E1]. rewrite E0. cbn [bind set_outer m_inner]. rewrite Ic, Ez.
      cbn [is_auto orb]. do 3 eexists. split; [reflexivity|].
      assert (outer_of (set_outer a0 (avail - outer_of c0)) <= avail - outer_of c0).
      { assert (Em : outer_min a0 == sugar a0 + m_min a0) by (unfold outer_min; rewrite Ia; reflexivity).
        apply outer_of_set_outer_le; [|lra]. rewrite E1. lra. }
      lra.
    + destruct (two_auto_fit avail a0 c0 Ca0 Cc0 Ia Ic Hfit) as [a' [c' [E [F [[i1 [I1 _]] [i2 [I2 _]]]]]]].
      rewrite E. cbn [bind fst snd]. rewrite I1, I2, Ez. cbn [is_auto orb].
      exists a', b0, c'. split; [reflexivity|exact F].
Qed.

(* positions along the side (make_margin_boxes): the centre box is centred whatever the sizes are, and when
   the sizes fit the three rectangles do not overlap and stay inside the side *)
Theorem center_box_centred avail a b c :
  let '(pa, pb, pc) := side_positions avail a b c in
  pb + outer_of b / 2 == avail / 2 /\ pa == 0 /\ pc + outer_of c == avail.
Proof. unfold side_positions. repeat split; try field; reflexivity. Qed.

Corollary side_boxes_do_not_overlap avail a b c gen_b :
  content_ok a -> content_ok b -> content_ok c ->
  (gen_b = false -> exists z, m_inner b = Some z /\ z == 0) ->
  fits_possible avail a b c gen_b ->
  exists a' b' c', compute_variable_dimension avail a b c gen_b = Ok (a', b', c') /\
    let '(pa, pb, pc) := side_positions avail a' b' c' in
    0 <= pa /\ pc + outer_of c' <= avail /\
    (gen_b = true -> pa + outer_of a' <= pb /\ pb + outer_of b' <= pc) /\
    (gen_b = false -> pa + outer_of a' <= pc) /\
    (0 <= outer_of a' -> 0 <= outer_of b' -> 0 <= outer_of c' ->
       pa + outer_of a' <= avail /\ 0 <= pc /\ (gen_b = true -> 0 <= pb /\ pb + outer_of b' <= avail)).
Proof.
  intros Ca Cb Cc Hb Hfit.
  destruct (three_boxes_fit_when_possible avail a b c gen_b Ca Cb Cc Hb Hfit) as [a' [b' [c' [E H]]]].
  exists a', b', c'. split; [exact E|]. unfold side_positions. destruct gen_b.
  - destruct H as [H1 H2]. split; [lra|]. split; [lra|]. split; [intros _; split; lra|].
    split; [intros; discriminate|]. intros Pa Pb Pc. split; [lra|]. split; [lra|]. intros _. split; lra.
  - split; [lra|]. split; [lra|]. split; [intros; discriminate|]. split; [intros _; lra|].
    intros Pa Pb Pc. split; [lra|]. split; [lra|]. intros; discriminate.
Qed.

(* when even the outer max-content sizes fit with room to spare, auto boxes get their max-content size: the
   content is laid out without forced line breaks (this is the statement that the code before commit 81ed102
   falsified: it subtracted padding/border/margins from the max-content size) *)
Theorem preferred_widths_used_when_they_fit avail a c :
  content_ok a -> content_ok c -> m_inner a = None -> m_inner c = None ->
  0 <= outer_max a -> 0 <= outer_max c -> outer_max a + outer_max c < avail ->
  exists a' c' ia ic, cvd_two_auto avail a c = Ok (a', c') /\
    m_inner a' = Some ia /\ m_inner c' = Some ic /\ ia == m_max a /\ ic == m_max c.
Proof.
  unfold content_ok. intros Ca Cc Ia Ic Pa Pc Hroom.
  assert (Ema : outer_max a == sugar a + m_max a) by (unfold outer_max; rewrite Ia; reflexivity).
  assert (Emc : outer_max c == sugar c + m_max c) by (unfold outer_max; rewrite Ic; reflexivity).
  unfold cvd_two_auto.
  assert (B1 : qgt avail (outer_max a + outer_max c) = true).
  { unfold qgt. apply negb_true_iff. destruct (Qle_bool avail (outer_max a + outer_max c)) eqn:E; [|reflexivity].
    apply Qle_bool_iff in E. lra. }
  rewrite B1.
  destruct (share_bounds (avail - outer_max a - outer_max c) (outer_max a) (outer_max a + outer_max c))
    as [sa [Ea [La _]]]; try lra.
  destruct (share_bounds (avail - outer_max a - outer_max c) (outer_max c) (outer_max a + outer_max c))
    as [sc [Ec [Lc _]]]; try lra.
  rewrite Ea, Ec. cbn [bind]. do 4 eexists. split; [reflexivity|]. split; [reflexivity|]. split; [reflexivity|].
  split.
  - rewrite Q.min_r; [reflexivity|]. eapply Qle_trans; [|apply Q.le_max_r]. lra.
  - rewrite Q.min_r; [reflexivity|]. eapply Qle_trans; [|apply Q.le_max_r]. lra.
Qed.

(* the hypotheses are satisfiable by non-trivial inputs; and the former behaviour is excluded on a witness *)
Example three_boxes_example :
  let a := mkB None (Some 0) None 20 30 70 in
  let z := mkB (Some 0) (Some 0) (Some 0) 0 0 0 in
  content_ok a /\ fits_possible 200 a z a false /\
  cvd_judge (200, (a, z, a), false, Some ((0, 70, 0), (0, 0, 0), (0, 70, 0))) = 0%nat /\
  cvd_judge (200, (a, z, a), false, Some ((0, 60, 0), (0, 0, 0), (0, 60, 0))) = 1%nat.
Proof. vm_compute. repeat split; intros; discriminate. Qed.

Example three_boxes_centre_example :
  let a := mkB None None None 4 30 70 in let b := mkB None None None 10 20 50 in
  let c := mkB (Some 2) None (Some 45) 0 0 0 in
  fits_possible 300 a b c true /\
  match compute_variable_dimension 300 a b c true with
  | Ok (a', b', c') => Qle_bool (outer_of a' + outer_of b' + outer_of c') 300 = true
  | _ => False
  end.
Proof. vm_compute. split; [intros; discriminate|reflexivity]. Qed.

(* the naive premise "the three outer min-content sizes fit side by side" is NOT enough once the centre box has
   to be centred: css-page-3 sizes B against twice the larger of A and C *)
Theorem naive_premise_insufficient :
  exists avail a b c,
    content_ok a /\ content_ok b /\ content_ok c /\
    outer_min a + outer_min b + outer_min c <= avail /\
    match compute_variable_dimension avail a b c true with
    | Ok (a', b', c') => avail < outer_of a' + outer_of b' + outer_of c'
    | _ => False
    end.
Proof.
  exists 100, (mkB (Some 0) (Some 0) None 0 60 80), (mkB (Some 0) (Some 0) None 0 30 40),
         (mkB (Some 0) (Some 0) None 0 0 50).
  vm_compute. repeat split; intros; discriminate.
Qed.
