(* C12 - _get_placement of weasyprint/layout/grid.py as regenerated (gen/GenGrid.v) is the model's get_placement:
   see proofs/C12_gen_grid_base.v for the conventions. *)
From Coq Require Import ZArith QArith Qminmax List String Bool Lia.
Require Import WV.base.Py WV.base.PyLink WV.proofs.PyNatural WV.gen.GenGrid WV.model.C12Grid.
Require Import WV.proofs.C12_gen_ext WV.proofs.C12_gen_grid_base.
Import ListNotations.
Open Scope string_scope.
Open Scope list_scope.

(* ------------------------------------------------------------------------------------------ _get_placement *)
Definition vpl (r : option (Z * Z)) : val :=
  match r with Some (c, s) => VList [vint c; vint s] | None => VNone end.
(* from_end=True: negative integers count from the end of the explicit grid (the model's resolve_line) *)
Definition rlz (fe : bool) (nl : Z) (g : gline) : gline := if fe then resolve_line nl g else g.

(* the model's get_placement written with the coordinates of the lines *)
Definition placement_c (nl : Z) (fe : bool) (s e : gline) : option (Z * Z) :=
  match s with
  | GLine a =>
      let ca := line_coord nl fe a in
      Some (norm ca (match e with GAuto => 1 | GSpan n => or1 n | GLine b => line_coord nl fe b - ca end)%Z)
  | _ =>
      match e with
      | GLine b =>
          let ce := line_coord nl fe b in
          let size := match s with GSpan n => or1 n | _ => 1%Z end in
          Some (norm (ce - size) (ce - (ce - size)))%Z
      | _ => None
      end
  end.
Lemma placement_c_eq nl fe s e : placement_c nl fe s e = get_placement (rlz fe nl s) (rlz fe nl e).
Proof.
  destruct s as [|a|m], e as [|b|k], fe;
    cbv beta iota zeta delta [placement_c get_placement rlz resolve_line pl_line_start pl_line_end line_coord andb];
    repeat match goal with |- context [(?x <? 0)%Z] => destruct (Z.ltb_spec x 0) end;
    cbv beta iota zeta; try reflexivity; do 2 f_equal; lia.
Qed.

Lemma norm_eq coord size :
  norm coord size = (if (size <? 0)%Z then (coord + size)%Z else coord,
                     if (size =? 0)%Z then 1%Z else Z.abs size).
Proof.
  unfold norm. destruct (Z.ltb_spec size 0).
  - destruct (Z.eqb_spec (- size) 0), (Z.eqb_spec size 0); try lia; f_equal; lia.
  - destruct (Z.eqb_spec size 0); f_equal; lia.
Qed.
Lemma vpair_eq x y x' y' : x = x' -> y = y' ->
  VList [VNum (inject_Z x); VNum (inject_Z y)] = VList [VNum (inject_Z x'); VNum (inject_Z y')].
Proof. intros -> ->. reflexivity. Qed.

Section Callers.
Variable O0 : qops.
Hypothesis HO : ops_ok O0.
Variable c : string -> list val -> val.
Let O := with_calls O0 (cspec O0 c).

(* evaluation by weak-head steps: the interpreter is in continuation-passing style, so the next comparison of numbers
   is an [if] at the head of the goal; the calls compute ([cspec]) *)
Ltac ev_in t := eval lazy -[qadd qsub qleb qeqb inject_Z Z.of_nat List.length coordq intersect_q] in t.
Ltac step :=
  hnf;
  match goal with
  | |- context [qleb ?P ?a ?b] =>
      let t' := ev_in (qleb P a b) in
      change (qleb P a b) with t';
      let E := fresh "E" in destruct t' eqn:E
  | |- context [qeqb ?P ?a ?b] =>
      let t' := ev_in (qeqb P a b) in
      change (qeqb P a b) with t';
      let E := fresh "E" in destruct t' eqn:E
  end.
Ltac leaf :=
  match goal with |- Some ?X = _ => let X' := ev_in X in change X with X' end;
  repeat match goal with
         | H : _ = true |- _ => revert H
         | H : _ = false |- _ => revert H
         end;
  rewrite ?(coordq_Z O0 HO); unseal HO; zq;
  match goal with R := _ |- _ => subst R end;
  cbv beta iota zeta delta [vpl placement_c];
  repeat match goal with |- context [line_coord ?n ?f ?x] => generalize (line_coord n f x); intro end;
  rewrite ?norm_eq; unfold or1;
  repeat match goal with
         | |- context [(?a <? ?b)%Z] => destruct (Z.ltb_spec a b)
         | |- context [(?a <=? ?b)%Z] => destruct (Z.leb_spec a b)
         | |- context [(?a =? ?b)%Z] => destruct (Z.eqb_spec a b)
         end;
  intros; try discriminate; try lia; first [reflexivity | apply f_equal; unfold vint; apply vpair_eq; lia].

Lemma gen_get_placement_c (s e : gline) (ls : list val) (fe : bool) :
  run O grid_get_placement_body
    [("start", vline s); ("end", vline e); ("lines", VList ls); ("from_end", VBool fe)]
    (fun _ r => r = Some (vpl (placement_c (Z.of_nat (List.length ls)) fe s e))) (fun _ => False).
Proof.
  unfold run, O.
  set (R := vpl _).
  destruct s as [|a|m], e as [|b|k], fe; repeat step; hnf; leaf.
Qed.

End Callers.

(* _get_placement of the source, its calls of _get_line answered by the source's own _get_line (linked), returns
   the model's get_placement - None, or the pair (coordinate, size) - for every pair of lines without names,
   every list of line names, with and without from_end *)
Theorem gen_get_placement n (s e : gline) (ls : list val) (fe : bool) :
  run (linked T (S n)) grid_get_placement_body
    [("start", vline s); ("end", vline e); ("lines", VList ls); ("from_end", VBool fe)]
    (fun _ r => r = Some (vpl (get_placement (rlz fe (Z.of_nat (List.length ls)) s)
                                             (rlz fe (Z.of_nat (List.length ls)) e))))
    (fun _ => False).
Proof.
  rewrite <- placement_c_eq.
  unfold linked. rewrite <- (run_ext real_ops (cspec real_ops (link T (S n))) (link T (S n))); [|apply cspec_linked].
  apply gen_get_placement_c. apply real_ok.
Qed.

