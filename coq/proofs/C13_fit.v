(* C13 - contain / cover constraint sizing, object-fit and object-position (replacedbox_layout). *)
From Coq Require Import QArith Qminmax Lqa List Bool.
Require Import WV.model.C13Replaced WV.model.C13Spec WV.proofs.C13_base.
Open Scope Q_scope.

(* contain: inside the box, touching it in at least one dimension, ratio preserved *)
Theorem contain_inside_and_touching cw ch r :
  0 < r -> exists w h, contain_sizing cw ch (Some r) = Some (w, h) /\ contained cw ch r w h.
Proof.
  intros Hr. unfold contain_sizing, constraint_sizing, contained. cbn [xorb].
  rewrite (qdiv_pos cw r Hr). cbn [bind].
  breakb.
  - exists (ch * r), ch. split; [reflexivity|]. refine (conj _ (conj _ (conj _ _))); lra.
  - exists cw, (cw / r). split; [reflexivity|].
    assert (cw / r <= ch) by (apply Qdiv_le_pos; assumption).
    assert (cw / r * r == cw) by (field; lra).
    refine (conj _ (conj _ (conj _ _))); lra.
Qed.

Theorem cover_covers_and_touching cw ch r :
  0 < r -> exists w h, cover_sizing cw ch (Some r) = Some (w, h) /\ covering cw ch r w h.
Proof.
  intros Hr. unfold cover_sizing, constraint_sizing, covering.
  rewrite (qdiv_pos cw r Hr). cbn [bind].
  breakb; cbn [xorb negb].
  - exists cw, (cw / r). split; [reflexivity|].
    assert (ch <= cw / r) by (apply Qle_div_pos; lra).
    assert (cw / r * r == cw) by (field; lra).
    refine (conj _ (conj _ (conj _ _))); lra.
  - exists (ch * r), ch. split; [reflexivity|]. refine (conj _ (conj _ (conj _ _))); lra.
Qed.

Example contain_example : contain_sizing 100 100 (Some 2) = Some (100, 100 / 2).
Proof. reflexivity. Qed.
Example cover_example : cover_sizing 100 100 (Some 2) = Some (100 * 2, 100).
Proof. reflexivity. Qed.

(* without a ratio both are the box itself; a zero ratio makes the code raise *)
Lemma constraint_no_ratio cw ch cover : constraint_sizing cw ch None cover = Some (cw, ch).
Proof. reflexivity. Qed.

(* ---------------------------------------------------------------- replacedbox_layout *)
Definition intrinsic_or_contain (bw bh : Q) (i : intr) : option (Q * Q) :=
  match iw i, ih i with Some w, Some h => Some (w, h) | _, _ => contain_sizing bw bh (ir i) end.

Definition draw_size (f : fit) (bw bh : Q) (i : intr) : option (Q * Q) :=
  bind (intrinsic_or_contain bw bh i) (fun '(iw', ih') =>
  match f with
  | Fill => Some (bw, bh)
  | Contain => contain_sizing bw bh (ir i)
  | Cover => cover_sizing bw bh (ir i)
  | FitNone => Some (iw', ih')
  | ScaleDown => bind (contain_sizing bw bh (ir i)) (fun '(dw, dh) => Some (Qmin dw iw', Qmin dh ih'))
  end).

Definition place (rgt : bool) (p : lenpct) (ref : Q) : Q :=
  if rgt then ref - percentage p ref else percentage p ref.

Lemma rb_layout_split f rgt btm px py bw bh i cx cy :
  rb_layout f rgt btm px py bw bh i cx cy =
  bind (draw_size f bw bh i) (fun '(dw, dh) =>
    Some (dw, dh, place rgt px (bw - dw) + cx, place btm py (bh - dh) + cy)).
Proof.
  unfold rb_layout, draw_size, intrinsic_or_contain, place.
  destruct (match iw i with Some w => match ih i with Some h => Some (w, h) | None => _ end | None => _ end)
    as [[a b]|]; [|reflexivity].
  cbn [bind]. destruct f; cbn [bind]; try reflexivity.
  all: try (destruct (contain_sizing bw bh (ir i)) as [[? ?]|]; reflexivity).
  all: try (destruct (cover_sizing bw bh (ir i)) as [[? ?]|]; reflexivity).
Qed.

Lemma intrinsic_or_contain_ok bw bh i r :
  ir i = Some r -> 0 < r -> exists a b, intrinsic_or_contain bw bh i = Some (a, b).
Proof.
  intros Er Hr. unfold intrinsic_or_contain. rewrite Er.
  destruct (contain_inside_and_touching bw bh r Hr) as [w [h [E _]]].
  destruct (iw i), (ih i); eauto.
Qed.

(* object-fit: contain / cover / fill *)
Theorem object_fit_contain rgt btm px py bw bh i cx cy r :
  ir i = Some r -> 0 < r ->
  exists dw dh x y, rb_layout Contain rgt btm px py bw bh i cx cy = Some (dw, dh, x, y) /\ contained bw bh r dw dh.
Proof.
  intros Er Hr. rewrite rb_layout_split. unfold draw_size.
  destruct (intrinsic_or_contain_ok bw bh i r Er Hr) as [a [b ->]]. cbn [bind]. rewrite Er.
  destruct (contain_inside_and_touching bw bh r Hr) as [w [h [-> C]]]. cbn [bind]. eauto 6.
Qed.

Theorem object_fit_cover rgt btm px py bw bh i cx cy r :
  ir i = Some r -> 0 < r ->
  exists dw dh x y, rb_layout Cover rgt btm px py bw bh i cx cy = Some (dw, dh, x, y) /\ covering bw bh r dw dh.
Proof.
  intros Er Hr. rewrite rb_layout_split. unfold draw_size.
  destruct (intrinsic_or_contain_ok bw bh i r Er Hr) as [a [b ->]]. cbn [bind]. rewrite Er.
  destruct (cover_covers_and_touching bw bh r Hr) as [w [h [-> C]]]. cbn [bind]. eauto 6.
Qed.

(* scale-down: the smaller of `none` and `contain` (both have the image's ratio, so "smaller" is unambiguous) *)
Theorem scale_down_is_min rgt btm px py bw bh cx cy w h r :
  0 < r -> w == h * r ->
  let i := Intr (Some w) (Some h) (Some r) in
  exists kw kh dw dh x y,
    contain_sizing bw bh (Some r) = Some (kw, kh) /\
    rb_layout ScaleDown rgt btm px py bw bh i cx cy = Some (dw, dh, x, y) /\
    ((kw <= w /\ kh <= h /\ dw == kw /\ dh == kh) \/ (w <= kw /\ h <= kh /\ dw == w /\ dh == h)).
Proof.
  intros Hr E i. rewrite rb_layout_split. unfold draw_size, intrinsic_or_contain. cbn [iw ih ir i bind].
  destruct (contain_inside_and_touching bw bh r Hr) as [kw [kh [-> [_ [_ [_ K]]]]]]. cbn [bind].
  exists kw, kh. do 4 eexists. split; [reflexivity|]. split; [reflexivity|].
  assert (kw <= w <-> kh <= h).
  { rewrite K, E. split; intro L.
    - apply Qnot_lt_le. intro N. assert (h * r < kh * r) by (apply Qmult_lt_compat_r; assumption). lra.
    - apply Qmult_le_compat_r; lra. }
  destruct (Qlt_le_dec w kw) as [L|L].
  - right. assert (h <= kh) by (apply Qnot_lt_le; intro N; assert (kw <= w) by (apply H; lra); lra).
    repeat split; try lra; [apply Q.min_r | apply Q.min_r]; lra.
  - left. assert (kh <= h) by (apply H; assumption).
    repeat split; try lra; [apply Q.min_l | apply Q.min_l]; lra.
Qed.

(* object-position: a percentage between 0 and 100 keeps a painted rectangle that is not larger than the content
   box inside it, whichever edge it is measured from, and aligns the same percentage points *)
Lemma percentage_bounds p ref : 0 <= p -> p <= 100 -> 0 <= ref -> 0 <= ref * p / 100 /\ ref * p / 100 <= ref.
Proof.
  intros A B C. setoid_replace (ref * p / 100) with (ref * p * (1 # 100)) by field.
  assert (0 <= ref * p) by (apply Qmult_le_0_compat; assumption).
  assert (0 <= ref * (100 - p)) by (apply Qmult_le_0_compat; lra).
  split; lra.
Qed.

Theorem object_position_inside f rgt btm px py bw bh i cx cy dw dh x y :
  rb_layout f rgt btm px py bw bh i cx cy = Some (dw, dh, x, y) ->
  (forall p, px = Pct p -> 0 <= p -> p <= 100 -> dw <= bw -> cx <= x /\ x + dw <= cx + bw) /\
  (forall p, py = Pct p -> 0 <= p -> p <= 100 -> dh <= bh -> cy <= y /\ y + dh <= cy + bh).
Proof.
  rewrite rb_layout_split. destruct (draw_size f bw bh i) as [[a b]|]; [|discriminate]. cbn [bind].
  intro E. injection E as -> -> <- <-. unfold place.
  split; intros p -> A B C; cbn [percentage].
  - destruct (percentage_bounds p (bw - dw) A B ltac:(lra)). destruct rgt; lra.
  - destruct (percentage_bounds p (bh - dh) A B ltac:(lra)). destruct btm; lra.
Qed.

Lemma aligned_place (rgt : bool) (p area img : Q) :
  aligned (if rgt then 100 - p else p) area img (place rgt (Pct p) (area - img)).
Proof. unfold aligned, place. cbn [percentage]. destruct rgt; field. Qed.

Theorem object_position_aligned f rgt btm px py bw bh i cx cy dw dh x y p :
  rb_layout f rgt btm px py bw bh i cx cy = Some (dw, dh, x, y) -> px = Pct p ->
  aligned (if rgt then 100 - p else p) bw dw (x - cx).
Proof.
  rewrite rb_layout_split. destruct (draw_size f bw bh i) as [[a b]|]; [|discriminate]. cbn [bind].
  intros E ->. injection E as -> -> <- <-. unfold place, aligned. cbn [percentage]. destruct rgt; field.
Qed.

Example object_position_example :
  rb_layout Contain false true (Pct 50) (Pct 0) 100 100 (Intr (Some 40) (Some 20) (Some 2)) 10 20
  = Some (100, 100 / 2, (100 - 100) * 50 / 100 + 10, (100 - 100 / 2) - (100 - 100 / 2) * 0 / 100 + 20).
Proof. reflexivity. Qed.
