(* C13 - contain / cover constraint sizing, object-fit and object-position (replacedbox_layout). *)
From Coq Require Import QArith Qminmax Lqa List Bool.
Require Import WV.model.C13Replaced WV.model.C13Spec WV.proofs.C13_base.
Open Scope Q_scope.

(* contain: inside the box, touching it in at least one dimension, ratio preserved *)
Theorem contain_inside_and_touching cw ch r :
  0 < r -> exists w h, contain_sizing cw ch (Some r) = Some (w, h) /\ contained cw ch r w h.
Proof.
  intros Hr. unfold contain_sizing, constraint_sizing, contained. cbn [xorb].
  rewrite (qdiv_pos cw r Hr). cbn [bind].
  breakb.
  - exists (ch * r), ch. split; [reflexivity|]. refine (conj _ (conj _ (conj _ _))); lra.
  - exists cw, (cw / r). split; [reflexivity|].
    assert (cw / r <= ch) by (apply Qdiv_le_pos; assumption).
    assert (cw / r * r == cw) by (field; lra).
    refine (conj _ (conj _ (conj _ _))); lra.
Qed.

Theorem cover_covers_and_touching cw ch r :
  0 < r -> exists w h, cover_sizing cw ch (Some r) = Some (w, h) /\ covering cw ch r w h.
Proof.
  intros Hr. unfold cover_sizing, constraint_sizing, covering.
  rewrite (qdiv_pos cw r Hr). cbn [bind].
  breakb; cbn [xorb negb].
  - exists cw, (cw / r). split; [reflexivity|].
    assert (ch <= cw / r) by (apply Qle_div_pos; lra).
    assert (cw / r * r == cw) by (field; lra).
    refine (conj _ (conj _ (conj _ _))); lra.
  - exists (ch * r), ch. split; [reflexivity|]. refine (conj _ (conj _ (conj _ _))); lra.
Qed.

Example contain_example : contain_sizing 100 100 (Some 2) = Some (100, 100 / 2).
Proof. reflexivity. Qed.
Example cover_example : cover_sizing 100 100 (Some 2) = Some (100 * 2, 100).
Proof. reflexivity. Qed.

(* without a ratio both are the box itself; a zero ratio makes the code raise *)
Lemma constraint_no_ratio cw ch cover : constraint_sizing cw ch None cover = Some (cw, ch).
Proof. reflexivity. Qed.
