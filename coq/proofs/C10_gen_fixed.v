(* C10 - fixed_table_layout of weasyprint/layout/table.py as REGENERATED from the source on every run
   (gen/GenTable.v: the statements from the choice of border_spacing_x to the end of the function): for EVERY table
   width, border spacing, list of first-row cells (any colspans, widths 'auto' or numbers) and list of column widths
   known so far, the regenerated statements never raise and leave in table.width / table.column_widths the values of
   the hand model (cells_loop then fixed_finish of model/C10Layout.v, on which the C10_fixed_* theorems rest), up to
   == on the rationals (the source subtracts the known widths of a colspan cell one by one and sums from the left,
   the model subtracts their sum and sums from the right).  resolve_percentages (layout/percent.py) stays an oracle:
   it answers the cell with its used width ('auto' or a number); cell.border_width() is answered by [ocall]
   (hypothesis HB), and by the method's own regenerated body in the linked corollary. *)
From Coq Require Import QArith Qminmax Lqa Lia List String Bool ZArith Arith.
Require Import WV.base.Py WV.gen.GenTable WV.model.C10Distribute WV.model.C10Layout WV.proofs.C10_distribute WV.proofs.C10_fixed.
Require Import WV.proofs.C10_gen_env WV.proofs.C10_gen_fixed_model WV.proofs.C10_gen_fixed_run.
Require WV.proofs.PyNatural.
Import ListNotations.
Open Scope string_scope.
Open Scope list_scope.
Open Scope Q_scope.

Definition U (x : string) : val := VErr ("unbound:" ++ x).

Section Src.
Variable T : Type.
Variable cin : T -> list (string * val).       (* a first-row cell as the loop finds it *)
Variable rc : T -> rcell.                      (* colspan, used width, border-box width after resolve_percentages *)
Variable cextra : T -> list (string * val).    (* the other attributes of the resolved cell *)
Variables (tf sf : list (string * val)) (bc : string) (sx W : Q) (sy : val).
Variable O : qops.
Hypothesis HO : ops_ok O.
Hypothesis Hstyle : lookup "style" tf = VObj sf.
Hypothesis Hbc : lookup "border_collapse" sf = VStr bc.
Hypothesis Hbs : lookup "border_spacing" sf = VList [VNum sx; sy].
Hypothesis Hw : lookup "width" tf = VNum W.
Hypothesis HR : forall t, ocall O "resolve_percentages" [VObj (cin t); VObj tf] = VList [VNone; rcellv T rc cextra t].
Hypothesis HB : forall t v, r_w (rc t) = Some v -> ocall O ".border_width" [rcellv T rc cextra t] = VNum (r_bw (rc t)).

(* the free variables of the slice, as the statements before it leave them *)
Definition env0 (cells : list T) (cw : list (option Q)) : env :=
  [("table", VObj tf); ("first_row_cells", VList (map (fun t => VObj (cin t)) cells));
   ("num_columns", VNum (qnat (List.length cw))); ("column_widths", VList (map voq cw))].

Definition start (cells : list T) (cw : list (option Q)) : st :=
  mk_st (VObj tf) (VList (map (fun t => VObj (cin t)) cells)) (VNum (qnat (List.length cw))) (VList (map voq cw))
        (U "border_spacing_x") (U "_") (U "i") (U "cell") (U "%call") (U "width") (U "columns_without_width") (U "j")
        (U "width_per_column") (U "all_border_spacing") (U "min_table_width") (U "remaining_width") (U "extra_width")
        (U "extra_per_column").

Lemma env0_start cells cw : env_eqv (env0 cells cw) (E (start cells cw)).
Proof.
  intros x. unfold env0, start, E, U.
  cbn [lookup s_tb s_frc s_nc s_cw s_bsx s_us s_i s_cell s_call s_width s_cww s_j s_wpc s_abs s_mtw s_rw s_ew s_epc].
  repeat match goal with
         | |- context [String.eqb x ?k] =>
             let H := fresh "Hx" in
             destruct (String.eqb x k) eqn:H; [try reflexivity; apply String.eqb_eq in H; subst x; reflexivity|]
         end.
  reflexivity.
Qed.

Definition result (cells : list T) (cw : list (option Q)) : Q * list Q :=
  ifinish W (spacing bc sx) (List.length cw) (icells (spacing bc sx) (map rc cells) cw).

(* the run of the regenerated statements, in the source's own order of arithmetic *)
Theorem gen_fixed_run cells cw :
  (spansT T rc cells <= List.length cw)%nat ->
  run O fixed_cells_finish_body (env0 cells cw)
      (fun rho r => r = None /\ table_is tf (result cells cw) (lookup "table" rho)) (fun _ => False).
Proof.
  intros Hsp.
  destruct O as [qa qs qm qd qmx qmn ql qe oc fuel]. destruct HO as [E1 E2 E3 E4 E5 E6 E7 E8].
  cbn [qadd qsub qmul qdiv qmax qmin qleb qeqb ocall] in *. subst.
  rewrite (run_env_eqv _ _ (env0 cells cw) (E (start cells cw))).
  - unfold run.
    apply (body_wp oc fuel _ T cin rc cextra tf sf bc sx W sy Hstyle Hbc Hbs Hw HR HB cells cw (start cells cw));
      try reflexivity; [exact Hsp|].
    intros s' Ht. split; [reflexivity|exact Ht].
  - apply env0_start.
  - intros a b r Hab. now rewrite (Hab "table").
Qed.

(* ... and it is the hand model's value *)
Definition fcells (cells : list T) : list fcell := map fc_of (map rc cells).

Lemma spans_fcells cells : spans (fcells cells) = spansT T rc cells.
Proof.
  unfold fcells. rewrite spans_fc. unfold spansT. induction cells as [|t cells IH]; [reflexivity|].
  cbn [map fold_right]. now rewrite IH.
Qed.

Definition model_result (tb : val) (Wm : Q) (wsm : list Q) : Prop :=
  exists tf' W' ws, tb = VObj tf' /\ lookup "width" tf' = VNum W' /\ lookup "column_widths" tf' = VList (map VNum ws) /\
    W' == Wm /\ Forall2 Qeq ws wsm /\
    forall x, String.eqb x "width" = false -> String.eqb x "column_widths" = false -> lookup x tf' = lookup x tf.

Theorem gen_fixed_model cells cw :
  (spansT T rc cells <= List.length cw)%nat ->
  run O fixed_cells_finish_body (env0 cells cw)
      (fun rho r => r = None /\
         exists cw1, cells_loop W (spacing bc sx) (fcells cells) cw = Some cw1 /\
                     model_result (lookup "table" rho) (fst (fixed_finish W (spacing bc sx) cw1))
                                  (snd (fixed_finish W (spacing bc sx) cw1)))
      (fun _ => False).
Proof.
  intros Hsp. pose proof (gen_fixed_run cells cw Hsp) as H.
  rewrite WV.proofs.PyNatural.run_natural in *.
  destruct (WV.proofs.PyNatural.run_out O fixed_cells_finish_body _) as [rho r|m]; [|exact H].
  destruct H as [Hr [tf' [Ht [Hw' [Hc Ho]]]]]. split; [exact Hr|].
  destruct (icells_model W (spacing bc sx) (map rc cells) cw cw (leq_refl cw)) as [cw1 [Hl Hq]].
  { fold (fcells cells). rewrite spans_fcells. exact Hsp. }
  exists cw1. split; [exact Hl|].
  assert (Hlen : List.length cw = List.length cw1) by (apply keeps_length; eapply cells_loop_keeps; exact Hl).
  destruct (ifinish_model W (spacing bc sx) _ _ Hq) as [M1 M2]. rewrite <- Hlen in M1, M2.
  exists tf', (fst (result cells cw)), (snd (result cells cw)). repeat split; try assumption.
Qed.
End Src.

(* the whole function: when the list of column widths is the one the statements before the slice build from the
   <col> elements (fixed_init), the result is fixed_layout, the model of the C10_fixed_* theorems *)
Theorem gen_fixed_layout T cin rc cextra tf sf bc sx W sy O (HO : ops_ok O)
  (Hstyle : lookup "style" tf = VObj sf) (Hbc : lookup "border_collapse" sf = VStr bc)
  (Hbs : lookup "border_spacing" sf = VList [VNum sx; sy]) (Hw : lookup "width" tf = VNum W)
  (HR : forall t, ocall O "resolve_percentages" [VObj (cin t); VObj tf] = VList [VNone; rcellv T rc cextra t])
  (HB : forall t v, r_w (rc t) = Some v -> ocall O ".border_width" [rcellv T rc cextra t] = VNum (r_bw (rc t)))
  (cols : list decl) (cells : list T) :
  run O fixed_cells_finish_body (env0 T cin tf cells (fixed_init W cols (fcells T rc cells)))
      (fun rho r => r = None /\
         exists Wm wsm, fixed_layout W (spacing bc sx) cols (fcells T rc cells) = Some (Wm, wsm) /\
                        model_result tf (lookup "table" rho) Wm wsm)
      (fun _ => False).
Proof.
  pose proof (gen_fixed_model T cin rc cextra tf sf bc sx W sy O HO Hstyle Hbc Hbs Hw HR HB cells
                (fixed_init W cols (fcells T rc cells))) as H.
  rewrite WV.proofs.PyNatural.run_natural in *.
  destruct (WV.proofs.PyNatural.run_out O fixed_cells_finish_body _) as [rho r|m].
  - destruct H as [Hr [cw1 [Hl Hm]]].
    { rewrite fixed_init_length, <- spans_fcells. lia. }
    split; [exact Hr|]. unfold fixed_layout. rewrite Hl.
    destruct (fixed_finish W (spacing bc sx) cw1) as [Wm wsm] eqn:Ef. exists Wm, wsm. split; [reflexivity|exact Hm].
  - apply H. rewrite fixed_init_length, <- spans_fcells. lia.
Qed.

(* the property text, about the run of the source statements: afterwards table.width is the sum of the column
   widths and of the (n + 1) border spacings (there is at least one column, or the table is not wider than one
   spacing), and the table was not narrowed *)
Theorem gen_fixed_sum T cin rc cextra tf sf bc sx W sy O (HO : ops_ok O)
  (Hstyle : lookup "style" tf = VObj sf) (Hbc : lookup "border_collapse" sf = VStr bc)
  (Hbs : lookup "border_spacing" sf = VList [VNum sx; sy]) (Hw : lookup "width" tf = VNum W)
  (HR : forall t, ocall O "resolve_percentages" [VObj (cin t); VObj tf] = VList [VNone; rcellv T rc cextra t])
  (HB : forall t v, r_w (rc t) = Some v -> ocall O ".border_width" [rcellv T rc cextra t] = VNum (r_bw (rc t)))
  (cols : list decl) (cells : list T) :
  run O fixed_cells_finish_body (env0 T cin tf cells (fixed_init W cols (fcells T rc cells)))
      (fun rho r => exists tf' W' ws,
         lookup "table" rho = VObj tf' /\ lookup "width" tf' = VNum W' /\ lookup "column_widths" tf' = VList (map VNum ws) /\
         List.length ws = Nat.max (List.length cols) (spans (fcells T rc cells)) /\
         ((0 < List.length ws)%nat \/ W <= spacing bc sx ->
          W' == qsum ws + spacing bc sx * (qnat (List.length ws) + 1)) /\
         W <= W')
      (fun _ => False).
Proof.
  pose proof (gen_fixed_layout T cin rc cextra tf sf bc sx W sy O HO Hstyle Hbc Hbs Hw HR HB cols cells) as H.
  rewrite WV.proofs.PyNatural.run_natural in *.
  destruct (WV.proofs.PyNatural.run_out O fixed_cells_finish_body _) as [rho r|m]; [|exact H].
  destruct H as [_ [Wm [wsm [Hl [tf' [W' [ws [Ht [Hw' [Hc [HW [Hws _]]]]]]]]]]]].
  destruct (fixed_sum _ _ _ _ _ _ Hl) as [L [S G]].
  pose proof (qleq_length _ _ Hws) as Hlen.
  exists tf', W', ws. repeat split; try assumption.
  - now rewrite Hlen.
  - intros Hc'. rewrite HW, (qleq_qsum _ _ Hws), Hlen. apply S. now rewrite <- Hlen.
  - now rewrite HW.
Qed.

(* ---- the hypotheses are satisfiable: an executable instance (cells carry their resolved form; the oracle
   resolve_percentages hands it back, border_width() reads the attribute "bw"), run with the real operations and
   compared with the numbers of proofs/C10_fixed.v's fixed_example_values *)
Definition ex_cell_fields (c : rcell) : list (string * val) :=
  [("width", match r_w c with None => VStr "auto" | Some v => VNum v end); ("colspan", VNum (qnat (r_span c)));
   ("bw", VNum (r_bw c))].
Definition ex_oc (f : string) (args : list val) : val :=
  if String.eqb f "resolve_percentages" then match args with [c; _] => VList [VNone; c] | _ => VErr "TypeError" end
  else if String.eqb f ".border_width" then match args with [VObj fl] => lookup "bw" fl | _ => VErr "TypeError" end
  else VErr "NameError".
Definition ex_tf : list (string * val) :=
  [("style", VObj [("border_collapse", VStr "separate"); ("border_spacing", VList [VNum 3; VNum 5])]); ("width", VNum 200)].
Definition ex_cells : list rcell := [mk_rcell 2 (Some 80) 86; mk_rcell 2 None 0].
Definition ex_cw : list (option Q) := [Some 50; None; Some 20; None].
Example gen_fixed_example :
  run (with_calls real_ops ex_oc) fixed_cells_finish_body (env0 rcell ex_cell_fields ex_tf ex_cells ex_cw)
      (fun rho _ => match lookup "table" rho with
                    | VObj f => match lookup "width" f, lookup "column_widths" f with
                                | VNum w, VList [VNum a; VNum b; VNum c; VNum d] =>
                                    Qeq_bool w 200 && Qeq_bool a 50 && Qeq_bool b 33 && Qeq_bool c 20 && Qeq_bool d 82
                                | _, _ => false end
                    | _ => false end) (fun _ => false) = true.
Proof. vm_compute. reflexivity. Qed.
Example gen_fixed_example_hypotheses :
  (forall c, ocall (with_calls real_ops ex_oc) "resolve_percentages" [VObj (ex_cell_fields c); VObj ex_tf]
             = VList [VNone; rcellv rcell (fun c => c) (fun c => [("bw", VNum (r_bw c))]) c]) /\
  (forall c v, r_w c = Some v ->
     ocall (with_calls real_ops ex_oc) ".border_width" [rcellv rcell (fun c => c) (fun c => [("bw", VNum (r_bw c))]) c]
     = VNum (r_bw c)).
Proof. split; intros; reflexivity. Qed.
