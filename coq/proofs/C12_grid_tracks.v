(* C12 (grid part): proofs about the track sizing model WV.model.C12Grid.resolve_tracks
   (_resolve_tracks_sizes for px, percentage and fr tracks, definite container size) and track positions. *)
From Coq Require Import ZArith QArith Qminmax Qabs List Bool Lia Lqa.
Require Import WV.model.C12Grid.
Import ListNotations.
Open Scope Q_scope.

Definition base_of (box : Q) (t : track) : Q :=
  match t with TLen q => q | TPct p => box * p / 100 | TFr _ b => b end.
Definition balanced (s : Q * Q) : Prop := snd s == fst s.

Lemma init_spec box t : fst (fix_inf (init_size box t)) = base_of box t /\ balanced (fix_inf (init_size box t)).
Proof.
  destruct t; cbn; (split; [reflexivity|]); unfold balanced; cbn; [apply Q.max_id | apply Q.max_id | reflexivity].
Qed.

Lemma qsum_cons a l : qsum (a :: l) = a + qsum l.
Proof. reflexivity. Qed.
Lemma qsum_nil : qsum [] = 0.
Proof. reflexivity. Qed.

Lemma qsum_forall2 l l' : Forall2 Qeq l l' -> qsum l == qsum l'.
Proof. induction 1; [reflexivity | rewrite !qsum_cons, H, IHForall2; reflexivity]. Qed.

(* ------------------------------------------------------------------------------------ 1.3 maximize tracks *)
(* every growth limit equals its base size here (fixed tracks; fr tracks after 1.2.5): nothing can grow *)
Lemma maximize_spec d : 0 < d -> forall sizes free r f,
  Forall balanced sizes -> maximize d sizes free = (r, f) ->
  f == free /\ Forall2 (fun s s' => fst s' == fst s /\ balanced s') sizes r.
Proof.
  intros Hd. induction sizes as [|[base gl] rest IH]; intros free r f Hb; cbn [maximize].
  - intros H; inversion H; subst. split; [reflexivity | constructor].
  - inversion Hb as [|? ? B1 B2]; subst. unfold balanced in B1. cbn in B1.
    destruct (Qlt_le_dec gl (base + d)) as [L | L]; [|exfalso; lra].
    destruct (maximize d rest (free - (gl - base))) as [r' f'] eqn:E. intros H; inversion H; subst.
    destruct (IH _ _ _ B2 E) as [F1 F2]. split; [lra|]. constructor; [|exact F2].
    cbn. split; [exact B1 | unfold balanced; reflexivity].
Qed.

(* ------------------------------------------------------------------------- 1.4 the `while not stop` loop *)
Fixpoint nflex (ts : list track) (infl : list bool) : nat :=
  match ts, infl with
  | t :: ts', i :: infl' => ((if is_fr t && negb i then 1 else 0) + nflex ts' infl')%nat
  | _, _ => O
  end.

Lemma flex_mark_measure hyp : forall ts sizes infl free stop m f st,
  flex_mark hyp ts sizes infl free stop = (m, f, st) ->
  (nflex ts m <= nflex ts infl)%nat /\ (st = false -> stop = false \/ (nflex ts m < nflex ts infl)%nat).
Proof.
  induction ts as [|t ts IH]; intros sizes infl free stop m f st; [cbn; intros H; inversion H; subst; split; [lia | auto]|].
  destruct sizes as [|s sizes]; [cbn; intros H; inversion H; subst; split; [cbn; lia | auto]|].
  destruct infl as [|i infl]; [cbn; intros H; inversion H; subst; split; [cbn; lia | auto]|].
  cbn [flex_mark].
  destruct (negb i && is_fr t && (if Qlt_le_dec (hyp * fr_factor t) (fst s) then true else false)) eqn:C.
  - match goal with |- context[flex_mark hyp ts sizes infl ?fr ?sp] =>
      destruct (flex_mark hyp ts sizes infl fr sp) as [[m' f'] st'] eqn:E end.
    intros H; inversion H; subst. destruct (IH _ _ _ _ _ _ _ E) as [A _].
    apply andb_true_iff in C as [C _]. apply andb_true_iff in C as [C1 C2]. apply negb_true_iff in C1. subst i.
    cbn [nflex]. rewrite C2. cbn. split; [lia | intros _; right; lia].
  - destruct (flex_mark hyp ts sizes infl free stop) as [[m' f'] st'] eqn:E.
    intros H; inversion H; subst. destruct (IH _ _ _ _ _ _ _ E) as [A B]. cbn [nflex]. split; [lia|].
    intros S. destruct (B S) as [B' | B']; [auto | right; lia].
Qed.

Lemma flex_loop_fuel ts sizes : forall fuel infl free,
  (nflex ts infl < fuel)%nat -> flex_loop fuel ts sizes infl free <> None.
Proof.
  induction fuel as [|fuel IH]; intros infl free Hm; [lia|]. cbn [flex_loop].
  destruct (flex_sums ts sizes infl free 0) as [lft fsum].
  destruct (flex_mark (lft / Qmax 1 fsum) ts sizes infl free true) as [[m f] st] eqn:E.
  destruct (flex_mark_measure _ _ _ _ _ _ _ _ _ E) as [A B]. destruct st; [discriminate|].
  apply IH. destruct (B eq_refl) as [B' | B']; [discriminate | lia].
Qed.

Lemma nflex_le ts infl : (nflex ts infl <= length ts)%nat.
Proof.
  revert infl. induction ts as [|t ts IH]; intros [|i infl]; cbn; try lia. specialize (IH infl).
  destruct (is_fr t && negb i); lia.
Qed.

(* the 1.4 loop always terminates within len(tracks) + 1 iterations, so resolve_tracks only fails on an empty list *)
Theorem tracks_fuel ts box gap stretch : ts <> [] -> resolve_tracks ts box gap stretch <> None.
Proof.
  intros Hne. unfold resolve_tracks. destruct ts as [|t0 ts']; [contradiction|].
  set (ts := t0 :: ts') in *.
  match goal with |- context[if Qlt_le_dec 0 ?f0 then maximize ?d ?s ?f else ?e] =>
    destruct (if Qlt_le_dec 0 f0 then maximize d s f else e) as [sizes1 free1] end.
  destruct (Qlt_le_dec 0 free1).
  - match goal with |- context[flex_loop ?n ts sizes1 ?i free1] =>
      destruct (flex_loop n ts sizes1 i free1) as [[[infl free2] ff]|] eqn:E end.
    + destruct (flex_expand ff ts sizes1 infl free2). discriminate.
    + exfalso. revert E. apply flex_loop_fuel. pose proof (nflex_le ts (map (fun _ => false) ts)). lia.
  - destruct (flex_expand 0 ts sizes1 _ free1). discriminate.
Qed.

(* ------------------------------------------------------------------------- shape of the later passes *)
(* what every pass preserves: a fixed track keeps its size, an fr track never goes below its base *)
Definition keeps (box : Q) (t : track) (s : Q * Q) : Prop :=
  match t with TFr _ b => b <= fst s | _ => fst s == base_of box t end.

Lemma flex_mark_length hyp : forall ts sizes infl free stop m f st,
  length sizes = length ts -> length infl = length ts ->
  flex_mark hyp ts sizes infl free stop = (m, f, st) -> length m = length ts.
Proof.
  induction ts as [|t ts IH]; intros sizes infl free stop m f st L1 L2.
  - cbn. intros H; inversion H; reflexivity.
  - destruct sizes as [|s sizes]; [discriminate|]. destruct infl as [|i infl]; [discriminate|]. cbn [flex_mark].
    destruct (negb i && is_fr t && _).
    + match goal with |- context[flex_mark hyp ts sizes infl ?fr ?sp] =>
        destruct (flex_mark hyp ts sizes infl fr sp) as [[m' f'] st'] eqn:E end.
      intros H; inversion H; subst. cbn. f_equal. eapply IH; eauto.
    + destruct (flex_mark hyp ts sizes infl free stop) as [[m' f'] st'] eqn:E.
      intros H; inversion H; subst. cbn. f_equal. eapply IH; eauto.
Qed.

Lemma flex_loop_length ts sizes : forall fuel infl free infl' f h,
  length sizes = length ts -> length infl = length ts ->
  flex_loop fuel ts sizes infl free = Some (infl', f, h) -> length infl' = length ts.
Proof.
  induction fuel as [|fuel IH]; intros infl free infl' f h L1 L2; cbn [flex_loop]; [discriminate|].
  destruct (flex_sums ts sizes infl free 0) as [lft fsum].
  destruct (flex_mark (lft / Qmax 1 fsum) ts sizes infl free true) as [[m f'] st] eqn:E.
  pose proof (flex_mark_length _ _ _ _ _ _ _ _ _ L1 L2 E) as Lm.
  destruct st; [intros H; inversion H; subst; exact Lm | apply IH; auto].
Qed.

Lemma flex_expand_keeps box ff : forall ts sizes infl free r f,
  Forall2 (keeps box) ts sizes -> length infl = length ts ->
  flex_expand ff ts sizes infl free = (r, f) -> Forall2 (keeps box) ts r.
Proof.
  induction ts as [|t ts IH]; intros sizes infl free r f H L; cbn [flex_expand].
  - intros E; inversion E; subst. constructor.
  - inversion H as [|? s ? sizes' K1 K2]; subst. destruct infl as [|i infl]; [discriminate|]. cbn in L.
    destruct (is_fr t && negb i && (if Qlt_le_dec (fst s) (ff * fr_factor t) then true else false)) eqn:C.
    + destruct (flex_expand ff ts sizes' infl (free - ff * fr_factor t)) as [r' f'] eqn:E. intros X; inversion X; subst.
      constructor; [|eapply IH; eauto]. apply andb_true_iff in C as [C C3]. apply andb_true_iff in C as [C1 _].
      destruct t; cbn in C1; try discriminate. unfold keeps in *. cbn [fst fr_factor] in *.
      destruct (Qlt_le_dec (fst s) (ff * f0)); [lra | discriminate].
    + destruct (flex_expand ff ts sizes' infl free) as [r' f'] eqn:E. intros X; inversion X; subst.
      constructor; [exact K1 | eapply IH; eauto].
Qed.

Lemma Forall2_length' {A B} (R : A -> B -> Prop) l l' : Forall2 R l l' -> length l' = length l.
Proof. induction 1; cbn; congruence. Qed.

Lemma qlen_pos {A} (l : list A) : l <> [] -> 0 < qlen l.
Proof. destruct l; [congruence|]. intros _. unfold qlen. change 0 with (inject_Z 0). rewrite <- Zlt_Qlt. cbn [length]. lia. Qed.

Lemma keeps_out box ts l : Forall2 (keeps box) ts l ->
  Forall2 (fun t o => match t with TLen q => o == q | TPct p => o == box * p / 100 | TFr _ b => b <= o end) ts (map fst l).
Proof. induction 1 as [|t s ts l K Ks IH]; cbn [map]; constructor; [|exact IH]. destruct t; cbn in *; auto. Qed.

(* the general shape of the result, for every input *)
Theorem tracks_fixed_exact ts box gap stretch out :
  resolve_tracks ts box gap stretch = Some out ->
  Forall2 (fun t o => match t with
                      | TLen q => o == q
                      | TPct p => o == box * p / 100
                      | TFr _ b => b <= o        (* an fr track is never smaller than its base size *)
                      end) ts out.
Proof.
  unfold resolve_tracks. destruct ts as [|t0 ts']; [discriminate|]. set (ts := t0 :: ts') in *.
  set (sizes0 := map (fun t => fix_inf (init_size box t)) ts).
  assert (K0 : Forall2 (keeps box) ts sizes0 /\ Forall balanced sizes0).
  { subst sizes0. clearbody ts. induction ts as [|t r [IH1 IH2]]; cbn; [split; constructor|].
    destruct (init_spec box t) as [E B]. split; constructor; auto.
    unfold keeps. rewrite E. destruct t; cbn; lra. }
  destruct K0 as [K0 B0].
  set (free0 := box - qsum (map fst sizes0) - (qlen ts - 1) * gap).
  assert (K1 : forall sizes1 free1,
             (if Qlt_le_dec 0 free0 then maximize (free0 / qlen ts) sizes0 free0 else (sizes0, free0)) = (sizes1, free1) ->
             Forall2 (keeps box) ts sizes1).
  { intros sizes1 free1. destruct (Qlt_le_dec 0 free0) as [L | L]; [|intros H; inversion H; subst; exact K0].
    intros H. assert (Hd : 0 < free0 / qlen ts).
    { apply Qlt_shift_div_l; [apply qlen_pos; discriminate | lra]. }
    destruct (maximize_spec _ Hd _ _ _ _ B0 H) as [_ F]. clear - K0 F.
    revert sizes1 F. induction K0 as [|t s tl sz K Ks IH]; intros sizes1 F; inversion F; subst; constructor; [|auto].
    destruct H1 as [H1 _]. destruct t; cbn in *; lra. }
  destruct (if Qlt_le_dec 0 free0 then maximize (free0 / qlen ts) sizes0 free0 else (sizes0, free0)) as [sizes1 free1] eqn:E1.
  specialize (K1 _ _ eq_refl).
  assert (L1 : length sizes1 = length ts) by (apply (Forall2_length' _ _ _ K1)).
  set (infl0 := map (fun _ : track => false) ts).
  assert (L0 : length infl0 = length ts) by (subst infl0; apply map_length).
  destruct (if Qlt_le_dec 0 free1 then flex_loop (S (length ts)) ts sizes1 infl0 free1 else Some (infl0, free1, 0))
    as [[[infl free2] ff]|] eqn:E2; [|discriminate].
  assert (L2 : length infl = length ts).
  { destruct (Qlt_le_dec 0 free1); [eapply flex_loop_length; eauto | inversion E2; subst; exact L0]. }
  destruct (flex_expand ff ts sizes1 infl free2) as [sizes3 free3] eqn:E3.
  pose proof (flex_expand_keeps box ff _ _ _ _ _ _ K1 L2 E3) as K3.
  intros H. inversion H; subst out. clear H.
  exact (keeps_out _ _ _ K3).
Qed.

(* all sizes are non-negative when the inputs are *)
Definition track_nonneg (t : track) : Prop :=
  match t with TLen q => 0 <= q | TPct p => 0 <= p | TFr f b => 0 <= f /\ 0 <= b end.

Theorem tracks_nonneg ts box gap stretch out :
  0 <= box -> Forall track_nonneg ts -> resolve_tracks ts box gap stretch = Some out -> Forall (fun o => 0 <= o) out.
Proof.
  intros Hb Hn H. apply tracks_fixed_exact in H. revert Hn. induction H as [|t o ts out R Rs IH]; intros Hn; constructor.
  - inversion Hn; subst. destruct t; cbn in *; try lra. rewrite R. apply Qle_shift_div_l; [lra|]. nra.
  - apply IH. inversion Hn; auto.
Qed.

(* ================================================================== tracks whose fr bases are 0 (no content) *)
Definition fr_sum (ts : list track) : Q := qsum (map fr_factor ts).
Definition nfrQ (ts : list track) : Q := inject_Z (Z.of_nat (length (filter is_fr ts))).
Definition plain (t : track) : Prop := match t with TFr f b => 0 <= f /\ b == 0 | _ => True end.
(* a track list as it is after 1.3 when no fr track has content *)
Definition zrel (box : Q) (t : track) (s : Q * Q) : Prop :=
  match t with TFr f _ => fst s == 0 /\ 0 <= f | _ => fst s == base_of box t end.

Lemma inject_succ n : inject_Z (Z.of_nat (S n)) == inject_Z (Z.of_nat n) + 1.
Proof. rewrite Nat2Z.inj_succ. unfold Z.succ. rewrite inject_Z_plus. reflexivity. Qed.

Lemma fr_sum_cons t ts : fr_sum (t :: ts) = fr_factor t + fr_sum ts.
Proof. reflexivity. Qed.

Lemma fr_sum_nonneg ts : Forall plain ts -> 0 <= fr_sum ts.
Proof.
  induction 1 as [|t ts P Ps IH]; [unfold fr_sum; cbn; lra|]. rewrite fr_sum_cons. destruct t; cbn in *; lra.
Qed.

Lemma flex_sums_spec box : forall ts sizes infl lft fs,
  Forall2 (zrel box) ts sizes -> Forall2 (fun _ i => i = false) ts infl ->
  fst (flex_sums ts sizes infl lft fs) == lft /\ snd (flex_sums ts sizes infl lft fs) == fs + fr_sum ts.
Proof.
  induction ts as [|t ts IH]; intros sizes infl lft fs Z I.
  - cbn. unfold fr_sum. cbn. split; lra.
  - inversion Z as [|? s ? sizes' Z1 Z2]; subst. inversion I as [|? i ? infl' I1 I2]; subst. cbn [flex_sums].
    rewrite fr_sum_cons. destruct t; cbn [is_fr fr_factor]; try (destruct (IH _ _ lft fs Z2 I2) as [A B]; split; lra).
    destruct Z1 as [Z1 _]. destruct (IH _ _ (lft + fst s) (fs + f) Z2 I2) as [A B]. split; lra.
Qed.

Lemma flex_mark_none box hyp : 0 <= hyp -> forall ts sizes infl free stop,
  Forall2 (zrel box) ts sizes -> length infl = length ts ->
  flex_mark hyp ts sizes infl free stop = (infl, free, stop).
Proof.
  intros Hh. induction ts as [|t ts IH]; intros sizes infl free stop Z L.
  - destruct infl; [reflexivity | discriminate].
  - inversion Z as [|? s ? sizes' Z1 Z2]; subst. destruct infl as [|i infl]; [discriminate|]. cbn [flex_mark].
    assert (C : negb i && is_fr t && (if Qlt_le_dec (hyp * fr_factor t) (fst s) then true else false) = false).
    { destruct t; cbn [is_fr]; try (rewrite andb_false_r; reflexivity). cbn [fr_factor]. destruct Z1 as [Z1 Z1'].
      destruct (Qlt_le_dec (hyp * f) (fst s)) as [X | X]; [|rewrite andb_false_r; reflexivity].
      exfalso. assert (0 <= hyp * f) by nra. lra. }
    rewrite C. rewrite (IH _ _ free stop Z2) by (cbn in L; lia). reflexivity.
Qed.

Lemma flex_expand_closed box ff : 0 <= ff -> forall ts sizes infl free r f,
  Forall2 (zrel box) ts sizes -> Forall2 (fun _ i => i = false) ts infl ->
  flex_expand ff ts sizes infl free = (r, f) ->
  Forall2 (fun t s' => match t with TFr g _ => fst s' == ff * g | _ => fst s' == base_of box t end) ts r /\
  f == free - ff * fr_sum ts.
Proof.
  intros Hf. induction ts as [|t ts IH]; intros sizes infl free r f Z I; cbn [flex_expand].
  - intros E; inversion E; subst. split; [constructor | unfold fr_sum; cbn; lra].
  - inversion Z as [|? s ? sizes' Z1 Z2]; subst. inversion I as [|? i ? infl' I1 I2]; subst. rewrite fr_sum_cons.
    destruct (is_fr t && negb false && (if Qlt_le_dec (fst s) (ff * fr_factor t) then true else false)) eqn:C.
    + destruct (flex_expand ff ts sizes' infl' (free - ff * fr_factor t)) as [r' f'] eqn:E. intros X; inversion X; subst.
      destruct (IH _ _ _ _ _ Z2 I2 E) as [A B]. split; [|lra]. constructor; [|exact A].
      destruct t; cbn in C; try discriminate. cbn. reflexivity.
    + destruct (flex_expand ff ts sizes' infl' free) as [r' f'] eqn:E. intros X; inversion X; subst.
      destruct (IH _ _ _ _ _ Z2 I2 E) as [A B]. destruct t; cbn [is_fr fr_factor] in *.
      * split; [constructor; [exact Z1 | exact A] | lra].
      * split; [constructor; [exact Z1 | exact A] | lra].
      * destruct Z1 as [Z1 Z1']. cbn in C. destruct (Qlt_le_dec (fst s) (ff * f0)) as [Y | Y]; [discriminate|].
        assert (0 <= ff * f0) by nra. split; [constructor; [lra | exact A] | lra].
Qed.

Lemma closed_out box ff u e e' : ff == u -> e == e' -> forall ts (sizes4 : list (Q * Q)),
  Forall2 (fun t s' => match t with TFr g _ => fst s' == ff * g + e | _ => fst s' == base_of box t end) ts sizes4 ->
  Forall2 (fun t o => o == match t with TFr f _ => f * u + e' | _ => base_of box t end) ts (map fst sizes4).
Proof.
  intros Eu Ee ts sizes4 K. induction K as [|t s tl sz K Ks IH]; cbn [map]; constructor; [|exact IH].
  destruct t; try exact K. rewrite K, Eu, Ee. lra.
Qed.
Lemma closed_plus0 box ff : forall ts (sizes : list (Q * Q)),
  Forall2 (fun t s' => match t with TFr g _ => fst s' == ff * g | _ => fst s' == base_of box t end) ts sizes ->
  Forall2 (fun t s' => match t with TFr g _ => fst s' == ff * g + 0 | _ => fst s' == base_of box t end) ts sizes.
Proof. induction 1 as [|t s tl sz K Ks IH]; constructor; [|exact IH]. destruct t; try exact K. lra. Qed.

Definition free_space (ts : list track) (box gap : Q) : Q :=
  box - qsum (map (base_of box) ts) - (qlen ts - 1) * gap.

(* the closed form of _resolve_tracks_sizes for fr tracks without content and positive free space F:
   u = F / max(1, sum of factors); an fr track f gets f * u, whatever the content distribution (step 1.5 only
   stretches tracks whose max sizing function is auto) *)
Theorem tracks_closed_form ts box gap stretch out :
  Forall plain ts -> 0 < free_space ts box gap ->
  resolve_tracks ts box gap stretch = Some out ->
  let F := free_space ts box gap in
  let u := F / Qmax 1 (fr_sum ts) in
  Forall2 (fun t o => o == match t with TFr f _ => f * u + 0 | _ => base_of box t end) ts out.
Proof.
  intros Hp HF. unfold resolve_tracks. destruct ts as [|t0 ts']; [discriminate|]. set (ts := t0 :: ts') in *.
  assert (Hne : ts <> []) by discriminate. clearbody ts. clear t0 ts'.
  set (sizes0 := map (fun t => fix_inf (init_size box t)) ts).
  assert (S0 : map fst sizes0 = map (base_of box) ts).
  { subst sizes0. rewrite map_map. apply map_ext. intros t. apply init_spec. }
  assert (B0 : Forall balanced sizes0).
  { subst sizes0. apply Forall_forall. intros s Hs. apply in_map_iff in Hs as [t [<- _]]. apply init_spec. }
  assert (Z0 : Forall2 (zrel box) ts sizes0).
  { subst sizes0. clear - Hp. induction Hp as [|t r P Ps IH]; cbn [map]; constructor; [|exact IH].
    destruct (init_spec box t) as [E _]. unfold zrel. rewrite E. destruct t; cbn in *; try reflexivity. tauto. }
  rewrite S0. fold (free_space ts box gap). set (F := free_space ts box gap) in *.
  destruct (Qlt_le_dec 0 F) as [_ | X]; [|exfalso; lra].
  assert (Hd : 0 < F / qlen ts) by (apply Qlt_shift_div_l; [apply qlen_pos; exact Hne | lra]).
  destruct (maximize (F / qlen ts) sizes0 F) as [sizes1 free1] eqn:E1.
  destruct (maximize_spec _ Hd _ _ _ _ B0 E1) as [F1 M1].
  assert (Z1 : Forall2 (zrel box) ts sizes1).
  { clear - Z0 M1. revert sizes1 M1. induction Z0 as [|t s tl sz K Ks IH]; intros sizes1 M1; inversion M1; subst; constructor; [|auto].
    destruct H1 as [H1 _]. destruct t; cbn in *; lra. }
  assert (L1 : length sizes1 = length ts) by (apply (Forall2_length' _ _ _ Z1)).
  set (infl0 := map (fun _ : track => false) ts).
  assert (I0 : Forall2 (fun (_ : track) i => i = false) ts infl0).
  { subst infl0. clear. induction ts; cbn; constructor; auto. }
  assert (L0 : length infl0 = length ts) by (apply (Forall2_length' _ _ _ I0)).
  destruct (Qlt_le_dec 0 free1) as [_ | X]; [|exfalso; lra].
  cbn [flex_loop]. destruct (flex_sums ts sizes1 infl0 free1 0) as [lft fsum] eqn:ES.
  pose proof (flex_sums_spec box ts sizes1 infl0 free1 0 Z1 I0) as [Sl Sf]. rewrite ES in Sl, Sf. cbn [fst snd] in Sl, Sf.
  pose proof (fr_sum_nonneg ts Hp) as Hs.
  assert (Hm : 0 < Qmax 1 fsum) by (pose proof (Q.le_max_l 1 fsum); lra).
  assert (Hh : 0 <= lft / Qmax 1 fsum) by (apply Qle_shift_div_l; lra).
  rewrite (flex_mark_none box _ Hh ts sizes1 infl0 free1 true Z1 L0).
  destruct (flex_expand (lft / Qmax 1 fsum) ts sizes1 infl0 free1) as [sizes3 free3] eqn:E3.
  destruct (flex_expand_closed box _ Hh _ _ _ _ _ _ Z1 I0 E3) as [C3 F3].
  assert (Eu : lft / Qmax 1 fsum == F / Qmax 1 (fr_sum ts)).
  { assert (Qmax 1 fsum == Qmax 1 (fr_sum ts)) as -> by (apply Q.max_compat; [reflexivity | lra]).
    assert (lft == F) as -> by lra. reflexivity. }
  intros H. inversion H; subst out. clear H. cbv zeta.
  set (u := F / Qmax 1 (fr_sum ts)) in *. set (ff := lft / Qmax 1 fsum) in *.
  apply (fun Ee => closed_out box ff u 0 _ Eu Ee ts _ (closed_plus0 box ff _ _ C3)). reflexivity.
Qed.

Lemma Forall2_impl {A B} (R R' : A -> B -> Prop) l l' : (forall a b, R a b -> R' a b) -> Forall2 R l l' -> Forall2 R' l l'.
Proof. intros H. induction 1; constructor; auto. Qed.

Theorem tracks_closed ts box gap stretch out :
  Forall plain ts -> 0 < free_space ts box gap ->
  resolve_tracks ts box gap stretch = Some out ->
  let u := free_space ts box gap / Qmax 1 (fr_sum ts) in
  Forall2 (fun t o => o == match t with TFr f _ => f * u | _ => base_of box t end) ts out.
Proof.
  intros Hp HF H u. pose proof (tracks_closed_form ts box gap stretch out Hp HF H) as C. cbv zeta in C. fold u in C.
  clearbody u. revert C. apply Forall2_impl. intros t o R. destruct t; try exact R. rewrite R. lra.
Qed.

(* ------------------------------------------------------------------------------------------ corollaries *)
Definition closed (box u e : Q) (t : track) : Q := match t with TFr f _ => f * u + e | _ => base_of box t end.

Lemma closed_sum box u e ts : Forall plain ts ->
  qsum (map (closed box u e) ts) == qsum (map (base_of box) ts) + u * fr_sum ts + e * nfrQ ts.
Proof.
  unfold nfrQ. induction 1 as [|t ts P Ps IH].
  { unfold fr_sum. cbn [map filter length]. rewrite !qsum_nil. change (inject_Z (Z.of_nat 0)) with 0. lra. }
  cbn [map filter]. rewrite !qsum_cons, fr_sum_cons, IH.
  destruct t; cbn [is_fr closed base_of fr_factor]; try lra.
  cbn [length]. rewrite inject_succ. destruct P as [_ P]. lra.
Qed.

Lemma out_sum box u e ts out : Forall2 (fun t o => o == closed box u e t) ts out -> qsum out == qsum (map (closed box u e) ts).
Proof. induction 1 as [|t o ts out R Rs IH]; [reflexivity|]. cbn [map]. rewrite !qsum_cons, R, IH. reflexivity. Qed.

Lemma nfrQ_pos ts : (1 <= length (filter is_fr ts))%nat -> 0 < nfrQ ts.
Proof. intros H. unfold nfrQ. change 0 with (inject_Z 0). rewrite <- Zlt_Qlt. lia. Qed.

(* fixed, percentage and fr tracks together with the gaps fill the container exactly when the free space is positive
   and the fr factors sum to at least 1 *)
Theorem tracks_partition_container ts box gap stretch out :
  Forall plain ts -> 0 < free_space ts box gap -> 1 <= fr_sum ts ->
  resolve_tracks ts box gap stretch = Some out ->
  qsum out + (qlen ts - 1) * gap == box.
Proof.
  intros Hp HF Hc H. pose proof (tracks_closed_form ts box gap stretch out Hp HF H) as C. cbv zeta in C.
  set (F := free_space ts box gap) in *. set (u := F / Qmax 1 (fr_sum ts)) in *.
  rewrite (out_sum box u 0 ts out C), (closed_sum box u 0 ts Hp).
  assert (Em : Qmax 1 (fr_sum ts) == fr_sum ts) by (apply Q.max_r; lra).
  assert (Eu : u * fr_sum ts == F) by (subst u; rewrite Em; field; lra).
  unfold F, free_space in Eu. lra.
Qed.

(* css-grid 12.7.1: with factors summing to less than 1 the fr tracks take only that fraction of the free space;
   whatever the content distribution *)
Theorem tracks_small_factors_leave_space ts box gap stretch out :
  Forall plain ts -> 0 < free_space ts box gap -> fr_sum ts < 1 ->
  resolve_tracks ts box gap stretch = Some out ->
  qsum out + (qlen ts - 1) * gap == box - free_space ts box gap * (1 - fr_sum ts).
Proof.
  intros Hp HF Hs H. pose proof (tracks_closed_form ts box gap stretch out Hp HF H) as C. cbv zeta in C.
  set (F := free_space ts box gap) in *. set (u := F / Qmax 1 (fr_sum ts)) in *.
  rewrite (out_sum box u 0 ts out C), (closed_sum box u 0 ts Hp).
  assert (Em : Qmax 1 (fr_sum ts) == 1) by (apply Q.max_l; lra).
  assert (Eu : u == F) by (subst u; rewrite Em; field). rewrite Eu. unfold F, free_space. lra.
Qed.

(* fr tracks are proportional to their factors *)
Theorem fr_proportional ts box gap stretch out :
  Forall plain ts -> 0 < free_space ts box gap ->
  resolve_tracks ts box gap stretch = Some out ->
  forall i j fi bi fj bj oi oj,
    nth_error ts i = Some (TFr fi bi) -> nth_error ts j = Some (TFr fj bj) ->
    nth_error out i = Some oi -> nth_error out j = Some oj -> oi * fj == oj * fi.
Proof.
  intros Hp HF H. pose proof (tracks_closed_form ts box gap stretch out Hp HF H) as C. cbv zeta in C.
  set (F := free_space ts box gap) in *. set (u := F / Qmax 1 (fr_sum ts)) in *.
  set (e := 0) in C. assert (Ee : e == 0) by reflexivity.
  assert (G : forall k f b o, nth_error ts k = Some (TFr f b) -> nth_error out k = Some o -> o == f * u).
  { clearbody e u. clear - C Ee. induction C as [|t o tl ol R Rs IH]; intros k f b o' Ht Ho; [destruct k; discriminate|].
    destruct k as [|k]; cbn in Ht, Ho; [inversion Ht; inversion Ho; subst; rewrite R, Ee; lra | eauto]. }
  intros i j fi bi fj bj oi oj Ti Tj Oi Oj. rewrite (G _ _ _ _ Ti Oi), (G _ _ _ _ Tj Oj). lra.
Qed.

(* fixed in /repo (F74): grid-template-columns: 0.25fr 0.5fr in 300px, justify-content normal: 75 and 150, 75 left over *)
Example tracks_small_factors_example :
  exists out, resolve_tracks [TFr (1 # 4) 0; TFr (1 # 2) 0] 300 0 true = Some out /\ Forall2 Qeq out [75; 150].
Proof. eexists. split; [vm_compute; reflexivity | repeat (constructor; [vm_compute; reflexivity|]); constructor]. Qed.

(* ---- examples: the hypotheses are satisfiable *)
Example tracks_example :
  exists out, resolve_tracks [TLen 100; TFr 1 0; TFr 2 0] 300 10 true = Some out /\
              Forall2 Qeq out [100; 60; 120] /\ qsum out + (qlen [TLen 100; TFr 1 0; TFr 2 0] - 1) * 10 == 300.
Proof.
  eexists. split; [vm_compute; reflexivity|].
  split; [repeat (constructor; [vm_compute; reflexivity|]); constructor | vm_compute; reflexivity].
Qed.
Example tracks_example_hyps :
  Forall plain [TLen 100; TFr 1 0; TFr 2 0] /\ 0 < free_space [TLen 100; TFr 1 0; TFr 2 0] 300 10 /\
  1 <= fr_sum [TLen 100; TFr 1 0; TFr 2 0].
Proof. split; [repeat constructor; cbn; lra|]. split; vm_compute; [reflexivity | discriminate]. Qed.
(* fixed in /repo (F75): a track with content: 1fr 1fr 3fr in 300px, the first track holds a 90px block.  The 1.4 loop
   freezes that track and restarts (css-grid 12.7.1): fr size 210/4 = 52.5, tracks 90, 52.5, 157.5 = 300, and the
   css-grid reference algorithm of the specification (css_resolve) gives the same sizes *)
Example tracks_refreeze_example :
  exists out, resolve_tracks [TFr 1 90; TFr 1 0; TFr 3 0] 300 0 true = Some out /\
    Forall2 Qeq out [90; 105 # 2; 315 # 2] /\ qsum out == 300 /\
    spec_axis_content [TFr 1 90; TFr 1 0; TFr 3 0] 300 0 out = true.
Proof.
  eexists. split; [vm_compute; reflexivity|].
  split; [repeat (constructor; [vm_compute; reflexivity|]); constructor | split; vm_compute; reflexivity].
Qed.

(* ================================================================================ 3.5 positions, 4 rectangles *)
(* position of the start of track k (also defined for k = number of tracks: one gap past the end of the last) *)
Definition track_start (sizes : list Q) (gap pos : Q) (k : nat) : Q :=
  pos + qsum (firstn k sizes) + inject_Z (Z.of_nat k) * gap.

Theorem track_positions_spec sizes gap : forall pos k, (k < length sizes)%nat ->
  nth k (qpositions sizes gap pos) 0 == track_start sizes gap pos k.
Proof.
  unfold track_start. induction sizes as [|s r IH]; intros pos k Hk; [cbn in Hk; lia|].
  destruct k as [|k]; cbn [qpositions nth firstn].
  - rewrite qsum_nil. change (inject_Z (Z.of_nat 0)) with 0. lra.
  - rewrite IH by (cbn in Hk; lia). rewrite qsum_cons, inject_succ. lra.
Qed.

(* consecutive tracks do not overlap: the next track starts one gap after the end of the previous one *)
Theorem tracks_consecutive sizes gap pos k : (k < length sizes)%nat ->
  track_start sizes gap pos (S k) == track_start sizes gap pos k + nth k sizes 0 + gap.
Proof.
  unfold track_start. intros Hk. rewrite inject_succ.
  assert (E : qsum (firstn (S k) sizes) == qsum (firstn k sizes) + nth k sizes 0).
  { revert k Hk. induction sizes as [|s r IH]; intros k Hk; [cbn in Hk; lia|]. destruct k as [|k].
    - cbn [firstn nth]. rewrite !qsum_cons, !qsum_nil. lra.
    - change (firstn (S (S k)) (s :: r)) with (s :: firstn (S k) r). change (firstn (S k) (s :: r)) with (s :: firstn k r).
      rewrite !qsum_cons, IH by (cbn in Hk; lia). cbn [nth]. lra. }
  rewrite E. lra.
Qed.

(* the side of the rectangle of an area (x, w): from the start of track x to the end of track x + w - 1 *)
Theorem span_extent_spec sizes gap pos x w : (x + w <= length sizes)%nat ->
  track_start sizes gap pos x + span_extent sizes gap x w == track_start sizes gap pos (x + w) - gap.
Proof.
  intros H. unfold span_extent, track_start.
  assert (E : qsum (firstn (x + w) sizes) == qsum (firstn x sizes) + qsum (firstn w (skipn x sizes))).
  { revert sizes H. induction x as [|x IH]; intros sizes H; [cbn [firstn skipn Nat.add]; rewrite qsum_nil; lra|].
    destruct sizes as [|s r]; [cbn in H; lia|]. cbn [Nat.add firstn skipn]. rewrite !qsum_cons, IH by (cbn in H; lia). lra. }
  rewrite E, Nat2Z.inj_add, inject_Z_plus. lra.
Qed.
