(* C18 - internal links in all their spellings (model/C18Href.v). *)
From Coq Require Import ZArith List Bool Lia.
Require Import WV.model.C18Href.
Import ListNotations.
Open Scope Z_scope.

Local Ltac Zify.zify_post_hook ::= Z.to_euclidean_division_equations.

Definition byte (b : Z) : Prop := 0 <= b < 256.

Lemma hexval_hexdigit v u : 0 <= v < 16 -> hexval (hexdigit v u) = Some v.
Proof.
  intros H.
  assert (E : v = 0 \/ v = 1 \/ v = 2 \/ v = 3 \/ v = 4 \/ v = 5 \/ v = 6 \/ v = 7 \/ v = 8 \/ v = 9 \/ v = 10 \/
              v = 11 \/ v = 12 \/ v = 13 \/ v = 14 \/ v = 15) by lia.
  repeat (destruct E as [->|E]; [destruct u; reflexivity|]). subst. destruct u; reflexivity.
Qed.

Lemma unquote_pct_hex h1 h2 r v1 v2 :
  hexval h1 = Some v1 -> hexval h2 = Some v2 -> unquote (37 :: h1 :: h2 :: r) = (16 * v1 + v2) :: unquote r.
Proof. intros E1 E2. cbn [unquote]. rewrite Z.eqb_refl, E1, E2. reflexivity. Qed.

Lemma unquote_other b r : b <> 37 -> unquote (b :: r) = b :: unquote r.
Proof. intros H. cbn [unquote]. destruct (Z.eqb_spec b 37); [contradiction|reflexivity]. Qed.

(* ---- every spelling decodes to the bytes it was made from ---- *)
Lemma unquote_spell : forall bs hs, spelling_ok bs hs -> unquote (spell bs hs) = bs.
Proof.
  induction bs as [|b bs IH]; intros [|h hs] H; cbn [spelling_ok] in H; try contradiction; [reflexivity|].
  destruct H as (Hb & Hraw & Hok). destruct h as [|u1 u2].
  - cbn [spell]. rewrite unquote_other by (apply Hraw; reflexivity). now rewrite IH.
  - cbn [spell]. rewrite (unquote_pct_hex _ _ _ (b / 16) (b mod 16)) by (apply hexval_hexdigit; lia).
    rewrite IH by exact Hok. f_equal. lia.
Qed.

Lemma spell_bytes : forall bs hs, spelling_ok bs hs -> Forall byte (spell bs hs).
Proof.
  induction bs as [|b bs IH]; intros [|h hs] H; cbn [spelling_ok] in H; try contradiction; [constructor|].
  destruct H as (Hb & _ & Hok). assert (Hd : forall v u, 0 <= v < 16 -> byte (hexdigit v u)).
  { intros v u Hv. unfold hexdigit, byte. destruct (v <? 10), u; lia. }
  destruct h; cbn [spell]; repeat constructor; try (apply IH; exact Hok); try exact Hb; try (apply Hd; lia); unfold byte; lia.
Qed.

(* ---- iri_to_uri does not change what unquote reads ---- *)
Definition is_some {X} (o : option X) : bool := match o with Some _ => true | None => false end.
Definition bothhex (r : list Z) : bool :=
  match r with h1 :: h2 :: _ => is_some (hexval h1) && is_some (hexval h2) | _ => false end.

Lemma unquote_pct_nohex r : bothhex r = false -> unquote (37 :: r) = 37 :: unquote r.
Proof.
  destruct r as [|h1 [|h2 r']]; intros H; cbn [unquote]; rewrite Z.eqb_refl; try reflexivity.
  cbn [bothhex] in H. destruct (hexval h1), (hexval h2); try discriminate; reflexivity.
Qed.

Lemma hex_safe c : is_some (hexval c) = true -> safe c = true.
Proof.
  unfold hexval, safe. intros H.
  destruct ((48 <=? c) && (c <=? 57)) eqn:E1; [reflexivity|].
  destruct ((65 <=? c) && (c <=? 70)) eqn:E2.
  - apply andb_prop in E2. destruct E2 as [A B]. apply Z.leb_le in A, B.
    replace ((65 <=? c) && (c <=? 90)) with true; [reflexivity|]. symmetry. apply andb_true_intro. split; apply Z.leb_le; lia.
  - destruct ((97 <=? c) && (c <=? 102)) eqn:E3; [|discriminate].
    apply andb_prop in E3. destruct E3 as [A B]. apply Z.leb_le in A, B.
    replace ((97 <=? c) && (c <=? 122)) with true; [now rewrite orb_true_r|]. symmetry. apply andb_true_intro. split; apply Z.leb_le; lia.
Qed.

Lemma iri_cons b r :
  iri_to_uri (b :: r) = (if safe b then [b] else [37; hexdigit (b / 16) true; hexdigit (b mod 16) true]) ++ iri_to_uri r.
Proof. reflexivity. Qed.

Lemma bothhex_iri r : bothhex r = false -> bothhex (iri_to_uri r) = false.
Proof.
  destruct r as [|h1 r1]; intros H; [reflexivity|]. rewrite iri_cons. destruct (safe h1) eqn:S1; [|reflexivity].
  cbn [app]. destruct (hexval h1) eqn:E1.
  - destruct r1 as [|h2 r2]; [reflexivity|]. cbn [bothhex] in H. rewrite E1 in H. cbn [is_some andb] in H.
    rewrite iri_cons. destruct (safe h2); cbn [app bothhex]; rewrite E1; cbn [is_some andb]; [exact H|reflexivity].
  - destruct (iri_to_uri r1); cbn [bothhex]; [reflexivity|]. now rewrite E1.
Qed.

Lemma unquote_iri_n : forall n l, (length l <= n)%nat -> Forall byte l -> unquote (iri_to_uri l) = unquote l.
Proof.
  induction n as [|n IH]; intros l Hn Hb.
  - destruct l; [reflexivity|cbn in Hn; lia].
  - destruct l as [|b r]; [reflexivity|]. inversion Hb as [|? ? Hb0 Hr]; subst. cbn [length] in Hn.
    assert (IHr : unquote (iri_to_uri r) = unquote r) by (apply IH; [lia|exact Hr]).
    rewrite iri_cons. destruct (Z.eq_dec b 37) as [->|Hne].
    + change (safe 37) with true. cbn [app]. destruct (bothhex r) eqn:Bh.
      * destruct r as [|h1 [|h2 r']]; try discriminate. cbn [bothhex] in Bh. apply andb_prop in Bh. destruct Bh as [B1 B2].
        rewrite !iri_cons, (hex_safe _ B1), (hex_safe _ B2). cbn [app].
        destruct (hexval h1) as [v1|] eqn:E1; [|discriminate]. destruct (hexval h2) as [v2|] eqn:E2; [|discriminate].
        rewrite !(unquote_pct_hex _ _ _ v1 v2) by assumption. f_equal. apply IH.
        -- cbn [length] in Hn. lia.
        -- inversion Hr as [|? ? _ Hr']; subst. inversion Hr'; subst. assumption.
      * rewrite !unquote_pct_nohex by (try apply bothhex_iri; exact Bh). now rewrite IHr.
    + rewrite (unquote_other b r Hne). destruct (safe b) eqn:Sb; cbn [app].
      * rewrite (unquote_other _ _ Hne). now rewrite IHr.
      * unfold byte in Hb0. rewrite (unquote_pct_hex _ _ _ (b / 16) (b mod 16)) by (apply hexval_hexdigit; lia).
        rewrite IHr. f_equal. lia.
Qed.

Theorem unquote_iri l : Forall byte l -> unquote (iri_to_uri l) = unquote l.
Proof. apply (unquote_iri_n (length l)). lia. Qed.

Lemma iri_nonempty l : l <> [] -> nonempty (iri_to_uri l) = true.
Proof. destruct l as [|b r]; [contradiction|]. intros _. rewrite iri_cons. now destruct (safe b). Qed.

Lemma spell_nonempty bs hs : bs <> [] -> spell bs hs <> [].
Proof. destruct bs as [|b bs]; [contradiction|]. intros _. destruct hs as [|[|u1 u2] hs]; discriminate. Qed.

(* every spelling of an anchor name - bare fragment, or any reference to the document itself (relative, absolute,
   the document part compared after normalisation), raw or percent-encoded in either case - is an internal link to
   exactly that name *)
Theorem every_spelling_is_internal (bs : list Z) (hs : list how) :
  spelling_ok bs hs -> bs <> [] ->
  (forall base, get_link_attribute base (ABare (spell bs hs)) = LInternal bs) /\
  (forall doc, get_link_attribute (Some doc) (AUrl doc (spell bs hs)) = LInternal bs).
Proof.
  intros Hok Hne. split.
  - intros base. cbn [get_link_attribute]. now rewrite unquote_spell.
  - intros doc. cbn [get_link_attribute]. rewrite iri_nonempty by (now apply spell_nonempty). rewrite Z.eqb_refl.
    cbn [andb]. rewrite unquote_iri by (now apply spell_bytes). now rewrite unquote_spell.
Qed.

(* references to another document, references without a fragment and, when the document has no URL, all URL
   references are external; an empty attribute is no link *)
Theorem other_references_are_external (base : option Z) (doc : Z) (f : list Z) :
  (base = None \/ f = [] \/ (exists b, base = Some b /\ doc <> b)) ->
  get_link_attribute base (AUrl doc f) = LExternal doc (iri_to_uri f) /\ get_link_attribute base AEmpty = LNone.
Proof.
  intros H. split; [|reflexivity]. cbn [get_link_attribute]. destruct base as [b|]; [|reflexivity].
  destruct H as [H|[->|(b' & E & Hd)]]; [discriminate|reflexivity|]. inversion E; subst b'.
  destruct (Z.eqb_spec doc b); [contradiction|]. now rewrite andb_false_r.
Qed.

(* "café" = 99 97 102 195 169: '#caf%C3%a9', '#café' through iri_to_uri, all give the same anchor *)
Example spelling_example :
  get_link_attribute (Some 1) (AUrl 1 [99; 97; 102; 37; 67; 51; 37; 97; 57]) = LInternal [99; 97; 102; 195; 169] /\
  get_link_attribute (Some 1) (AUrl 1 [99; 97; 102; 195; 169]) = LInternal [99; 97; 102; 195; 169] /\
  get_link_attribute None (ABare [99; 97; 102; 37; 99; 51; 37; 65; 57]) = LInternal [99; 97; 102; 195; 169] /\
  spelling_ok [99; 97; 102; 195; 169] [Raw; Raw; Raw; Enc true true; Enc false true].
Proof. vm_compute. repeat split; try lia; discriminate. Qed.
