(* Interpreter lemmas used by proofs/C11_gen_avoid.v (the `while True:` loop of avoid_collisions regenerated from
   weasyprint/layout/float.py): environments as abstract lists with known lookups, the `while True:` loop as a
   top-level fixpoint, list comprehensions and max/min over lists of values. *)
From Coq Require Import QArith Qminmax Lqa List String Bool.
Require Import WV.base.Py.
Import ListNotations.
Open Scope string_scope.
Open Scope list_scope.

(* ---- environments *)
Lemma lookup_update_same k v rho : lookup k (update k v rho) = v.
Proof.
  induction rho as [|[k0 v0] r IH]; simpl.
  - now rewrite String.eqb_refl.
  - destruct (String.eqb k k0) eqn:E; simpl; [now rewrite String.eqb_refl|now rewrite E].
Qed.

Lemma lookup_update_other k k' v rho : String.eqb k k' = false -> lookup k (update k' v rho) = lookup k rho.
Proof.
  intros N. induction rho as [|[k0 v0] r IH]; simpl.
  - now rewrite N.
  - destruct (String.eqb k' k0) eqn:E; simpl.
    + apply String.eqb_eq in E. subst k0. now rewrite N.
    + destruct (String.eqb k k0); [reflexivity|exact IH].
Qed.

Lemma flowing_update_other k v rho : String.eqb "%flow" k = false -> flowing (update k v rho) = flowing rho.
Proof. intros N. unfold flowing. now rewrite lookup_update_other. Qed.

Section Base.
Variable O : qops.

(* ---- blocks *)
Lemma exec_block_cons A kret kerr s l rho k :
  exec_block O A kret kerr (s :: l) rho k =
  exec O A kret kerr s rho (fun rho' => if flowing rho' then k rho' else exec_block O A kret kerr l rho' k).
Proof. reflexivity. Qed.

Lemma exec_block_nil A kret kerr rho k : exec_block O A kret kerr [] rho k = k rho.
Proof. reflexivity. Qed.

Lemma exec_if A kret kerr c th el rho k :
  exec O A kret kerr (SIf c th el) rho k =
  eval O A kerr rho c (fun vc => bool_k O A kerr vc (fun t =>
    if t then exec_block O A kret kerr th rho k else exec_block O A kret kerr el rho k)).
Proof. reflexivity. Qed.

Lemma exec_for A kret kerr x it body rho k l :
  lookup it rho = VList l ->
  exec O A kret kerr (SFor x (EVar it) body) rho k =
  gen_iter (fun v rho k' => exec_block O A kret kerr body (update x v rho) k') l rho k.
Proof. intros H. cbn [exec eval]. rewrite H. reflexivity. Qed.

(* ---- `while True:` as a top-level fixpoint *)
Section WLoop.
Variables (A : Type) (kret : env -> val -> A) (kerr : string -> A) (k : env -> A) (body : list stmt).
Fixpoint wloop (n : nat) (rho : env) : A :=
  match n with
  | Datatypes.O => kerr "FuelExhausted"
  | S n' =>
      exec_block O A kret kerr body rho (fun rho' =>
        match lookup "%flow" rho' with
        | VStr f => if String.eqb f "break" then k (update "%flow" VNone rho')
                    else wloop n' (update "%flow" VNone rho')
        | _ => wloop n' rho'
        end)
  end.
End WLoop.

Lemma exec_while_true A kret kerr body rho k :
  exec O A kret kerr (SWhile (EConst (VBool true)) body) rho k = wloop A kret kerr k body (wfuel O) rho.
Proof. reflexivity. Qed.

Lemma run_while_true A body rho (obs : env -> option val -> A) kerr :
  run O [SWhile (EConst (VBool true)) body] rho obs kerr =
  wloop A (fun rho v => obs rho (Some v)) kerr
        (fun rho' => if flowing rho' then obs rho' None else obs rho' None) body (wfuel O) rho.
Proof. reflexivity. Qed.

(* ---- comprehensions: filter + map over a list of injected values *)
Lemma gen_collect_fm {R X} (f : val -> (option val -> R) -> R) (inj : X -> val) (p : X -> bool) (g : X -> val) :
  (forall x kk, f (inj x) kk = if p x then kk (Some (g x)) else kk None) ->
  forall l acc k, gen_collect f (map inj l) acc k = k (rev acc ++ map g (filter p l)).
Proof.
  intros Hf l. induction l as [|x l IH]; intros acc k; simpl.
  - now rewrite app_nil_r.
  - rewrite Hf. destruct (p x); rewrite IH; simpl; [|reflexivity].
    now rewrite <- app_assoc.
Qed.

Lemma gen_collect_id {R} (f : val -> (option val -> R) -> R) :
  (forall v kk, f v kk = kk (Some v)) ->
  forall l acc k, gen_collect f l acc k = k (rev acc ++ l).
Proof.
  intros Hf l. induction l as [|x l IH]; intros acc k; simpl.
  - now rewrite app_nil_r.
  - rewrite Hf, IH. simpl. now rewrite <- app_assoc.
Qed.

Lemma eval_listcomp R err rho elt x it c k l :
  lookup it rho = VList l ->
  eval O R err rho (EListComp elt x (EVar it) (Some c)) k =
  gen_collect (fun v kk =>
     eval O R err (update x v rho) c (fun vc => bool_k O R err vc (fun t =>
       if t then eval O R err (update x v rho) elt (fun ve => kk (Some ve)) else kk None)))
    l [] (fun vs => k (VList vs)).
Proof. intros H. cbn [eval]. rewrite H. reflexivity. Qed.

(* max(...) / min(...) of the translator *)
Definition EGen (ismax : bool) := if ismax then EMaxGen else EMinGen.
Definition qmm (ismax : bool) (a b : Q) : Q := if ismax then qmax O a b else qmin O a b.

Lemma minmax_k_fold {R} (err : string -> R) (ismax : bool) q0 (l : list Q) (k : val -> R) :
  minmax_k O R err ismax (VNum q0 :: map VNum l) k = k (VNum (fold_left (qmm ismax) l q0)).
Proof.
  unfold minmax_k. revert q0. induction l as [|q l IH]; intros q0; simpl; [reflexivity|]. apply IH.
Qed.

(* max(x) / min(x) for x a variable holding a non-empty list of numbers *)
Lemma eval_gen_var R err ismax rho x it k q0 l :
  lookup it rho = VList (VNum q0 :: map VNum l) ->
  eval O R err rho (EGen ismax (EVar x) x (EVar it) None) k = k (VNum (fold_left (qmm ismax) l q0)).
Proof.
  intros H.
  assert (G : forall kk : list val -> R,
    gen_collect (fun v kk => eval O R err (update x v rho) (EVar x) (fun ve => kk (Some ve)))
                (VNum q0 :: map VNum l) [] kk = kk (VNum q0 :: map VNum l)).
  { intros kk. rewrite gen_collect_id; [reflexivity|].
    intros v kk'. cbn [eval]. now rewrite lookup_update_same. }
  destruct ismax; cbn [EGen eval]; rewrite H; cbv zeta; rewrite G; apply minmax_k_fold.
Qed.

(* max(a, b) / min(a, b) *)
Lemma eval_gen_pair R err ismax rho x e1 e2 k v1 v2 :
  (forall k', eval O R err rho e1 k' = k' v1) ->
  (forall k', eval O R err rho e2 k' = k' v2) ->
  eval O R err rho (EGen ismax (EVar x) x (ETuple [e1; e2]) None) k = minmax_k O R err ismax [v1; v2] k.
Proof.
  intros H1 H2.
  destruct ismax; cbn [EGen eval]; rewrite H1, H2; cbn [rev app gen_collect eval]; cbv zeta;
    cbn [gen_collect eval]; rewrite !lookup_update_same; reflexivity.
Qed.

(* min(elt for x in it) over injected values *)
Lemma eval_gen_map R err ismax rho x it elt k {X} (inj : X -> val) (g : X -> Q) x0 (l : list X) :
  lookup it rho = VList (map inj (x0 :: l)) ->
  (forall t kk, eval O R err (update x (inj t) rho) elt kk = kk (VNum (g t))) ->
  eval O R err rho (EGen ismax elt x (EVar it) None) k = k (VNum (fold_left (qmm ismax) (map g l) (g x0))).
Proof.
  intros H He.
  assert (G : forall kk : list val -> R,
    gen_collect (fun v kk => eval O R err (update x v rho) elt (fun ve => kk (Some ve)))
                (map inj (x0 :: l)) [] kk = kk (map (fun t => VNum (g t)) (x0 :: l))).
  { intros kk. rewrite (gen_collect_fm _ inj (fun _ => true) (fun t => VNum (g t))).
    - cbn [rev app]. f_equal. f_equal. clear. induction (x0 :: l) as [|a r IH]; simpl; congruence.
    - intros t kk'. apply He. }
  destruct ismax; cbn [EGen eval]; rewrite H; cbv zeta; rewrite G; cbn [map];
    rewrite <- (map_map g VNum); apply minmax_k_fold.
Qed.
End Base.

(* ---- comparisons respect == *)
Lemma Qle_bool_compat a a' b b' : a == a' -> b == b' -> Qle_bool a b = Qle_bool a' b'.
Proof.
  intros Ea Eb. destruct (Qle_bool a b) eqn:E1, (Qle_bool a' b') eqn:E2; try reflexivity.
  - apply Qle_bool_iff in E1. rewrite Ea, Eb in E1. apply Qle_bool_iff in E1. congruence.
  - apply Qle_bool_iff in E2. rewrite <- Ea, <- Eb in E2. apply Qle_bool_iff in E2. congruence.
Qed.

(* ---- max(max(xs), m) is the left fold of Qmax over xs from m, up to == *)
Lemma fold_max_proper l : forall a b, a == b -> fold_left Qmax l a == fold_left Qmax l b.
Proof. induction l as [|q l IH]; intros a b E; simpl; [exact E|]. apply IH. now rewrite E. Qed.
Lemma fold_min_proper l : forall a b, a == b -> fold_left Qmin l a == fold_left Qmin l b.
Proof. induction l as [|q l IH]; intros a b E; simpl; [exact E|]. apply IH. now rewrite E. Qed.

Lemma fold_max_swap l : forall q0 m, Qmax (fold_left Qmax l q0) m == fold_left Qmax l (Qmax m q0).
Proof.
  induction l as [|q l IH]; intros q0 m; simpl; [apply Q.max_comm|].
  rewrite IH. apply fold_max_proper. apply Q.max_assoc.
Qed.
Lemma fold_min_swap l : forall q0 m, Qmin (fold_left Qmin l q0) m == fold_left Qmin l (Qmin m q0).
Proof.
  induction l as [|q l IH]; intros q0 m; simpl; [apply Q.min_comm|].
  rewrite IH. apply fold_min_proper. apply Q.min_assoc.
Qed.

Lemma filter_map_comm {X Y} (f : X -> Y) (p : Y -> bool) (l : list X) :
  filter p (map f l) = map f (filter (fun x => p (f x)) l).
Proof. induction l as [|x l IH]; simpl; [reflexivity|]. destruct (p (f x)); simpl; now rewrite IH. Qed.
