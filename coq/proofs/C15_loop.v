(* C15: if the re-layout loop leaves before its last pass, the numbers printed are the ones the final pagination
   defines (a fixed point); the converse - a fixed point is always reached - is false. *)
From Coq Require Import ZArith List Bool Lia.
Require Import WV.model.C15Loop.
Import ListNotations.
Open Scope Z_scope.

Lemma numbers_eqb_eq a : forall b, numbers_eqb a b = true -> a = b.
Proof.
  induction a as [|x a IH]; intros [|y b] H; simpl in H; try discriminate; [reflexivity|].
  apply andb_true_iff in H. destruct H as [H1 H2]. apply Z.eqb_eq in H1. rewrite (IH b H2), H1. reflexivity.
Qed.

Theorem exit_before_max_is_fixpoint relayout : forall max_loops n0 n,
  relayout_loop relayout max_loops n0 = (n, true) -> relayout n = n.
Proof.
  induction max_loops as [|k IH]; intros n0 n H; simpl in H; [discriminate|].
  destruct (numbers_eqb (relayout n0) n0) eqn:E.
  - injection H as <-. apply numbers_eqb_eq. exact E.
  - destruct k; [discriminate|]. apply (IH _ _ H).
Qed.

Example exit_before_max_ex :
  relayout_loop (fun n => map (fun x => Z.min 7 (x + 2)) n) 8 [1; 4] = ([7; 7], true).
Proof. reflexivity. Qed.

(* a document whose front matter grows when the number gets longer and shrinks back: no fixed point *)
Theorem convergence_refuted :
  exists relayout n0 n, relayout_loop relayout 8 n0 = (n, false) /\ relayout n <> n.
Proof.
  exists (fun n => map (fun x => if x =? 9 then 10 else 9) n), [9], [10]. split; [reflexivity|discriminate].
Qed.
