(* C11 - the statement `if box.style['position'] == 'relative': ...` of relative_positioning(box, containing_block),
   weasyprint/layout/block.py, as REGENERATED from the source on every run (gen/GenRelative.v): a relatively positioned
   box is handed to box.translate exactly once, after resolve_position_percentages, with the vector rel_vector of
   model/C11Float.v (left, or -right when left is auto, the direction deciding when both are set; top, else -bottom,
   else 0); any other box is left alone (no external statement runs at all).
   resolve_position_percentages(box, containing_block) and box.translate(dx, dy) are external statements: oracles
   answering [returned value; the box after the call] (tools/py2coq.py, EXTERNAL_STMT).  The theorem holds whatever
   function of its arguments box.translate is, so the final state of the box says what box.translate received. *)
From Coq Require Import QArith Qminmax Lqa List String Bool.
Require Import WV.base.Py WV.base.PyLink WV.gen.GenRelative WV.proofs.PyTac WV.model.C11Float.
Import ListNotations.
Open Scope string_scope.
Open Scope list_scope.
Open Scope Q_scope.

Definition vo (o : oq) : val := match o with Some q => VNum q | None => VStr "auto" end.

(* the values of `position` (css/validation/properties.py: static | relative | absolute | fixed | running(name)) *)
Inductive pos_t := PStatic | PRelative | PAbsolute | PFixed | PRunning (name : string).
Definition pos_v (p : pos_t) : val :=
  match p with
  | PStatic => VStr "static" | PRelative => VStr "relative" | PAbsolute => VStr "absolute" | PFixed => VStr "fixed"
  | PRunning n => VList [VStr "running()"; VStr n]
  end.
Definition is_relative (p : pos_t) : bool := match p with PRelative => true | _ => false end.

(* a box as the statement reads it: style['position'], style['direction'], the used offsets; anything else in rest *)
Definition rel_box (pos : pos_t) (ltr : bool) (l r t bo : val) (rest : list (string * val)) : val :=
  VObj (("style", VObj [("position", pos_v pos); ("direction", VStr (if ltr then "ltr" else "rtl"))]) ::
        ("left", l) :: ("right", r) :: ("top", t) :: ("bottom", bo) :: rest).

(* The two external statements.  resolve_position_percentages(box, containing_block) answers ret1 and leaves box1 (used
   offsets, numbers or auto, in box.left/right/top/bottom); box.translate(dx, dy, ignore_floats) answers ret2 and
   leaves the box in the state tr [box; dx; dy; ignore_floats], tr being ANY function of the arguments it receives. *)
Definition rel_oracle (ret1 box1 ret2 : val) (tr : list val -> val) (f : string) (args : list val) : val :=
  if String.eqb f "resolve_position_percentages" then VList [ret1; box1]
  else if String.eqb f ".translate" then VList [ret2; tr args]
  else VErr "NameError".

Definition relative_post (pos : pos_t) (rho0 : env) (box1 : val) (v : Q * Q) (tr : list val -> val) (ret : val)
           (rho : env) (res : option val) : Prop :=
  res = None /\
  if is_relative pos
  then exists dx dy, dx == fst v /\ dy == snd v /\
                     lookup "box" rho = tr [box1; VNum dx; VNum dy; VBool false] /\ lookup "%call" rho = ret
  else rho = rho0.


Lemma gen_relative_if O (HO : ops_ok O) pos pos1 ltr0 ltr l0 r0 t0 b0 rest0 (l r t bo : oq) rest1 cbl ret1 ret2 tr :
  let box0 := rel_box pos ltr0 l0 r0 t0 b0 rest0 in
  let box1 := rel_box pos1 ltr (vo l) (vo r) (vo t) (vo bo) rest1 in
  let rho0 := [("box", box0); ("containing_block", VList cbl)] in
  run (with_calls O (rel_oracle ret1 box1 ret2 tr)) relative_if_body rho0
      (relative_post pos rho0 box1 (rel_vector ltr (l, r, t, bo)) tr ret2) (fun _ => False).
Proof.
  intros box0 box1 rho0. subst box0 box1 rho0.
  unfold run, relative_if_body, relative_post, rel_box.
  destruct pos; try (split; reflexivity).
  destruct ltr, l as [l|], r as [r|], t as [t|], bo as [bo|];
    lazy -[Qeq Qopp]; (split; [reflexivity|]);
    eexists; eexists; (split; [|split; [|split; reflexivity]]);
    fold (qsub O); unseal HO; try reflexivity; ring.
Qed.


Example relative_example :
  let box1 := rel_box PRelative false (VNum 5) (VNum 7) (VStr "auto") (VNum 3) [] in
  run (with_calls real_ops (rel_oracle VNone box1 VNone VList)) relative_if_body
      [("box", rel_box PRelative false (VObj []) (VObj []) (VObj []) (VObj []) []); ("containing_block", VList [])]
      (fun rho r => r = None /\ lookup "box" rho = VList [box1; VNum (0 - 7); VNum (0 - 3); VBool false])
      (fun _ => False).
Proof. split; reflexivity. Qed.
