(* C16 - a serializer that registers every resource where it uses it, and gives every resource dictionary all the
   registered fonts, produces closed content streams; dropping a used font from the /Font dictionary breaks closure. *)
From Coq Require Import ZArith List Bool Lia.
Require Import WV.model.C16Closure.
Import ListNotations.
Open Scope Z_scope.

Lemma rn_eqb_refl u : rn_eqb u u = true.
Proof. unfold rn_eqb. rewrite Nat.eqb_refl, Z.eqb_refl. reflexivity. Qed.
Lemma rn_eqb_eq u v : rn_eqb u v = true -> u = v.
Proof.
  destruct u, v. unfold rn_eqb. simpl. intro H. apply andb_true_iff in H. destruct H as [A B].
  apply Nat.eqb_eq in A. apply Z.eqb_eq in B. congruence.
Qed.
Lemma use_ok_In defs u : use_ok defs u = true <-> In u defs.
Proof.
  unfold use_ok. rewrite existsb_exists. split.
  - intros (x & I & E). apply rn_eqb_eq in E. congruence.
  - intro I. exists u. split; auto. apply rn_eqb_refl.
Qed.

(* every use of a node is a local definition or a registered font *)
Definition node_inv (fonts : list Z) (n : node) : Prop :=
  forall u, In u (n_uses n) -> In u (n_defs n) \/ exists h, u = (FONT, h) /\ In h fonts.
Definition SInv (d : sdoc) : Prop := forall n, In n (s_nodes d) -> node_inv (s_fonts d) n.

Lemma In_upd_node l i f n : In n (upd_node l i f) -> In n l \/ exists m, In m l /\ n = f m.
Proof.
  revert i. induction l as [|a l IH]; intros [|i]; simpl; auto.
  - intros [H|H]; eauto.
  - intros [H|H]; auto. destruct (IH _ H) as [A|(m & A & B)]; eauto.
Qed.

Lemma node_inv_mono fonts fonts' n : (forall h, In h fonts -> In h fonts') -> node_inv fonts n -> node_inv fonts' n.
Proof. intros M H u I. destruct (H u I) as [A|(h & E & A)]; eauto. Qed.

Lemma step_SInv o d : SInv d -> SInv (sstep o d).
Proof.
  intros S. destruct o; simpl; intros n I; simpl in *.
  - apply in_app_or in I. destruct I as [I|[<-|[]]]; [apply S; auto|]. intros u [].
  - apply In_upd_node in I. destruct I as [I|(m & I & ->)]; [apply S; auto|].
    intros v J. simpl in *. destruct (S m I v J) as [A|A]; auto.
  - apply In_upd_node in I. destruct I as [I|(m & I & ->)]; [apply S; auto|].
    intros v J. simpl in *. destruct J as [<-|J]; auto. destruct (S m I v J) as [A|A]; auto.
  - assert (M : forall x, In x (s_fonts d) -> In x (if existsb (Z.eqb h) (s_fonts d) then s_fonts d else s_fonts d ++ [h])).
    { intros x J. destruct (existsb (Z.eqb h) (s_fonts d)); auto. apply in_or_app. auto. }
    assert (H : In h (if existsb (Z.eqb h) (s_fonts d) then s_fonts d else s_fonts d ++ [h])).
    { destruct (existsb (Z.eqb h) (s_fonts d)) eqn:E.
      - apply existsb_exists in E. destruct E as (x & J & E). apply Z.eqb_eq in E. subst. exact J.
      - apply in_or_app. right. left. reflexivity. }
    apply In_upd_node in I. destruct I as [I|(m & I & ->)].
    + eapply node_inv_mono; [exact M|]. apply S; auto.
    + intros v J. simpl in *. destruct J as [<-|J]; [right; eauto|].
      destruct (S m I v J) as [A|(h0 & E & A)]; auto. right. eauto.
Qed.

Lemma run_SInv ops : forall d, SInv d -> SInv (srun ops d).
Proof. induction ops as [|o r IH]; simpl; intros d S; auto. apply IH. apply step_SInv. exact S. Qed.

Lemma SInv0 : SInv sdoc0.
Proof. intros n [<-|[]] u []. Qed.

Theorem registered_resources_give_closure ops : closed (sfinalise (srun ops sdoc0)) = true.
Proof.
  pose proof (run_SInv ops sdoc0 SInv0) as S. set (d := srun ops sdoc0) in *.
  unfold closed, sfinalise, finalise_fonts. apply forallb_forall. intros n I.
  apply in_map_iff in I. destruct I as (m & <- & I). unfold node_closed. simpl.
  apply forallb_forall. intros u J. apply use_ok_In. apply in_or_app.
  destruct (S m I u J) as [A|(h & -> & A)]; auto. right.
  apply in_map_iff. exists h. split; auto. apply filter_In. auto.
Qed.

(* the converse side: a font that a stream selects and that is left out of the /Font dictionary (and is not a local
   definition, which fonts never are) leaves that stream not closed *)
Theorem dropped_font_breaks_closure keep d n h :
  In n (s_nodes d) -> In (FONT, h) (n_uses n) -> ~ In (FONT, h) (n_defs n) -> keep h = false ->
  closed (finalise_fonts keep d) = false.
Proof.
  intros I U L K. destruct (closed (finalise_fonts keep d)) eqn:C; auto. exfalso.
  unfold closed, finalise_fonts in C. rewrite forallb_forall in C.
  specialize (C _ (in_map _ _ _ I)). unfold node_closed in C. simpl in C. rewrite forallb_forall in C.
  specialize (C _ U). apply use_ok_In in C. apply in_app_or in C. destruct C as [C|C]; [contradiction|].
  apply in_map_iff in C. destruct C as (x & E & F). inversion E; subst. apply filter_In in F. destruct F as [_ F]. congruence.
Qed.

Example closure_example :
  let ops := [SUseFont 0 7; SNew; SUse 1 (2%nat, 5); SUseFont 1 9; SDefine 0 (1%nat, 0); SUse 0 (1%nat, 0)] in
  closed (sfinalise (srun ops sdoc0)) = true /\
  closed (finalise_fonts (fun h => negb (h =? 9)) (srun ops sdoc0)) = false.
Proof. vm_compute. split; reflexivity. Qed.
