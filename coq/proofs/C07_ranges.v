(* C07 - the validators' ranges are within the grammars' (model/C07Ranges.v), but for the negative flex factors. *)
From Coq Require Import ZArith QArith List Bool String Lqa Lia.
Require Import WV.model.C07Tok WV.model.C07Ranges.
Import ListNotations.
Open Scope string_scope.

Lemma Qeq_bool_inject v w : Qeq_bool v (inject_Z w) = true -> (v == inject_Z w)%Q.
Proof. apply Qeq_bool_eq. Qed.

Lemma font_weights_in_range v :
  existsb (fun w => Qeq_bool v (inject_Z w)) [100; 200; 300; 400; 500; 600; 700; 800; 900]%Z = true ->
  at_least 1 v = true /\ Qle_bool v 1000 = true.
Proof.
  intro H. apply existsb_exists in H. destruct H as [w [Hin He]]. apply Qeq_bool_eq in He.
  unfold at_least. rewrite !Qle_bool_iff, He.
  simpl in Hin. repeat (destruct Hin as [<-|Hin]; [split; unfold Qle; simpl; lia|]). destruct Hin.
Qed.

(* what a validator accepts, its grammar allows (negative flex factors used to be the exception: F133, repaired) *)
Theorem validators_within_grammar p k v i :
  impl_accepts p k v i = true -> css_accepts p k v i = true.
Proof.
  unfold impl_accepts, css_accepts.
  destruct (str_in p INT_GE_1); [auto|].
  destruct (str_in p INT_ANY); [auto|].
  destruct (str_in p NUM_GE_0); [auto|].
  destruct (str_in p LP_GE_0); [auto|].
  destruct (str_in p L_GE_0); [auto|].
  destruct (str_in p LP_ANY); [auto|].
  destruct (str_in p L_ANY); [auto|].
  destruct (String.eqb p "tab-size").
  { intro H. apply orb_true_iff in H. destruct H as [H|H].
    - apply andb_true_iff in H. destruct H as [H N]. apply andb_true_iff in H. destruct H as [K _].
      now rewrite K, N.
    - apply andb_true_iff in H. destruct H as [L N]. rewrite N, andb_true_r.
      unfold length_like in L. destruct k as [|[|k]]; simpl in *; auto; discriminate. }
  destruct (String.eqb p "font-weight").
  { intro H. apply andb_true_iff in H. destruct H as [H W]. apply andb_true_iff in H. destruct H as [K _].
    destruct (font_weights_in_range v W) as [A B]. now rewrite K, A, B. }
  destruct (String.eqb p "opacity"); [auto|].
  destruct (String.eqb p "line-height"); [auto|].
  discriminate.
Qed.

(* the bounds, spelled out: what each grammar refuses *)
Theorem integer_bounds p v i :
  str_in p INT_GE_1 = true ->
  (css_accepts p 0 v i = true <-> i = true /\ (1 <= v)%Q) /\
  css_accepts p 1 v i = false /\ css_accepts p 2 v i = false.
Proof.
  intro H. unfold css_accepts. rewrite H. cbn [Nat.eqb andb].
  split; [|split; reflexivity]. split.
  - intro A. apply andb_true_iff in A. destruct A as [A B]. split; auto. unfold at_least in B. now apply Qle_bool_iff.
  - intros [-> B]. cbn [andb]. unfold at_least. now apply Qle_bool_iff.
Qed.

Example widows_zero_is_invalid :
  css_accepts "widows" 0 0 true = false /\ css_accepts "orphans" 0 0 true = false /\
  css_accepts "widows" 0 1 true = true /\ css_accepts "widows" 0 1 false = false /\
  css_accepts "column-count" 0 0 true = false /\ css_accepts "tab-size" 0 0 true = true /\
  css_accepts "tab-size" 0 (-1) true = false /\ css_accepts "font-weight" 0 1001 true = false /\
  css_accepts "font-weight" 0 0 true = false /\ css_accepts "line-height" 0 (-1) true = false /\
  css_accepts "flex-grow" 0 (-1) true = false /\ css_accepts "padding-top" 1 (-1) false = false.
Proof. repeat split; reflexivity. Qed.
