(* C13 - background layers: contain / cover, round, space, position percentages. *)
From Coq Require Import QArith Qminmax Qround ZArith Lqa Lia List Bool.
Require Import WV.model.C13Replaced WV.model.C13Spec WV.model.C13Background WV.proofs.C13_base WV.proofs.C13_fit.
Open Scope Q_scope.

Lemma inject_Z_pos n : (1 <= n)%Z -> 0 < inject_Z n.
Proof. intro H. unfold Qlt, inject_Z. cbn. lia. Qed.

(* ---- round: a whole number of tiles fills the positioning area *)
Lemma round_step_fills other auto_o area a b a' b' :
  round_step true other auto_o area a b = Some (a', b') -> ~ a == 0 ->
  exists n : Z, (1 <= n)%Z /\ a' * inject_Z n == area.
Proof.
  unfold round_step, round_axis. intros H Ha. apply Qeq_bool_false in Ha. rewrite Ha in H. cbn [andb negb] in H.
  apply Qeq_bool_false in Ha. rewrite (qdiv_nz area a Ha) in H. cbn [bind] in H.
  set (n := Z.max 1 (py_round (area / a))) in *.
  assert (Hn : (1 <= n)%Z) by (unfold n; lia).
  assert (Hp := inject_Z_pos n Hn).
  exists n. split; [exact Hn|].
  destruct (negb other && auto_o).
  - destruct (qdiv (area / inject_Z n) a); cbn [bind] in H; [|discriminate].
    injection H as <- _. field. lra.
  - injection H as <- _. field. lra.
Qed.

Lemma round_step_off other auto_o area a b : round_step false other auto_o area a b = Some (a, b).
Proof. reflexivity. Qed.

(* when the other axis is rounded too (or its size is not auto) the other dimension is left alone *)
Lemma round_step_keeps_other on auto_o area a b a' b' :
  round_step on true auto_o area a b = Some (a', b') -> b' = b.
Proof.
  unfold round_step. destruct (on && negb (Qeq_bool a 0)).
  - destruct (round_axis area a) as [[n na]|]; [|discriminate]. cbn. intro H. now injection H.
  - intro H. now injection H.
Qed.

Lemma round_step_total on other auto_o area a b : exists a' b', round_step on other auto_o area a b = Some (a', b').
Proof.
  unfold round_step. destruct on; cbn [andb]; [|eauto].
  destruct (Qeq_bool a 0) eqn:E; cbn [negb]; [eauto|].
  apply Qeq_bool_false in E. unfold round_axis. rewrite (qdiv_nz area a E). cbn [bind].
  destruct (negb other && auto_o); [|eauto]. rewrite (qdiv_nz _ a E). cbn [bind]. eauto.
Qed.

(* the other dimension keeps the ratio when it is rescaled *)
Lemma round_step_rescales area a b a' b' :
  round_step true false true area a b = Some (a', b') -> ~ a == 0 -> b' * a == b * a'.
Proof.
  unfold round_step, round_axis. intros H Ha. apply Qeq_bool_false in Ha. rewrite Ha in H. cbn [andb negb] in H.
  apply Qeq_bool_false in Ha. rewrite (qdiv_nz area a Ha) in H. cbn [bind] in H.
  rewrite (qdiv_nz _ a Ha) in H. cbn [bind] in H. injection H as <- <-.
  assert (0 < inject_Z (Z.max 1 (py_round (area / a)))) by (apply inject_Z_pos; lia).
  field. split; [lra | exact Ha].
Qed.

Theorem bg_round_fills_x i size pw ph rgt btm px py ry w h x y :
  bg_layout i size pw ph rgt btm px py Round ry = BLayer w h x y -> ~ w == 0 ->
  exists n : Z, (1 <= n)%Z /\ w * inject_Z n == pw /\ x == 0.
Proof.
  unfold bg_layout. destruct (is_zero (iw i) || is_zero (ih i)); [discriminate|].
  destruct (bg_size i size pw ph) as [[w0 h0]|]; [|discriminate]. cbn [is_round].
  destruct (round_step true (is_round ry) (size_auto_h size) pw w0 h0) as [[w1 h1]|] eqn:R1; [|discriminate].
  destruct (round_step (is_round ry) true (size_auto_w size) ph h1 w1) as [[h2 w2]|] eqn:R2; [|discriminate].
  intro E. injection E as <- <- <- <-. intro Hw.
  apply round_step_keeps_other in R2. subst w2.
  assert (Hw0 : ~ w0 == 0).
  { intro Z0. apply Hw. unfold round_step in R1. apply Qeq_bool_iff in Z0. rewrite Z0 in R1. cbn in R1.
    injection R1 as <- _. now apply Qeq_bool_iff. }
  destruct (round_step_fills _ _ _ _ _ _ _ R1 Hw0) as [n [Hn Hf]].
  exists n. split; [exact Hn|]. split; [exact Hf|].
  unfold bg_place. apply Qeq_bool_false in Hw. rewrite Hw. reflexivity.
Qed.

Theorem bg_round_fills_y i size pw ph rgt btm px py rx w h x y :
  bg_layout i size pw ph rgt btm px py rx Round = BLayer w h x y -> ~ h == 0 ->
  exists n : Z, (1 <= n)%Z /\ h * inject_Z n == ph /\ y == 0.
Proof.
  unfold bg_layout. destruct (is_zero (iw i) || is_zero (ih i)); [discriminate|].
  destruct (bg_size i size pw ph) as [[w0 h0]|]; [|discriminate]. cbn [is_round].
  destruct (round_step (is_round rx) true (size_auto_h size) pw w0 h0) as [[w1 h1]|] eqn:R1; [|discriminate].
  destruct (round_step true (is_round rx) (size_auto_w size) ph h1 w1) as [[h2 w2]|] eqn:R2; [|discriminate].
  intro E. injection E as <- <- <- <-. intro Hh.
  assert (Hh1 : ~ h1 == 0).
  { intro Z0. apply Hh. unfold round_step in R2. apply Qeq_bool_iff in Z0. rewrite Z0 in R2. cbn in R2.
    injection R2 as <- _. now apply Qeq_bool_iff. }
  destruct (round_step_fills _ _ _ _ _ _ _ R2 Hh1) as [n [Hn Hf]].
  exists n. split; [exact Hn|]. split; [exact Hf|].
  unfold bg_place. apply Qeq_bool_false in Hh. rewrite Hh. reflexivity.
Qed.

Example bg_round_example :
  bg_layout (Intr (Some 40) (Some 20) (Some 2)) (BSize None None) 100 90 false false (Pct 50) (Pct 50) Round NoRepeat
  = BLayer (100 / inject_Z 2) (20 * (100 / inject_Z 2 / 40)) 0
           ((90 - 20 * (100 / inject_Z 2 / 40)) * 50 / 100).
Proof. reflexivity. Qed.

(* ---- contain / cover (no round) *)
Lemma bg_layout_noround i size pw ph rgt btm px py rx ry w h :
  is_round rx = false -> is_round ry = false -> is_zero (iw i) || is_zero (ih i) = false ->
  bg_size i size pw ph = Some (w, h) ->
  bg_layout i size pw ph rgt btm px py rx ry =
  BLayer w h (bg_place false rgt px pw w) (bg_place false btm py ph h).
Proof. intros Rx Ry Z S. unfold bg_layout. rewrite Z, S, Rx, Ry. reflexivity. Qed.

Theorem bg_contain i pw ph rgt btm px py rx ry r :
  is_round rx = false -> is_round ry = false -> is_zero (iw i) || is_zero (ih i) = false ->
  ir i = Some r -> 0 < r ->
  exists w h x y, bg_layout i BContain pw ph rgt btm px py rx ry = BLayer w h x y /\ contained pw ph r w h.
Proof.
  intros Rx Ry Z Er Hr. destruct (contain_inside_and_touching pw ph r Hr) as [w [h [E C]]].
  exists w, h. do 2 eexists. split; [|exact C]. apply bg_layout_noround; auto. cbn. now rewrite Er.
Qed.

Theorem bg_cover i pw ph rgt btm px py rx ry r :
  is_round rx = false -> is_round ry = false -> is_zero (iw i) || is_zero (ih i) = false ->
  ir i = Some r -> 0 < r ->
  exists w h x y, bg_layout i BCover pw ph rgt btm px py rx ry = BLayer w h x y /\ covering pw ph r w h.
Proof.
  intros Rx Ry Z Er Hr. destruct (cover_covers_and_touching pw ph r Hr) as [w [h [E C]]].
  exists w, h. do 2 eexists. split; [|exact C]. apply bg_layout_noround; auto. cbn. now rewrite Er.
Qed.

(* ---- background-position percentages align the same percentage points (with the final size) *)
Theorem bg_position_aligned_x i size pw ph rgt btm p py rx ry w h x y :
  is_round rx = false ->
  bg_layout i size pw ph rgt btm (Pct p) py rx ry = BLayer w h x y ->
  aligned (if rgt then 100 - p else p) pw w x.
Proof.
  intros Rx. unfold bg_layout. destruct (is_zero (iw i) || is_zero (ih i)); [discriminate|].
  destruct (bg_size i size pw ph) as [[w0 h0]|]; [|discriminate].
  destruct (round_step _ _ _ pw w0 h0) as [[w1 h1]|]; [|discriminate].
  destruct (round_step _ _ _ ph h1 w1) as [[h2 w2]|]; [|discriminate].
  intro E. injection E as <- <- <- <-. unfold bg_place. rewrite Rx. cbn [andb].
  apply (aligned_place rgt p pw w2).
Qed.

Theorem bg_position_aligned_y i size pw ph rgt btm px p rx ry w h x y :
  is_round ry = false ->
  bg_layout i size pw ph rgt btm px (Pct p) rx ry = BLayer w h x y ->
  aligned (if btm then 100 - p else p) ph h y.
Proof.
  intros Ry. unfold bg_layout. destruct (is_zero (iw i) || is_zero (ih i)); [discriminate|].
  destruct (bg_size i size pw ph) as [[w0 h0]|]; [|discriminate].
  destruct (round_step _ _ _ pw w0 h0) as [[w1 h1]|]; [|discriminate].
  destruct (round_step _ _ _ ph h1 w1) as [[h2 w2]|]; [|discriminate].
  intro E. injection E as <- <- <- <-. unfold bg_place. rewrite Ry. cbn [andb].
  apply (aligned_place btm p ph h2).
Qed.

(* ---- space: the first tile starts at 0, the last one ends at the far edge, tiles do not overlap *)
Theorem space_distributes area paint img pos step off :
  0 < img -> (2 <= Qfloor (area / img))%Z ->
  draw_axis Space area paint img pos = Some (step, off) ->
  let n := Qfloor (area / img) in
  off == 0 /\ step * inject_Z (n - 1) + img == area /\ img <= step.
Proof.
  intros Hi Hn. unfold draw_axis. rewrite (qdiv_pos area img Hi). unfold bind at 1.
  assert (F := Qfloor_le (area / img)).
  remember (Qfloor (area / img)) as n eqn:En. clear En.
  apply Z.leb_le in Hn as Hb. rewrite Hb.
  assert (Hp : 0 < inject_Z (n - 1)) by (apply inject_Z_pos; lia).
  rewrite (qdiv_pos _ _ Hp). unfold bind. intro E. injection E as <- <-. cbv zeta.
  split; [reflexivity|]. split; [rewrite Qdiv_mult_r by lra; ring|].
  apply Qle_shift_div_l; [exact Hp|].
  assert (H : inject_Z (n - 1) == inject_Z n - 1).
  { unfold Zminus. rewrite inject_Z_plus. reflexivity. }
  rewrite H.
  assert (inject_Z n * img <= area).
  { assert (G : inject_Z n * img <= area / img * img) by (apply Qmult_le_compat_r; lra).
    rewrite Qdiv_mult_r in G by lra. exact G. }
  lra.
Qed.

Example space_example : draw_axis Space 100 100 30 7 = Some ((100 - 30) / inject_Z (3 - 1), 0).
Proof. reflexivity. Qed.

(* with room for fewer than two tiles the image is placed by background-position *)
Lemma space_single area paint img pos :
  0 < img -> (Qfloor (area / img) < 2)%Z -> draw_axis Space area paint img pos = Some (area, pos).
Proof.
  intros Hi Hn. unfold draw_axis. rewrite (qdiv_pos area img Hi). cbn [bind].
  apply Z.leb_gt in Hn. now rewrite Hn.
Qed.

(* ---- the layout never raises when the ratio, if known, is positive *)
Lemma constraint_total cw ch r cover : opos r -> exists w h, constraint_sizing cw ch r cover = Some (w, h).
Proof.
  intro P. destruct r as [r|]; cbn in *; [|eauto].
  rewrite (qdiv_pos cw r P). cbn [bind]. destruct (xorb cover (Qltb (ch * r) cw)); eauto.
Qed.

Lemma default_sizing_total i sw sh dw dh : opos (ir i) -> exists w h, default_sizing i sw sh dw dh = Some (w, h).
Proof.
  intro P. unfold default_sizing, dis_step.
  destruct (constraint_total dw dh (ir i) false P) as [cw [ch Ec]].
  destruct (ir i) as [r|] eqn:Er; cbn in P.
  - destruct sw as [w|], sh as [h|]; try rewrite (qdiv_pos _ r P); cbn [bind]; eauto.
    destruct (iw i) as [w|], (ih i) as [h|]; try rewrite (qdiv_pos _ r P); cbn [bind]; eauto.
  - destruct sw as [w|], sh as [h|]; cbn [bind]; eauto; destruct (iw i), (ih i); eauto.
Qed.

Theorem bg_layout_total i size pw ph rgt btm px py rx ry :
  opos (ir i) -> bg_layout i size pw ph rgt btm px py rx ry <> BErr.
Proof.
  intro P. unfold bg_layout. destruct (is_zero (iw i) || is_zero (ih i)); [discriminate|].
  assert (S : exists w h, bg_size i size pw ph = Some (w, h)).
  { destruct size; cbn; [apply constraint_total | apply constraint_total | apply default_sizing_total]; exact P. }
  destruct S as [w [h ->]].
  destruct (round_step_total (is_round rx) (is_round ry) (size_auto_h size) pw w h) as [w1 [h1 ->]].
  destruct (round_step_total (is_round ry) (is_round rx) (size_auto_w size) ph h1 w1) as [h2 [w2 ->]].
  discriminate.
Qed.
