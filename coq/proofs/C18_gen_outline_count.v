(* C18 - the Count bookkeeping of add_outlines (weasyprint/pdf/anchors.py) as REGENERATED from the source on every run
   (gen/GenPdfAnchors.v, outline_count_step_body: the statements `outline['Count'] = children_count` and
   `if state == 'closed': outline['Count'] *= -1  else: count += children_count` of the loop over the bookmarks, right
   after the recursive call).  For every dictionary, numbers and state string they leave Count = the children's count,
   negated exactly when the state is 'closed', and add the children's count to `count` exactly when it is not.
   With the children's count being the model's [ncount_tree] (what the recursive call returns: the recursion itself
   and the pydyf objects are outside the translated statements), the item's Count is [count_spec] - the number of
   visible descendants, negated for a closed item - and iterating the statements over the siblings from
   count = len(bookmarks) yields [visible_total]: the clauses of model/C18Outline.v about Count are about the source. *)
From Coq Require Import ZArith QArith List String Bool Lia.
Require Import WV.base.Py WV.gen.GenPdfAnchors.
Require WV.model.C18Outline WV.proofs.C18_outline WV.proofs.PyNatural.
Import ListNotations.
Open Scope string_scope.
Open Scope list_scope.

Module M := WV.model.C18Outline.
Module MP := WV.proofs.C18_outline.

Lemma lookup_update_same k v rho : Py.lookup k (update k v rho) = v.
Proof.
  induction rho as [|[k0 v0] r IH]; simpl.
  - now rewrite String.eqb_refl.
  - destruct (String.eqb k k0) eqn:E; simpl; [now rewrite String.eqb_refl|now rewrite E].
Qed.
Lemma update_update_same k v v' rho : update k v (update k v' rho) = update k v rho.
Proof.
  induction rho as [|[k0 v0] r IH]; simpl.
  - now rewrite String.eqb_refl.
  - destruct (String.eqb k k0) eqn:E; simpl; [now rewrite String.eqb_refl|now rewrite E, IH].
Qed.

Definition closedb (s : string) : bool := String.eqb s "closed".
Definition qz (q : Q) (z : Z) : Prop := q == inject_Z z.

Section Count.
Variable O : qops.
Hypothesis HO : ops_ok O.

(* every dictionary `outline` (its entries f), every children_count c, state s and count n *)
Theorem gen_outline_count_step f c s n :
  PyNatural.run_out O outline_count_step_body
    [("outline", VObj f); ("children_count", VNum c); ("state", VStr s); ("count", VNum n)] =
  PyNatural.ONorm
    [("outline", VObj (update "Count" (VNum (if closedb s then c * (0 - (1 # 1)) else c)) f));
     ("children_count", VNum c); ("state", VStr s); ("count", VNum (if closedb s then n else n + c))] None.
Proof.
  unfold PyNatural.run_out, run, outline_count_step_body, closedb.
  cbn. rewrite lookup_update_same. cbn [arith_k]. rewrite update_update_same.
  rewrite (qmul_eq _ HO), (qsub_eq _ HO), (qadd_eq _ HO).
  destruct (s =? "closed"); reflexivity.
Qed.

(* an item t whose children's count is what the recursive call returns in the model *)
Theorem gen_outline_count_of_item f s qc qn zn (t : M.ntree) :
  qz qc (M.ncount_tree t) -> qz qn zn -> closedb s = M.nclosed t ->
  exists qo qn',
    PyNatural.run_out O outline_count_step_body
      [("outline", VObj f); ("children_count", VNum qc); ("state", VStr s); ("count", VNum qn)] =
    PyNatural.ONorm [("outline", VObj (update "Count" (VNum qo) f)); ("children_count", VNum qc); ("state", VStr s);
                     ("count", VNum qn')] None /\
    qz qo (M.count_spec t) /\ qz qn' (if M.nclosed t then zn else zn + M.visible_desc t)%Z.
Proof.
  intros Hc Hn Hs. rewrite gen_outline_count_step. rewrite Hs. eexists; eexists. split; [reflexivity|].
  unfold M.count_spec. rewrite <- MP.count_visible_tree. unfold qz in *.
  destruct (M.nclosed t).
  - split; [|exact Hn]. rewrite Hc, inject_Z_opp. ring.
  - split; [exact Hc|]. rewrite Hn, Hc, inject_Z_plus. reflexivity.
Qed.

(* the loop over the siblings ks with the regenerated statements as its body: count starts at len(bookmarks) *)
Fixpoint run_count_loop (ks : list M.ntree) (qn : Q) : option Q :=
  match ks with
  | [] => Some qn
  | k :: r =>
      match PyNatural.run_out O outline_count_step_body
              [("outline", VObj []); ("children_count", VNum (inject_Z (M.ncount_tree k)));
               ("state", VStr (if M.nclosed k then "closed" else "open")); ("count", VNum qn)] with
      | PyNatural.ONorm rho _ => match Py.lookup "count" rho with VNum q => run_count_loop r q | _ => None end
      | PyNatural.OErr _ => None
      end
  end.

Lemma ncount_as_loop : forall (ks : list M.ntree) (a : Z),
  fold_left (fun n k => if M.nclosed k then n else n + M.ncount_tree k)%Z ks a =
  (a + (M.ncount ks - Z.of_nat (List.length ks)))%Z.
Proof.
  induction ks as [|k r IH]; intros a; [simpl; lia|].
  cbn [fold_left M.ncount List.length]. rewrite IH. destruct (M.nclosed k); lia.
Qed.

Theorem gen_outline_count_loop : forall (ks : list M.ntree) qn zn,
  qz qn zn ->
  exists q, run_count_loop ks qn = Some q /\
            qz q (fold_left (fun n k => if M.nclosed k then n else n + M.ncount_tree k)%Z ks zn).
Proof.
  induction ks as [|k r IH]; intros qn zn Hn; [exists qn; split; [reflexivity|exact Hn]|].
  cbn [run_count_loop fold_left]. rewrite gen_outline_count_step.
  cbn [Py.lookup String.eqb Ascii.eqb Bool.eqb].
  replace (closedb (if M.nclosed k then "closed" else "open")) with (M.nclosed k) by (destruct (M.nclosed k); reflexivity).
  apply IH. unfold qz in *. destruct (M.nclosed k); [exact Hn|]. rewrite Hn, inject_Z_plus. reflexivity.
Qed.

(* the count returned for a list of bookmarks is the number of visible items below it at all levels *)
Theorem gen_outline_count_is_visible_total (ks : list M.ntree) :
  exists q, run_count_loop ks (inject_Z (Z.of_nat (List.length ks))) = Some q /\ qz q (M.visible_total ks).
Proof.
  destruct (gen_outline_count_loop ks (inject_Z (Z.of_nat (List.length ks))) (Z.of_nat (List.length ks)) (Qeq_refl _)) as (q & Hr & Hq). exists q. split; [exact Hr|].
  rewrite ncount_as_loop in Hq. rewrite <- MP.count_visible_forest.
  replace (M.ncount ks) with (Z.of_nat (List.length ks) + (M.ncount ks - Z.of_nat (List.length ks)))%Z by lia. exact Hq.
Qed.
End Count.
Print Assumptions gen_outline_count_step.
Print Assumptions gen_outline_count_of_item.
Print Assumptions gen_outline_count_is_visible_total.

(* non-trivial instance: a closed item with 3 visible descendants inside an open list counted 2 so far *)
Example ex_closed :
  PyNatural.run_out real_ops outline_count_step_body
    [("outline", VObj [("Title", VStr "a"); ("Count", VNum 0)]); ("children_count", VNum (3 # 1));
     ("state", VStr "closed"); ("count", VNum (2 # 1))] =
  PyNatural.ONorm [("outline", VObj [("Title", VStr "a"); ("Count", VNum ((-3) # 1))]); ("children_count", VNum (3 # 1));
                   ("state", VStr "closed"); ("count", VNum (2 # 1))] None.
Proof. vm_compute. reflexivity. Qed.
Example ex_open :
  PyNatural.run_out real_ops outline_count_step_body
    [("outline", VObj [("Title", VStr "a")]); ("children_count", VNum (3 # 1));
     ("state", VStr "open"); ("count", VNum (2 # 1))] =
  PyNatural.ONorm [("outline", VObj [("Title", VStr "a"); ("Count", VNum (3 # 1))]); ("children_count", VNum (3 # 1));
                   ("state", VStr "open"); ("count", VNum (5 # 1))] None.
Proof. vm_compute. reflexivity. Qed.
