(* C12 - the placement helpers of weasyprint/layout/grid.py as REGENERATED from the source on every run
   (gen/GenGrid.v): _intersect, _intersect_with_children, _get_span, _get_line and _get_placement compute the hand
   models intersect, intersect_with_children, get_span and get_placement of model/C12Grid.v (on which the placement
   theorems of proofs/C12_grid_place.v rest), for every input of the models' domain: grid lines are 'auto', an
   integer, or 'span n' WITHOUT a name; any list of line names; from_end True or False (a negative integer then
   counts from the end of the explicit grid: resolve_line of the model).  The searches for named lines are outside
   the translated subset: the translator prints them as calls of "%unsupported", an error value when executed; the
   theorems below say that a value is returned, so they are never reached on these inputs.
   Calls (_get_placement -> _get_line, _intersect_with_children -> _intersect) are linked by base/PyLink.v: the
   callee is the regenerated body of the source's own function. *)
From Coq Require Import ZArith QArith Qminmax List String Bool Lia.
Require Import WV.base.Py WV.base.PyLink WV.proofs.PyNatural WV.gen.GenGrid WV.model.C12Grid.
Require Import WV.proofs.C12_gen_ext.
Import ListNotations.
Open Scope string_scope.
Open Scope list_scope.

(* ---- integers inside the rationals of the interpreter: vint z = VNum (inject_Z z) *)
Lemma Qplus_Z a b : Qplus (inject_Z a) (inject_Z b) = inject_Z (a + b).
Proof. unfold Qplus, inject_Z; simpl. rewrite !Z.mul_1_r. reflexivity. Qed.
Lemma Qminus_Z a b : Qminus (inject_Z a) (inject_Z b) = inject_Z (a - b).
Proof. unfold Qminus, Qplus, Qopp, inject_Z; simpl. rewrite !Z.mul_1_r. reflexivity. Qed.
Lemma Qle_bool_Z a b : Qle_bool (inject_Z a) (inject_Z b) = (a <=? b)%Z.
Proof. unfold Qle_bool, inject_Z; simpl. rewrite !Z.mul_1_r. reflexivity. Qed.
Lemma Qeq_bool_Z a b : Qeq_bool (inject_Z a) (inject_Z b) = (a =? b)%Z.
Proof.
  unfold Qeq_bool, inject_Z; simpl. rewrite !Z.mul_1_r.
  destruct (Z.eqb_spec a b) as [->|N]; [apply Zeq_is_eq_bool; reflexivity|].
  destruct (Zeq_bool a b) eqn:E; [apply Zeq_bool_eq in E; contradiction|reflexivity].
Qed.

Ltac unseal HO :=
  rewrite ?(qadd_eq _ HO), ?(qsub_eq _ HO), ?(qmul_eq _ HO), ?(qdiv_eq _ HO), ?(qmax_eq _ HO), ?(qmin_eq _ HO),
          ?(qleb_eq _ HO), ?(qeqb_eq _ HO) in *.
Ltac zq :=
  change (1 # 1)%Q with (inject_Z 1) in *; change (0 # 1)%Q with (inject_Z 0) in *;
  rewrite ?Qplus_Z, ?Qminus_Z, ?Qle_bool_Z, ?Qeq_bool_Z in *.

Definition T : table := GenGrid_table.

(* the value of a call whose body returns v *)
Lemma call_returns O (d : fn) args rho v :
  PyLink.bind (fst d) args = Some rho ->
  run O (snd d) rho (fun _ r => r = Some v) (fun _ => False) ->
  call_body O d args = v.
Proof.
  intros Hb H. unfold call_body. rewrite Hb. rewrite run_natural in *.
  destruct (run_out O (snd d) rho) as [rho' res|m]; [subst res; reflexivity|contradiction].
Qed.

(* ------------------------------------------------------------------------------------------ _intersect *)
(* what the body computes on any four numbers, in the interpreter's own arithmetic *)
Definition intersect_q (O : qops) (p1 s1 p2 s2 : Q) : bool :=
  if qleb O (qadd O p2 s2) p1 then false else if qleb O (qadd O p1 s1) p2 then false else true.

Lemma gen_intersect_q O p1 s1 p2 s2 :
  run O grid_intersect_body
    [("position_1", VNum p1); ("size_1", VNum s1); ("position_2", VNum p2); ("size_2", VNum s2)]
    (fun _ r => r = Some (VBool (intersect_q O p1 s1 p2 s2))) (fun _ => False).
Proof.
  unfold run, grid_intersect_body, intersect_q.
  lazy -[qadd qsub qleb qeqb]. destruct (qleb O (qadd O p2 s2) p1); [reflexivity|].
  destruct (qleb O (qadd O p1 s1) p2); reflexivity.
Qed.

Lemma intersect_q_Z O (HO : ops_ok O) p1 s1 p2 s2 :
  intersect_q O (inject_Z p1) (inject_Z s1) (inject_Z p2) (inject_Z s2) = intersect p1 s1 p2 s2.
Proof.
  unfold intersect_q, intersect. unseal HO. zq.
  destruct (Z.leb_spec (p2 + s2) p1), (Z.ltb_spec p1 (p2 + s2)); try lia; cbn [andb]; try reflexivity;
  destruct (Z.leb_spec (p1 + s1) p2), (Z.ltb_spec p2 (p1 + s1)); try lia; reflexivity.
Qed.

(* _intersect of the source is the model's intersect, on all integers *)
Theorem gen_intersect O (HO : ops_ok O) p1 s1 p2 s2 :
  run O grid_intersect_body
    [("position_1", vint p1); ("size_1", vint s1); ("position_2", vint p2); ("size_2", vint s2)]
    (fun _ r => r = Some (VBool (intersect p1 s1 p2 s2))) (fun _ => False).
Proof. rewrite <- (intersect_q_Z O HO). apply gen_intersect_q. Qed.

(* ------------------------------------------------------------------------------------------ _get_span *)
(* a grid line of the model as the tuple (span, number, name) of css/validation (name None), or 'auto' *)
Definition vline (g : gline) : val :=
  match g with
  | GAuto => VStr "auto"
  | GLine n => VList [VNone; vint n; VNone]
  | GSpan n => VList [VStr "span"; vint n; VNone]
  end.

(* _get_span of the source is the model's get_span on every line that is a tuple (every call site of grid.py
   passes one: the 'auto' case is tested before); the name of the line is not read (any value [name]) *)
Theorem gen_get_span O (HO : ops_ok O) (sp : bool) n name :
  run O grid_get_span_body [("place", VList [if sp then VStr "span" else VNone; vint n; name])]
    (fun _ r => r = Some (vint (get_span (if sp then GSpan n else GLine n)))) (fun _ => False).
Proof.
  unfold run, grid_get_span_body, get_span, or1, vint.
  destruct sp; lazy -[qadd qsub qleb qeqb inject_Z Z.eqb]; [|reflexivity].
  unseal HO. zq. destruct (n =? 0)%Z; reflexivity.
Qed.

(* ------------------------------------------------------------------------------------------ _get_line *)
(* the coordinate _get_line computes for a line given by a number, in the interpreter's own arithmetic *)
Definition coordq (O : qops) (ls : list val) (fe : bool) (q : Q) : Q :=
  if fe then (if qleb O 0 q then qsub O q 1 else qadd O (inject_Z (Z.of_nat (List.length ls))) q) else qsub O q 1.

Lemma gen_get_line_number O q ls side (fe : bool) :
  run O grid_get_line_body
    [("line", VList [VNone; VNum q; VNone]); ("lines", VList ls); ("side", side); ("from_end", VBool fe)]
    (fun _ r => r = Some (VList [VNone; VNum q; VNone; VNum (coordq O ls fe q)])) (fun _ => False).
Proof.
  unfold run, grid_get_line_body, coordq.
  destruct fe; lazy -[qadd qsub qleb qeqb inject_Z Z.of_nat List.length]; [destruct (qleb O 0 q)|]; reflexivity.
Qed.
Lemma gen_get_line_span O q ls side (fe : bool) :
  run O grid_get_line_body
    [("line", VList [VStr "span"; VNum q; VNone]); ("lines", VList ls); ("side", side); ("from_end", VBool fe)]
    (fun _ r => r = Some (VList [VStr "span"; VNum q; VNone; VNone])) (fun _ => False).
Proof.
  unfold run, grid_get_line_body.
  destruct fe; lazy -[qadd qsub qleb qeqb inject_Z Z.of_nat List.length]; reflexivity.
Qed.

(* on integers: the coordinate is the model's (resolve_line, then number - 1) *)
Definition line_coord (nl : Z) (fe : bool) (n : Z) : Z := if fe && (n <? 0)%Z then (nl + n)%Z else (n - 1)%Z.
Lemma coordq_Z O (HO : ops_ok O) ls fe a :
  coordq O ls fe (inject_Z a) = inject_Z (line_coord (Z.of_nat (List.length ls)) fe a).
Proof.
  unfold coordq, line_coord. unseal HO. zq. destruct fe; cbn [andb]; [|reflexivity].
  destruct (Z.leb_spec 0 a), (Z.ltb_spec a 0); try lia; reflexivity.
Qed.

(* ---- the answers of the calls made by _get_placement and _intersect_with_children, as a function that computes
   (so that evaluating a caller never meets an unknown call); [cspec_linked] below: it answers exactly what the
   linked source answers *)
Definition call_spec (O : qops) (f : string) (args : list val) : option val :=
  if String.eqb f "_get_line" then
    match args with
    | [VList [VNone; VNum q; VNone]; VList ls; _; VBool fe] =>
        Some (VList [VNone; VNum q; VNone; VNum (coordq O ls fe q)])
    | [VList [VStr s; VNum q; VNone]; VList ls; _; VBool fe] =>
        if String.eqb s "span" then Some (VList [VStr "span"; VNum q; VNone; VNone]) else None
    | _ => None
    end
  else if String.eqb f "_intersect" then
    match args with
    | [VNum p1; VNum s1; VNum p2; VNum s2] => Some (VBool (intersect_q O p1 s1 p2 s2))
    | _ => None
    end
  else None.
Definition cspec (O : qops) (c : string -> list val -> val) (f : string) (args : list val) : val :=
  match call_spec O f args with Some v => v | None => c f args end.

Lemma link_get_line_number n q ls side (fe : bool) :
  link T (S n) "_get_line" [VList [VNone; VNum q; VNone]; VList ls; side; VBool fe]
  = VList [VNone; VNum q; VNone; VNum (coordq real_ops ls fe q)].
Proof.
  change (link T (S n) "_get_line") with (ocall (linked T (S n)) "_get_line"). rewrite ocall_linked.
  change (find_fn "_get_line" T) with (Some (grid_get_line_args, grid_get_line_body)).
  apply (call_returns (linked T n) (grid_get_line_args, grid_get_line_body) _
           [("line", VList [VNone; VNum q; VNone]); ("lines", VList ls); ("side", side); ("from_end", VBool fe)]);
    [reflexivity|].
  exact (gen_get_line_number (linked T n) q ls side fe).
Qed.
Lemma link_get_line_span n q ls side (fe : bool) :
  link T (S n) "_get_line" [VList [VStr "span"; VNum q; VNone]; VList ls; side; VBool fe]
  = VList [VStr "span"; VNum q; VNone; VNone].
Proof.
  change (link T (S n) "_get_line") with (ocall (linked T (S n)) "_get_line"). rewrite ocall_linked.
  change (find_fn "_get_line" T) with (Some (grid_get_line_args, grid_get_line_body)).
  apply (call_returns (linked T n) (grid_get_line_args, grid_get_line_body) _
           [("line", VList [VStr "span"; VNum q; VNone]); ("lines", VList ls); ("side", side); ("from_end", VBool fe)]);
    [reflexivity|].
  exact (gen_get_line_span (linked T n) q ls side fe).
Qed.
Lemma link_intersect n p1 s1 p2 s2 :
  link T (S n) "_intersect" [VNum p1; VNum s1; VNum p2; VNum s2] = VBool (intersect_q real_ops p1 s1 p2 s2).
Proof.
  change (link T (S n) "_intersect") with (ocall (linked T (S n)) "_intersect"). rewrite ocall_linked.
  change (find_fn "_intersect" T) with (Some (grid_intersect_args, grid_intersect_body)).
  apply (call_returns (linked T n) (grid_intersect_args, grid_intersect_body) _
           [("position_1", VNum p1); ("size_1", VNum s1); ("position_2", VNum p2); ("size_2", VNum s2)]);
    [reflexivity|].
  exact (gen_intersect_q (linked T n) p1 s1 p2 s2).
Qed.

Lemma cspec_linked n f args : cspec real_ops (link T (S n)) f args = link T (S n) f args.
Proof.
  unfold cspec. destruct (call_spec real_ops f args) as [v|] eqn:E; [|reflexivity].
  unfold call_spec in E.
  destruct (String.eqb f "_get_line") eqn:Ef.
  - apply String.eqb_eq in Ef. subst f.
    repeat (try discriminate; match type of E with context [match ?x with _ => _ end] => destruct x eqn:? end).
    all: injection E as <-.
    all: try match goal with H : String.eqb _ "span" = true |- _ => apply String.eqb_eq in H; subst end.
    all: first [rewrite link_get_line_number | rewrite link_get_line_span]; reflexivity.
  - destruct (String.eqb f "_intersect") eqn:Ei; [|discriminate].
    apply String.eqb_eq in Ei. subst f.
    repeat (try discriminate; match type of E with context [match ?x with _ => _ end] => destruct x eqn:? end).
    injection E as <-. rewrite link_intersect. reflexivity.
Qed.

