(* C16 - Stream.checkpoint / Stream.rollback (fix of finding F66): a drawing that fails after it has started (push_state
   first, exception before or at the matching pop_state) is erased exactly: items, ctm stack and ExtGState dictionary are
   what they were at the checkpoint and every cache is forgotten.  Consequently programs with failed drawings keep the
   guarantees of the well-bracketed sequences: balanced tokens, sound skipping, defined names. *)
From Coq Require Import ZArith List Bool Lia.
Require Import WV.model.C16Stream WV.proofs.C16_balance WV.proofs.C16_skip WV.proofs.C16_names.
Import ListNotations.
Open Scope Z_scope.

(* ------------------------------------------------------------------------------- framing a local run *)
(* `loc` is the part of the state built since the checkpoint; `base`/`cbase` what lies below *)
Definition lift (base : list tok) (cbase : list mat) (loc : st) : st :=
  mk (toks loc ++ base) (ctms loc ++ cbase) (ccol loc) (ccols loc) (calpha loc) (calphas loc) (cfont loc) (ofont loc)
     (egs loc) (nmark loc) (markon loc).

Lemma pop_toks_app l base : l <> [] -> pop_toks (l ++ base) = pop_toks l ++ base.
Proof. destruct l as [|t l]; [congruence|]. intros _. destruct t; reflexivity. Qed.
Lemma bt_toks_app l base : l <> [] -> bt_toks (l ++ base) = bt_toks l ++ base.
Proof. destruct l as [|t l]; [congruence|]. intros _. destruct t; reflexivity. Qed.

Lemma m_begin_text_spec s :
  m_begin_text s = match toks s with
                   | TET :: r => with_toks r (with_fonts (ofont s) (ofont s) s)
                   | _ => emit TBT s
                   end.
Proof. reflexivity. Qed.

Lemma lift_alpha1 base cbase st a i loc : m_alpha1 st a i (lift base cbase loc) = lift base cbase (m_alpha1 st a i loc).
Proof.
  unfold m_alpha1, lift. simpl.
  destruct st; simpl; destruct (opt_eqb key_eqb _ _); reflexivity.
Qed.
Lemma lift_set_alpha base cbase a i st f loc :
  m_set_alpha a i st f (lift base cbase loc) = lift base cbase (m_set_alpha a i st f loc).
Proof.
  unfold m_set_alpha. destruct st; destruct (match f with Some f0 => f0 | None => _ end); rewrite ?lift_alpha1; reflexivity.
Qed.
Lemma lift_set_color base cbase st c a i loc :
  m_set_color st c a i (lift base cbase loc) = lift base cbase (m_set_color st c a i loc).
Proof.
  unfold m_set_color. rewrite lift_set_alpha.
  set (l1 := m_set_alpha a i st None loc).
  destruct st; unfold lift at 1 2; simpl; destruct (opt_eqb color_eqb _ c); try reflexivity;
    unfold emit_color, lift; simpl; destruct ((grp (fst c) =? 1) || (grp (fst c) =? 2)); reflexivity.
Qed.

Lemma lift_step o loc loc' base cbase :
  no_rb o = true -> toks loc <> [] -> mstep o loc = Some loc' ->
  mstep o (lift base cbase loc) = Some (lift base cbase loc').
Proof.
  intros NR NE M. destruct o; simpl in M |- *; try discriminate NR.
  - unfold m_push in *. unfold lift at 1. simpl. destruct (ctms loc) as [|top r]; [discriminate|]. inversion M; subst. reflexivity.
  - rewrite m_pop_spec in *. unfold lift at 1 2. simpl.
    destruct (ctms loc) as [|m0 [|m1 r]]; try discriminate. inversion M; subst. simpl.
    rewrite pop_toks_app by exact NE. reflexivity.
  - inversion M; subst. rewrite !m_begin_text_spec. unfold lift, emit, with_toks, with_fonts. simpl.
    destruct (toks loc) as [|t l]; [congruence|]. destruct t; reflexivity.
  - inversion M; subst. reflexivity.
  - inversion M; subst. rewrite lift_set_color. reflexivity.
  - inversion M; subst. rewrite lift_set_alpha. reflexivity.
  - inversion M; subst. unfold m_set_font, lift. simpl. destruct (opt_eqb font_eqb (cfont loc) f); reflexivity.
  - inversion M; subst. reflexivity.
  - inversion M; subst. reflexivity.
  - unfold m_transform in *. unfold lift at 1. simpl. destruct (ctms loc) as [|top r]; [discriminate|]. inversion M; subst. reflexivity.
  - inversion M; subst. reflexivity.
  - inversion M; subst. unfold m_begin_mc, lift, emit. simpl. destruct (markon loc) eqn:MK; [destruct mcid|]; simpl; rewrite ?MK; reflexivity.
  - inversion M; subst. unfold m_end_mc, lift, emit. simpl. destruct (markon loc) eqn:MK; simpl; rewrite ?MK; reflexivity.
  - inversion M; subst. reflexivity.
  - inversion M; subst. reflexivity.
  - inversion M; subst. reflexivity.
Qed.

(* the ctm entry at the bottom of the local part is not touched while at least one q is open *)
Lemma step_last_ctm o loc loc' d :
  no_rb o = true -> (2 <= length (ctms loc))%nat -> mstep o loc = Some loc' -> last (ctms loc') d = last (ctms loc) d.
Proof.
  intros NR L M.
  assert (X : forall s', ext loc s' -> last (ctms s') d = last (ctms loc) d).
  { intros s' (l & _ & _ & C & _). rewrite C. reflexivity. }
  destruct o; simpl in M; try discriminate NR.
  - unfold m_push in M. destruct (ctms loc) as [|top r] eqn:C; [discriminate|]. inversion M; subst. simpl. reflexivity.
  - rewrite m_pop_spec in M. destruct (ctms loc) as [|m0 [|m1 r]] eqn:C; try discriminate. inversion M; subst. simpl. reflexivity.
  - inversion M; subst. rewrite (proj1 (m_begin_text_ctms loc)). reflexivity.
  - inversion M; subst. reflexivity.
  - inversion M; subst. apply X. apply ext_set_color.
  - inversion M; subst. apply X. apply ext_set_alpha.
  - inversion M; subst. apply X. apply ext_set_font.
  - inversion M; subst. reflexivity.
  - inversion M; subst. reflexivity.
  - unfold m_transform in M. destruct (ctms loc) as [|top [|t2 r]] eqn:C; try discriminate; simpl in L; try lia.
    inversion M; subst. simpl. reflexivity.
  - inversion M; subst. reflexivity.
  - inversion M; subst. unfold m_begin_mc. destruct (markon loc); [destruct mcid|]; reflexivity.
  - inversion M; subst. unfold m_end_mc. destruct (markon loc); reflexivity.
  - inversion M; subst. reflexivity.
  - inversion M; subst. reflexivity.
  - inversion M; subst. reflexivity.
Qed.

(* the bottom bracket of the scope *)
Definition bottom_q (b : list bk) : Prop := exists pre, b = pre ++ [Bq].
Lemma bottom_q_In b : bottom_q b -> In Bq b.
Proof. intros (pre & ->). apply in_or_app. right. left. reflexivity. Qed.
Lemma countb_app k a b : countb k (a ++ b) = (countb k a + countb k b)%nat.
Proof. induction a as [|x a IH]; simpl; auto. destruct (bk_eqb x k); simpl; rewrite IH; reflexivity. Qed.
Lemma bottom_q_count b : bottom_q b -> (1 <= countb Bq b)%nat.
Proof. intros (pre & ->). rewrite countb_app. simpl. lia. Qed.
Lemma vis_In_q m b : In Bq b -> In Bq (vis m b).
Proof.
  unfold vis. destruct m; auto. intro H. apply filter_In. split; auto.
Qed.
Lemma wstep_bottom o b b' : bottom_q b -> wstep o b = Some b' -> b' <> [] -> bottom_q b'.
Proof.
  intros (pre & ->) W NE.
  assert (PUSH : forall x, bottom_q (x :: pre ++ [Bq])) by (intro x; exists (x :: pre); reflexivity).
  assert (SAME : bottom_q (pre ++ [Bq])) by (exists pre; reflexivity).
  assert (POP : forall x r, pre ++ [Bq] = x :: r -> r <> [] -> bottom_q r).
  { intros x r E N. destruct pre as [|y pre']; simpl in E; inversion E; subst; [congruence|]. exists pre'. reflexivity. }
  destruct o; unfold wstep in W;
    try (inversion W; subst; exact SAME);
    try (destruct (in_text (pre ++ [Bq])); inversion W; subst; first [exact SAME | apply PUSH]);
    try (destruct (pre ++ [Bq]) as [|[] r] eqn:E; try discriminate; inversion W; subst; eapply POP; eauto).
Qed.

Lemma BInv_toks_nonempty bl loc : BInv bl loc -> bottom_q bl -> toks loc <> [].
Proof.
  intros (H & _ & _) B E. rewrite E in H. simpl in H. inversion H as [H0].
  pose proof (vis_In_q (markon loc) bl (bottom_q_In _ B)) as I. rewrite <- H0 in I. destruct I.
Qed.

Lemma wstep_no_rb o b b' : wstep o b = Some b' -> no_rb o = true.
Proof. destruct o; simpl; auto. discriminate. Qed.

Lemma run_lift rest : forall bl loc base cbase d,
  BInv bl loc -> bottom_q bl -> deep bl rest = true ->
  exists loc2 b2, run rest loc = Some loc2 /\ run rest (lift base cbase loc) = Some (lift base cbase loc2) /\
    BInv b2 loc2 /\ last (ctms loc2) d = last (ctms loc) d /\ markon loc2 = markon loc.
Proof.
  induction rest as [|o r IH]; intros bl loc base cbase d HI HB HD.
  - exists loc, bl. simpl. auto.
  - simpl in HD. destruct (wstep o bl) as [b1|] eqn:W; [|discriminate].
    apply andb_true_iff in HD. destruct HD as [HN HD].
    destruct (step_BInv o bl b1 loc HI W) as (loc1 & M & I1 & MK).
    pose proof (wstep_no_rb _ _ _ W) as NR.
    pose proof (BInv_toks_nonempty _ _ HI HB) as NE.
    pose proof (lift_step o loc loc1 base cbase NR NE M) as ML.
    assert (L2 : (2 <= length (ctms loc))%nat).
    { destruct HI as (_ & HL & _). pose proof (bottom_q_count _ HB). lia. }
    pose proof (step_last_ctm o loc loc1 d NR L2 M) as LC.
    destruct r as [|o2 r2].
    + exists loc1, b1. simpl. rewrite M, ML. auto.
    + assert (B1 : bottom_q b1).
      { apply (wstep_bottom o bl b1 HB W). destruct b1; [discriminate|congruence]. }
      destruct (IH b1 loc1 base cbase d I1 B1 HD) as (loc2 & b2 & R & RL & I2 & LC2 & MK2).
      exists loc2, b2.
      split; [change (run (o :: o2 :: r2) loc) with (match mstep o loc with Some s' => run (o2 :: r2) s' | None => None end);
              rewrite M; exact R|].
      split; [change (run (o :: o2 :: r2) (lift base cbase loc)) with
                (match mstep o (lift base cbase loc) with Some s' => run (o2 :: r2) s' | None => None end); rewrite ML; exact RL|].
      split; [exact I2|]. split; congruence.
Qed.

(* ------------------------------------------------------------------ the dictionary only grows at its end *)
Lemma egs_append_alpha1 st a i s : WF (egs s) -> exists le, egs (m_alpha1 st a i s) = egs s ++ le /\ WF (egs (m_alpha1 st a i s)).
Proof.
  intro W. unfold m_alpha1. destruct (opt_eqb key_eqb _ _); [exists []; rewrite app_nil_r; auto|].
  assert (E : exists le, add_if_absent (KA st a i) (canon (KA st a i)) (egs s) = egs s ++ le).
  { unfold add_if_absent. destruct (lookup _ _); [exists []; rewrite app_nil_r; auto|eexists; reflexivity]. }
  destruct E as (le & E). exists le. destruct st; simpl; rewrite <- E; split; auto; apply WF_add_alpha; auto.
Qed.
Lemma egs_append_set_alpha a i st f s : WF (egs s) -> exists le, egs (m_set_alpha a i st f s) = egs s ++ le /\ WF (egs (m_set_alpha a i st f s)).
Proof.
  intro W. unfold m_set_alpha.
  assert (ID : exists le, egs s = egs s ++ le /\ WF (egs s)) by (exists []; rewrite app_nil_r; auto).
  destruct st; destruct (match f with Some f0 => f0 | None => _ end); auto using egs_append_alpha1.
  destruct (egs_append_alpha1 true a i s W) as (l1 & E1 & W1).
  destruct (egs_append_alpha1 false a i _ W1) as (l2 & E2 & W2).
  exists (l1 ++ l2). split; [rewrite E2, E1, app_assoc; reflexivity|exact W2].
Qed.

Lemma egs_append_step o s s' : no_rb o = true -> WF (egs s) -> mstep o s = Some s' -> exists le, egs s' = egs s ++ le /\ WF (egs s').
Proof.
  intros NR W M.
  assert (ID : exists le, egs s = egs s ++ le /\ WF (egs s)) by (exists []; rewrite app_nil_r; auto).
  destruct o; simpl in M; try discriminate NR.
  - unfold m_push in M. destruct (ctms s); [discriminate|]. inversion M; subst. exact ID.
  - rewrite m_pop_spec in M. destruct (ctms s) as [|m0 [|m1 r]]; try discriminate. inversion M; subst. exact ID.
  - inversion M; subst. rewrite m_begin_text_spec. destruct (toks s) as [|x r]; [exact ID|]. destruct x; exact ID.
  - inversion M; subst. exact ID.
  - inversion M; subst. unfold m_set_color.
    destruct (egs_append_set_alpha a isint stroke None s W) as (le & E & W1).
    destruct stroke; destruct (opt_eqb color_eqb _ c); try (exists le; split; assumption);
      match goal with |- exists l, egs (emit_color ?st ?c ?s0) = _ /\ _ => rewrite (proj1 (emit_color_egs st c s0)) end;
      exists le; split; assumption.
  - inversion M; subst. apply egs_append_set_alpha. exact W.
  - inversion M; subst. unfold m_set_font. destruct (opt_eqb font_eqb _ f); exact ID.
  - inversion M; subst. unfold m_set_state. simpl. rewrite assign_absent by (apply WF_fresh_s; auto).
    eexists. split; [reflexivity|]. rewrite <- assign_absent by (apply WF_fresh_s; auto). apply WF_assign_s. exact W.
  - inversion M; subst. exact ID.
  - unfold m_transform in M. destruct (ctms s); [discriminate|]. inversion M; subst. exact ID.
  - inversion M; subst. exact ID.
  - inversion M; subst. unfold m_begin_mc. destruct (markon s); [destruct mcid|]; exact ID.
  - inversion M; subst. unfold m_end_mc. destruct (markon s); exact ID.
  - inversion M; subst. exact ID.
  - inversion M; subst. simpl. rewrite assign_absent by (apply WF_fresh_s; auto).
    eexists. split; [reflexivity|]. rewrite <- assign_absent by (apply WF_fresh_s; auto). apply WF_assign_s. exact W.
  - inversion M; subst. simpl.
    assert (E : exists le, add_if_absent (KA stroke a isint) (canon (KA stroke a isint)) (egs s) = egs s ++ le).
    { unfold add_if_absent. destruct (lookup _ _); [exists []; rewrite app_nil_r; auto|eexists; reflexivity]. }
    destruct E as (le & E). exists le. rewrite <- E. split; auto. apply WF_add_alpha. exact W.
Qed.
Lemma egs_append_run ops : forall s s', forallb no_rb ops = true -> WF (egs s) -> run ops s = Some s' ->
  exists le, egs s' = egs s ++ le.
Proof.
  induction ops as [|o r IH]; simpl; intros s s' NR W R.
  - inversion R; subst. exists []. rewrite app_nil_r. reflexivity.
  - apply andb_true_iff in NR. destruct NR as [N1 N2]. destruct (mstep o s) as [s1|] eqn:M; [|discriminate].
    destruct (egs_append_step o s s1 N1 W M) as (l1 & E1 & W1).
    destruct (IH s1 s' N2 W1 R) as (l2 & E2). exists (l1 ++ l2). rewrite E2, E1, app_assoc. reflexivity.
Qed.
Lemma WF_run ops : forall s s', forallb no_rb ops = true -> WF (egs s) -> run ops s = Some s' -> WF (egs s').
Proof.
  induction ops as [|o r IH]; simpl; intros s s' NR W R.
  - inversion R; subst. exact W.
  - apply andb_true_iff in NR. destruct NR as [N1 N2]. destruct (mstep o s) as [s1|] eqn:M; [|discriminate].
    destruct (egs_append_step o s s1 N1 W M) as (l1 & E1 & W1). eapply IH; eauto.
Qed.
Lemma wscan_no_rb ops : forall b b', wscan b ops = Some b' -> forallb no_rb ops = true.
Proof.
  induction ops as [|o r IH]; simpl; intros b b' H; auto.
  destruct (wstep o b) as [b1|] eqn:W; [|discriminate]. rewrite (wstep_no_rb _ _ _ W), (IH b1 b' H). reflexivity.
Qed.
Lemma deep_no_rb ops : forall b, deep b ops = true -> forallb no_rb ops = true.
Proof.
  induction ops as [|o r IH]; simpl; intros b H; auto.
  destruct (wstep o b) as [b1|] eqn:W; [|discriminate]. apply andb_true_iff in H. destruct H as [_ H].
  rewrite (wstep_no_rb _ _ _ W), (IH b1 H). reflexivity.
Qed.

(* ------------------------------------------------------------------------- the failed drawing is erased *)
Definition rolled (s : st) (nm : Z) : st := mk (toks s) (ctms s) None None None None None None (egs s) nm (markon s).

Lemma skipn_app_exact {A} (l base : list A) : skipn (length (l ++ base) - length base) (l ++ base) = base.
Proof.
  rewrite app_length. replace (length l + length base - length base)%nat with (length l) by lia.
  induction l; simpl; auto.
Qed.
Lemma firstn_app_exact {A} (base l : list A) : firstn (length base) (base ++ l) = base.
Proof. induction base; simpl; [destruct l; reflexivity|]. rewrite IHbase. reflexivity. Qed.

Lemma toks_frame b s body :
  BInv b s -> in_text b = false -> scope_ok body = true ->
  exists s2 l front, run body s = Some s2 /\ toks s2 = l ++ toks s /\ ctms s2 = front ++ ctms s /\ markon s2 = markon s.
Proof.
  intros HI T SC. destruct body as [|o rest]; [discriminate|]. destruct o; try discriminate. simpl in SC.
  destruct HI as (H1 & H2 & H3).
  destruct (ctms s) as [|top cb] eqn:C; [simpl in H2; discriminate|].
  set (loc1 := mk [Tq] [top; top] (ccol s) (ccols s) (calpha s) (calphas s) (cfont s) (ofont s) (egs s) (nmark s) (markon s)).
  assert (E1 : m_push s = Some (lift (toks s) cb loc1)).
  { unfold m_push. rewrite C. unfold lift, loc1, with_ctms, emit. simpl. rewrite ?C. reflexivity. }
  assert (I1 : BInv [Bq] loc1).
  { unfold BInv, loc1. simpl. destruct (markon s); auto. }
  assert (B1 : bottom_q [Bq]) by (exists []; reflexivity).
  destruct (run_lift rest [Bq] loc1 (toks s) cb top I1 B1 SC) as (loc2 & b2 & R & RL & I2 & LC & MK).
  exists (lift (toks s) cb loc2), (toks loc2).
  assert (NE : ctms loc2 <> []).
  { destruct I2 as (_ & L & _). destruct (ctms loc2); [simpl in L; discriminate|congruence]. }
  destruct (exists_last NE) as (front & x & EX).
  assert (x = top).
  { rewrite EX in LC. rewrite last_last in LC. simpl in LC. exact LC. }
  subst x. exists front. simpl run. rewrite E1. split; [exact RL|]. simpl. split; auto. split; auto.
  rewrite EX, <- app_assoc. reflexivity.
Qed.

Theorem failed_drawing_is_erased b s body :
  BInv b s -> in_text b = false -> scope_ok body = true -> WF (egs s) ->
  exists s2, run body s = Some s2 /\
    (let '(t, c, g) := cp_of s in m_rollback t c g s2) = rolled s (nmark s2).
Proof.
  intros HI T SC W. destruct (toks_frame b s body HI T SC) as (s2 & l & front & R & ET & EC & MK).
  exists s2. split; auto.
  assert (NR : forallb no_rb body = true).
  { destruct body as [|o rest]; [discriminate|]. destruct o; try discriminate. simpl. eapply deep_no_rb. exact SC. }
  destruct (egs_append_run body s s2 NR W R) as (le & EE).
  unfold cp_of, m_rollback, rolled. rewrite ET, EC, EE, MK.
  rewrite skipn_app_exact, skipn_app_exact, firstn_app_exact. reflexivity.
Qed.

(* Failed segment = the calls the source really makes *)
Lemma failed_as_calls body : forall s s2 t c g,
  run body s = Some s2 -> run (body ++ [Rollback t c g]) s = Some (m_rollback t c g s2).
Proof.
  induction body as [|o r IH]; simpl; intros s s2 t c g R.
  - inversion R; subst. reflexivity.
  - destruct (mstep o s) as [s1|]; [|discriminate]. apply IH. exact R.
Qed.

(* ------------------------------------------------------------------------------------ programs: balance *)
Lemma BInv_rolled b s nm : BInv b s -> BInv b (rolled s nm).
Proof. intros (A & B & C). unfold BInv, rolled. simpl. auto. Qed.

Lemma run_prog_BInv p : forall b b' s,
  BInv b s -> WF (egs s) -> wscanp b p = Some b' ->
  exists s', run_prog p s = Some s' /\ BInv b' s' /\ markon s' = markon s.
Proof.
  induction p as [|sg r IH]; simpl; intros b b' s HI W WS.
  - inversion WS; subst. eauto.
  - destruct sg as [ops|body].
    + destruct (wscan b ops) as [b1|] eqn:E; [|discriminate].
      destruct (run_BInv ops b b1 s HI E) as (s1 & R & I1 & M1). rewrite R.
      assert (W1 : WF (egs s1)) by (eapply WF_run; [eapply wscan_no_rb; eauto|exact W|exact R]).
      destruct (IH b1 b' s1 I1 W1 WS) as (s' & R' & I' & M'). exists s'. split; [exact R'|]. split; [exact I'|]. congruence.
    + destruct (in_text b) eqn:T; simpl in WS; [discriminate|]. destruct (scope_ok body) eqn:SC; [|discriminate]. simpl in WS.
      destruct (failed_drawing_is_erased b s body HI T SC W) as (s2 & R & E). rewrite R.
      unfold cp_of in *. simpl in E |- *. rewrite E.
      destruct (IH b b' (rolled s (nmark s2)) (BInv_rolled b s _ HI) W WS) as (s' & R' & I' & M').
      exists s'. auto.
Qed.

Theorem balanced_with_failed_drawings mark d p :
  egs_wf d = true -> wbp p = true ->
  exists s', run_prog p (fresh mark d) = Some s' /\
    nested (rev (toks s')) = true /\ dyck_q (rev (toks s')) = true /\ dyck_text (rev (toks s')) = true /\
    dyck_mc (rev (toks s')) = true /\ length (ctms s') = 1%nat.
Proof.
  intros W. unfold wbp. destruct (wscanp [] p) as [[|x r]|] eqn:WS; try discriminate. intros _.
  destruct (run_prog_BInv p [] [] (fresh mark d) (BInv_fresh mark d) (proj1 (egs_wf_WF d) W) WS) as (s' & R & (H1 & H2 & _) & M).
  exists s'. split; [exact R|].
  assert (N : nested (rev (toks s')) = true).
  { unfold nested. rewrite tscan_rev_fwd, H1. destruct (markon s'); reflexivity. }
  destruct (nested_dyck _ N) as (A & B & C). repeat split; auto.
Qed.

(* ----------------------------------------------------------------------- programs: soundness of skipping *)
Lemma run_SInv_app ops : forall rest b b' pend s s' n,
  SInv b pend s n -> wscan b ops = Some b' -> tm_disciplined pend (ops ++ rest) = true ->
  run ops s = Some s' -> exists pend', SInv b' pend' s' (nrun ops n) /\ tm_disciplined pend' rest = true.
Proof.
  induction ops as [|o r IH]; intros rest b b' pend s s' n H W TM R.
  - simpl in *. inversion W; inversion R; subst. eauto.
  - simpl in W, R. destruct (wstep o b) as [b1|] eqn:E; [|discriminate].
    destruct (tm_disciplined_cons _ _ _ TM) as (p1 & TM1 & TMr).
    destruct (mstep o s) as [s1|] eqn:M; [|discriminate].
    unfold nrun. simpl. apply (IH rest b1 b' p1 s1 s' (nstep o n)); auto.
    eapply step_SInv; eauto.
Qed.

Lemma SInv_rolled b pend s n nm : SInv b pend s n -> SInv b pend (rolled s nm) n.
Proof.
  intros []. constructor; simpl; auto.
  - unfold Coh; simpl. repeat split; intros; discriminate.
  - intros _ f Hf. discriminate.
Qed.

Lemma nrun_app a k n : nrun (a ++ k) n = nrun k (nrun a n).
Proof. unfold nrun. apply fold_left_app. Qed.

Lemma run_prog_SInv p : forall b b' pend s s' n,
  SInv b pend s n -> BInv b s -> WF (egs s) -> wscanp b p = Some b' -> tm_disciplined pend (kept p) = true ->
  run_prog p s = Some s' -> exists pend', SInv b' pend' s' (nrun (kept p) n).
Proof.
  induction p as [|sg r IH]; simpl; intros b b' pend s s' n HS HI W WS TM R.
  - inversion WS; inversion R; subst. eauto.
  - destruct sg as [ops|body].
    + destruct (wscan b ops) as [b1|] eqn:E; [|discriminate].
      destruct (run ops s) as [s1|] eqn:R1; [|discriminate].
      destruct (run_SInv_app ops (kept r) b b1 pend s s1 n HS E TM R1) as (p1 & S1 & TM1).
      destruct (run_BInv ops b b1 s HI E) as (sx & Rx & I1 & _). rewrite R1 in Rx. inversion Rx; subst sx.
      assert (W1 : WF (egs s1)) by (eapply WF_run; [eapply wscan_no_rb; eauto|exact W|exact R1]).
      rewrite nrun_app. eapply IH; eauto.
    + destruct (in_text b) eqn:T; simpl in WS; [discriminate|]. destruct (scope_ok body) eqn:SC; [|discriminate]. simpl in WS.
      destruct (failed_drawing_is_erased b s body HI T SC W) as (s2 & R2 & E). rewrite R2 in R.
      unfold cp_of in *. simpl in E, R. rewrite E in R.
      eapply (IH b b' pend (rolled s (nmark s2))); eauto; try (apply SInv_rolled; exact HS); try (apply BInv_rolled; exact HI).
Qed.

Theorem skip_is_sound_with_failed_drawings mark d p s' :
  egs_wf d = true -> wbp p = true -> tm_disciplined false (kept p) = true ->
  run_prog p (fresh mark d) = Some s' ->
  let X := interp (rev (toks s')) in
  let Y := interp (rev (ntoks (nrun (kept p) (nfresh mark d)))) in
  i_err X = false /\ i_err Y = false /\ i_obs X = i_obs Y /\ i_g X = i_g Y /\ i_stack X = i_stack Y /\
  i_text X = false /\ i_text Y = false.
Proof.
  intros W. unfold wbp. destruct (wscanp [] p) as [[|x r]|] eqn:WS; try discriminate. intros _ TM R.
  destruct (run_prog_SInv p [] [] false (fresh mark d) s' (nfresh mark d) (SInv_fresh mark d) (BInv_fresh mark d)
              (proj1 (egs_wf_WF d) W) WS TM R) as (pd & []).
  simpl. rewrite !interp_rev_fwd. repeat split; auto.
Qed.

(* ------------------------------------------------------------------------------------ programs: names *)
Lemma DInv_rolled s nm : DInv s -> DInv (rolled s nm).
Proof. intros [W H]. split; simpl; auto. Qed.

Lemma run_prog_DInv p : forall b b' s s',
  BInv b s -> DInv s -> wscanp b p = Some b' -> run_prog p s = Some s' -> DInv s'.
Proof.
  induction p as [|sg r IH]; simpl; intros b b' s s' HI D WS R.
  - inversion R; subst. exact D.
  - destruct sg as [ops|body].
    + destruct (wscan b ops) as [b1|] eqn:E; [|discriminate].
      destruct (run ops s) as [s1|] eqn:R1; [|discriminate].
      destruct (run_BInv ops b b1 s HI E) as (sx & Rx & I1 & _). rewrite R1 in Rx. inversion Rx; subst sx.
      eapply IH; eauto. eapply DInv_run; [eapply wscan_no_rb; eauto|exact D|exact R1].
    + destruct (in_text b) eqn:T; simpl in WS; [discriminate|]. destruct (scope_ok body) eqn:SC; [|discriminate]. simpl in WS.
      destruct (failed_drawing_is_erased b s body HI T SC (proj1 D)) as (s2 & R2 & E). rewrite R2 in R.
      unfold cp_of in *. simpl in E, R. rewrite E in R.
      eapply (IH b b' (rolled s (nmark s2))); eauto; try (apply BInv_rolled; exact HI); try (apply DInv_rolled; exact D).
Qed.

Theorem gs_names_defined_with_failed_drawings mark d p s' :
  egs_wf d = true -> wbp p = true -> run_prog p (fresh mark d) = Some s' ->
  forall k v, In (Tgs k v) (toks s') -> lookup k (egs s') = Some v.
Proof.
  intros W. unfold wbp. destruct (wscanp [] p) as [[|x r]|] eqn:WS; try discriminate. intros _ R.
  assert (D : DInv (fresh mark d)).
  { split; [apply egs_wf_WF; exact W|]. simpl. intros k v []. }
  exact (proj2 (run_prog_DInv p [] [] _ _ (BInv_fresh mark d) D WS R)).
Qed.

Example failed_drawing_example :
  let p := [Ok [Push; SetAlpha 1000 true false None; Transform (1,0,0,1,5,5); Push];
            Failed [Push; Transform (2,0,0,2,0,0); Push; SetColor false (0,0) 500 false; Tok 0; BeginText; TextMatrix mat_id; SetFont (1,1)];
            Ok [Pop; Pop; SetColor false (0,0) 500 false; Tok 1]] in
  wbp p = true /\ tm_disciplined false (kept p) = true /\
  option_map (fun s => (rev (toks s), length (ctms s), map fst (egs s))) (run_prog p (fresh false [])) =
    Some ([Tq; Tgs (KA false 1000 true) (Some 1000, None); Tcm (1,0,0,1,5,5); TQ;
           Tgs (KA false 500 false) (Some 500, None); Trg false (0,0); Tother 1], 1%nat, [KA false 1000 true; KA false 500 false]).
Proof. vm_compute. repeat split; reflexivity. Qed.
