(* C09 - the vertical test of avoid_collisions is the half-open interval intersection of CSS 2.1 9.5.1 (for boxes and
   floats of positive height), and the interval it returns is the one left by the floats sharing vertical extent
   with the line box at the returned position. *)
From Coq Require Import ZArith QArith Qminmax Lqa List Bool Lia.
Require Import WV.model.C09Float.
Import ListNotations.
Open Scope Q_scope.

Lemma Qlt_bool_iff a b : Qlt_bool a b = true <-> a < b.
Proof.
  unfold Qlt_bool. rewrite negb_true_iff. split; intros H.
  - destruct (Qlt_le_dec a b) as [Hl|Hl]; [exact Hl|]. apply Qle_bool_iff in Hl. congruence.
  - destruct (Qle_bool b a) eqn:E; [|reflexivity]. apply Qle_bool_iff in E. lra.
Qed.
Lemma Qlt_bool_false a b : Qlt_bool a b = false <-> b <= a.
Proof.
  unfold Qlt_bool. rewrite negb_false_iff. apply Qle_bool_iff.
Qed.

(* the three clauses of the code = the two inequalities of the specification *)
Lemma collides_iff_overlaps y bh s : 0 < bh -> 0 < s_mh s -> (collides y bh s = true <-> overlaps y bh s).
Proof.
  intros Hb Hs. unfold collides, overlaps. rewrite !orb_true_iff, !andb_true_iff, !Qlt_bool_iff.
  setoid_rewrite Qle_bool_iff. split.
  - intros [[[H1 H2]|[H1 H2]]|[H1 H2]]; split; lra.
  - intros [H1 H2].
    destruct (Qlt_le_dec (s_y s) y) as [Ha|Ha]; [left; left; split; lra|].
    destruct (Qlt_le_dec (y + bh) (s_y s + s_mh s)) as [Hc|Hc]; [left; right; split; lra|].
    right. split; lra.
Qed.
Lemma collides_overlaps_b y bh s : 0 < bh -> 0 < s_mh s -> collides y bh s = overlaps_b y bh s.
Proof.
  intros Hb Hs. pose proof (collides_iff_overlaps y bh s Hb Hs) as H.
  unfold overlaps in H. unfold overlaps_b.
  destruct (collides y bh s) eqn:E.
  - destruct (proj1 H eq_refl) as [H1 H2]. apply Qlt_bool_iff in H1. apply Qlt_bool_iff in H2. rewrite H1, H2. reflexivity.
  - destruct (Qlt_bool (s_y s) (y + bh)) eqn:E1; [|reflexivity]. destruct (Qlt_bool y (s_y s + s_mh s)) eqn:E2; [|reflexivity].
    apply Qlt_bool_iff in E1. apply Qlt_bool_iff in E2. pose proof (proj2 H (conj E1 E2)) as X. discriminate X.
Qed.

(* exact boundaries: a float that starts where the line ends, or ends where the line starts, does not collide *)
Lemma float_below_line_boundary y bh s : 0 < bh -> 0 < s_mh s -> s_y s == y + bh -> collides y bh s = false.
Proof.
  intros Hb Hs He. destruct (collides y bh s) eqn:E; [|reflexivity].
  apply (collides_iff_overlaps y bh s Hb Hs) in E. destruct E. lra.
Qed.
Lemma float_above_line_boundary y bh s : 0 < bh -> 0 < s_mh s -> s_y s + s_mh s == y -> collides y bh s = false.
Proof.
  intros Hb Hs He. destruct (collides y bh s) eqn:E; [|reflexivity].
  apply (collides_iff_overlaps y bh s Hb Hs) in E. destruct E. lra.
Qed.
(* ... and one that starts just above the line's bottom edge, or ends just below its top edge, does *)
Lemma float_inside_line_collides y bh s : 0 < bh -> 0 < s_mh s ->
  (s_y s < y + bh /\ y <= s_y s) \/ (y < s_y s + s_mh s /\ s_y s + s_mh s <= y + bh) -> collides y bh s = true.
Proof. intros Hb Hs H. apply (collides_iff_overlaps y bh s Hb Hs). unfold overlaps. destruct H as [[? ?]|[? ?]]; split; lra. Qed.

Definition positive (shapes : list shape) : Prop := Forall (fun s => 0 < s_mh s) shapes.

Lemma filter_collides shapes y bh : 0 < bh -> positive shapes ->
  filter (collides y bh) shapes = filter (overlaps_b y bh) shapes.
Proof.
  intros Hb Hp. apply filter_ext_in. intros s Hin. unfold positive in Hp. rewrite Forall_forall in Hp.
  apply collides_overlaps_b; [exact Hb|apply Hp; exact Hin].
Qed.

(* the result of avoid_collisions: not higher than asked, and with the interval of the specification at the returned
   position *)
Theorem avoid_interval_spec fuel : forall shapes cbx cbw rtl bw bh y x y' av,
  0 < bh -> positive shapes ->
  avoid fuel shapes cbx cbw rtl bw bh y = Placed x y' av ->
  y <= y' /\
  let '(l, r) := spec_interval shapes cbx cbw y' bh in
  av = r - l /\ x = (if rtl then r else l).
Proof.
  induction fuel as [|f IH]; intros shapes cbx cbw rtl bw bh y x y' av Hb Hp H; [discriminate|].
  cbn [avoid] in H.
  assert (Hdone : forall l r, bounds (collides y bh) shapes cbx cbw = (l, r) ->
            Placed (if rtl then r else l) y (r - l) = Placed x y' av ->
            y <= y' /\ let '(l, r) := spec_interval shapes cbx cbw y' bh in av = r - l /\ x = (if rtl then r else l)).
  { intros l r Hbd E. injection E as E1 E2 E3. rewrite <- E2. split; [lra|]. unfold spec_interval.
    assert (Hsame : bounds (overlaps_b y bh) shapes cbx cbw = bounds (collides y bh) shapes cbx cbw).
    { unfold bounds. rewrite (filter_collides shapes y bh Hb Hp). reflexivity. }
    rewrite Hsame, Hbd. split; congruence. }
  destruct (bounds (collides y bh) shapes cbx cbw) as [l r] eqn:Hbd.
  destruct (filter (collides y bh) shapes) as [|c col']; [apply (Hdone l r eq_refl H)|].
  destruct (Qlt_bool (r - l) bw); [|apply (Hdone l r eq_refl H)].
  match type of H with context [Qlt_bool y ?ny] => destruct (Qlt_bool y ny) eqn:En; [|apply (Hdone l r eq_refl H)] end.
  apply Qlt_bool_iff in En. destruct (IH _ _ _ _ _ _ _ _ _ _ Hb Hp H) as [Hy Hrest]. split; [lra|exact Hrest].
Qed.

Example ex_stacked_floats :
  let a := {| s_left := true; s_x := 0; s_y := 0; s_mw := 20; s_mh := 20 |} in
  let b := {| s_left := true; s_x := 0; s_y := 20; s_mw := 50; s_mh := 40 |} in
  avoid 3 [a; b] 0 100 false 30 20 0 = Placed 20 0 (100 - 20) /\ positive [a; b] /\
  avoid 3 [a; b] 0 100 false 30 20 20 = Placed 50 20 (100 - 50).
Proof. vm_compute. repeat split; try reflexivity; repeat constructor. Qed.

(* ------------------------------------------------------------------ the loop terminates: fuel = number of floats + 1 *)
Lemma fold_min_attained l : forall a, exists m, (m = a \/ In m l) /\ fold_left Qmin l a == m.
Proof.
  induction l as [|b l IH]; intros a; [exists a; split; [left; reflexivity|reflexivity]|].
  cbn [fold_left]. destruct (IH (Qmin a b)) as (m & [Hm|Hm] & He).
  - subst m. destruct (Q.min_dec a b) as [E|E].
    + exists a. split; [left; reflexivity|]. rewrite He. exact E.
    + exists b. split; [right; left; reflexivity|]. rewrite He. exact E.
  - exists m. split; [right; right; exact Hm|exact He].
Qed.

Lemma filter_length_lt {A} (P1 P2 : A -> bool) l :
  (forall s, In s l -> P2 s = true -> P1 s = true) ->
  (exists s, In s l /\ P1 s = true /\ P2 s = false) ->
  (length (filter P2 l) < length (filter P1 l))%nat.
Proof.
  induction l as [|a l IH]; intros Hsub (s & Hin & H1 & H2); [destruct Hin|].
  assert (Hle : forall l', (forall s, In s l' -> P2 s = true -> P1 s = true) -> (length (filter P2 l') <= length (filter P1 l'))%nat).
  { induction l' as [|b l' IHl]; intros Hs; [simpl; lia|]. simpl.
    destruct (P2 b) eqn:E2; [rewrite (Hs b (or_introl eq_refl) E2); simpl; specialize (IHl (fun s H => Hs s (or_intror H))); lia|].
    destruct (P1 b); simpl; specialize (IHl (fun s H => Hs s (or_intror H))); lia. }
  simpl. destruct Hin as [<-|Hin].
  - rewrite H1, H2. simpl. specialize (Hle l (fun s H => Hsub s (or_intror H))). lia.
  - specialize (IH (fun s H => Hsub s (or_intror H)) (ex_intro _ s (conj Hin (conj H1 H2)))).
    destruct (P2 a) eqn:E2; [rewrite (Hsub a (or_introl eq_refl) E2); simpl; lia|]. destruct (P1 a); simpl; lia.
Qed.

Definition below (y : Q) (s : shape) : bool := Qlt_bool y (s_y s + s_mh s).

Theorem avoid_terminates shapes cbx cbw rtl bw bh : forall fuel y,
  (length (filter (below y) shapes) < fuel)%nat -> avoid fuel shapes cbx cbw rtl bw bh y <> NoFuel.
Proof.
  induction fuel as [|f IH]; intros y Hm; [lia|]. cbn [avoid].
  destruct (bounds (collides y bh) shapes cbx cbw) as [l r].
  destruct (filter (collides y bh) shapes) as [|c col'] eqn:Ecol; [discriminate|].
  destruct (Qlt_bool (r - l) bw); [|discriminate].
  set (ny := fold_left Qmin (map (fun s => s_y s + s_mh s) col') (s_y c + s_mh c)).
  destruct (Qlt_bool y ny) eqn:En; [|discriminate]. apply Qlt_bool_iff in En.
  apply IH.
  assert (Hlt : (length (filter (below ny) shapes) < length (filter (below y) shapes))%nat).
  { apply filter_length_lt.
    - intros s _ H. unfold below in *. apply Qlt_bool_iff in H. apply Qlt_bool_iff. lra.
    - destruct (fold_min_attained (map (fun s => s_y s + s_mh s) col') (s_y c + s_mh c)) as (m & Hm1 & Hm2).
      fold ny in Hm2.
      assert (Hs : exists s, In s (c :: col') /\ s_y s + s_mh s = m).
      { destruct Hm1 as [->|Hin]; [exists c; split; [left; reflexivity|reflexivity]|].
        apply in_map_iff in Hin. destruct Hin as (s & Hs & Hin). exists s. split; [right; exact Hin|exact Hs]. }
      destruct Hs as (s & Hin & Hbot). exists s. rewrite <- Ecol in Hin. apply filter_In in Hin. destruct Hin as [Hin _].
      split; [exact Hin|]. unfold below. split.
      + apply Qlt_bool_iff. rewrite Hbot, <- Hm2. exact En.
      + apply Qlt_bool_false. rewrite Hbot, <- Hm2. lra. }
  lia.
Qed.

Corollary avoid_fuel_enough shapes cbx cbw rtl bw bh y :
  avoid (S (length shapes)) shapes cbx cbw rtl bw bh y <> NoFuel.
Proof.
  apply avoid_terminates.
  assert (H : forall l : list shape, (length (filter (below y) l) <= length l)%nat).
  { induction l as [|a l IHl]; [simpl; lia|]. simpl. destruct (below y a); simpl; lia. }
  specialize (H shapes). lia.
Qed.
