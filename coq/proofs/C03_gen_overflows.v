(* C03 - LayoutContext.overflows / overflows_page of weasyprint/layout/__init__.py as REGENERATED from the source on
   every run (gen/GenLayoutCtx.v): the test the fragmentation model Frag2 makes on integers, `Frag2.overflows`
   (y > bottom for bottom >= 0, y >= bottom for bottom < 0), is what the source decides
     - exactly (every rational): position_y > bottom * (1 + 1/10^9)   (the literal 1e-9 is that exact rational;
       lengths are rationals in every model, DESIGN section 2 'Numbers');
     - on the grid of the multiples of 1/D, for -10^9 <= bottom * D < 10^9: Frag2.overflows of the numerators.
   Outside that range the two differ: witnesses below.  overflows_page is linked to the regenerated overflows (the
   call self.overflows(..) of a static method does not pass the receiver). *)
From Coq Require Import QArith Qminmax Lqa List String Bool ZArith Lia.
Require Import WV.base.Py WV.base.PyLink WV.gen.GenLayoutCtx.
Require WV.model.Frag2 WV.proofs.PyNatural.
Import ListNotations.
Open Scope string_scope.
Open Scope list_scope.
Open Scope Q_scope.

Definition eps : Q := 1 # 1000000000.
(* what the source computes, on rationals *)
Definition src_overflows (b y : Q) : bool := negb (Qle_bool y (b * (1 + eps))).
Definition returns (x : val) (_ : env) (r : option val) : Prop := r = Some x.

Section Body.
Variable O : qops.
Hypothesis HO : ops_ok O.
Ltac unseal :=
  rewrite ?(qadd_eq _ HO), ?(qsub_eq _ HO), ?(qmul_eq _ HO), ?(qdiv_eq _ HO), ?(qmax_eq _ HO), ?(qmin_eq _ HO),
          ?(qleb_eq _ HO), ?(qeqb_eq _ HO) in *.
Ltac ev := lazy -[qadd qsub qmul qdiv qmax qmin qleb qeqb ocall Qplus Qminus Qmult Qle_bool Qeq_bool].

Theorem gen_overflows_exact (b y : Q) :
  run O ctx_overflows_body [("bottom", VNum b); ("position_y", VNum y)]
    (returns (VBool (src_overflows b y))) (fun _ => False).
Proof.
  unfold run, ctx_overflows_body, returns, src_overflows, eps. ev. unseal.
  (* whatever the order in which the source writes the product and the sum *)
  assert (Hb : forall X, X == b * (1 + (1 # 1000000000)) -> Qle_bool y X = Qle_bool y (b * (1 + (1 # 1000000000))))
    by (intros X E; rewrite E; reflexivity).
  match goal with |- context [if Qle_bool y ?X then _ else _] => try (rewrite (Hb X) by ring) end.
  destruct (Qle_bool y (b * (1 + (1 # 1000000000)))); reflexivity.
Qed.
End Body.

(* ---- the grid of the multiples of 1/D ---- *)
Definition in_range (a : Z) : Prop := (-1000000000 <= a < 1000000000)%Z.

Lemma src_overflows_grid (b y : Q) (a c : Z) (D : positive) :
  b == a # D -> y == c # D -> in_range a -> src_overflows b y = Frag2.overflows a c.
Proof.
  intros Hb Hy [Hlo Hhi]. unfold src_overflows, Frag2.overflows.
  assert (E : Qle_bool y (b * (1 + eps)) = true <-> (c * 1000000000 <= a * 1000000001)%Z).
  { rewrite Qle_bool_iff, Hb, Hy. unfold eps, Qle, Qmult, Qplus. cbn [Qnum Qden].
    rewrite !Pos2Z.inj_mul. change (Z.pos 1) with 1%Z. change (1 * Z.pos 1000000000 + 1 * 1)%Z with 1000000001%Z.
    change (1 * Z.pos 1000000000)%Z with 1000000000%Z.
    pose proof (Pos2Z.is_pos D) as HD. split; intros H; nia. }
  destruct (Qle_bool y (b * (1 + eps))) eqn:L; cbn [negb].
  - assert (H : (c * 1000000000 <= a * 1000000001)%Z) by (apply E; reflexivity).
    destruct (0 <=? a)%Z eqn:S; symmetry.
    + apply Z.leb_le in S. apply Z.ltb_ge. lia.
    + apply Z.leb_gt in S. apply Z.leb_gt. lia.
  - assert (H : ~ (c * 1000000000 <= a * 1000000001)%Z) by (intros H; apply E in H; congruence).
    destruct (0 <=? a)%Z eqn:S; symmetry.
    + apply Z.leb_le in S. apply Z.ltb_lt. lia.
    + apply Z.leb_gt in S. apply Z.leb_le. lia.
Qed.

(* on integers *)
Corollary src_overflows_int (b y : Z) : in_range b -> src_overflows (inject_Z b) (inject_Z y) = Frag2.overflows b y.
Proof. intros H. apply (src_overflows_grid _ _ b y 1%positive); [reflexivity|reflexivity|exact H]. Qed.

(* the regenerated body on the grid / on integers *)
Theorem gen_overflows_grid O (HO : ops_ok O) (a c : Z) (D : positive) :
  in_range a ->
  run O ctx_overflows_body [("bottom", VNum (a # D)); ("position_y", VNum (c # D))]
    (returns (VBool (Frag2.overflows a c))) (fun _ => False).
Proof.
  intros H. rewrite <- (src_overflows_grid (a # D) (c # D) a c D); [|reflexivity|reflexivity|exact H].
  apply gen_overflows_exact, HO.
Qed.

Theorem gen_overflows_int O (HO : ops_ok O) (b y : Z) :
  in_range b ->
  run O ctx_overflows_body [("bottom", vint b); ("position_y", vint y)]
    (returns (VBool (Frag2.overflows b y))) (fun _ => False).
Proof. intros H. apply (gen_overflows_grid O HO b y 1 H). Qed.

(* the hypotheses are satisfiable and the two clauses of Frag2.overflows are both met *)
Example overflows_examples :
  in_range 100 /\ Frag2.overflows 100 100 = false /\ Frag2.overflows 100 101 = true
  /\ in_range (-5) /\ Frag2.overflows (-5) (-5) = true /\ Frag2.overflows (-5) (-6) = false.
Proof. unfold in_range. repeat split; lia. Qed.

(* outside the range the source and the integer model differ: at bottom = 10^9 the next integer is not yet beyond
   bottom * (1 + 10^-9); below -10^9 the previous integer already is *)
Theorem gen_overflows_out_of_range_refuted :
  (exists b y : Z, ~ in_range b /\ src_overflows (inject_Z b) (inject_Z y) = false /\ Frag2.overflows b y = true) /\
  (exists b y : Z, ~ in_range b /\ src_overflows (inject_Z b) (inject_Z y) = true /\ Frag2.overflows b y = false).
Proof.
  split.
  - exists 1000000000%Z, 1000000001%Z. unfold in_range. split; [lia|]. split; reflexivity.
  - exists (-1000000001)%Z, (-1000000002)%Z. unfold in_range. split; [lia|]. split; reflexivity.
Qed.

(* ---- overflows_page, its call of self.overflows linked to the regenerated body above ---- *)
Theorem gen_overflows_page_exact n (pb bs y : Q) (extra : list (string * val)) :
  run (linked GenLayoutCtx_table (S (S n))) ctx_overflows_page_body
    [("self", VObj (("page_bottom", VNum pb) :: extra)); ("bottom_space", VNum bs); ("position_y", VNum y)]
    (returns (VBool (src_overflows (pb - bs) y))) (fun _ => False).
Proof.
  unfold returns, src_overflows, eps.
  lazy -[Qplus Qminus Qmult Qle_bool Qeq_bool].
  assert (Hb : forall X, X == (pb - bs) * (1 + (1 # 1000000000)) ->
                         Qle_bool y X = Qle_bool y ((pb - bs) * (1 + (1 # 1000000000))))
    by (intros X E; rewrite E; reflexivity).
  match goal with |- context [if Qle_bool y ?X then _ else _] => try (rewrite (Hb X) by ring) end.
  destruct (Qle_bool y ((pb - bs) * (1 + (1 # 1000000000)))); reflexivity.
Qed.

(* what Frag2 writes: overflows (page_bottom c - bottom_space) y, on integers *)
Theorem gen_overflows_page_int n (pb bs y : Z) (extra : list (string * val)) :
  in_range (pb - bs) ->
  run (linked GenLayoutCtx_table (S (S n))) ctx_overflows_page_body
    [("self", VObj (("page_bottom", vint pb) :: extra)); ("bottom_space", vint bs); ("position_y", vint y)]
    (returns (VBool (Frag2.overflows (pb - bs) y))) (fun _ => False).
Proof.
  intros H.
  rewrite <- (src_overflows_grid (inject_Z pb - inject_Z bs) (inject_Z y) (pb - bs) y 1%positive);
    [apply gen_overflows_page_exact| |reflexivity|exact H].
  unfold inject_Z, Qminus, Qplus, Qopp, Qeq. cbn [Qnum Qden]. lia.
Qed.

(* grid version: page_bottom, bottom_space and y multiples of 1/D *)
Theorem gen_overflows_page_grid n (pb bs y : Z) (D : positive) (extra : list (string * val)) :
  in_range (pb - bs) ->
  run (linked GenLayoutCtx_table (S (S n))) ctx_overflows_page_body
    [("self", VObj (("page_bottom", VNum (pb # D)) :: extra)); ("bottom_space", VNum (bs # D));
     ("position_y", VNum (y # D))]
    (returns (VBool (Frag2.overflows (pb - bs) y))) (fun _ => False).
Proof.
  intros H.
  rewrite <- (src_overflows_grid ((pb # D) - (bs # D)) (y # D) (pb - bs) y D);
    [apply gen_overflows_page_exact| |reflexivity|exact H].
  unfold Qminus, Qplus, Qopp, Qeq. cbn [Qnum Qden]. rewrite !Pos2Z.inj_mul. nia.
Qed.
