(* C11 - absolute_replaced of weasyprint/layout/absolute.py (CSS 2.1 10.3.8 / 10.6.5), the WHOLE body as REGENERATED
   from the source on every run (gen/GenAbsReplaced.v): for every auto pattern of left / right / margin_left /
   margin_right and of top / bottom / margin_top / margin_bottom, every direction of the parent (root / ltr / rtl) and
   every number, it returns the (mutated) box whose fields are, axis by axis, the hand model abs_replaced_axis of
   model/C11Abs.v (numbers up to ==), and never raises.  Then the clauses of the property text follow about the
   regenerated body itself (the equation, equal auto margins, the over-constrained rule, the static position).
   The statement-level lemmas are in C11_gen_replaced_steps.v. *)
From Coq Require Import QArith Qminmax Lqa List String Bool.
Require WV.proofs.PyNatural.
Require Import WV.base.Py WV.base.PyLink WV.gen.GenAbsReplaced WV.gen.GenBoxes WV.proofs.PyTac WV.model.C11Abs
               WV.proofs.C11_abs WV.proofs.C11_gen_abs WV.proofs.C11_gen_replaced_steps.
Import ListNotations.
Open Scope string_scope.
Open Scope list_scope.
Open Scope Q_scope.

Section Whole.
Variable O : qops.
Hypothesis HO : ops_ok O.
Hypothesis HM : methods_ok O.
Variables (ctx rv : val) (cbx cby cbw cbh : Q).
Variables (root ltr : bool) (l r ml mr t bo mt mb : oq) (w0 h0 : val) (w h pl pr bl br px pt pb bt bb py : Q).

(* the box: box.style.parent_style is None (root) or has a direction; width / height are whatever the caller left
   (w0 h0) before the oracle and numbers after it *)
Definition box_in (vw vh : val) : val :=
  rbox (parent_style root ltr) (vo l) (vo r) vw (vo ml) (vo mr) (VNum pl) (VNum pr) (VNum bl) (VNum br) (VNum px)
       (vo t) (vo bo) vh (vo mt) (vo mb) (VNum pt) (VNum pb) (VNum bt) (VNum bb) (VNum py).
(* inline_replaced_box_width_height(box, (cb_width, cb_height)) sets box.width and box.height to numbers *)
Definition sizes_oracle : Prop :=
  ocall O "inline_replaced_box_width_height" [box_in w0 h0; VList [VNum cbw; VNum cbh]]
  = VList [rv; box_in (VNum w) (VNum h)].
Hypothesis HOr : sizes_oracle.

Definition env_in : env :=
  [("context", ctx); ("box", box_in w0 h0); ("cb_x", VNum cbx); ("cb_y", VNum cby); ("cb_width", VNum cbw);
   ("cb_height", VNum cbh)].

Lemma step_01 kret (kf k : env -> Prop) :
  k (renv ctx rv cbx cby cbw cbh (root || ltr) (box_in (VNum w) (VNum h)) None) ->
  exec O Prop kret (fun _ => False) (st 0) env_in
    (fun rho1 => if flowing rho1 then kf rho1 else exec O Prop kret (fun _ => False) (st 1) rho1 k).
Proof.
  intros Hk. unfold st, env_in.
  lazy -[qadd qsub qmul qdiv qmax qmin qleb qeqb ocall box_in].
  rewrite HOr. unfold box_in, rbox, parent_style, renv in *.
  destruct root, ltr; lazy -[qadd qsub qmul qdiv qmax qmin qleb qeqb ocall]; exact Hk.
Qed.

Definition hax : axis := haxis l r (Some w) ml mr pl pr bl br px.
Definition vax : axis := vaxis t bo (Some h) mt mb pt pb bt bb py.

Definition replaced_post (mh mv : option axis) (rho : env) (res : option val) : Prop :=
  exists bh bv B, mh = Some bh /\ mv = Some bv /\ res = Some B /\ lookup "box" rho = B /\
                  hbox_rep B bh /\ vbox_rep B bv.

Ltac noflow :=
  match goal with
  | |- if flowing ?e then _ else _ => change (flowing e) with false; cbv iota
  end.

Theorem gen_absolute_replaced :
  run O absolute_replaced_body env_in
    (replaced_post (abs_replaced_axis true (root || ltr) cbx cbw hax) (abs_replaced_axis false true cby cbh vax))
    (fun _ => False).
Proof.
  unfold run. rewrite body_eq. cbn [exec_block].
  apply step_01. cbv beta. noflow.
  apply (step_h O HO HM). intros rho' (lq & r' & ml' & mr' & rem & bh & -> & Hmh & Hl & Hr & Hml & Hmr).
  destruct rem as [rem|]; noflow.
  all: apply (step_v O HO HM); intros rho' (tq & bo' & mt' & mb' & rem' & bv & -> & Hmv & Ht & Hbo & Hmt & Hmb).
  all: destruct rem' as [rem'|]; noflow.
  all: apply (step_fin O HO); intros rho' xq yq Hx Hy HB.
  all: exists bh, bv, (lookup "box" rho'); fold hax in Hmh; fold vax in Hmv.
  all: destruct (abs_replaced_equation _ _ _ _ _ _ Hmh) as (l1 & r1 & MS1 & ME1 & SZ1 & E1 & _ & _ & _ & E5 & E6 & _ & E8).
  all: destruct (abs_replaced_equation _ _ _ _ _ _ Hmv) as (l2 & r2 & MS2 & ME2 & SZ2 & F1 & _ & _ & _ & F5 & F6 & _ & F8).
  all: rewrite HB; repeat split; try assumption; try reflexivity.
  all: unfold rbox, fieldv; cbn [lookup String.eqb Ascii.eqb Bool.eqb].
  all: unfold hax, vax, haxis, vaxis in E6, F6; cbn [a_size] in E6, F6.
  all: try (rewrite E5; injection E6 as <-; cbn [rep]; reflexivity).
  all: try (rewrite F5; injection F6 as <-; cbn [rep]; reflexivity).
  all: try (rewrite E1 in Hl; cbn [rep] in Hl; cbn [repq]; rewrite Hx, E8, Hl; reflexivity).
  all: try (rewrite F1 in Ht; cbn [rep] in Ht; cbn [repq]; rewrite Hy, F8, Ht; reflexivity).
Qed.
End Whole.
Print Assumptions gen_absolute_replaced.

(* a property of every outcome is a property of the source's *)
Lemma run_weaken O body rho (P Q : env -> option val -> Prop) :
  (forall rho' r, P rho' r -> Q rho' r) -> run O body rho P (fun _ => False) -> run O body rho Q (fun _ => False).
Proof.
  intros HPQ. rewrite !(PyNatural.run_natural O body rho).
  destruct (PyNatural.run_out O body rho); [apply HPQ|exact (fun x => x)].
Qed.

(* ---- the clauses of CSS 2.1 10.3.8 / 10.6.5 about the regenerated body itself.  For one axis, with the input axis
   b (what the stylesheet specified: None = auto) and the model's output b' (== the fields of the returned box):
   - the used values are numbers and satisfy  start + margin + padding/border + size + margin + end = cb size,
     and position = cb origin + start                                                     (for ALL inputs);
   - not over-constrained: every specified value is the used one, auto margins are 0 unless start, end (and the
     size) are specified                                                                  (constraint_spec);
   - two auto margins between specified offsets are EQUAL (horizontally: when the box fits, else the start-side
     margin is 0 in ltr, the end-side one in rtl);
   - over-constrained: ltr ignores the end offset (right / bottom), rtl ignores left      (overconstrained_spec);
   - both offsets auto in ltr (or vertically): the box keeps its static position. *)
Definition axis_clauses (hz lt : bool) (cb0 cbs : Q) (b b' : axis) : Prop :=
  exists p S E MS ME SZ,
    placed_replaced b' = Some p /\
    a_start b' = Some S /\ a_end b' = Some E /\ a_ms b' = Some MS /\ a_me b' = Some ME /\ a_size b' = Some SZ /\
    a_size b = Some SZ /\
    S + MS + a_pad b + SZ + ME + E == cbs /\ a_pos b' == cb0 + S /\
    (over_constrained b = false -> constraint_spec cb0 cbs b p) /\
    (over_constrained b = true -> overconstrained_spec lt cb0 cbs b p) /\
    (forall s e, a_start b = Some s -> a_end b = Some e -> a_ms b = None -> a_me b = None ->
       (hz = false \/ s + a_pad b + SZ + e <= cbs -> MS == ME) /\
       (hz = true -> ~ s + a_pad b + SZ + e <= cbs -> if lt then MS == 0 else ME == 0)) /\
    (a_start b = None -> a_end b = None -> lt = true -> a_pos b' == a_pos b).

Lemma axis_clauses_of_model hz lt cb0 cbs b b' :
  (hz = false -> lt = true) ->
  abs_replaced_axis hz lt cb0 cbs b = Some b' -> axis_clauses hz lt cb0 cbs b b'.
Proof.
  intros Hv H.
  destruct (abs_replaced_equation _ _ _ _ _ _ H) as (S & E & MS & ME & SZ & E1 & E2 & E3 & E4 & E5 & E6 & E7 & E8).
  assert (Hp : placed_replaced b' = Some (mk_placed (a_pos b') MS ME SZ)).
  { unfold placed_replaced. rewrite E3, E4, E5. reflexivity. }
  exists (mk_placed (a_pos b') MS ME SZ), S, E, MS, ME, SZ.
  repeat (split; [assumption|]).
  split; [intro Hoc; exact (abs_replaced_constraint _ _ _ _ _ _ _ Hoc H Hp)|].
  split; [intro Hoc; exact (abs_replaced_over_constrained _ _ _ _ _ _ _ Hoc Hv H Hp)|].
  split.
  - intros s e Hs He Hms Hme.
    exact (abs_replaced_auto_margins_equal _ _ _ _ _ _ _ _ _ _ Hs He E6 Hms Hme H Hp).
  - intros Hs He Hl. exact (abs_replaced_static _ _ _ _ _ _ _ Hs He Hl H Hp).
Qed.

Definition clauses_post (lt : bool) (cbx cby cbw cbh : Q) (bh0 bv0 : axis) (rho : env) (res : option val) : Prop :=
  exists bh bv B, res = Some B /\ lookup "box" rho = B /\ hbox_rep B bh /\ vbox_rep B bv /\
                  axis_clauses true lt cbx cbw bh0 bh /\ axis_clauses false true cby cbh bv0 bv.

Theorem gen_absolute_replaced_clauses O (HO : ops_ok O) (HM : methods_ok O) ctx rv cbx cby cbw cbh
        root ltr l r ml mr t bo mt mb w0 h0 w h pl pr bl br px pt pb bt bb py
        (HOr : sizes_oracle O rv cbw cbh root ltr l r ml mr t bo mt mb w0 h0 w h pl pr bl br px pt pb bt bb py) :
  run O absolute_replaced_body (env_in ctx cbx cby cbw cbh root ltr l r ml mr t bo mt mb w0 h0 pl pr bl br px pt pb bt bb py)
    (clauses_post (root || ltr) cbx cby cbw cbh (hax l r ml mr w pl pr bl br px) (vax t bo mt mb h pt pb bt bb py))
    (fun _ => False).
Proof.
  eapply run_weaken; [|exact (gen_absolute_replaced O HO HM ctx rv cbx cby cbw cbh root ltr l r ml mr t bo mt mb
                                 w0 h0 w h pl pr bl br px pt pb bt bb py HOr)].
  intros rho' res (bh & bv & B & Hh & Hv & -> & HB & Hrh & Hrv).
  exists bh, bv, B. repeat (split; [assumption || reflexivity|]).
  split; [apply axis_clauses_of_model; [discriminate|exact Hh] | apply axis_clauses_of_model; [reflexivity|exact Hv]].
Qed.
Print Assumptions gen_absolute_replaced_clauses.

(* ---- linked: the Box methods answered by their own regenerated bodies (gen/GenBoxes.v run by base/PyLink.v:
   margin_width -> border_width -> padding_width); only the replaced-size oracle stays abstract: some function
   [sizes] of the box and the containing block *)
Definition replaced_calls (n : nat) (sizes : val -> val -> val) (f : string) (args : list val) : val :=
  if String.eqb f "inline_replaced_box_width_height"
  then match args with [b; cb] => sizes b cb | _ => VErr "TypeError" end
  else link GenBoxes_table n f args.
Definition replaced_ops (n : nat) (sizes : val -> val -> val) : qops := with_calls real_ops (replaced_calls n sizes).

Lemma replaced_ops_ok n sizes : ops_ok (replaced_ops n sizes).
Proof. apply with_calls_ok, real_ok. Qed.
Lemma replaced_methods_ok n sizes : methods_ok (replaced_ops (S (S (S n))) sizes).
Proof. constructor; intros; lazy -[Qplus]; reflexivity. Qed.

Theorem gen_absolute_replaced_linked n sizes ctx rv cbx cby cbw cbh
        root ltr l r ml mr t bo mt mb w0 h0 w h pl pr bl br px pt pb bt bb py :
  sizes (box_in root ltr l r ml mr t bo mt mb pl pr bl br px pt pb bt bb py w0 h0) (VList [VNum cbw; VNum cbh])
    = VList [rv; box_in root ltr l r ml mr t bo mt mb pl pr bl br px pt pb bt bb py (VNum w) (VNum h)] ->
  run (replaced_ops (S (S (S n))) sizes) absolute_replaced_body
    (env_in ctx cbx cby cbw cbh root ltr l r ml mr t bo mt mb w0 h0 pl pr bl br px pt pb bt bb py)
    (clauses_post (root || ltr) cbx cby cbw cbh (hax l r ml mr w pl pr bl br px) (vax t bo mt mb h pt pb bt bb py))
    (fun _ => False).
Proof.
  intros Hs. apply (gen_absolute_replaced_clauses _ (replaced_ops_ok _ _) (replaced_methods_ok n sizes) ctx rv).
  exact Hs.
Qed.
Print Assumptions gen_absolute_replaced_linked.
