(* C13 - replacedbox_layout of weasyprint/layout/replaced.py (object-fit / object-position: the rectangle in which
   the image is painted) as REGENERATED on every run (gen/GenReplacedBox.v) returns exactly the tuple of the hand model
   rb_layout of model/C13Replaced.v (on which C13_object_fit_*, C13_scale_down_is_min, C13_object_position_* rest),
   for every intrinsic size (each of width / height / ratio known or None), the five object-fit keywords, both origins
   on each axis, px / % positions; it raises (ZeroDivisionError: a zero ratio) exactly when the model says so.
   image.get_intrinsic_size is an oracle; the calls of contain_/cover_constraint_image_sizing (this module),
   percentage (layout/percent.py) and Box.content_box_x/y (boxes.py) are answered by their own regenerated bodies
   (base/PyLink.v).  Encodings, the statement-by-statement lemmas and the object-position statements:
   proofs/C13_gen_layout_tail.v. *)
From Coq Require Import QArith Qminmax List Bool String.
Require Import WV.base.Py WV.base.PyLink WV.proofs.PyNatural WV.proofs.PyTac.
Require Import WV.gen.GenReplaced WV.gen.GenReplacedBox WV.gen.GenPercent WV.gen.GenBoxes WV.model.C13Replaced.
Require Import WV.proofs.C13_gen_sizing WV.proofs.C13_gen_tac WV.proofs.C13_gen_layout_tail.
Import ListNotations.
Open Scope string_scope.
Open Scope list_scope.
Open Scope Q_scope.

Section Layout.
Variable O : qops.
Hypothesis HO : ops_ok O.
Lemma gen_replacedbox_layout_calls (HC : calls_contain O) (HV : calls_cover O) (HP : calls_pct O)
      imgf rs fs i (HI : intr_oracle O imgf rs fs i) f rgt btm px py bw bh posx posy ml mt pl pt bl bt :
  ocall O ".content_box_x" [lbox f rgt btm px py bw bh imgf rs fs posx posy ml mt pl pt bl bt]
    = VNum (posx + ml + pl + bl) ->
  ocall O ".content_box_y" [lbox f rgt btm px py bw bh imgf rs fs posx posy ml mt pl pt bl bt]
    = VNum (posy + mt + pt + bt) ->
  run O replacedbox_layout_body [("box", lbox f rgt btm px py bw bh imgf rs fs posx posy ml mt pl pt bl bt)]
    (lay_post (rb_layout f rgt btm px py bw bh i (posx + ml + pl + bl) (posy + mt + pt + bt)))
    (lay_err (rb_layout f rgt btm px py bw bh i (posx + ml + pl + bl) (posy + mt + pt + bt))).
Proof.
  intros HX HY.
  pose proof (tail_run O HO HP imgf rs fs f rgt btm px py bw bh posx posy ml mt pl pt bl bt HX HY) as HT.
  clear HX HY HP.
  unfold intr_oracle, vintr in HI.
  pose proof (HC bw bh (ir i)) as HCi. pose proof (HV bw bh (ir i)) as HVi. clear HC HV.
  remember (lay_post _) as P eqn:EP. remember (lay_err _) as Er eqn:EE.
  unfold tail_stmts, tail_env in HT. unfold replacedbox_layout_body in *. cbn [skipn] in HT.
  unfold run. unfold lbox at 1.
  do 4 step.
  clear HI.
  destruct (contain_sizing bw bh (ir i)) as [[ca cb]|] eqn:EC; cbn [vres vpair fst snd] in HCi.
  all: destruct i as [[w0|] [h0|] [r|]]; cbn [voq iw ih ir] in *.
  all: step_or_raise.
  all: destruct f; cbn [vfit] in *.
  all: try (match goal with |- exec_block _ _ _ _ _ _ _ => idtac end;
            match goal with |- context [("object_fit", VStr "cover")] => idtac end;
            match type of HVi with _ = vres ?t => destruct t as [[va vb]|] eqn:EV end;
            cbn [vres vpair fst snd] in HVi).
  all: steps_until 10%nat.
  all: try (match goal with |- exec_block _ _ _ _ _ _ _ => idtac end; apply HT; intros rho).
  all: clear HT HCi HVi.
  all: subst P Er; unfold lay_post, lay_err, rb_layout, C13Replaced.bind, xpos, vquad; cbn [iw ih ir];
       rewrite ?EC, ?EV; cbv beta iota zeta; rewrite ?(qmin_eq _ HO).
  all: first [reflexivity | split; reflexivity].
Qed.
End Layout.

(* ---------------------------------------------------------------- linking: who answers the calls
   image.get_intrinsic_size is outside the translated subset: g answers it.  Every other call is answered by the
   callee's own regenerated body: percentage (gen/GenPercent.v), Box.content_box_x / content_box_y (gen/GenBoxes.v),
   contain_/cover_constraint_image_sizing and, below them, _constraint_image_sizing (gen/GenReplaced.v) *)
Definition layout_callees (g : list val -> val) (f : string) (args : list val) : val :=
  if String.eqb f ".get_intrinsic_size" then g args
  else if String.eqb f "percentage" then link GenPercent_table 1 f args
  else if String.eqb f ".content_box_x" || String.eqb f ".content_box_y" then link GenBoxes_table 1 f args
  else link GenReplaced_table 2 f args.

Lemma linked_percentage v ref : link GenPercent_table 1 "percentage" [vlen v; VNum ref] = VNum (percentage v ref).
Proof.
  destruct v as [q|p]; cbn [vlen percentage].
  - lazy -[Qplus Qminus Qmult Qdiv]. reflexivity.
  - lazy -[Qplus Qminus Qmult Qdiv]. reflexivity.
Qed.
Lemma linked_content_box_x f rgt btm px py bw bh imgf rs fs posx posy ml mt pl pt bl bt :
  link GenBoxes_table 1 ".content_box_x" [lbox f rgt btm px py bw bh imgf rs fs posx posy ml mt pl pt bl bt]
  = VNum (posx + ml + pl + bl).
Proof. lazy -[Qplus Qminus Qmult Qdiv]. reflexivity. Qed.
Lemma linked_content_box_y f rgt btm px py bw bh imgf rs fs posx posy ml mt pl pt bl bt :
  link GenBoxes_table 1 ".content_box_y" [lbox f rgt btm px py bw bh imgf rs fs posx posy ml mt pl pt bl bt]
  = VNum (posy + mt + pt + bt).
Proof. lazy -[Qplus Qminus Qmult Qdiv]. reflexivity. Qed.

(* replacedbox_layout of the source IS the model rb_layout, for every input: g answers image.get_intrinsic_size with
   the triple i (each component a number or None); the content box of the box starts at
   (position_x + margin_left + padding_left + border_left_width, position_y + margin_top + ...) *)
Theorem gen_replacedbox_layout (g : list val -> val) imgf rs fs i f rgt btm px py
        bw bh posx posy ml mt pl pt bl bt :
  g [VObj imgf; VNum rs; VNum fs] = vintr i ->
  run (with_calls real_ops (layout_callees g)) replacedbox_layout_body
    [("box", lbox f rgt btm px py bw bh imgf rs fs posx posy ml mt pl pt bl bt)]
    (lay_post (rb_layout f rgt btm px py bw bh i (posx + ml + pl + bl) (posy + mt + pt + bt)))
    (lay_err (rb_layout f rgt btm px py bw bh i (posx + ml + pl + bl) (posy + mt + pt + bt))).
Proof.
  intros Hg.
  apply (gen_replacedbox_layout_calls (with_calls real_ops (layout_callees g)) (with_calls_ok _ _ real_ok)).
  - intros cw ch r. exact (gen_contain_value 0 cw ch r).
  - intros cw ch r. exact (gen_cover_value 0 cw ch r).
  - intros v ref. exact (linked_percentage v ref).
  - exact Hg.
  - exact (linked_content_box_x f rgt btm px py bw bh imgf rs fs posx posy ml mt pl pt bl bt).
  - exact (linked_content_box_y f rgt btm px py bw bh imgf rs fs posx posy ml mt pl pt bl bt).
Qed.
Print Assumptions gen_replacedbox_layout.

(* the value of the call, as a function: the quadruple, or the raised ZeroDivisionError *)
Definition vlay (o : option (Q * Q * Q * Q)) : val :=
  match o with Some t => vquad t | None => VErr "ZeroDivisionError" end.
Theorem gen_replacedbox_layout_value (g : list val -> val) imgf rs fs i f rgt btm px py
        bw bh posx posy ml mt pl pt bl bt :
  g [VObj imgf; VNum rs; VNum fs] = vintr i ->
  call_body (with_calls real_ops (layout_callees g)) (replacedbox_layout_args, replacedbox_layout_body)
    [lbox f rgt btm px py bw bh imgf rs fs posx posy ml mt pl pt bl bt]
  = vlay (rb_layout f rgt btm px py bw bh i (posx + ml + pl + bl) (posy + mt + pt + bt)).
Proof.
  intros Hg. pose proof (gen_replacedbox_layout g imgf rs fs i f rgt btm px py bw bh posx posy ml mt pl pt bl bt Hg) as H.
  unfold call_body. cbn [fst snd replacedbox_layout_args PyLink.bind].
  rewrite run_natural in H. rewrite run_natural.
  destruct (run_out _ _ _) as [rho' res|m].
  - unfold lay_post in H. destruct (rb_layout _ _ _ _ _ _ _ _ _ _) as [t|]; [|contradiction]. subst res. reflexivity.
  - destruct H as [-> ->]. reflexivity.
Qed.

(* a picture 40 x 20 (ratio 2) in a 100 x 100 box at (10, 20): contain -> 100 x 50, centred vertically;
   none, right 0% bottom 10px -> 40 x 20 at the right edge, 10px above the bottom edge *)
Example gen_layout_example_contain :
  call_body (with_calls real_ops (layout_callees (fun _ => VList [VNum 40; VNum 20; VNum 2])))
    (replacedbox_layout_args, replacedbox_layout_body)
    [lbox Contain false false (Pct 50) (Pct 50) 100 100 [] 1 16 10 20 0 0 0 0 0 0]
  = VList [VNum 100; VNum (100 / 2); VNum ((100 - 100) * 50 / 100 + (10 + 0 + 0 + 0));
           VNum ((100 - 100 / 2) * 50 / 100 + (20 + 0 + 0 + 0))].
Proof.
  exact (gen_replacedbox_layout_value _ [] 1 16 (Intr (Some 40) (Some 20) (Some 2)) Contain false false (Pct 50) (Pct 50)
           100 100 10 20 0 0 0 0 0 0 eq_refl).
Qed.
