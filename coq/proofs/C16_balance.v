(* C16 - well-bracketed calls on Stream give properly nested tokens; the ctm stack mirrors the q depth. *)
From Coq Require Import ZArith List Bool Lia.
Require Import WV.model.C16Stream.
Import ListNotations.
Open Scope Z_scope.

(* ------------------------------------------------------------------------------------ bracket stacks *)
Definition is_Bt (x : bk) : bool := match x with Bt => true | _ => false end.
Definition is_Bm (x : bk) : bool := match x with Bm => true | _ => false end.
Definition no_bt (b : list bk) : bool := negb (existsb is_Bt b).
(* a text object is never below another bracket *)
Definition okb (b : list bk) : bool := match b with [] => true | _ :: r => no_bt r end.
(* what is visible in the tokens: marked-content brackets only when the stream marks *)
Definition vis (mark : bool) (b : list bk) : list bk := if mark then b else filter (fun x => negb (is_Bm x)) b.
Fixpoint countb (k : bk) (b : list bk) : nat :=
  match b with [] => O | x :: r => if bk_eqb x k then S (countb k r) else countb k r end.

Lemma vis_cons_q m b : vis m (Bq :: b) = Bq :: vis m b.
Proof. destruct m; reflexivity. Qed.
Lemma vis_cons_t m b : vis m (Bt :: b) = Bt :: vis m b.
Proof. destruct m; reflexivity. Qed.
Lemma vis_cons_m m b : vis m (Bm :: b) = if m then Bm :: vis m b else vis m b.
Proof. destruct m; reflexivity. Qed.

Lemma no_bt_filter b : no_bt b = true -> no_bt (filter (fun x => negb (is_Bm x)) b) = true.
Proof.
  unfold no_bt. induction b as [|x r IH]; simpl; auto.
  destruct x; simpl; auto.
Qed.
Lemma no_bt_in_text b : no_bt b = true -> in_text b = false.
Proof. destruct b as [|x r]; [reflexivity|]. destruct x; try reflexivity. unfold no_bt; simpl; intro H; discriminate H. Qed.
Lemma in_text_vis m b : okb b = true -> in_text (vis m b) = in_text b.
Proof.
  intro H. destruct b as [|x r]; [destruct m; reflexivity|].
  destruct x.
  - rewrite vis_cons_q. reflexivity.
  - rewrite vis_cons_t. reflexivity.
  - rewrite vis_cons_m. simpl in H. destruct m; simpl; auto.
    apply no_bt_in_text. apply no_bt_filter. exact H.
Qed.
Lemma in_text_false_no_bt b : okb b = true -> in_text b = false -> no_bt b = true.
Proof.
  destruct b as [|x r]; simpl; auto. intros H1 H2. unfold no_bt in *. simpl.
  destruct x; simpl; auto; try discriminate.
Qed.

(* ---------------------------------------------------------------------------------- token scanning *)
Definition neutral (t : tok) : bool :=
  match t with
  | Tgs _ _ | Trg _ _ | Tcs _ _ | Tscn _ _ | Tpat _ _ | Tfont _ | Ttag | Tprops _ | Tother _ => true
  | _ => false
  end.
Lemma neutral_tstep t b : neutral t = true -> tstep t b = Some b.
Proof. destruct t; simpl; intro H; try discriminate; reflexivity. Qed.
Lemma tscan_rev_neutral l r : forallb neutral l = true -> tscan_rev (l ++ r) = tscan_rev r \/ tscan_rev (l ++ r) = None /\ tscan_rev r = None.
Proof.
  induction l as [|t l IH]; simpl; intro H; auto.
  apply andb_true_iff in H. destruct H as [Ht Hl].
  destruct (IH Hl) as [E|[E1 E2]].
  - rewrite E. destruct (tscan_rev r) as [b|]; auto. rewrite neutral_tstep; auto.
  - rewrite E1. auto.
Qed.
Lemma tscan_rev_neutral_some l r b : forallb neutral l = true -> tscan_rev r = Some b -> tscan_rev (l ++ r) = Some b.
Proof.
  intros H E. destruct (tscan_rev_neutral l r H) as [E'|[_ E']]; congruence.
Qed.

Lemma tscan_app b l1 l2 : tscan b (l1 ++ l2) = match tscan b l1 with Some b' => tscan b' l2 | None => None end.
Proof.
  revert b. induction l1 as [|t l1 IH]; simpl; intro b; auto.
  destruct (tstep t b); auto.
Qed.
Lemma tscan_rev_fwd l : tscan [] (rev l) = tscan_rev l.
Proof.
  induction l as [|t l IH]; simpl; auto.
  rewrite tscan_app, IH. destruct (tscan_rev l); simpl; auto. destruct (tstep t l0); auto.
Qed.

(* --------------------------------------------------------------------- shape of what each call emits *)
Definition pop_toks (l : list tok) : list tok := match l with Tq :: r => r | _ => TQ :: l end.
Lemma pop_toks_cases l : (exists r, l = Tq :: r /\ pop_toks l = r) \/ (pop_toks l = TQ :: l /\ forall r, l <> Tq :: r).
Proof.
  destruct l as [|t r]; [right; split; [reflexivity|congruence]|].
  destruct t; try (right; split; [reflexivity|congruence]).
  left. exists r. auto.
Qed.
Lemma m_pop_spec s :
  m_pop s = match ctms s with
            | _ :: (m :: r) => Some (with_ctms (m :: r) (reset_caches (with_toks (pop_toks (toks s)) s)))
            | _ => None
            end.
Proof.
  unfold m_pop.
  assert (E : (match toks s with Tq :: r => with_toks r s | _ => emit TQ s end) = with_toks (pop_toks (toks s)) s).
  { unfold emit, with_toks, pop_toks. destruct (toks s) as [|t r]; [reflexivity|]. destruct t; reflexivity. }
  rewrite E. reflexivity.
Qed.

Definition bt_toks (l : list tok) : list tok := match l with TET :: r => r | _ => TBT :: l end.
Lemma bt_toks_cases l : (exists r, l = TET :: r /\ bt_toks l = r) \/ (bt_toks l = TBT :: l /\ forall r, l <> TET :: r).
Proof.
  destruct l as [|t r]; [right; split; [reflexivity|congruence]|].
  destruct t; try (right; split; [reflexivity|congruence]).
  left. exists r. auto.
Qed.
Lemma m_begin_text_toks s : toks (m_begin_text s) = bt_toks (toks s).
Proof. unfold m_begin_text, emit, with_toks, with_fonts, bt_toks. destruct (toks s) as [|t r]; [reflexivity|]. destruct t; reflexivity. Qed.
Lemma m_begin_text_ctms s : ctms (m_begin_text s) = ctms s /\ markon (m_begin_text s) = markon s.
Proof. unfold m_begin_text, emit, with_toks, with_fonts. destruct (toks s) as [|t r]; [split; reflexivity|]. destruct t; split; reflexivity. Qed.

(* the setters only add neutral tokens and leave the ctm stack alone *)
Definition ext (s s' : st) : Prop :=
  exists l, toks s' = l ++ toks s /\ forallb neutral l = true /\ ctms s' = ctms s /\ markon s' = markon s.
Lemma ext_refl s : ext s s.
Proof. exists []. auto. Qed.
Lemma ext_trans s1 s2 s3 : ext s1 s2 -> ext s2 s3 -> ext s1 s3.
Proof.
  intros (l1 & A1 & B1 & C1 & D1) (l2 & A2 & B2 & C2 & D2).
  exists (l2 ++ l1). rewrite A2, A1, app_assoc. repeat split; try congruence.
  rewrite forallb_app, B1, B2. reflexivity.
Qed.
Lemma ext_alpha1 st a i s : ext s (m_alpha1 st a i s).
Proof.
  unfold m_alpha1. destruct (opt_eqb key_eqb (if st then calphas s else calpha s) (KA st a i)); [apply ext_refl|].
  exists [Tgs (KA st a i) (canon (KA st a i))]. destruct st; simpl; auto.
Qed.
Lemma ext_set_alpha a i st f s : ext s (m_set_alpha a i st f s).
Proof.
  unfold m_set_alpha.
  destruct st; destruct (match f with Some f0 => f0 | None => _ end);
    repeat (try apply ext_refl; try apply ext_alpha1; try (eapply ext_trans; [apply ext_alpha1|])).
Qed.
Lemma ext_emit_color st c s s0 :
  toks s0 = toks s -> ctms s0 = ctms s -> markon s0 = markon s -> ext s (emit_color st c s0).
Proof.
  intros A B C. unfold emit_color.
  destruct ((grp (fst c) =? 1) || (grp (fst c) =? 2)).
  - exists [Tscn st c; Tcs st (grp (fst c))]. simpl. rewrite A, B, C. auto.
  - exists [Trg st c]. simpl. rewrite A, B, C. auto.
Qed.
Lemma ext_set_color st c a i s : ext s (m_set_color st c a i s).
Proof.
  unfold m_set_color. eapply ext_trans; [apply (ext_set_alpha a i st None)|].
  destruct st.
  - destruct (opt_eqb color_eqb _ c); [apply ext_refl|]. apply ext_emit_color; reflexivity.
  - destruct (opt_eqb color_eqb _ c); [apply ext_refl|]. apply ext_emit_color; reflexivity.
Qed.
Lemma ext_set_font f s : ext s (m_set_font f s).
Proof.
  unfold m_set_font. destruct (opt_eqb font_eqb (cfont s) f); [apply ext_refl|].
  exists [Tfont f]. simpl. auto.
Qed.
Lemma ext_set_state v s : ext s (m_set_state v s).
Proof. exists [Tgs (KS (Z.of_nat (length (egs s)))) v]. simpl. auto. Qed.

(* ------------------------------------------------------------------------------------ the invariant *)
Definition BInv (b : list bk) (s : st) : Prop :=
  tscan_rev (toks s) = Some (vis (markon s) b) /\ length (ctms s) = S (countb Bq b) /\ okb b = true.

Lemma ext_BInv b s s' : ext s s' -> BInv b s -> BInv b s'.
Proof.
  intros (l & A & B & C & D) (H1 & H2 & H3). unfold BInv. rewrite A, C, D.
  split; [|auto]. apply tscan_rev_neutral_some; auto.
Qed.

Lemma okb_push x b : okb b = true -> in_text b = false -> okb (x :: b) = true.
Proof. intros. simpl. apply in_text_false_no_bt; auto. Qed.
Lemma okb_tail x b : okb (x :: b) = true -> okb b = true.
Proof.
  unfold okb, no_bt. destruct b as [|y r]; [reflexivity|]. simpl. intro H.
  apply negb_true_iff in H. apply orb_false_iff in H. destruct H as [_ H]. rewrite H. reflexivity.
Qed.

Lemma step_BInv o b b' s :
  BInv b s -> wstep o b = Some b' -> exists s', mstep o s = Some s' /\ BInv b' s' /\ markon s' = markon s.
Proof.
  intros (H1 & H2 & H3) W.
  destruct o; simpl in W.
  - (* Push *)
    destruct (in_text b) eqn:T; [discriminate|]. inversion W; subst b'; clear W.
    simpl. unfold m_push. destruct (ctms s) as [|top r] eqn:C; [simpl in H2; discriminate|].
    eexists. split; [reflexivity|]. split; [|reflexivity]. unfold BInv. simpl.
    rewrite H1, vis_cons_q. rewrite in_text_vis, T by auto. repeat split; auto.
    all: try (simpl in *; lia); try (apply in_text_false_no_bt; auto).
  - (* Pop *)
    destruct b as [|[] r]; try discriminate. inversion W; subst b'; clear W.
    simpl. rewrite m_pop_spec. simpl in H2.
    destruct (ctms s) as [|m0 [|m1 rest]] eqn:C; simpl in H2; try discriminate.
    eexists. split; [reflexivity|]. split; [|reflexivity]. unfold BInv. simpl.
    rewrite vis_cons_q in H1.
    split; [|split; [simpl in *; lia| eapply okb_tail; eauto]].
    destruct (pop_toks_cases (toks s)) as [(t & E1 & E2)|[E1 E2]]; rewrite E1 in *.
    + rewrite E2. simpl in H1. destruct (tscan_rev t) as [x|]; [|discriminate].
      simpl in H1. destruct (in_text x); [discriminate|]. inversion H1. reflexivity.
    + simpl. rewrite H1. reflexivity.
  - (* BeginText *)
    destruct (in_text b) eqn:T; [discriminate|]. inversion W; subst b'; clear W.
    simpl. eexists. split; [reflexivity|]. destruct (m_begin_text_ctms s) as [C M]. split; [|exact M].
    unfold BInv. rewrite m_begin_text_toks, C, M, vis_cons_t.
    split; [|split; [simpl; auto| apply in_text_false_no_bt; auto]].
    destruct (bt_toks_cases (toks s)) as [(t & E1 & E2)|[E1 E2]]; rewrite E1 in *.
    + rewrite E2. simpl in H1. destruct (tscan_rev t) as [x|]; [|discriminate].
      simpl in H1. destruct x as [|[] x']; try discriminate. inversion H1. reflexivity.
    + simpl. rewrite H1. simpl. rewrite in_text_vis, T by auto. reflexivity.
  - (* EndText *)
    destruct b as [|[] r]; try discriminate. inversion W; subst b'; clear W.
    simpl. eexists. split; [reflexivity|]. split; [|reflexivity]. unfold BInv. simpl.
    rewrite H1, vis_cons_t. simpl. split; [reflexivity|]. split; [simpl in H2; auto|]. eapply okb_tail; eauto.
  - (* SetColor *)
    inversion W; subst b'. simpl. eexists. split; [reflexivity|].
    pose proof (ext_set_color stroke c a isint s) as E. split; [eapply ext_BInv; eauto; repeat split; auto|].
    destruct E as (_ & _ & _ & _ & M). exact M.
  - (* SetAlpha *)
    inversion W; subst b'. simpl. eexists. split; [reflexivity|].
    pose proof (ext_set_alpha a isint stroke fill s) as E. split; [eapply ext_BInv; eauto; repeat split; auto|].
    destruct E as (_ & _ & _ & _ & M). exact M.
  - (* SetFont *)
    inversion W; subst b'. simpl. eexists. split; [reflexivity|].
    pose proof (ext_set_font f s) as E. split; [eapply ext_BInv; eauto; repeat split; auto|].
    destruct E as (_ & _ & _ & _ & M). exact M.
  - (* SetState *)
    inversion W; subst b'. simpl. eexists. split; [reflexivity|].
    pose proof (ext_set_state (ca, CA) s) as E. split; [eapply ext_BInv; eauto; repeat split; auto|].
    destruct E as (_ & _ & _ & _ & M). exact M.
  - (* PatternColor *)
    inversion W; subst b'. simpl. eexists. split; [reflexivity|]. split; [|reflexivity].
    apply (ext_BInv b s); [|repeat split; auto].
    exists [Tpat stroke p; Tcs stroke PATTERN_SPACE]. simpl. auto.
  - (* Transform *)
    destruct (in_text b) eqn:T; [discriminate|]. inversion W; subst b'; clear W.
    simpl. unfold m_transform. destruct (ctms s) as [|top r] eqn:C; [simpl in H2; discriminate|].
    eexists. split; [reflexivity|]. split; [|reflexivity]. unfold BInv. simpl.
    rewrite H1. simpl. rewrite in_text_vis, T by auto. repeat split; auto.
  - (* TextMatrix *)
    destruct (in_text b) eqn:T; [|discriminate]. inversion W; subst b'; clear W.
    simpl. eexists. split; [reflexivity|]. split; [|reflexivity]. unfold BInv. simpl.
    rewrite H1. simpl. rewrite in_text_vis, T by auto. repeat split; auto.
  - (* BeginMC *)
    destruct (in_text b) eqn:T; [discriminate|]. inversion W; subst b'; clear W.
    simpl. eexists. split; [reflexivity|]. unfold m_begin_mc.
    destruct (markon s) eqn:M.
    + assert (TV : in_text (vis true b) = false) by (rewrite in_text_vis; auto).
      destruct mcid; (split; [|simpl; auto]); unfold BInv; simpl; rewrite H1, M; simpl; simpl in TV; rewrite TV;
        (split; [reflexivity|]); (split; [auto|apply in_text_false_no_bt; auto]).
    + split; [|auto]. unfold BInv. rewrite M, vis_cons_m.
      repeat split; auto. apply in_text_false_no_bt; auto.
  - (* EndMC *)
    destruct b as [|[] r]; try discriminate. inversion W; subst b'; clear W.
    simpl. eexists. split; [reflexivity|]. unfold m_end_mc.
    destruct (markon s) eqn:M.
    + split; [|simpl; auto]. unfold BInv. simpl. rewrite H1, M. simpl.
      split; [reflexivity|]. split; [simpl in H2; auto| eapply okb_tail; eauto].
    + split; [|auto]. unfold BInv. rewrite M. rewrite vis_cons_m in H1.
      split; [exact H1|]. split; [simpl in H2; auto| eapply okb_tail; eauto].
  - (* Tok *)
    inversion W; subst b'. simpl. eexists. split; [reflexivity|]. split; [|reflexivity].
    apply (ext_BInv b s); [|repeat split; auto]. exists [Tother k]. simpl. auto.
  - (* ExtState *)
    inversion W; subst b'. simpl. eexists. split; [reflexivity|]. split; [|reflexivity].
    apply (ext_BInv b s); [|repeat split; auto]. exists []. simpl. auto.
  - (* ExtAlpha *)
    inversion W; subst b'. simpl. eexists. split; [reflexivity|]. split; [|reflexivity].
    apply (ext_BInv b s); [|repeat split; auto]. exists []. simpl. auto.
  - (* Rollback: not a call of a well-bracketed sequence (see C16_rollback.v) *)
    discriminate.
Qed.

Lemma run_BInv ops : forall b b' s,
  BInv b s -> wscan b ops = Some b' -> exists s', run ops s = Some s' /\ BInv b' s' /\ markon s' = markon s.
Proof.
  induction ops as [|o r IH]; simpl; intros b b' s HI W.
  - inversion W; subst. eauto.
  - destruct (wstep o b) as [b1|] eqn:E; [|discriminate].
    destruct (step_BInv o b b1 s HI E) as (s1 & E1 & I1 & M1).
    rewrite E1. destruct (IH b1 b' s1 I1 W) as (s' & R & I' & M'). exists s'. split; [exact R|]. split; [exact I'|]. congruence.
Qed.

Lemma BInv_fresh mark d : BInv [] (fresh mark d).
Proof. unfold BInv, fresh. simpl. destruct mark; auto. Qed.

Lemma wscan_app b l1 l2 : wscan b (l1 ++ l2) = match wscan b l1 with Some b' => wscan b' l2 | None => None end.
Proof. revert b. induction l1 as [|o l1 IH]; simpl; intro b; auto. destruct (wstep o b); auto. Qed.

(* ------------------------------------------------------------------- nested => Dyck in each bracket kind *)
Definition opens (k : bk) (t : tok) : bool :=
  match k with Bq => is_q t | Bt => is_BT t | Bm => is_BMC t end.
Definition closes (k : bk) (t : tok) : bool :=
  match k with Bq => is_Q t | Bt => is_ET t | Bm => is_EMC t end.

Lemma dyck_step_open o c d t l : o t = true -> dyck o c d (t :: l) = dyck o c (d + 1) l.
Proof. intro H. simpl. rewrite H. reflexivity. Qed.
Lemma dyck_step_close o c d t l : o t = false -> c t = true -> dyck o c d (t :: l) = (1 <=? d) && dyck o c (d - 1) l.
Proof. intros H1 H2. simpl. rewrite H1, H2. reflexivity. Qed.
Lemma dyck_step_skip o c d t l : o t = false -> c t = false -> dyck o c d (t :: l) = dyck o c d l.
Proof. intros H1 H2. simpl. rewrite H1, H2. reflexivity. Qed.

Ltac dy_open IH :=
  rewrite dyck_step_open by reflexivity; cbn [countb bk_eqb] in IH; rewrite Nat2Z.inj_succ in IH;
  rewrite <- Z.add_1_r in IH; exact IH.
Ltac dy_close IH :=
  rewrite dyck_step_close by reflexivity; cbn [countb bk_eqb]; rewrite Nat2Z.inj_succ;
  match goal with |- (1 <=? Z.succ ?x) && _ = true =>
    replace (1 <=? Z.succ x) with true by (symmetry; apply Z.leb_le; lia);
    replace (Z.succ x - 1) with x by lia; exact IH end.
Ltac dy_skip IH := rewrite dyck_step_skip by reflexivity; cbn [countb bk_eqb] in IH |- *; exact IH.

Lemma tscan_dyck k l : forall b, tscan b l = Some [] -> dyck (opens k) (closes k) (Z.of_nat (countb k b)) l = true.
Proof.
  induction l as [|t l IH]; intros b H.
  - simpl in H. inversion H; subst. reflexivity.
  - simpl in H. destruct (tstep t b) as [b1|] eqn:E; [|discriminate]. specialize (IH b1 H).
    destruct t; simpl in E;
      try (inversion E; subst b1; destruct k; dy_skip IH).
    + (* Tq *) destruct (in_text b); [discriminate|]. inversion E; subst b1.
      destruct k; [dy_open IH|dy_skip IH|dy_skip IH].
    + (* TQ *) destruct b as [|[] b2]; try discriminate. inversion E; subst b1.
      destruct k; [dy_close IH|dy_skip IH|dy_skip IH].
    + (* TBT *) destruct (in_text b); [discriminate|]. inversion E; subst b1.
      destruct k; [dy_skip IH|dy_open IH|dy_skip IH].
    + (* TET *) destruct b as [|[] b2]; try discriminate. inversion E; subst b1.
      destruct k; [dy_skip IH|dy_close IH|dy_skip IH].
    + (* Tcm *) destruct (in_text b); [discriminate|]. inversion E; subst b1. destruct k; dy_skip IH.
    + (* Ttm *) destruct (in_text b); [|discriminate]. inversion E; subst b1. destruct k; dy_skip IH.
    + (* TBMC *) destruct (in_text b); [discriminate|]. inversion E; subst b1.
      destruct k; [dy_skip IH|dy_skip IH|dy_open IH].
    + (* TBDC *) destruct (in_text b); [discriminate|]. inversion E; subst b1.
      destruct k; [dy_skip IH|dy_skip IH|dy_open IH].
    + (* TEMC *) destruct b as [|[] b2]; try discriminate. inversion E; subst b1.
      destruct k; [dy_skip IH|dy_skip IH|dy_close IH].
Qed.

Lemma nested_dyck l : nested l = true -> dyck_q l = true /\ dyck_text l = true /\ dyck_mc l = true.
Proof.
  unfold nested. destruct (tscan [] l) as [[|x r]|] eqn:E; try discriminate. intros _.
  repeat split; [apply (tscan_dyck Bq l [] E)|apply (tscan_dyck Bt l [] E)|apply (tscan_dyck Bm l [] E)].
Qed.

(* ------------------------------------------------------------------------------------ main statements *)
Theorem balanced_calls_give_balanced_tokens mark d ops :
  wb ops = true ->
  exists s', run ops (fresh mark d) = Some s' /\
    nested (rev (toks s')) = true /\ dyck_q (rev (toks s')) = true /\ dyck_text (rev (toks s')) = true /\
    dyck_mc (rev (toks s')) = true /\ length (ctms s') = 1%nat.
Proof.
  unfold wb. destruct (wscan [] ops) as [[|x r]|] eqn:W; try discriminate. intros _.
  destruct (run_BInv ops [] [] (fresh mark d) (BInv_fresh mark d) W) as (s' & R & (H1 & H2 & _) & M).
  exists s'. split; [exact R|].
  assert (N : nested (rev (toks s')) = true).
  { unfold nested. rewrite tscan_rev_fwd, H1. destruct (markon s'); reflexivity. }
  destruct (nested_dyck _ N) as (A & B & C). repeat split; auto.
Qed.

(* at every moment of a well-bracketed sequence: no call raises, the ctm stack is not empty and has one entry
   per open q, and the tokens emitted so far never close more than they opened *)
Theorem ctm_stack_never_empty mark d ops ops1 ops2 :
  wb ops = true -> ops = ops1 ++ ops2 ->
  exists s1 b, run ops1 (fresh mark d) = Some s1 /\ wscan [] ops1 = Some b /\
    length (ctms s1) = S (countb Bq b) /\ tscan [] (rev (toks s1)) = Some (vis mark b).
Proof.
  unfold wb. intros W E. subst ops. rewrite wscan_app in W.
  destruct (wscan [] ops1) as [b|] eqn:W1; [|discriminate].
  destruct (run_BInv ops1 [] b (fresh mark d) (BInv_fresh mark d) W1) as (s1 & R & (H1 & H2 & _) & M).
  exists s1, b. repeat split; auto. rewrite tscan_rev_fwd, H1, M. reflexivity.
Qed.

Example balanced_example :
  let ops := [Push; Transform (1,0,0,-1,0,75); Push; Pop; BeginMC true; BeginText; TextMatrix mat_id; SetFont (0,0); Tok 8; EndText;
              BeginText; TextMatrix mat_id; SetFont (0,0); Tok 8; EndText; EndMC; Pop] in
  wb ops = true /\
  option_map (fun s => rev (toks s)) (run ops (fresh true [])) =
    Some [Tq; Tcm (1,0,0,-1,0,75); Ttag; Tprops 0; TBDC; TBT; Ttm mat_id; Tfont (0,0); Tother 8; Ttm mat_id; Tother 8; TET; TEMC; TQ].
Proof. split; reflexivity. Qed.
