(* C04 - the page-side slice of remake_page and the blank-page statements of make_page (weasyprint/layout/page.py) as
   REGENERATED from the source on every run (gen/GenPageSide.v):
     page_side    remake_page, from `if next_page['break'] in ('left', 'right'):` through `side = ...`
     blank_enter  make_page, first `if page_type.blank:` (the resume_at is remembered, the root box loses its children)
     blank_return make_page, last `if page_type.blank:` and the return statement
     page_next    remake_page, from `right_page = not right_page` to the end (the entry of the next page)
   page_side computes want_side / is_blank of model/Frag2.v (the page loop of the C01 / C03 / C04 theorems) for EVERY
   break value (any string), direction (any string) and parity; the only other way to a blank page is the page that
   holds reported footnotes after the end of the content (`context.reported_footnotes and resume_at is None`), which
   the model (no footnotes) does not have.  A blank page hands its resume_at and its next_page on, page_next flips
   the parity: the step of Frag2.paginate_loop on a blank page. *)
From Coq Require Import QArith List String Bool ZArith Lia.
Require Import WV.base.Py WV.base.PyLink WV.gen.GenPageSide WV.model.Frag2 WV.model.C04Spec.
Require WV.proofs.PyNatural.
Import ListNotations.
Open Scope string_scope.
Open Scope list_scope.
(* evaluation by simpl: a comparison with a symbolic string stays folded, numbers and primitives stay closed *)
Local Arguments String.eqb !s1 !s2 /.
Local Arguments prim_apply : simpl never.
Local Arguments Z.of_nat : simpl never.
Local Arguments inject_Z : simpl never.

(* ---------------------------------------------------------------- page_side *)
Definition side_wanted (s d : string) : option bool :=
  if String.eqb s "left" then Some false else if String.eqb s "right" then Some true
  else if String.eqb s "recto" then Some (String.eqb d "ltr")
  else if String.eqb s "verso" then Some (negb (String.eqb d "ltr")) else None.
Definition side_val (o : option bool) : val :=
  match o with Some true => VStr "right" | Some false => VStr "left" | None => VNone end.
Definition is_none (v : val) : bool := match v with VNone => true | _ => false end.
Definition nonempty (l : list val) : bool := match l with [] => false | _ => true end.
Definition blank_src (s d : string) (r : bool) (fn : list val) (ra : val) : bool :=
  match side_wanted s d with Some w => negb (Bool.eqb w r) | None => false end || (nonempty fn && is_none ra).

Section Side.
Variable O : qops.
Variables (nrest crest rrest srest : list (string * val)) (s d : string) (pg ra : val) (r : bool) (fn : list val).
Hypothesis Hra : forall m, ra <> VErr m.

Definition side_post (rho : env) (ret : option val) : Prop :=
  ret = None /\ lookup "next_page_side" rho = side_val (side_wanted s d) /\
  lookup "blank" rho = VBool (blank_src s d r fn ra) /\
  lookup "name" rho = (if blank_src s d r fn ra then VStr "" else pg) /\
  lookup "side" rho = VStr (if r then "right" else "left").

Lemma gen_page_side :
  run O page_side_body
    [("next_page", VObj (("break", VStr s) :: ("page", pg) :: nrest)); ("right_page", VBool r); ("resume_at", ra);
     ("context", VObj (("reported_footnotes", VList fn) :: crest));
     ("root_box", VObj (("style", VObj (("direction", VStr d) :: srest)) :: rrest))]
    side_post (fun _ => False).
Proof.
  unfold run, page_side_body, side_post, blank_src, side_wanted.
  simpl.
  repeat match goal with |- context [String.eqb ?a ?b] => destruct (String.eqb_spec a b); subst; simpl end.
  all: try congruence.
  all: destruct r, fn, ra; simpl; try (repeat split; reflexivity).
  all: try (exfalso; eapply Hra; reflexivity).
Qed.
End Side.

(* ---------------------------------------------------------------- blank_enter, blank_return, page_next *)
Lemma Qred_inject z : Qred (inject_Z z) = inject_Z z.
Proof.
  unfold Qred, inject_Z.
  pose proof (Z.ggcd_gcd z 1) as Hg. pose proof (Z.ggcd_correct_divisors z 1) as Hd.
  destruct (Z.ggcd z 1) as [g [aa bb]]. simpl in *.
  rewrite Z.gcd_1_r in Hg. subst g. destruct Hd as [Ha Hb].
  rewrite Z.mul_1_l in Ha, Hb. subst aa bb. reflexivity.
Qed.
Lemma as_int_eq q z : (q == inject_Z z)%Q -> as_int q = Some z.
Proof. intros E. unfold as_int. rewrite (Qred_complete _ _ E), Qred_inject. reflexivity. Qed.
Lemma prim_index_nth l q i :
  (q == inject_Z i)%Q -> (0 <= i < Z.of_nat (List.length l))%Z ->
  prim_apply PIndex [VList l; VNum q] = nth (Z.to_nat i) l (VErr "IndexError").
Proof.
  intros E Hi. unfold prim_apply. rewrite (as_int_eq q i E). cbv zeta.
  replace ((0 <=? i)%Z && (i <? Z.of_nat (List.length l))%Z) with true; [reflexivity|].
  symmetry. apply andb_true_iff. split; [apply Z.leb_le|apply Z.ltb_lt]; lia.
Qed.
Lemma Qle_bool_inject a b : Qle_bool (inject_Z a) (inject_Z b) = (a <=? b)%Z.
Proof. unfold Qle_bool, inject_Z. simpl. now rewrite !Z.mul_1_r. Qed.
Definition vnat (n : nat) : val := VNum (inject_Z (Z.of_nat n)).


(* make_page, blank page: returns *)
Lemma gen_blank_return_blank O (HO : ops_ok O) trest pra pm i page ra np e0 e1 erest :
  nth i pm (VErr "IndexError") = VList (e0 :: e1 :: erest) -> (i < List.length pm)%nat ->
  run O blank_return_body
    [("page_type", VObj (("blank", VBool true) :: trest)); ("previous_resume_at", pra); ("page_maker", VList pm);
     ("page_number", vnat (S i)); ("page", page); ("resume_at", ra); ("next_page", np)]
    (fun _ ret => ret = Some (VList [page; pra; e1])) (fun _ => False).
Proof.
  intros Hn Hi. unfold run, blank_return_body, vnat. simpl.
  rewrite (qsub_eq O HO).
  rewrite (prim_index_nth pm _ (Z.of_nat i)); [| |lia].
  - rewrite Nat2Z.id, Hn. simpl. reflexivity.
  - rewrite Nat2Z.inj_succ. unfold Z.succ. rewrite inject_Z_plus. ring.
Qed.
Lemma gen_blank_return_content O trest pra pm pn page ra np :
  run O blank_return_body
    [("page_type", VObj (("blank", VBool false) :: trest)); ("previous_resume_at", pra); ("page_maker", pm);
     ("page_number", pn); ("page", page); ("resume_at", ra); ("next_page", np)]
    (fun _ ret => ret = Some (VList [page; ra; np])) (fun _ => False).
Proof. unfold run, blank_return_body. simpl. reflexivity. Qed.

Lemma gen_blank_enter_blank O trest ra root cw :
  ocall O ".copy_with_children" [root; VList []] = cw -> (forall m, cw <> VErr m) -> (forall m, root <> VErr m) ->
  run O blank_enter_body
    [("page_type", VObj (("blank", VBool true) :: trest)); ("resume_at", ra); ("root_box", root)]
    (fun rho ret => ret = None /\ lookup "previous_resume_at" rho = ra /\ lookup "resume_at" rho = ra /\
                    lookup "root_box" rho = cw) (fun _ => False).
Proof.
  intros Hc Hcw Hroot. unfold run, blank_enter_body. simpl.
  destruct root; simpl; try (rewrite Hc; destruct cw; simpl; try (repeat split; reflexivity); exfalso; eapply Hcw; reflexivity).
  exfalso; eapply Hroot; reflexivity.
Qed.
Lemma gen_blank_enter_content O trest ra root :
  run O blank_enter_body
    [("page_type", VObj (("blank", VBool false) :: trest)); ("resume_at", ra); ("root_box", root)]
    (fun rho ret => ret = None /\ lookup "resume_at" rho = ra /\ lookup "root_box" rho = root) (fun _ => False).
Proof. unfold run, blank_enter_body. simpl. repeat split; reflexivity. Qed.

Definition fresh_state (ra : val) : val :=
  VObj [("content_changed", VBool (negb (is_none ra))); ("pages_wanted", VBool false); ("anchors", VList []);
        ("content_lookups", VList [])].


Lemma exec_block_step O A kret kerr s l rho rho' (k : env -> A) :
  (forall k', exec O A kret kerr s rho k' = k' rho') -> flowing rho' = false ->
  exec_block O A kret kerr (s :: l) rho k = exec_block O A kret kerr l rho' k.
Proof. intros Hs Hf. cbn [exec_block]. rewrite Hs, Hf. reflexivity. Qed.

Lemma new_page_test O (HO : ops_ok O) i n :
  (n <= S i)%nat ->
  qleb O (inject_Z (Z.of_nat n)) (qadd O (inject_Z (Z.of_nat i)) (1 # 1)) = true.
Proof.
  intros H. rewrite (qleb_eq O HO), (qadd_eq O HO). change (1 # 1) with (inject_Z 1).
  rewrite <- inject_Z_plus, Qle_bool_inject. apply Z.leb_le. lia.
Qed.

Section Next.
Variable O : qops.
Hypothesis HO : ops_ok O.
Variables (i : nat) (pm : list val) (r : bool) (ra np ps page : val).
Hypothesis Hlen : (List.length pm <= S i)%nat.
Hypothesis Hra : forall m, ra <> VErr m.
Variable A : Type.
Variables (kret : env -> val -> A) (kerr : string -> A).

Definition env1 (rp : bool) : env :=
  [("index", vnat i); ("page_maker", VList pm); ("right_page", VBool rp); ("resume_at", ra); ("next_page", np);
   ("page_state", ps); ("page", page)].
Definition item : val := VList [ra; np; VBool (negb r); ps; fresh_state ra].
Definition env3 : env :=
  [("index", vnat i); ("page_maker", VList (pm ++ [item])); ("right_page", VBool (negb r)); ("resume_at", ra);
   ("next_page", np); ("page_state", ps); ("page", page); ("page_maker_next_changed", VBool true);
   ("remake_state", fresh_state ra); ("item", item)].

Lemma step1 k' : exec O A kret kerr (nth 0 page_next_body SPass) (env1 r) k' = k' (env1 (negb r)).
Proof. reflexivity. Qed.
Lemma step2 k' : exec O A kret kerr (nth 1 page_next_body SPass) (env1 (negb r)) k' =
                 k' (env1 (negb r) ++ [("page_maker_next_changed", VBool true)]).
Proof.
  unfold env1, vnat. simpl. unfold prim_apply, vint. rewrite (new_page_test O HO i _ Hlen). reflexivity.
Qed.
Lemma step3 k' : exec O A kret kerr (nth 2 page_next_body SPass)
                   (env1 (negb r) ++ [("page_maker_next_changed", VBool true)]) k' = k' env3.
Proof.
  unfold env1, env3, item, fresh_state, vnat.
  destruct ra; try (exfalso; eapply Hra; reflexivity); simpl; unfold prim_apply, vint;
    rewrite (new_page_test O HO i _ Hlen); reflexivity.
Qed.
End Next.

Lemma gen_page_next_new O (HO : ops_ok O) i pm (r : bool) ra np ps page :
  (List.length pm <= S i)%nat -> (forall m, ra <> VErr m) ->
  run O page_next_body
    [("index", vnat i); ("page_maker", VList pm); ("right_page", VBool r); ("resume_at", ra); ("next_page", np);
     ("page_state", ps); ("page", page)]
    (fun rho ret => ret = Some (VList [page; ra]) /\
       lookup "page_maker" rho = VList (pm ++ [VList [ra; np; VBool (negb r); ps; fresh_state ra]]))
    (fun _ => False).
Proof.
  intros Hlen Hra. unfold run.
  change page_next_body with [nth 0 page_next_body SPass; nth 1 page_next_body SPass; nth 2 page_next_body SPass;
                              nth 3 page_next_body SPass].
  rewrite (exec_block_step O _ _ _ _ _ _ _ _ (step1 O i pm r ra np ps page _ _ _) eq_refl).
  rewrite (exec_block_step O _ _ _ _ _ _ _ _ (step2 O HO i pm r ra np ps page Hlen _ _ _) eq_refl).
  rewrite (exec_block_step O _ _ _ _ _ _ _ _ (step3 O HO i pm r ra np ps page Hlen Hra _ _ _) eq_refl).
  simpl. split; reflexivity.
Qed.

(* ---------------------------------------------------------------- the hand model (Frag2) and the C04 clauses *)
(* the break value as the page loop of the model holds it: None = no forced break recorded ('any') *)
Definition np_str (np : option brk) : string := match np with Some b => bname b | None => "any" end.
(* ... and any string read back: the ten CSS values, anything else (also 'any') is no recorded break *)
Definition np_of (s : string) : option brk :=
  if String.eqb s "left" then Some BLeft else if String.eqb s "right" then Some BRight
  else if String.eqb s "recto" then Some BRecto else if String.eqb s "verso" then Some BVerso
  else if String.eqb s "page" then Some BPage else if String.eqb s "column" then Some BColumn
  else if String.eqb s "auto" then Some BAuto else if String.eqb s "avoid" then Some BAvoid
  else if String.eqb s "avoid-page" then Some BAvoidPage else if String.eqb s "avoid-column" then Some BAvoidColumn
  else None.
Lemma np_of_str np : np_of (np_str np) = match np with Some b => Some b | None => None end.
Proof. destruct np as [[]|]; reflexivity. Qed.
Definition ltr_of (d : string) : bool := String.eqb d "ltr".

Lemma side_wanted_np_of s d : side_wanted s d = want_side (ltr_of d) (np_of s).
Proof.
  unfold side_wanted, np_of, want_side, ltr_of.
  repeat match goal with |- context [String.eqb s ?c] => destruct (String.eqb s c) end; reflexivity.
Qed.
Lemma side_wanted_model d np : side_wanted (np_str np) d = want_side (ltr_of d) np.
Proof. destruct np as [[]|]; reflexivity. Qed.
Lemma blank_src_np_of s d r fn ra :
  blank_src s d r fn ra = is_blank (ltr_of d) (np_of s) r || (nonempty fn && is_none ra).
Proof. unfold blank_src, is_blank. now rewrite side_wanted_np_of. Qed.
Lemma blank_src_model d np r fn ra :
  blank_src (np_str np) d r fn ra = is_blank (ltr_of d) np r || (nonempty fn && is_none ra).
Proof. unfold blank_src, is_blank. now rewrite side_wanted_model. Qed.

(* the entry of a page in the page_maker, as the slice reads it *)
Definition entry_env (s d : string) (pg ra : val) (r : bool) (fn : list val)
           (nrest crest rrest srest : list (string * val)) : env :=
  [("next_page", VObj (("break", VStr s) :: ("page", pg) :: nrest)); ("right_page", VBool r); ("resume_at", ra);
   ("context", VObj (("reported_footnotes", VList fn) :: crest));
   ("root_box", VObj (("style", VObj (("direction", VStr d) :: srest)) :: rrest))].

(* page_side = want_side / is_blank of the model, for every string *)
Theorem gen_page_side_is_model O nrest crest rrest srest s d pg ra r fn :
  (forall m, ra <> VErr m) ->
  run O page_side_body (entry_env s d pg ra r fn nrest crest rrest srest)
    (fun rho ret =>
       let blank := is_blank (ltr_of d) (np_of s) r || (nonempty fn && is_none ra) in
       ret = None /\ lookup "next_page_side" rho = side_val (want_side (ltr_of d) (np_of s)) /\
       lookup "blank" rho = VBool blank /\ lookup "name" rho = (if blank then VStr "" else pg) /\
       lookup "side" rho = VStr (if r then "right" else "left"))
    (fun _ => False).
Proof.
  intros Hra. pose proof (gen_page_side O nrest crest rrest srest s d pg ra r fn Hra) as H.
  unfold side_post in H. rewrite blank_src_np_of, side_wanted_np_of in H. exact H.
Qed.
(* ... in particular for the values the model's loop holds *)
Theorem gen_page_side_model_values O nrest crest rrest srest np d pg ra r fn :
  (forall m, ra <> VErr m) ->
  run O page_side_body (entry_env (np_str np) d pg ra r fn nrest crest rrest srest)
    (fun rho ret =>
       let blank := is_blank (ltr_of d) np r || (nonempty fn && is_none ra) in
       ret = None /\ lookup "next_page_side" rho = side_val (want_side (ltr_of d) np) /\
       lookup "blank" rho = VBool blank /\ lookup "name" rho = (if blank then VStr "" else pg) /\
       lookup "side" rho = VStr (if r then "right" else "left"))
    (fun _ => False).
Proof.
  intros Hra. pose proof (gen_page_side O nrest crest rrest srest (np_str np) d pg ra r fn Hra) as H.
  unfold side_post in H. rewrite blank_src_model, side_wanted_model in H. exact H.
Qed.

Lemma run_weaken O body rho (P P' : env -> option val -> Prop) :
  (forall r v, P r v -> P' r v) -> run O body rho P (fun _ => False) -> run O body rho P' (fun _ => False).
Proof.
  intros HP. rewrite !WV.proofs.PyNatural.run_natural.
  destruct (WV.proofs.PyNatural.run_out O body rho) as [rho' r|m]; [apply HP|exact (fun x => x)].
Qed.

Lemma is_blank_flip ltr np r w : want_side ltr np = Some w -> is_blank ltr np r = true ->
  is_blank ltr np (negb r) = false /\ negb r = w.
Proof. unfold is_blank. intros ->. destruct w, r; simpl; intros H; try discriminate H; split; reflexivity. Qed.
Lemma is_blank_no ltr np r w : want_side ltr np = Some w -> is_blank ltr np r = false -> r = w.
Proof. unfold is_blank. intros ->. destruct w, r; simpl; intros H; try discriminate H; reflexivity. Qed.

(* C04, forced side, on the source: when the recorded break names a side (no footnote page pending), either this page
   holds content and has that side, or it is blank and the page made from the entry a blank page leaves behind (same
   resume_at, same next_page, parity flipped: blank_page_hands_on below) holds content and has that side: at most one
   blank page in between *)
Theorem source_forced_side_honoured O nrest crest rrest srest s d pg ra r w :
  (forall m, ra <> VErr m) -> want_side (ltr_of d) (np_of s) = Some w ->
  run O page_side_body (entry_env s d pg ra r [] nrest crest rrest srest)
    (fun rho _ =>
       (lookup "blank" rho = VBool false /\ lookup "side" rho = side_val (Some w) /\ lookup "name" rho = pg) \/
       (lookup "blank" rho = VBool true /\
        run O page_side_body (entry_env s d pg ra (negb r) [] nrest crest rrest srest)
          (fun rho' _ => lookup "blank" rho' = VBool false /\ lookup "side" rho' = side_val (Some w) /\
                         lookup "name" rho' = pg)
          (fun _ => False)))
    (fun _ => False).
Proof.
  intros Hra Hw.
  eapply run_weaken; [|exact (gen_page_side_is_model O nrest crest rrest srest s d pg ra r [] Hra)].
  cbv zeta. simpl nonempty. rewrite !orb_false_r. intros rho ret (_ & _ & Hb & Hn & Hs).
  destruct (is_blank (ltr_of d) (np_of s) r) eqn:Eb.
  - right. split; [exact Hb|].
    destruct (is_blank_flip _ _ _ _ Hw Eb) as [Eb' Hr'].
    eapply run_weaken; [|exact (gen_page_side_is_model O nrest crest rrest srest s d pg ra (negb r) [] Hra)].
    cbv zeta. simpl nonempty. rewrite !orb_false_r, Eb'. intros rho' ret' (_ & _ & Hb' & Hn' & Hs').
    repeat split; [exact Hb'| |exact Hn']. rewrite Hs', Hr'. destruct w; reflexivity.
  - left. repeat split; [exact Hb| |exact Hn]. rewrite Hs, (is_blank_no _ _ _ _ Hw Eb). destruct w; reflexivity.
Qed.

(* a blank page is inserted only for a value that names a side, and then the parity is the wrong one (the page of
   reported footnotes after the end of the content aside) *)
Theorem source_blank_only_for_side O nrest crest rrest srest s d pg ra r fn :
  (forall m, ra <> VErr m) -> fn = [] \/ ra <> VNone ->
  run O page_side_body (entry_env s d pg ra r fn nrest crest rrest srest)
    (fun rho _ => lookup "blank" rho = VBool true ->
                  exists w, want_side (ltr_of d) (np_of s) = Some w /\ w <> r /\
                            (s = "left" \/ s = "right" \/ s = "recto" \/ s = "verso"))
    (fun _ => False).
Proof.
  intros Hra Hf.
  eapply run_weaken; [|exact (gen_page_side_is_model O nrest crest rrest srest s d pg ra r fn Hra)].
  cbv zeta. intros rho ret (_ & _ & Hb & _) Ht. rewrite Ht in Hb.
  assert (Hz : nonempty fn && is_none ra = false).
  { destruct Hf as [->|Hn]; [reflexivity|]. destruct ra; try (now destruct fn); now elim Hn. }
  rewrite Hz, orb_false_r in Hb. injection Hb as Hb. symmetry in Hb.
  unfold is_blank in Hb. rewrite <- side_wanted_np_of in *.
  destruct (side_wanted s d) as [w|] eqn:Ew; [|discriminate Hb].
  exists w. split; [reflexivity|]. split.
  - intros E. rewrite E, eqb_reflx in Hb. discriminate Hb.
  - unfold side_wanted in Ew.
    destruct (String.eqb_spec s "left"); [tauto|]. destruct (String.eqb_spec s "right"); [tauto|].
    destruct (String.eqb_spec s "recto"); [tauto|]. destruct (String.eqb_spec s "verso"); [tauto|discriminate Ew].
Qed.

(* what a blank page leaves behind: make_page remembers the resume_at it was given (blank_enter), returns it together
   with the next_page of its own page_maker entry (blank_return), and remake_page appends the entry of the next page
   with these two values and the parity flipped (page_next, first pass: the entry does not exist yet) *)
Theorem blank_page_hands_on O (HO : ops_ok O) trest root cw pm i page ra0 npv r ps st erest ra' np' :
  ocall O ".copy_with_children" [root; VList []] = cw -> (forall m, cw <> VErr m) -> (forall m, root <> VErr m) ->
  (forall m, ra0 <> VErr m) ->
  nth i pm (VErr "IndexError") = VList (ra0 :: npv :: VBool r :: ps :: st :: erest) -> List.length pm = S i ->
  run O blank_enter_body
    [("page_type", VObj (("blank", VBool true) :: trest)); ("resume_at", ra0); ("root_box", root)]
    (fun rho ret => ret = None /\ lookup "previous_resume_at" rho = ra0 /\ lookup "root_box" rho = cw) (fun _ => False) /\
  run O blank_return_body
    [("page_type", VObj (("blank", VBool true) :: trest)); ("previous_resume_at", ra0); ("page_maker", VList pm);
     ("page_number", vnat (S i)); ("page", page); ("resume_at", ra'); ("next_page", np')]
    (fun _ ret => ret = Some (VList [page; ra0; npv])) (fun _ => False) /\
  run O page_next_body
    [("index", vnat i); ("page_maker", VList pm); ("right_page", VBool r); ("resume_at", ra0); ("next_page", npv);
     ("page_state", ps); ("page", page)]
    (fun rho ret => ret = Some (VList [page; ra0]) /\
       lookup "page_maker" rho = VList (pm ++ [VList [ra0; npv; VBool (negb r); ps; fresh_state ra0]]))
    (fun _ => False).
Proof.
  intros Hc Hcw Hroot Hra Hn Hl. split; [|split].
  - eapply run_weaken; [|exact (gen_blank_enter_blank O trest ra0 root cw Hc Hcw Hroot)].
    intros rho ret (H1 & H2 & _ & H4). repeat split; assumption.
  - apply (gen_blank_return_blank O HO trest ra0 pm i page ra' np' ra0 npv _ Hn). lia.
  - apply (gen_page_next_new O HO i pm r ra0 npv ps page); [lia|exact Hra].
Qed.

(* the same step in the model's page loop: a blank page keeps resume and next_page and flips the parity *)
Lemma paginate_loop_blank_step fuel root H lh ltr i resume np right :
  is_blank ltr np right = true ->
  paginate_loop (S fuel) root H lh ltr i resume np right =
  pcons (SBlank, []) (paginate_loop fuel root H lh ltr (S i) resume np (negb right)).
Proof. intros Hb. cbn [paginate_loop]. rewrite Hb. reflexivity. Qed.

(* non-trivial instances: recto in a rtl document on a right page gives one blank page; a footnote page *)
Example page_side_example :
  run real_ops page_side_body (entry_env "recto" "rtl" (VStr "chapter") (VObj []) true [] [] [] [] [])
    (fun rho _ => lookup "blank" rho = VBool true /\ lookup "name" rho = VStr "" /\ lookup "side" rho = VStr "right")
    (fun _ => False).
Proof. simpl. repeat split; reflexivity. Qed.
Example page_side_footnote_example :
  run real_ops page_side_body (entry_env "any" "ltr" (VStr "") VNone true [VObj []] [] [] [] [])
    (fun rho _ => lookup "blank" rho = VBool true /\ lookup "next_page_side" rho = VNone) (fun _ => False).
Proof. simpl. repeat split; reflexivity. Qed.
