(* C15 - step 2 of CounterStyle.render_value (weasyprint/css/counters.py), the range test, as REGENERATED from the
   source on every run (gen/GenCounters.v: rv_range_body; slice option ('<from-to>', 'counter_ranges', 'initial')):
   the choice of the ranges (counter['range'] None or holding 'auto': the automatic range of the system, built from
   -inf / inf; else the tuple of (low, high) pairs), the loop `for min_range, max_range in counter_ranges: if
   min_range <= counter_value <= max_range: break` with its `else:` clause (printed with the flag "%brk", target
   option 'for_break'), which returns the call of the fallback style.
   The module-level name `inf` is an input: any number above the absolute value of the counter value; the infinite
   bounds of the descriptor are that number and its opposite.  For every such input the slice does what
   [check_ranges (ranges_of c sys) v] of model/C15Style.v says. *)
From Coq Require Import ZArith QArith List String Bool Lia Lqa.
Require Import WV.model.C15Style WV.model.C15Builtins WV.proofs.C15_gen_base WV.proofs.C15_gen_symbolic.
Require Import WV.proofs.C15_gen_additive.
Require Import WV.base.Py WV.gen.GenCounters.
Import ListNotations.
Open Scope string_scope.
Open Scope list_scope.

(* counter['range'] as the Python code holds it: None, or a tuple of 'auto' / (low, high); M stands for inf *)
Definition qbound (M : Q) (b : bound) : Q :=
  match b with BNegInf => Qopp M | BInt z => inject_Z z | BPosInf => M end.
Definition vritem (M : Q) (i : ritem) : val :=
  match i with RItemAuto => VStr "auto" | RItem lo hi => VList [VNum (qbound M lo); VNum (qbound M hi)] end.
Definition vrange (M : Q) (o : option (list ritem)) : val :=
  match o with Some l => VList (map (vritem M) l) | None => VNone end.
Definition mrange (o : option (list ritem)) : option crange :=
  match o with Some l => Some (RList l) | None => None end.

Section Bounds.
Variables (M : Q) (v : Z).
Hypothesis HM : (inject_Z (Z.abs v) < M)%Q.
Lemma HM_hi : (inject_Z v < M)%Q.
Proof. eapply Qle_lt_trans; [|exact HM]. rewrite <- Zle_Qle. lia. Qed.
Lemma HM_lo : (- M < inject_Z v)%Q.
Proof.
  assert (H : (inject_Z (- v) < M)%Q) by (eapply Qle_lt_trans; [|exact HM]; rewrite <- Zle_Qle; lia).
  rewrite inject_Z_opp in H. lra.
Qed.
Lemma qle_true a b : (a <= b)%Q -> Qle_bool a b = true.
Proof. apply Qle_bool_iff. Qed.
Lemma qle_false a b : (b < a)%Q -> Qle_bool a b = false.
Proof. intros H. destruct (Qle_bool a b) eqn:E; [|reflexivity]. apply Qle_bool_iff in E. lra. Qed.
Lemma bound_lo lo : Qle_bool (qbound M lo) (inject_Z v) = le_lo lo v.
Proof.
  pose proof HM_hi. pose proof HM_lo.
  destruct lo; cbn [qbound le_lo]; [apply qle_true; lra|apply Qle_bool_vint|apply qle_false; lra].
Qed.
Lemma bound_hi hi : Qle_bool (inject_Z v) (qbound M hi) = le_hi v hi.
Proof.
  pose proof HM_hi. pose proof HM_lo.
  destruct hi; cbn [qbound le_hi]; [apply qle_false; lra|apply Qle_bool_vint|apply qle_true; lra].
Qed.
Lemma bound_neginf : Qle_bool (0 - M) (inject_Z v) = true.
Proof. pose proof HM_lo. apply qle_true. lra. Qed.
End Bounds.

Definition rg_if : stmt := nth 0 rv_range_body SPass.
Definition rg_test : expr := match rg_if with SIf c _ _ => c | _ => EConst VNone end.
Definition rg_then : list stmt := match rg_if with SIf _ th _ => th | _ => [] end.
Definition rg_loop_body : list stmt := match nth 2 rv_range_body SPass with SFor _ _ b => b | _ => [] end.
Definition rg_last : stmt := nth 3 rv_range_body SPass.

Section Range.
Variable O : qops.
Hypothesis HO : ops_ok O.
Variables (sf : list (string * val)) (sy ad pd ng : val) (fb : option string) (rest : list (string * val)).
Variables (pl : list val) (M : Q) (v : Z).
Hypothesis HM : (inject_Z (Z.abs v) < M)%Q.
Notation self := (VObj sf).
Definition rcounter (orange : option (list ritem)) : val :=
  VObj (("symbols", sy) :: ("fallback", vfallback fb) :: ("additive_symbols", ad) :: ("pad", pd) ::
        ("negative", ng) :: ("range", vrange M orange) :: rest).

Ltac ev := lazy -[qadd qsub qmul qdiv qmax qmin qleb qeqb ocall wfuel prim_apply inject_Z Z.abs Z.leb Z.ltb negb
                  qbound Qminus List.map andb le_lo le_hi].
Ltac unseal :=
  rewrite ?(qadd_eq _ HO), ?(qsub_eq _ HO), ?(qmul_eq _ HO), ?(qdiv_eq _ HO), ?(qmax_eq _ HO), ?(qmin_eq _ HO),
          ?(qleb_eq _ HO), ?(qeqb_eq _ HO) in *.

Variable orange : option (list ritem).
Definition renv0 (sys : string) : env :=
  [("self", self); ("counter", rcounter orange); ("counter_value", vint v); ("system", VStr sys);
   ("previous_types", VList pl); ("inf", VNum M)].
Definition rfallback_name : string :=
  match fb with Some f => if String.eqb f "" then "decimal" else f | None => "decimal" end.
Definition rfb_args : list val := [self; vint v; VStr rfallback_name; VNone; VList pl].

(* ---- an explicit tuple of ranges *)
Inductive bphase := B0 | B1 (a b c : val).
Definition btail (ph : bphase) : env :=
  match ph with B0 => [] | B1 a b c => [("%item", a); ("min_range", b); ("max_range", c)] end.
Definition benv (sys : string) (cr : val) (brk : bool) (ph : bphase) : env :=
  renv0 sys ++ [("counter_ranges", cr); ("%brk", VBool brk)] ++ btail ph.

Section BStep.
Variables (A : Type) (kret : env -> val -> A) (kerr : string -> A) (sys : string) (cr : val).
Notation XB := (exec_block O A kret kerr).
Notation F := (fun it rho k' => exec_block O A kret kerr rg_loop_body (update "%item" it rho) k').

Lemma bstep k ph lo hi :
  exists a b c,
  XB rg_loop_body (update "%item" (vritem M (RItem lo hi)) (benv sys cr false ph)) k =
  k (benv sys cr (le_lo lo v && le_hi v hi) (B1 a b c)).
Proof.
  exists (vritem M (RItem lo hi)), (VNum (qbound M lo)), (VNum (qbound M hi)).
  destruct ph; ev; unseal; rewrite (bound_lo M v HM), (bound_hi M v HM); destruct (le_lo lo v), (le_hi v hi);
    reflexivity.
Qed.
Lemma bstep_brk k a b c item :
  XB rg_loop_body (update "%item" item (benv sys cr true (B1 a b c))) k = k (benv sys cr true (B1 item b c)).
Proof. reflexivity. Qed.

Lemma bloop_brk k : forall l a b c, exists a',
  gen_iter F l (benv sys cr true (B1 a b c)) k = k (benv sys cr true (B1 a' b c)).
Proof.
  induction l as [|it tl IH]; intros; [eexists; reflexivity|].
  destruct (IH it b c) as (a' & E2). exists a'. exact (eq_trans (bstep_brk _ a b c it) E2).
Qed.
Lemma bloop k : forall l ph,
  match check_ranges l v with
  | RgIn => exists a b c, gen_iter F (map (vritem M) l) (benv sys cr false ph) k = k (benv sys cr true (B1 a b c))
  | RgOut => exists ph', gen_iter F (map (vritem M) l) (benv sys cr false ph) k = k (benv sys cr false ph')
  | RgExc => True
  end.
Proof.
  induction l as [|[|lo hi] tl IH]; intros ph; [exists ph; reflexivity|exact I|].
  cbn [check_ranges map].
  destruct (bstep (fun rho' => gen_iter F (map (vritem M) tl) rho' k) ph lo hi) as (a & b & c & E).
  destruct (le_lo lo v && le_hi v hi).
  - destruct (bloop_brk k (map (vritem M) tl) a b c) as (a' & E2). exists a', b, c. exact (eq_trans E E2).
  - specialize (IH (B1 a b c)). destruct (check_ranges tl v); [| |exact I].
    + destruct IH as (a2 & b2 & c2 & E2). exists a2, b2, c2. exact (eq_trans E E2).
    + destruct IH as (ph' & E2). exists ph'. exact (eq_trans E E2).
Qed.

Lemma blast_in k a b c : exec O A kret kerr rg_last (benv sys cr true (B1 a b c)) k = k (benv sys cr true (B1 a b c)).
Proof. reflexivity. Qed.
Lemma blast_out k ph : exists rho',
  exec O A kret kerr rg_last (benv sys cr false ph) k =
  match ocall O ".render_value" rfb_args with VErr m => kerr m | x => kret rho' x end.
Proof.
  unfold rfb_args, rfallback_name, benv, renv0, rcounter. destruct fb as [[|a f']|], ph; eexists; ev; reflexivity.
Qed.
End BStep.

(* ---- the test of the first statement *)
Lemma eval_or' A kerr rho a b (k : val -> A) :
  eval O A kerr rho (EOr a b) k =
  eval O A kerr rho a (fun va => bool_k O A kerr va (fun t => if t then k va else eval O A kerr rho b k)).
Proof. reflexivity. Qed.
Lemma rg_test_step A kerr (k : bool -> A) sys :
  eval O A kerr (renv0 sys) rg_test (fun vc => bool_k O A kerr vc k) =
  k (match orange with None => true | Some l => has_auto_item l end).
Proof.
  unfold renv0, rcounter. destruct orange as [l|]; [|reflexivity].
  cbn [vrange]. ev.
  induction l as [|[|lo hi] tl IH]; [reflexivity|reflexivity|]. exact IH.
Qed.

(* ---- the automatic range *)
Definition auto_lo (sys : string) : Q :=
  if String.eqb "alphabetic" sys || String.eqb "symbolic" sys then 1 # 1
  else if String.eqb sys "additive" then 0 # 1 else (0 - M)%Q.
Definition aenv1 (sys : string) (lo : Q) : env := renv0 sys ++ [("min_range", VNum lo); ("max_range", VNum M)].
Definition aenv (sys : string) (brk : bool) (it : list (string * val)) : env :=
  aenv1 sys (auto_lo sys) ++
  [("counter_ranges", VList [VList [VNum (auto_lo sys); VNum M]]); ("%brk", VBool brk)] ++ it.

Lemma eval_in2 A kerr rho a b s (k : val -> A) : Py.lookup "system" rho = VStr s ->
  eval O A kerr rho (EIn false (EVar "system") (ETuple [EConst (VStr a); EConst (VStr b)])) k =
  k (VBool (String.eqb a s || String.eqb b s)).
Proof.
  intros Hs. lazy -[String.eqb Py.lookup]. rewrite Hs. destruct (String.eqb a s), (String.eqb b s); reflexivity.
Qed.
Lemma eval_sys_eq A kerr rho a s (k : bool -> A) : Py.lookup "system" rho = VStr s ->
  eval O A kerr rho (ECmp (EVar "system") [(Eq, EConst (VStr a))]) (fun vc => bool_k O A kerr vc k) =
  k (String.eqb s a).
Proof. intros Hs. lazy -[String.eqb Py.lookup]. rewrite Hs. destruct (String.eqb s a); reflexivity. Qed.

Section AStmts.
Variables (A : Type) (kret : env -> val -> A) (kerr : string -> A) (sys : string).
Lemma t0_step k : exec O A kret kerr (nth 0 rg_then SPass) (renv0 sys) k = k (aenv1 sys (0 - M)%Q).
Proof. ev. unseal. reflexivity. Qed.
Lemma t1_step k : exec O A kret kerr (nth 1 rg_then SPass) (aenv1 sys (0 - M)%Q) k = k (aenv1 sys (auto_lo sys)).
Proof.
  change (nth 1 rg_then SPass) with
    (SIf (EIn false (EVar "system") (ETuple [EConst (VStr "alphabetic"); EConst (VStr "symbolic")]))
       [SAssign [TVar "min_range"] (EConst (VNum (1 # 1)))]
       [SIf (ECmp (EVar "system") [(Eq, EConst (VStr "additive"))])
          [SAssign [TVar "min_range"] (EConst (VNum (0 # 1)))] []]).
  rewrite exec_if, (eval_in2 _ _ _ _ _ sys) by reflexivity. unfold auto_lo. cbn [bool_k].
  destruct (String.eqb "alphabetic" sys || String.eqb "symbolic" sys); [reflexivity|].
  rewrite exec_block_cons, exec_if, (eval_sys_eq _ _ _ _ sys) by reflexivity.
  destruct (String.eqb sys "additive"); reflexivity.
Qed.
Lemma t2_step k : exec O A kret kerr (nth 2 rg_then SPass) (aenv1 sys (auto_lo sys)) k =
  k (aenv1 sys (auto_lo sys) ++ [("counter_ranges", VList [VList [VNum (auto_lo sys); VNum M]])]).
Proof. reflexivity. Qed.

Definition auto_in (sys : string) : bool :=
  match auto_range sys with RItem lo hi => le_lo lo v && le_hi v hi | RItemAuto => false end.
Lemma auto_lo_le : Qle_bool (auto_lo sys) (inject_Z v) = auto_in sys.
Proof.
  unfold auto_lo, auto_in, auto_range. rewrite !(String.eqb_sym sys "alphabetic"), !(String.eqb_sym sys "symbolic").
  destruct (String.eqb "alphabetic" sys || String.eqb "symbolic" sys).
  - cbn [le_lo le_hi]. rewrite andb_true_r. apply (Qle_bool_vint 1 v).
  - destruct (String.eqb sys "additive"); cbn [le_lo le_hi]; rewrite ?andb_true_r;
      [apply (Qle_bool_vint 0 v)|apply (bound_neginf M v HM)].
Qed.
Lemma aloop1 k :
  exec_block O A kret kerr rg_loop_body
    (update "%item" (VList [VNum (auto_lo sys); VNum M]) (aenv sys false [])) k =
  k (aenv sys (auto_in sys) [("%item", VList [VNum (auto_lo sys); VNum M])]).
Proof.
  pose proof (HM_hi M v HM) as Hhi.
  lazy -[qadd qsub qmul qdiv qmax qmin qleb qeqb ocall wfuel prim_apply inject_Z auto_lo auto_in]. unseal.
  rewrite auto_lo_le, (qle_true (inject_Z v) M) by lra. destruct (auto_in sys); reflexivity.
Qed.
Lemma alast_in k it : exec O A kret kerr rg_last (aenv sys true [("%item", it)]) k = k (aenv sys true [("%item", it)]).
Proof. reflexivity. Qed.
Lemma alast_out k it : exists rho',
  exec O A kret kerr rg_last (aenv sys false [("%item", it)]) k =
  match ocall O ".render_value" rfb_args with VErr m => kerr m | x => kret rho' x end.
Proof.
  unfold rfb_args, rfallback_name, aenv, aenv1, renv0, rcounter. destruct fb as [[|a f']|]; eexists;
    lazy -[qadd qsub qmul qdiv qmax qmin qleb qeqb ocall wfuel prim_apply inject_Z auto_lo]; reflexivity.
Qed.
End AStmts.

Definition rg_else : list stmt := match rg_if with SIf _ _ el => el | _ => [] end.
Lemma check_no_exc : forall l, has_auto_item l = false -> check_ranges l v <> RgExc.
Proof.
  induction l as [|[|lo hi] tl IH]; cbn [has_auto_item existsb check_ranges]; intros H; try discriminate.
  destruct (le_lo lo v && le_hi v hi); [discriminate|]. apply IH. exact H.
Qed.
Lemma check_auto sys : check_ranges [auto_range sys] v = if auto_in sys then RgIn else RgOut.
Proof.
  unfold auto_in, auto_range.
  destruct (String.eqb sys "alphabetic" || String.eqb sys "symbolic"); [reflexivity|].
  destruct (String.eqb sys "additive"); reflexivity.
Qed.

Definition range_post (sys : string) (rho : env) : Prop :=
  Py.lookup "counter_value" rho = vint v /\ Py.lookup "counter" rho = rcounter orange /\
  Py.lookup "system" rho = VStr sys /\ Py.lookup "self" rho = self /\ Py.lookup "previous_types" rho = VList pl.
Definition range_obs (fargs : list val) (rc : range_check) (sys : string) (rho : env) (r : option val) : Prop :=
  match rc with
  | RgIn => r = None /\ range_post sys rho
  | RgOut => r = Some (ocall O ".render_value" fargs)
  | RgExc => False
  end.
Definition range_err (fargs : list val) (rc : range_check) (m : string) : Prop :=
  match rc with RgOut => ocall O ".render_value" fargs = VErr m | _ => False end.

Lemma auto_path sys rc : rc = check_ranges [auto_range sys] v ->
  exec_block O Prop (fun rho x => range_obs rfb_args rc sys rho (Some x)) (range_err rfb_args rc) rg_then (renv0 sys)
    (fun rho' => if flowing rho' then range_obs rfb_args rc sys rho' None
                 else exec_block O Prop (fun rho x => range_obs rfb_args rc sys rho (Some x)) (range_err rfb_args rc)
                        (skipn 1 rv_range_body) rho' (fun rho => range_obs rfb_args rc sys rho None)).
Proof.
  intros Hrc. rewrite check_auto in Hrc.
  change rg_then with [nth 0 rg_then SPass; nth 1 rg_then SPass; nth 2 rg_then SPass].
  change (skipn 1 rv_range_body) with
    [nth 1 rv_range_body SPass; SFor "%item" (EVar "counter_ranges") rg_loop_body; rg_last].
  rewrite exec_block_cons, t0_step. change (flowing (aenv1 sys (0 - M)%Q)) with false. cbv iota.
  rewrite exec_block_cons, t1_step. change (flowing (aenv1 sys (auto_lo sys))) with false. cbv iota.
  rewrite exec_block_cons, t2_step.
  change (flowing (aenv1 sys (auto_lo sys) ++ [("counter_ranges", VList [VList [VNum (auto_lo sys); VNum M]])]))
    with false. cbv iota.
  rewrite exec_block_nil. cbv beta.
  change (flowing (aenv1 sys (auto_lo sys) ++ [("counter_ranges", VList [VList [VNum (auto_lo sys); VNum M]])]))
    with false. cbv iota.
  rewrite exec_block_cons.
  change (exec O Prop ?kr ?ke (nth 1 rv_range_body SPass)
            (aenv1 sys (auto_lo sys) ++ [("counter_ranges", VList [VList [VNum (auto_lo sys); VNum M]])]) ?k0)
    with (k0 (aenv sys false [])). cbv beta.
  change (flowing (aenv sys false [])) with false. cbv iota.
  rewrite exec_block_cons, (exec_for O), (eval_var O).
  change (Py.lookup "counter_ranges" (aenv sys false [])) with (VList [VList [VNum (auto_lo sys); VNum M]]).
  cbv iota. rewrite gen_iter_cons. cbv beta. rewrite aloop1. cbn [gen_iter].
  change (flowing (aenv sys (auto_in sys) [("%item", VList [VNum (auto_lo sys); VNum M])])) with false. cbv iota.
  change (exec_block O Prop ?kr ?ke [rg_last] ?rho ?k0) with
    (exec O Prop kr ke rg_last rho (fun rho' => if flowing rho' then k0 rho' else k0 rho')).
  destruct (auto_in sys); subst rc.
  - rewrite alast_in. cbn [range_obs]. split; [reflexivity|]. repeat split.
  - match goal with |- exec O Prop ?kr ?ke _ _ ?k0 =>
      destruct (alast_out Prop kr ke sys k0 (VList [VNum (auto_lo sys); VNum M])) as (rho' & E) end.
    rewrite E. cbn [range_obs range_err]. destruct (ocall O ".render_value" _) eqn:E1; try reflexivity.
Qed.

Theorem gen_range (c : cstyle) (sys : string) :
  c_range c = mrange orange -> c_fallback c = fb -> fb <> Some "" ->
  run O rv_range_body (renv0 sys)
    (range_obs (rv_args self v (fallback_of c) (VList pl)) (check_ranges (ranges_of c sys) v) sys)
    (range_err (rv_args self v (fallback_of c) (VList pl)) (check_ranges (ranges_of c sys) v)).
Proof.
  intros Hc Hfb Hne.
  assert (Hname : rv_args self v (fallback_of c) (VList pl) = rfb_args).
  { unfold rv_args, rfb_args, fallback_of, rfallback_name, orelse. rewrite Hfb. destruct fb as [f|]; [|reflexivity].
    destruct (String.eqb_spec f ""); [subst; congruence|reflexivity]. }
  rewrite Hname. clear Hname. unfold run, ranges_of. rewrite Hc.
  change rv_range_body with (SIf rg_test rg_then rg_else :: skipn 1 rv_range_body).
  rewrite exec_block_cons, exec_if, rg_test_step.
  destruct orange as [l|] eqn:Ho; cbn [mrange].
  2: { apply auto_path. reflexivity. }
  destruct (has_auto_item l) eqn:Hauto.
  { apply auto_path. reflexivity. }
  (* an explicit tuple of ranges *)
  change rg_else with [nth 0 rg_else SPass].
  rewrite exec_block_cons.
  change (exec O Prop ?kr ?ke (nth 0 rg_else SPass) (renv0 sys) ?k0) with
    (k0 (renv0 sys ++ [("counter_ranges", vrange M orange)])). cbv beta.
  change (flowing (renv0 sys ++ [("counter_ranges", vrange M orange)])) with false. cbv iota.
  rewrite exec_block_nil. cbv beta.
  change (flowing (renv0 sys ++ [("counter_ranges", vrange M orange)])) with false. cbv iota.
  change (skipn 1 rv_range_body) with
    [nth 1 rv_range_body SPass; SFor "%item" (EVar "counter_ranges") rg_loop_body; rg_last].
  set (cr := vrange M orange).
  rewrite exec_block_cons.
  change (exec O Prop ?kr ?ke (nth 1 rv_range_body SPass) (renv0 sys ++ [("counter_ranges", cr)]) ?k0)
    with (k0 (benv sys cr false B0)). cbv beta.
  change (flowing (benv sys cr false B0)) with false. cbv iota.
  rewrite exec_block_cons, (exec_for O), (eval_var O).
  change (Py.lookup "counter_ranges" (benv sys cr false B0)) with cr.
  assert (Hcr : cr = VList (map (vritem M) l)) by (unfold cr; rewrite Ho; reflexivity).
  rewrite Hcr. clear Hcr cr. set (cr := VList (map (vritem M) l)). cbv iota.
  match goal with |- gen_iter (fun _ _ _ => exec_block O Prop ?kr ?ke _ _ _) _ _ ?k0 =>
    pose proof (bloop Prop kr ke sys cr k0 l B0) as HL end.
  pose proof (check_no_exc l Hauto) as Hne2.
  destruct (check_ranges l v); [| |congruence].
  - destruct HL as (a & b & c0 & E). refine (eq_ind_r (fun X : Prop => X) _ E). clear E. cbv beta.
    change (flowing (benv sys cr true (B1 a b c0))) with false. cbv iota.
    change (exec_block O Prop ?kr ?ke [rg_last] ?rho ?k0) with
      (exec O Prop kr ke rg_last rho (fun rho' => if flowing rho' then k0 rho' else k0 rho')).
    rewrite blast_in. cbn [range_obs]. split; [reflexivity|]. repeat split.
  - destruct HL as (ph' & E). refine (eq_ind_r (fun X : Prop => X) _ E). clear E. cbv beta.
    replace (flowing (benv sys cr false ph')) with false by (destruct ph'; reflexivity).
    change (exec_block O Prop ?kr ?ke [rg_last] ?rho ?k0) with
      (exec O Prop kr ke rg_last rho (fun rho' => if flowing rho' then k0 rho' else k0 rho')).
    match goal with |- exec O Prop ?kr ?ke _ _ ?k0 =>
      destruct (blast_out Prop kr ke sys cr k0 ph') as (rho' & E) end.
    rewrite E. cbn [range_obs range_err]. destruct (ocall O ".render_value" _) eqn:E1; try reflexivity.
Qed.

Lemma ranges_of_never_raises c sys : check_ranges (ranges_of c sys) v <> RgExc.
Proof.
  unfold ranges_of. destruct (c_range c) as [[|l]|]; try (rewrite check_auto; destruct (auto_in sys); discriminate).
  destruct (has_auto_item l) eqn:H; [rewrite check_auto; destruct (auto_in sys); discriminate|].
  apply check_no_exc. exact H.
Qed.
End Range.
Print Assumptions gen_range.
